#!/usr/bin/env python3
"""Confirm seeded defects delivered by independent sub-agents and run the checks against them.
Usage: tools/seedcheck.py <PROP> <worktree> [checks...]   (delivered under <worktree>/out/<k>/)
For each k: demo passes on the clean worktree; patch applies, builds, existing tests pass,
demo fails; then the quick tier (and, if missed, the thorough tier) of the checks runs with
VERIF_REPO=<worktree>; the worktree is reverted; artefacts are kept in /verif/seeded/<PROP>-<k>/."""
import json, os, re, shutil, subprocess, sys, glob, time
V = os.path.dirname(os.path.dirname(os.path.abspath(__file__)))
prop, wt = sys.argv[1], sys.argv[2]
checks = sys.argv[3:] or [prop]
ENV = dict(os.environ, GOFLAGS="-mod=mod", GOPROXY="off", GOSUMDB="off", GOTOOLCHAIN="local")
PKGDIR = {"seed2": "", "table": "fw/table", "fw": "fw/fw", "face": "fw/face", "mgmt": "fw/mgmt", "encoding": "std/encoding", "encoding_test": "std/encoding",
          "basic": "std/engine/basic", "object": "std/object", "dv": "dv/dv", "table_dv": "dv/table", "spec_2022": "std/ndn/spec_2022", "codegen": "std/encoding/codegen", "security": "std/security", "mgmt_2022": "std/ndn/mgmt_2022", "dispatch": "fw/dispatch", "gen_basic": "std/encoding/tests/gen_basic", "basic_test": "std/engine/basic"}
def sh(cmd, **k):
    return subprocess.run(cmd, shell=True, capture_output=True, text=True, env=k.pop("env", ENV), **k)
TAGS = ""
def demo(wt, files):
    ok = True; out = ""
    for f, d in files:
        shutil.copy(f, os.path.join(wt, d, "zz_seed_demo_test.go"))
        r = sh("go test %s -vet=off -count=1 ./%s/ 2>&1 | tail -15" % (TAGS, d), cwd=wt)
        os.remove(os.path.join(wt, d, "zz_seed_demo_test.go"))
        passed = ("ok  \t" in r.stdout) and ("FAIL" not in r.stdout)
        ok = ok and passed; out += r.stdout[-600:]
    return ok, out
for kd in sorted(glob.glob(os.path.join(wt, "out", "*"))):
    k = os.path.basename(kd)
    if not os.path.isdir(kd) or not os.path.exists(os.path.join(kd, "meta.json")):
        continue
    meta = json.load(open(os.path.join(kd, "meta.json")))
    tests = [f for f in glob.glob(os.path.join(kd, "*_test.go"))]
    files = []
    for f in tests:
        pk = re.search(r"^package (\w+)", open(f).read(), re.M).group(1)
        d = PKGDIR.get(pk)
        md = re.search(r"((?:fw|std|dv)/[\w/]+?)/?(?:\s|$|`|\")", meta.get("demo", ""))
        if md and os.path.isdir(os.path.join(wt, md.group(1))) and md.group(1).split("/")[-1] in (pk, d.split("/")[-1] if d else ""):
            d = md.group(1)
        if meta.get("demo_dir") and os.path.isdir(os.path.join(wt, meta["demo_dir"].strip("/"))):
            d = meta["demo_dir"].strip("/")
        files.append((f, d))
    # flags only if they are part of the demonstration's go test command itself (not of a remark such
    # as "no -race needed" after it)
    gocmd = " ".join(re.findall(r"go test([^;&|\n(]*)", meta.get("demo", "")))
    TAGS = "-tags verif" if "-tags verif" in gocmd else ""
    if "-race" in gocmd:
        TAGS += " -race"
    res = {"property": prop, "seed": k, "summary": meta.get("summary"), "needs": meta.get("needs"), "files": meta.get("files")}
    assert sh("git status --porcelain --untracked-files=no", cwd=wt).stdout.strip() == "", "worktree dirty"
    base_ok, _ = demo(wt, files)
    ap = sh("git apply %s" % os.path.join(kd, "patch.diff"), cwd=wt)
    b = sh("go build ./... && go vet ./fw/... 2>&1 | tail -3", cwd=wt)
    t = sh("go test -vet=off -count=1 ./fw/... ./std/... ./dv/... 2>&1 | grep -v 'no test files' | grep -v '^ok' | head", cwd=wt)
    mut_ok, mout = demo(wt, files)
    res["confirmed"] = {"demo_passes_unchanged": base_ok, "patch_applies": ap.returncode == 0, "builds": b.returncode == 0,
                        "existing_tests_pass": t.stdout.strip() == "", "demo_fails_with_change": not mut_ok}
    good = base_ok and ap.returncode == 0 and b.returncode == 0 and t.stdout.strip() == "" and not mut_ok
    res["checks"] = {}
    if good:
        for c in checks:
            for tier in os.environ.get("SEED_TIERS", "quick,thorough").split(","):
                t0 = time.time()
                r = sh("%s/check %s --tier %s" % (V, c, tier), cwd=V, env=dict(os.environ, VERIF_REPO=wt))
                verdict = {0: "MISSED", 1: "caught", 2: "inconclusive"}.get(r.returncode, "rc%d" % r.returncode)
                line = [l.strip() for l in r.stdout.splitlines() if "evid.go" in l or "fails again" in l or "INCONCLUSIVE" in l][:1]
                res["checks"]["%s/%s" % (c, tier)] = {"verdict": verdict, "wall_s": round(time.time() - t0), "first_report": (line[0][:300] if line else "")}
                if verdict != "MISSED":
                    break
    sh("git checkout -- .", cwd=wt)
    tag = os.environ.get("SEED_TAG", "")
    dst = os.path.join(V, "seeded", "%s-%s%s" % (prop, tag, k))
    os.makedirs(dst, exist_ok=True)
    for f in glob.glob(os.path.join(kd, "*")):
        shutil.copy(f, dst)
    res["kept"] = good
    json.dump(res, open(os.path.join(dst, "result.json"), "w"), indent=1)
    print(prop, k, "confirmed" if good else "NOT-CONFIRMED %s" % res["confirmed"], {c: v["verdict"] for c, v in res["checks"].items()}, "|", (meta.get("summary") or "")[:90])
