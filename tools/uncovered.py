#!/usr/bin/env python3
"""tools/uncovered.py <repo-relative file> [PROP ...] : source lines of blocks no unit executed (after tools/coverage.py)."""
import sys, glob, os, re
V = os.path.dirname(os.path.dirname(os.path.abspath(__file__)))
rel = sys.argv[1]; props = sys.argv[2:]
blocks = {}
for f in glob.glob(os.path.join(V, ".build", "cover", "C*-*.out")):
    if props and os.path.basename(f).split("-")[0] not in props: continue
    for line in open(f):
        m = re.match(r"github.com/named-data/ndnd/(.*):(\d+)\.\d+,(\d+)\.\d+ (\d+) (\d+)$", line.strip())
        if m and m.group(1) == rel:
            k = (int(m.group(2)), int(m.group(3)))
            blocks[k] = blocks.get(k, 0) + int(m.group(5))
src = open(os.path.join("/repo", rel)).read().split("\n")
for (a, b), c in sorted(blocks.items()):
    if c == 0:
        print("---- %d-%d" % (a, b))
        for i in range(a, min(b, a + 12) + 1):
            print("%5d  %s" % (i, src[i - 1]))
