#!/usr/bin/env python3
"""Regenerates /verif/MANIFEST.json from checks.json (units, tiers) and manifest_meta.json
(level text, notes, technique per property). Properties without a check are listed under
not_applicable with the reason given in manifest_meta.json["not_claimed"]."""
import json, os, subprocess
V = os.path.dirname(os.path.dirname(os.path.abspath(__file__)))
import importlib.machinery, importlib.util
_l = importlib.machinery.SourceFileLoader("checkdrv", os.path.join(V, "check"))
_s = importlib.util.spec_from_loader("checkdrv", _l)
_m = importlib.util.module_from_spec(_s); _l.exec_module(_m)
checks = _m.load_cfg()
meta = json.load(open(os.path.join(V, "manifest_meta.json")))
H = os.path.join(V, "harness")
for pkg in sorted(os.listdir(H)):
    fp = os.path.join(H, pkg, "manifest_meta.json")
    if os.path.isfile(fp):
        fr = json.load(open(fp))
        for k, v in fr.get("claimed", {}).items():
            meta["claimed"].setdefault(k, v)
props = [json.loads(l) for l in open(os.path.join(V, "properties.jsonl"))]
hooks = subprocess.run(["git", "-C", "/repo", "log", "--format=%H %s", "--grep=^verif hook"],
                       capture_output=True, text=True).stdout.strip().splitlines()
m = {
 "version": 1,
 "setup_cmd": "./check --build",
 "hooks": {
  "guard": "verif",
  "enable": "go build tag: every check builds its test binary with `go1.26.8 test -c -tags verif` through `replace github.com/named-data/ndnd => /repo` (harness/go.mod), so the current working tree of /repo is compiled on every invocation",
  "baseline_off_cmd": "cd /repo && GOFLAGS=-mod=mod GOPROXY=off GOSUMDB=off go test -vet=off -count=1 -timeout 25m ./...",
  "source_commits": [h.split()[0] for h in reversed(hooks)],
  "add_only": True,
 },
 "engines": [
  {"name": "rapid-harness", "path": "harness/", "serves_properties": sorted(checks),
   "kind_free_text": "Go test binaries (go1.26.8, pgregory.net/rapid v1.3.0; testing/synctest virtual time; native go fuzzing for byte-level targets) driven by ./check, which shards, seeds, collects replay files and writes evidence"},
 ],
 "checks": [],
 "notes": meta.get("notes", ""),
 "not_applicable": [],
}
for p in props:
    pid = p["id"]
    if pid in checks and pid in meta["claimed"] and pid in meta.get("integrated", []):
        mm = dict(meta["claimed"][pid])
        if pid in meta.get("addenda", {}):
            mm["text"] = mm["text"].rstrip() + " " + meta["addenda"][pid]
        m["checks"].append({
            "property_id": pid,
            "quick_cmd": "./check %s --tier quick" % pid,
            "thorough_cmd": "./check %s --tier thorough" % pid,
            "evidence_file": "evidence/%s.json" % pid,
            "replay_cmd_template": "./check %s --replay {path}" % pid,
            "engine": "rapid-harness",
            "level_claimed": {"category": checks[pid].get("level", "exploration"), "text": mm["text"], "design_ref": mm.get("design_ref", "DESIGN.md section 2, " + pid)},
            "level_note": mm["note"],
            "technique": mm["technique"],
        })
    else:
        m["not_applicable"].append({"property_id": pid, "reason": meta.get("not_claimed", {}).get(pid, "no check registered yet: the harness for this property is still being built (see DESIGN.md section 2 for the plan)")})
json.dump(m, open(os.path.join(V, "MANIFEST.json"), "w"), indent=1)
print("claimed:", [c["property_id"] for c in m["checks"]])
