#!/usr/bin/env python3
"""Merge harness/<pkg>/known_findings.fragment.json into known_findings.json, mapping each
commit of an agent branch to the cherry-picked commit on /repo main (matched by subject)."""
import json, os, subprocess, sys, glob
V = os.path.dirname(os.path.dirname(os.path.abspath(__file__)))
def git(*a): return subprocess.run(["git", "-C", "/repo"] + list(a), capture_output=True, text=True).stdout.strip()
main = {}
for l in git("log", "--format=%h\t%s", "main").splitlines():
    h, s = l.split("\t", 1); main.setdefault(s, h)
k = json.load(open(os.path.join(V, "known_findings.json")))
have = {(f["property"], f["id"]) for f in k["findings"]}
pkgs = sys.argv[1:]
for pkg in pkgs:
    fp = os.path.join(V, "harness", pkg, "known_findings.fragment.json")
    if not os.path.exists(fp): continue
    for f in json.load(open(fp))["findings"]:
        if (f["property"], f["id"]) in have: continue
        if f.get("status") == "fixed":
            subj = git("log", "-1", "--format=%s", f["commit"])
            h = main.get(subj)
            if not h:
                print("NOT ON MAIN:", f["id"], f["commit"], subj); continue
            f["what"] = f["what"].replace(f["commit"], h); f["commit"] = h
        k["findings"].append(f); have.add((f["property"], f["id"]))
        print("added", f["property"], f["id"], f.get("commit"))
    os.rename(fp, fp + ".merged")
json.dump(k, open(os.path.join(V, "known_findings.json"), "w"), indent=1)
