#!/usr/bin/env python3
"""Mutation-sensitivity runner. Usage: tools/mutants.py <mutants.json> [name-filter]
mutants.json: [{"name","file","old","new","checks":["C06",...], "count":1}]
Applies each mutant to a scratch worktree of /repo HEAD (/tmp/verif-mut), runs the quick
tier of the listed checks with VERIF_REPO pointing there, reports caught/missed, reverts."""
import json, os, subprocess, sys, time
V = os.path.dirname(os.path.dirname(os.path.abspath(__file__)))
WT = "/tmp/verif-mut"
def sh(*a, **k): return subprocess.run(a, capture_output=True, text=True, **k)
muts = json.load(open(sys.argv[1]))
flt = sys.argv[2] if len(sys.argv) > 2 else ""
sh("git", "-C", "/repo", "worktree", "remove", "--force", WT)
r = sh("git", "-C", "/repo", "worktree", "add", "--detach", WT, "HEAD")
assert r.returncode == 0, r.stderr
env = dict(os.environ, VERIF_REPO=WT)
results = []
try:
    for m in muts:
        if flt and flt not in m["name"]: continue
        p = os.path.join(WT, m["file"])
        src = open(p).read()
        n = src.count(m["old"])
        if n < 1 or (m.get("count") and n != m["count"]):
            print("SKIP %s: pattern occurs %d times" % (m["name"], n)); results.append((m["name"], "pattern-mismatch")); continue
        open(p, "w").write(src.replace(m["old"], m["new"]) if not m.get("first") else src.replace(m["old"], m["new"], 1))
        b = sh("go", "build", "./...", cwd=WT, env=dict(os.environ, GOFLAGS="-mod=mod", GOPROXY="off"))
        if b.returncode != 0:
            print("NOBUILD %s\n%s" % (m["name"], b.stderr[-500:])); results.append((m["name"], "does-not-build"))
        else:
            for cid in m["checks"]:
                t0 = time.time()
                r = sh(os.path.join(V, "check"), cid, "--tier", m.get("tier", "quick"), env=env, cwd=V)
                verdict = {0: "MISSED", 1: "caught", 2: "inconclusive"}.get(r.returncode, "rc%d" % r.returncode)
                line = [l for l in r.stdout.splitlines() if "evid.go" in l or "fails again" in l or "INCONCLUSIVE" in l][:1]
                print("%-9s %-45s %s (%.0fs) %s" % (verdict, m["name"], cid, time.time() - t0, line[0].strip()[:160] if line else ""))
                results.append((m["name"], cid, verdict))
        open(p, "w").write(src)
finally:
    sh("git", "-C", "/repo", "worktree", "remove", "--force", WT)
json.dump(results, open(os.path.join(V, ".build", "mutants-last.json"), "w"), indent=1)
