#!/usr/bin/env python3
"""Runs a property's check against 'legitimate variations' delivered by independent sub-agents
(changes that alter behaviour but keep the property true as stated): the check must stay silent.
Usage: tools/negcheck.py <PROP> <worktree> [tier]   (variations under <worktree>/out/<k>/)
Artefacts and verdicts are kept in /verif/variations/<PROP>-<k>/."""
import json, os, shutil, subprocess, sys, glob, time
V = os.path.dirname(os.path.dirname(os.path.abspath(__file__)))
prop, wt = sys.argv[1], sys.argv[2]
tier = sys.argv[3] if len(sys.argv) > 3 else "quick"
ENV = dict(os.environ, GOFLAGS="-mod=mod", GOPROXY="off", GOSUMDB="off", GOTOOLCHAIN="local")
def sh(cmd, **k):
    return subprocess.run(cmd, shell=True, capture_output=True, text=True, env=k.pop("env", ENV), **k)
for kd in sorted(glob.glob(os.path.join(wt, "out", "*"))):
    if not os.path.isdir(kd) or not os.path.exists(os.path.join(kd, "meta.json")): continue
    k = os.path.basename(kd)
    meta = json.load(open(os.path.join(kd, "meta.json")))
    assert sh("git status --porcelain --untracked-files=no", cwd=wt).stdout.strip() == "", "worktree dirty"
    ap = sh("git apply %s" % os.path.join(kd, "patch.diff"), cwd=wt)
    b = sh("go build ./... && go build -tags verif ./...", cwd=wt)
    t = sh("go test -vet=off -count=1 ./fw/... ./std/... ./dv/... 2>&1 | grep -v 'no test files' | grep -v '^ok' | head", cwd=wt)
    res = {"property": prop, "variation": k, "summary": meta.get("summary"), "why_property_still_holds": meta.get("why_property_still_holds"),
           "applies": ap.returncode == 0, "builds": b.returncode == 0, "existing_tests_pass": t.stdout.strip() == ""}
    if ap.returncode == 0 and b.returncode == 0 and t.stdout.strip() == "":
        t0 = time.time()
        r = sh("%s/check %s --tier %s" % (V, prop, tier), cwd=V, env=dict(os.environ, VERIF_REPO=wt))
        verdict = {0: "silent", 1: "ALARM", 2: "inconclusive"}.get(r.returncode, "rc%d" % r.returncode)
        line = [l.strip() for l in r.stdout.splitlines() if "evid.go" in l or "fails again" in l or "INCONCLUSIVE" in l or "BUILD-FAILED" in l][:2]
        res["check"] = {"tier": tier, "verdict": verdict, "wall_s": round(time.time() - t0), "first_report": [x[:400] for x in line]}
    sh("git checkout -- .", cwd=wt)
    dst = os.path.join(V, "variations", "%s-%s%s" % (prop, os.environ.get("NEG_TAG", ""), k))
    os.makedirs(dst, exist_ok=True)
    for f in glob.glob(os.path.join(kd, "*")):
        if os.path.isfile(f): shutil.copy(f, dst)
    json.dump(res, open(os.path.join(dst, "result.json"), "w"), indent=1)
    print(prop, k, res.get("check", {}).get("verdict", "NOT-RUN %s" % {x: res[x] for x in ("applies", "builds", "existing_tests_pass")}), "|", (meta.get("summary") or "")[:100], "|", (res.get("check", {}).get("first_report") or [""])[0][:200])
