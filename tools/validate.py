#!/usr/bin/env python3-vt
import json, sys, glob, os
import jsonschema
V = os.path.dirname(os.path.dirname(os.path.abspath(__file__)))
jsonschema.validate(json.load(open(V + '/MANIFEST.json')), json.load(open('/root/.vp/MANIFEST.schema.json')))
es = json.load(open('/root/.vp/EVIDENCE.schema.json'))
for f in sorted(glob.glob(V + '/evidence/*.json')):
    jsonschema.validate(json.load(open(f)), es)
    print('ok', os.path.basename(f))
print('manifest ok')
