#!/usr/bin/env python3
"""Re-runs every recorded seeded change (seeded/<P>-<k>/patch.diff, kept ones only) against the CURRENT
quick tier of its property (and, if that misses, of the neighbouring properties named in its result.json,
then the thorough tier of its own): detection must not regress while the checks grow.
Usage: tools/seedall.py [--jobs N] [--no-thorough] [PROP ...]
Uses scratch worktrees /tmp/seedall-<i> of /repo HEAD (removed afterwards).  Adds
"recheck": {"verdict", "by", "head", "wall_s", "first_report"} to each result.json and writes
seeded/recheck_summary.json."""
import json, os, subprocess, sys, glob, time, threading, re
V = os.path.dirname(os.path.dirname(os.path.abspath(__file__)))
ENV = dict(os.environ, GOFLAGS="-mod=mod", GOPROXY="off", GOSUMDB="off", GOTOOLCHAIN="local")
def sh(cmd, **k): return subprocess.run(cmd, shell=True, capture_output=True, text=True, env=k.pop("env", ENV), **k)
args = sys.argv[1:]
jobs = 1
if "--jobs" in args:
    i = args.index("--jobs"); jobs = int(args[i + 1]); del args[i:i + 2]
thorough = "--no-thorough" not in args
args = [a for a in args if not a.startswith("--")]
head = sh("git -C /repo rev-parse --short HEAD").stdout.strip()
todo = []
for d in sorted(glob.glob(os.path.join(V, "seeded", "C*"))):
    name = os.path.basename(d); prop = name.split("-")[0]
    if args and prop not in args and name not in args: continue
    rp = os.path.join(d, "result.json")
    if not os.path.exists(os.path.join(d, "patch.diff")) or not os.path.exists(rp): continue
    if not json.load(open(rp)).get("kept", True): continue
    todo.append((name, prop, d))
lock = threading.Lock(); summary = {}

def others(res, prop):
    txt = json.dumps(res)
    return [p for p in sorted(set(re.findall(r"\bC\d\d\b", txt))) if p != prop]

def worker(i):
    wt = "/tmp/seedall-%d-%d" % (os.getpid(), i)
    sh("git -C /repo worktree remove --force %s" % wt)
    assert sh("git -C /repo worktree add --detach %s HEAD" % wt).returncode == 0
    try:
        while True:
            with lock:
                if not todo: return
                name, prop, d = todo.pop(0)
            pf = os.path.join(d, "patch.diff"); rp = os.path.join(d, "result.json")
            res = json.load(open(rp))
            sh("git checkout -- . && git clean -fdq", cwd=wt)
            if sh("git apply %s" % pf, cwd=wt).returncode != 0:
                out = {"verdict": "patch no longer applies", "head": head}
            elif sh("go build ./... && go build -tags verif ./...", cwd=wt).returncode != 0:
                out = {"verdict": "does not build on HEAD", "head": head}
            else:
                t0 = time.time(); out = None; inc = None
                attempts = [(prop, "quick")] + [(p, "quick") for p in others(res, prop)] + ([(prop, "thorough")] if thorough else [])
                for p, tier in attempts:
                    r = sh("%s/check %s --tier %s" % (V, p, tier), cwd=V, env=dict(os.environ, VERIF_REPO=wt, VERIF_JOBS=os.environ.get("VERIF_JOBS", "6")))
                    line = [l.strip()[:300] for l in r.stdout.splitlines() if "evid.go" in l or "INCONCLUSIVE" in l or "fails again" in l][:1]
                    if r.returncode == 1:
                        out = {"verdict": "caught", "by": "%s/%s" % (p, tier), "first_report": line}; break
                    if r.returncode != 0 and inc is None:
                        inc = {"verdict": "inconclusive(rc%d)" % r.returncode, "by": "%s/%s" % (p, tier), "first_report": line}
                if out is None and inc is None:
                    # a miss is re-examined once (the machine may be busy with several of these at a time)
                    r = sh("%s/check %s --tier quick --seed 2" % (V, prop), cwd=V, env=dict(os.environ, VERIF_REPO=wt, VERIF_JOBS=os.environ.get("VERIF_JOBS", "6")))
                    if r.returncode == 1:
                        out = {"verdict": "caught", "by": "%s/quick (second run, seed 2)" % prop, "first_report": [l.strip()[:300] for l in r.stdout.splitlines() if "evid.go" in l or "fails again" in l][:1]}
                if out is None:
                    out = inc or {"verdict": "MISSED"}
                out.update(head=head, wall_s=round(time.time() - t0))
            res["recheck"] = out
            json.dump(res, open(rp, "w"), indent=1)
            with lock:
                summary[name] = out
                print(name, out["verdict"], out.get("by", ""), "%ss" % out.get("wall_s", "?"), "|", (out.get("first_report") or [""])[0][:140], flush=True)
                json.dump(summary, open(os.path.join(V, "seeded", "recheck_summary-%d.json" % os.getpid()), "w"), indent=1, sort_keys=True)
    finally:
        sh("git -C /repo worktree remove --force %s" % wt)

ths = [threading.Thread(target=worker, args=(i,)) for i in range(jobs)]
[t.start() for t in ths]; [t.join() for t in ths]
missed = [n for n, o in sorted(summary.items()) if o["verdict"] != "caught"]
print("re-checked %d seeded changes at %s: %d caught; not caught: %s" % (len(summary), head, len(summary) - len(missed), missed or "none"))
