#!/usr/bin/env python3
"""Rewrites the seeded-defect table of DESIGN.md (between the SEEDED-TABLE markers) from seeded/*/result.json."""
import json, glob, os, re
V = os.path.dirname(os.path.dirname(os.path.abspath(__file__)))
rows = []
for d in sorted(glob.glob(os.path.join(V, "seeded", "*", "result.json"))):
    r = json.load(open(d)); name = os.path.basename(os.path.dirname(d))
    v = "; ".join("%s: %s" % (k, x["verdict"]) for k, x in r.get("checks", {}).items())
    if "after_strengthening" in r: v += " → after strengthening: quick caught"
    if "history" in r: v += " (first run missed; after generator widening: quick caught)"
    if r.get("first_run"): v = "first run: %s → now: %s" % (r["first_run"], v or "not run")
    if r.get("kept") is False: v = "not kept: " + (r.get("first_run") or "not confirmed")
    if "cross_check" in r: v += " (violates another property, whose quick tier catches it: see result.json)"
    rows.append("| `%s` | %s | %s |" % (name, (r.get("summary") or "")[:110].replace("|", "/"), v))
tab = "<!-- SEEDED-TABLE-BEGIN -->\n%d seeded changes; all confirmed (demo passes unchanged / fails with the change; builds; existing suite passes) except the one marked not kept.\n\n| seeded change | where / what (abridged) | result |\n|---|---|---|\n%s\n<!-- SEEDED-TABLE-END -->" % (len(rows), "\n".join(rows))
p = os.path.join(V, "DESIGN.md"); s = open(p).read()
if "<!-- SEEDED-TABLE-BEGIN -->" in s:
    s = re.sub(r"<!-- SEEDED-TABLE-BEGIN -->.*?<!-- SEEDED-TABLE-END -->", lambda m: tab, s, flags=re.S)
else:
    i = s.index("| seeded change | where / what (abridged) | result |")
    j = s.index("\n\n", i) if "\n\n" in s[i:] else len(s)
    s = s[:i] + tab + s[j:]
open(p, "w").write(s); print(len(rows), "rows")
