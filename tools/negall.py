#!/usr/bin/env python3
"""Re-runs every recorded legitimate variation (variations/<P>-<k>/patch.diff) against the CURRENT
quick tier of its property: a check that has grown new units must still stay silent on all of them.
Usage: tools/negall.py [PROP ...]   Uses one scratch worktree /tmp/negall of /repo HEAD.
Adds "recheck": {"verdict", "head", "first_report"} to each result.json; variations whose patch no
longer applies to HEAD (the repository moved on) are reported and left as they are."""
import json, os, subprocess, sys, glob, time
V = os.path.dirname(os.path.dirname(os.path.abspath(__file__)))
WT = "/tmp/negall"
ENV = dict(os.environ, GOFLAGS="-mod=mod", GOPROXY="off", GOSUMDB="off", GOTOOLCHAIN="local")
def sh(cmd, **k): return subprocess.run(cmd, shell=True, capture_output=True, text=True, env=k.pop("env", ENV), **k)
props = sys.argv[1:]
sh("git -C /repo worktree remove --force %s" % WT)
assert sh("git -C /repo worktree add --detach %s HEAD" % WT).returncode == 0
head = sh("git -C /repo rev-parse --short HEAD").stdout.strip()
try:
    for d in sorted(glob.glob(os.path.join(V, "variations", "*"))):
        name = os.path.basename(d); prop = name.split("-")[0]
        if props and prop not in props: continue
        pf = os.path.join(d, "patch.diff")
        if not os.path.exists(pf): continue
        sh("git checkout -- .", cwd=WT)
        if sh("git apply --check %s" % pf, cwd=WT).returncode != 0:
            print(name, "patch no longer applies"); continue
        sh("git apply %s" % pf, cwd=WT)
        b = sh("go build ./... && go build -tags verif ./...", cwd=WT)
        if b.returncode != 0:
            print(name, "does not build on HEAD any more"); continue
        t0 = time.time()
        r = sh("%s/check %s --tier quick" % (V, prop), cwd=V, env=dict(os.environ, VERIF_REPO=WT))
        verdict = {0: "silent", 1: "ALARM", 2: "inconclusive"}.get(r.returncode, "rc%d" % r.returncode)
        line = [l.strip()[:300] for l in r.stdout.splitlines() if "evid.go" in l or "INCONCLUSIVE" in l][:2]
        rp = os.path.join(d, "result.json")
        res = json.load(open(rp)) if os.path.exists(rp) else {}
        res["recheck"] = {"verdict": verdict, "head": head, "wall_s": round(time.time() - t0), "first_report": line}
        json.dump(res, open(rp, "w"), indent=1)
        print(name, verdict, "|", (line or [""])[0][:160], flush=True)
finally:
    sh("git -C /repo worktree remove --force %s" % WT)
