#!/usr/bin/env python3
"""Development aid: which repository code do the registered units execute?

    tools/coverage.py [--tier quick] [C01 C02 ...]     (default: all properties, quick tier)

Runs ./check with VERIF_COVER set (test binaries built with -cover -coverpkg=<repository>/...,
evidence redirected to .build/evidence-alt), merges the per-unit profiles and prints, for the
anchor files of every property, the functions no unit of that property executed and the
statement coverage per file.  Coverage is not evidence of anything by itself; it is used to find
anchored code that no generator reaches (DESIGN.md 6.8)."""
import json, os, re, subprocess, sys, glob, fnmatch, collections
V = os.path.dirname(os.path.dirname(os.path.abspath(__file__)))
COV = os.path.join(V, ".build", "cover")
ENV = dict(os.environ, GOFLAGS="-mod=mod", GOPROXY="off", GOSUMDB="off", GOTOOLCHAIN="local", VERIF_COVER=COV)
MOD = "github.com/named-data/ndnd/"
args = sys.argv[1:]
tier = "quick"
if "--tier" in args:
    i = args.index("--tier"); tier = args[i + 1]; del args[i:i + 2]
norun = "--norun" in args
if norun:
    args.remove("--norun")
props = {json.loads(l)["id"]: json.loads(l) for l in open(os.path.join(V, "properties.jsonl"))}
ids = args or sorted(props)
if not norun:
    for pid in ids:
        for f in glob.glob(os.path.join(COV, pid + "-*.out")):
            os.remove(f)
        r = subprocess.run([os.path.join(V, "check"), pid, "--tier", tier], cwd=V, env=ENV, capture_output=True, text=True)
        print(pid, "rc=%d" % r.returncode, (r.stdout.strip().splitlines() or [""])[-1], flush=True)


def merged(files):
    blocks = {}
    for f in files:
        for line in open(f):
            if line.startswith("mode:"):
                continue
            m = re.match(r"(.*):(\d+\.\d+,\d+\.\d+) (\d+) (\d+)$", line.strip())
            if not m:
                continue
            k = (m.group(1), m.group(2), int(m.group(3)))
            blocks[k] = blocks.get(k, 0) + int(m.group(4))
    return blocks


def func_report(blocks, path):
    with open(path, "w") as f:
        f.write("mode: count\n")
        for (fn, rng, n), c in sorted(blocks.items()):
            f.write("%s:%s %d %d\n" % (fn, rng, n, c))
    r = subprocess.run(["go1.26.8", "tool", "cover", "-func=" + path], cwd=os.path.join(V, "harness"), env=ENV, capture_output=True, text=True)
    out = collections.defaultdict(list)
    for line in r.stdout.splitlines():
        m = re.match(r"(\S+):(\d+):\s+(\S+)\s+([\d.]+)%", line)
        if m and m.group(1).startswith(MOD):
            out[m.group(1)[len(MOD):]].append((m.group(3), float(m.group(4)), int(m.group(2))))
    return out


summary = {}
for pid in ids:
    files = glob.glob(os.path.join(COV, pid + "-*.out"))
    if not files:
        continue
    blocks = merged(files)
    fr = func_report(blocks, os.path.join(COV, "merged-%s.txt" % pid))
    pats = props[pid]["anchors"].get("files", [])
    print("\n== %s: %d unit profiles" % (pid, len(files)))
    for rel in sorted(fr):
        if not any(fnmatch.fnmatch(rel, p) or rel == p for p in pats):
            continue
        if rel.endswith("verif_hooks.go"):
            continue
        st = [(k[2], c) for k, c in blocks.items() if k[0] == MOD + rel]
        tot = sum(n for n, _ in st); hit = sum(n for n, c in st if c > 0)
        zero = ["%s:%d" % (fn, ln) for fn, pc, ln in fr[rel] if pc == 0.0]
        low = ["%s:%d(%.0f%%)" % (fn, ln, pc) for fn, pc, ln in fr[rel] if 0 < pc < 60]
        summary[(pid, rel)] = (hit, tot)
        print("  %-48s %4d/%4d stmts %3.0f%%" % (rel, hit, tot, 100.0 * hit / max(tot, 1)))
        if zero:
            print("      never executed: " + ", ".join(zero))
        if low:
            print("      below 60%: " + ", ".join(low))
json.dump({"%s %s" % k: v for k, v in summary.items()}, open(os.path.join(COV, "summary.json"), "w"), indent=1)
