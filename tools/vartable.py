#!/usr/bin/env python3
"""Rewrites the legitimate-variation table of DESIGN.md from variations/*/result.json."""
import json, glob, os
V = os.path.dirname(os.path.dirname(os.path.abspath(__file__)))
rows = []
for d in sorted(glob.glob(os.path.join(V, "variations", "*", "result.json"))):
    r = json.load(open(d)); name = os.path.basename(os.path.dirname(d))
    v = r.get("check", {}).get("verdict", "not run")
    if r.get("history"): v = r["history"]
    elif r.get("recheck"): v += "; re-run on the grown checks: " + r["recheck"]["verdict"]
    rows.append("| `%s` | %s | %s |" % (name, (r.get("summary") or "")[:120].replace("|", "/").replace("\n", " "), v))
p = os.path.join(V, "DESIGN.md"); s = open(p).read()
i = s.index("| variation | what was changed (abridged) | check |")
j = s.index("\n\n", i) if "\n\n" in s[i:] else len(s)
s = s[:i] + "| variation | what was changed (abridged) | check |\n|---|---|---|\n" + "\n".join(rows) + s[j:]
open(p, "w").write(s); print(len(rows), "rows")
