package mgmt

import (
	"testing"
	"testing/synctest"
	"time"

	enc "github.com/named-data/ndnd/std/encoding"
	basic "github.com/named-data/ndnd/std/engine/basic"
	"github.com/named-data/ndnd/std/ndn"
	mgmt "github.com/named-data/ndnd/std/ndn/mgmt_2022"
	spec "github.com/named-data/ndnd/std/ndn/spec_2022"
	sec "github.com/named-data/ndnd/std/security"
	"github.com/named-data/ndnd/std/utils"
)

func TestSmoke(t *testing.T) {
	for rep := 0; rep < 3; rep++ {
		synctest.Test(t, func(t *testing.T) {
			r := newRig(rigConfig{Threads: 2, Localhop: false, Fib: "nametree", CsCap: 100})
			defer r.close()
			t.Logf("null=%d internal=%d faces=%v", r.nullID, r.internalID, r.faces[0].id)
			cfg := mgmt.NewConfig(true, sec.NewSha256IntSigner(basic.NewTimer()), spec.Spec{})
			n, _ := enc.NameFromStr("/r/a")
			it, err := cfg.MakeCmd("rib", "register", &mgmt.ControlArgs{Name: n, Cost: utils.IdPtr(uint64(7))},
				&ndn.InterestConfig{Lifetime: utils.IdPtr(time.Second), Nonce: utils.IdPtr(uint64(77))})
			if err != nil {
				t.Fatal(err)
			}
			t0 := time.Now()
			r.inject(0, it.Wire.Join())
			synctest.Wait()
			pk, err := r.drain(0)
			if err != nil {
				t.Fatal(err)
			}
			t.Logf("got %d packets in %v", len(pk), time.Since(t0))
			for _, p := range pk {
				if p.pkt.Data != nil {
					cr, err := mgmt.ParseControlResponse(enc.NewWireReader(p.pkt.Data.Content()), true)
					t.Logf("data %s: %v %+v %v", p.pkt.Data.Name(), err, cr.Val, cr.Val.Params.ToDict())
				}
			}
			time.Sleep(2 * time.Second)
			synctest.Wait()
		})
	}
}
