// Package mgmt decides C17 (management commands are authorised, act as specified; bad ones
// are refused safely) against the full stack: real forwarding thread(s), the real management
// thread with its internal face, and real NDNLPv2 link services over in-memory transports,
// all inside a testing/synctest bubble.
package mgmt

import (
	"bytes"
	"fmt"
	"sort"
	"testing/synctest"
	"time"

	"github.com/named-data/ndnd/fw/core"
	"github.com/named-data/ndnd/fw/defn"
	"github.com/named-data/ndnd/fw/dispatch"
	"github.com/named-data/ndnd/fw/face"
	"github.com/named-data/ndnd/fw/fw"
	fwmgmt "github.com/named-data/ndnd/fw/mgmt"
	"github.com/named-data/ndnd/fw/table"
	enc "github.com/named-data/ndnd/std/encoding"
	spec "github.com/named-data/ndnd/std/ndn/spec_2022"
)

// ---------------------------------------------------------------------------- faces of the rig

// faceSpec describes one application face of the rig. The set is fixed (the case refers to
// faces by index), chosen so that both scopes, both fragmenting and non-fragmenting link
// services and every URI scheme faces/update distinguishes are present.
type faceSpec struct {
	remote, local string
	scope         defn.Scope
	frag          bool // NDNLP fragmentation enabled (datagram faces); false for stream faces
	pers          face.Persistency
}

var faceSpecs = []faceSpec{
	// 0, 1: local applications connected through the Unix socket (as the Unix listener makes them)
	{"fd://21", "unix:///run/nfd/nfd.sock", defn.Local, false, face.PersistencyPersistent},
	{"fd://22", "unix:///run/nfd/nfd.sock", defn.Local, false, face.PersistencyPersistent},
	// 2: a remote UDP neighbour (as the UDP listener / faces/create make them)
	{"udp4://10.0.0.2:6363", "udp4://10.0.0.1:6363", defn.NonLocal, true, face.PersistencyPersistent},
	// 3: a UDP face to the loopback address: local scope and fragmenting
	{"udp4://127.0.0.1:7003", "udp4://127.0.0.1:6363", defn.Local, true, face.PersistencyPersistent},
	// 4: a remote TCP neighbour (stream, no fragmentation)
	{"tcp4://10.0.0.4:6363", "tcp4://10.0.0.1:40004", defn.NonLocal, false, face.PersistencyPersistent},
}

const nAppFaces = 5

type appFace struct {
	spec faceSpec
	tr   *face.VerifTransport
	ls   *face.NDNLPLinkService
	id   uint64
}

// ---------------------------------------------------------------------------- the rig

type rigConfig struct {
	Threads  int
	Localhop bool
	Fib      string // nametree | hashtable
	CsCap    uint16
}

type rig struct {
	cfg        rigConfig
	threads    []*fw.Thread
	mgmtDone   chan struct{}
	faces      []*appFace
	nullID     uint64
	internalID uint64
	start      time.Time
	unnumbered int // fragments seen without FragIndex/FragCount (C10)
}

var loggerOnce bool

// newRig builds the daemon the way fw/executor.YaNFD.Start does (minus the listeners, which
// need sockets): tables, null face, management thread, forwarding threads, then the
// application faces. Must be called inside a bubble.
func newRig(rc rigConfig) *rig {
	r := &rig{cfg: rc}
	core.ShouldQuit = false
	cfg := core.DefaultConfig()
	cfg.Core.LogLevel = "FATAL"
	cfg.Fw.Threads = rc.Threads
	cfg.Mgmt.AllowLocalhop = rc.Localhop
	cfg.Tables.Fib.Algorithm = rc.Fib
	cfg.Tables.ContentStore.Capacity = rc.CsCap
	cfg.Tables.Rib.ReadvertiseNlsr = false
	core.Version = "verif-c17"
	core.StartTimestamp = time.Now()
	r.start = core.StartTimestamp
	core.LoadConfig(cfg, "")
	if !loggerOnce {
		core.InitializeLogger("")
		loggerOnce = true
	}
	face.Configure()
	fw.Configure()
	table.VerifReset()
	table.Configure()
	fwmgmt.Configure()
	face.VerifResetFaceTable()
	table.CreateFIBTable(rc.Fib)

	// null face (FaceID 1)
	nl := face.MakeNullLinkService(face.MakeNullTransport())
	nl.Run(nil)
	r.nullID = nl.FaceID()

	// management thread; its Run registers the internal face (FaceID 2)
	mt := fwmgmt.MakeMgmtThread()
	r.mgmtDone = make(chan struct{})
	go func() {
		mt.Run()
		close(r.mgmtDone)
	}()

	// forwarding threads
	fw.Threads = make([]*fw.Thread, fw.NumFwThreads)
	var disp []dispatch.FWThread
	for i := 0; i < fw.NumFwThreads; i++ {
		th := fw.NewThread(i)
		fw.Threads[i] = th
		disp = append(disp, th)
		go th.Run()
	}
	dispatch.InitializeFWThreads(disp)
	r.threads = fw.Threads
	synctest.Wait()
	for _, f := range face.FaceTable.GetAll() {
		if f.RemoteURI().Scheme() == "internal" {
			r.internalID = f.FaceID()
		}
	}

	// application faces
	for _, fs := range faceSpecs {
		ru, lu := defn.DecodeURIString(fs.remote), defn.DecodeURIString(fs.local)
		tr := face.VerifMakeTransport(ru, lu, fs.pers, fs.scope, defn.PointToPoint, defn.MaxNDNPacketSize)
		opt := face.MakeNDNLPLinkServiceOptions()
		opt.IsFragmentationEnabled = fs.frag
		ls := face.MakeNDNLPLinkService(tr, opt)
		ls.Run(nil)
		r.faces = append(r.faces, &appFace{spec: fs, tr: tr, ls: ls, id: ls.FaceID()})
	}
	synctest.Wait()
	return r
}

// close tears the daemon down so that no goroutine of the bubble is left behind.
func (r *rig) close() {
	core.ShouldQuit = true
	// one face at a time: every closing face cleans the (lock-free) RIB from its own send
	// goroutine, and racing those clean-ups is the business of C16, not of this check
	for _, f := range r.faces {
		f.tr.Close()
		synctest.Wait()
	}
	for _, f := range face.FaceTable.GetAll() {
		f.Close()
		synctest.Wait()
	}
	for _, th := range r.threads {
		th.TellToQuit()
	}
	for _, th := range r.threads {
		<-th.HasQuit
	}
	<-r.mgmtDone
	synctest.Wait()
	core.ShouldQuit = false
}

// ---------------------------------------------------------------------------- sending and receiving

// inject delivers one frame to the link service of face i exactly as its transport would.
func (r *rig) inject(i int, frame []byte) {
	r.faces[i].ls.VerifHandleIncomingFrame(frame)
}

// rxPacket is one network-layer packet that came out of a face, after reassembly.
type rxPacket struct {
	wire     []byte
	pitToken []byte
	pkt      *spec.Packet
	frames   int
	maxFrame int
}

// drain takes the frames recorded at face i and reassembles them (an independent
// reassembler: fragments are grouped by Sequence-FragIndex and concatenated in index order).
func (r *rig) drain(i int) ([]rxPacket, error) {
	return reassemble(r.faces[i].tr.VerifTakeFrames(), i, &r.unnumbered)
}

// reassemble turns link-layer frames into network-layer packets.
func reassemble(frames [][]byte, i int, unnumbered *int) ([]rxPacket, error) {
	type partial struct {
		parts    [][]byte
		got      int
		frames   int
		maxFrame int
		token    []byte
	}
	partials := map[uint64]*partial{}
	var order []uint64
	var out []rxPacket
	var stream, streamTok []byte
	var streamFrames, streamMax int
	for _, fr := range frames {
		p, _, err := spec.ReadPacket(enc.NewBufferReader(fr))
		if err != nil {
			return nil, fmt.Errorf("face %d emitted an undecodable frame (%d bytes): %v", i, len(fr), err)
		}
		if p.LpPacket == nil {
			out = append(out, rxPacket{wire: fr, pkt: p, frames: 1, maxFrame: len(fr)})
			continue
		}
		lp := p.LpPacket
		frag := lp.Fragment.Join()
		idx, cnt := uint64(0), uint64(1)
		if lp.FragIndex != nil {
			idx = *lp.FragIndex
		}
		if lp.FragCount != nil {
			cnt = *lp.FragCount
		}
		if lp.Sequence != nil && lp.FragIndex == nil && lp.FragCount == nil && (len(stream) > 0 || !completeTLV(frag)) {
			// Fragments that carry a sequence number but no FragIndex/FragCount (what the
			// link service emits before the C10 repairs): frame sizes and fragment numbering
			// are the business of C10; here consecutive fragments are simply joined until
			// they form one complete TLV.
			*unnumbered++
			stream = append(stream, frag...)
			streamFrames++
			if len(fr) > streamMax {
				streamMax = len(fr)
			}
			if len(lp.PitToken) > 0 {
				streamTok = lp.PitToken
			}
			if completeTLV(stream) {
				l3, _, err := spec.ReadPacket(enc.NewBufferReader(stream))
				if err != nil {
					return nil, fmt.Errorf("face %d: joined fragments are not a packet: %v", i, err)
				}
				out = append(out, rxPacket{wire: stream, pitToken: streamTok, pkt: l3, frames: streamFrames, maxFrame: streamMax})
				stream, streamFrames, streamMax, streamTok = nil, 0, 0, nil
			}
			continue
		}
		if cnt == 1 && idx == 0 {
			l3, _, err := spec.ReadPacket(enc.NewBufferReader(frag))
			if err != nil {
				return nil, fmt.Errorf("face %d emitted a frame whose fragment is not a packet: %v", i, err)
			}
			out = append(out, rxPacket{wire: frag, pitToken: lp.PitToken, pkt: l3, frames: 1, maxFrame: len(fr)})
			continue
		}
		if lp.Sequence == nil || idx >= cnt {
			return nil, fmt.Errorf("face %d emitted a fragment without sequence or with index %d >= count %d", i, idx, cnt)
		}
		base := *lp.Sequence - idx
		pa := partials[base]
		if pa == nil {
			pa = &partial{parts: make([][]byte, cnt)}
			partials[base] = pa
			order = append(order, base)
		}
		if uint64(len(pa.parts)) != cnt || pa.parts[idx] != nil {
			return nil, fmt.Errorf("face %d emitted inconsistent fragments (seq base %d)", i, base)
		}
		pa.parts[idx] = frag
		pa.got++
		pa.frames++
		if len(fr) > pa.maxFrame {
			pa.maxFrame = len(fr)
		}
		if len(lp.PitToken) > 0 {
			pa.token = lp.PitToken
		}
	}
	if len(stream) > 0 {
		return nil, fmt.Errorf("face %d emitted %d fragments that do not add up to a packet", i, streamFrames)
	}
	for _, base := range order {
		pa := partials[base]
		if pa.got != len(pa.parts) {
			return nil, fmt.Errorf("face %d emitted only %d of %d fragments of a packet", i, pa.got, len(pa.parts))
		}
		w := bytes.Join(pa.parts, nil)
		l3, _, err := spec.ReadPacket(enc.NewBufferReader(w))
		if err != nil {
			return nil, fmt.Errorf("face %d: reassembled fragments are not a packet: %v", i, err)
		}
		out = append(out, rxPacket{wire: w, pitToken: pa.token, pkt: l3, frames: pa.frames, maxFrame: pa.maxFrame})
	}
	return out, nil
}

func (r *rig) drainAll() {
	for i := range r.faces {
		r.faces[i].tr.VerifTakeFrames()
	}
}

func sortedKeys[V any](m map[string]V) []string {
	ks := make([]string, 0, len(m))
	for k := range m {
		ks = append(ks, k)
	}
	sort.Strings(ks)
	return ks
}

// completeTLV reports whether b is exactly one TLV element.
func completeTLV(b []byte) bool {
	pos := 0
	readNum := func() (uint64, bool) {
		if pos >= len(b) {
			return 0, false
		}
		x := b[pos]
		pos++
		n := 0
		switch {
		case x <= 0xfc:
			return uint64(x), true
		case x == 0xfd:
			n = 2
		case x == 0xfe:
			n = 4
		default:
			n = 8
		}
		if pos+n > len(b) {
			return 0, false
		}
		var v uint64
		for _, y := range b[pos : pos+n] {
			v = v<<8 | uint64(y)
		}
		pos += n
		return v, true
	}
	if _, ok := readNum(); !ok {
		return false
	}
	l, ok := readNum()
	return ok && l == uint64(len(b)-pos)
}
