package mgmt

import (
	"errors"
	"fmt"
	"runtime"
	"sort"
	"strings"
	"sync"
	"sync/atomic"
	"testing"
	"time"

	"github.com/named-data/ndnd/fw/defn"
	"github.com/named-data/ndnd/fw/face"
	"github.com/named-data/ndnd/fw/table"
	enc "github.com/named-data/ndnd/std/encoding"
	basic "github.com/named-data/ndnd/std/engine/basic"
	"github.com/named-data/ndnd/std/ndn"
	mgmt "github.com/named-data/ndnd/std/ndn/mgmt_2022"
	spec "github.com/named-data/ndnd/std/ndn/spec_2022"
	sec "github.com/named-data/ndnd/std/security"
	"github.com/named-data/ndnd/std/utils"
	"pgregory.net/rapid"

	"verif/harness/internal/evid"
)

// C16 through the management plane. The table-level units of harness/conc call table.Rib
// directly; route registration as the daemon performs it goes through the management
// thread's rib module (seeded C16-r5-2: the register handler removed the old route before
// adding the new one -- two atomic RIB calls, but a lookup between them sees the prefix
// without the route that exists before and after the command).
//
// One writer (the harness acting as a local application) issues rib/register and
// rib/unregister commands one at a time to a real daemon on the real scheduler (management
// thread, internal face, one forwarding thread), waiting for each answer; 1..4 reader
// goroutines look names up in the FIB all the while, as the forwarding threads do. Because
// the commands are sequential the table states form a chain S0, S1, ... (Sk after k accepted
// commands, computed by a reference flattening written from the statement of C06); a lookup
// that began after d commands had been answered and ended before command i+1 was issued must
// return the next-hop set of the name in one of Sd..Si. Built with -race.

type ConcCmd struct {
	Verb  string  `json:"v"` // register | unregister
	P     int     `json:"p"` // prefix index into concPrefixes
	Face  int     `json:"f"` // 0 = the requesting face (FaceId absent), 1 = the second face (explicit)
	Cost  uint64  `json:"c"`
	Flags *uint64 `json:"fl,omitempty"` // nil = absent (child-inherit)
}

type ConcCase struct {
	Readers int       `json:"rd"`
	Cmds    []ConcCmd `json:"cmds"`
}

var concPrefixes = []string{"/c16", "/c16/a", "/c16/a/b"}
var concLookups = []string{"/c16/x", "/c16/a/x", "/c16/a/b/x", "/c16/a/b", "/c16"}

func genConcCase(t *rapid.T) ConcCase {
	c := ConcCase{Readers: 1 + uni(t, "readers", 4)}
	n := 2 + uni(t, "n", 28)
	var last *ConcCmd
	for i := 0; i < n; i++ {
		cmd := ConcCmd{Verb: "register", P: uni(t, "p", len(concPrefixes)), Face: uni(t, "f", 2),
			Cost: pick(t, "cost", []uint64{0, 1, 5, 5, 10, 100})}
		switch uni(t, "fl", 6) {
		case 0:
			cmd.Flags = up(0)
		case 1:
			cmd.Flags = up(2)
		case 2:
			cmd.Flags = up(3)
		case 3:
			cmd.Flags = up(1)
		}
		k := uni(t, "kind", 10)
		if k < 4 && last != nil {
			// refresh the route registered last: same prefix and face, possibly another cost / flags
			cmd.P, cmd.Face = last.P, last.Face
		} else if k < 6 {
			cmd.Verb = "unregister"
			if last != nil && uni(t, "ul", 2) == 0 {
				cmd.P, cmd.Face = last.P, last.Face
			}
		}
		c.Cmds = append(c.Cmds, cmd)
		if cmd.Verb == "register" {
			last = &c.Cmds[len(c.Cmds)-1]
		}
	}
	return c
}

// ---- reference: routes and their flattening (statement of C06), for a chain of nested prefixes

type concRoute struct {
	cost  uint64
	flags uint64
}

type concState map[int]map[uint64]concRoute // prefix index -> face id -> route

func (s concState) clone() concState {
	o := concState{}
	for p, m := range s {
		o[p] = map[uint64]concRoute{}
		for f, r := range m {
			o[p][f] = r
		}
	}
	return o
}

// lookup: next hops of the longest prefix (by index: the prefixes are nested) of a name whose
// deepest covering prefix index is depth, as "face@cost" strings, sorted.
func (s concState) lookup(depth int) string {
	for p := depth; p >= 0; p-- {
		if len(s[p]) == 0 {
			continue
		}
		hops := map[uint64]uint64{}
		add := func(f uint64, c uint64) {
			if old, ok := hops[f]; !ok || c < old {
				hops[f] = c
			}
		}
		captured := false
		for f, r := range s[p] {
			add(f, r.cost)
			if r.flags&2 != 0 {
				captured = true
			}
		}
		for q := p - 1; q >= 0 && !captured; q-- {
			for f, r := range s[q] {
				if r.flags&1 != 0 {
					add(f, r.cost)
				}
				if r.flags&2 != 0 {
					captured = true
				}
			}
		}
		var out []string
		for f, c := range hops {
			out = append(out, fmt.Sprintf("%d@%d", f, c))
		}
		sort.Strings(out)
		return "{" + strings.Join(out, " ") + "}"
	}
	return "{}"
}

func lookupDepth(name string) int {
	d := -1
	for i, p := range concPrefixes {
		if name == p || strings.HasPrefix(name, p+"/") {
			d = i
		}
	}
	return d
}

func hopsOf(hs []*table.FibNextHopEntry) string {
	var out []string
	for _, h := range hs {
		out = append(out, fmt.Sprintf("%d@%d", h.Nexthop, h.Cost))
	}
	sort.Strings(out)
	return "{" + strings.Join(out, " ") + "}"
}

// The daemon of this unit lives as long as the test process (one FIB implementation per
// process: the FIB is a process-wide global). Stopping and re-creating it per case would mean
// writing core.ShouldQuit and the table globals, which the daemon's goroutines read without
// synchronisation -- the shutdown path, outside the listed properties -- and the race detector
// would report the harness's own writes.
type concRigT struct {
	r       *realRig
	faceIDs []uint64
	err     error
}

var (
	concRigOnce sync.Once
	concRig     concRigT
)

func getConcRig(fib string) *concRigT {
	concRigOnce.Do(func() {
		r, err := newRealRig(fib)
		if err != nil {
			concRig.err = err
			return
		}
		fs := faceSpecs[1]
		tr2 := face.VerifMakeTransport(defn.DecodeURIString(fs.remote), defn.DecodeURIString(fs.local), fs.pers, fs.scope,
			defn.PointToPoint, defn.MaxNDNPacketSize)
		ls2 := face.MakeNDNLPLinkService(tr2, face.MakeNDNLPLinkServiceOptions())
		ls2.Run(nil)
		if err := waitFor(func() bool {
			return face.FaceTable.Get(ls2.FaceID()) != nil && face.FaceTable.Get(r.ls.FaceID()) != nil
		}); err != nil {
			concRig.err = err
			return
		}
		concRig.r, concRig.faceIDs = r, []uint64{r.ls.FaceID(), ls2.FaceID()}
	})
	return &concRig
}

var concNonce = uint64(0xc1600000)

func execConcFor(fib string) func(ConcCase) evid.Result {
	return func(c ConcCase) evid.Result { return execConc(fib, c) }
}

func execConc(fib string, c ConcCase) (res evid.Result) {
	classes := map[string]bool{}
	finish := func(err error) evid.Result {
		if errors.Is(err, errWatchdog) {
			panic(fmt.Sprintf("watchdog: no progress for %v (%v)", watchdog, err))
		}
		r := evid.Result{Err: err}
		for _, k := range sortedKeys(classes) {
			r.Classes = append(r.Classes, k)
		}
		r.NonTrivial = classes["refresh-of-existing-route"] && classes["lookup-overlapped-a-command"]
		return r
	}
	rg := getConcRig(fib)
	if rg.err != nil {
		return finish(rg.err)
	}
	r, faceIDs := rg.r, rg.faceIDs
	signer := sec.NewSha256IntSigner(basic.NewTimer())
	send := func(verb string, a *mgmt.ControlArgs) (uint64, error) {
		concNonce++
		it, err := mgmt.NewConfig(true, signer, spec.Spec{}).MakeCmd("rib", verb, a,
			&ndn.InterestConfig{Lifetime: utils.IdPtr(4 * time.Second), Nonce: utils.IdPtr(concNonce)})
		if err != nil {
			return 0, fmt.Errorf("harness: MakeCmd: %v", err)
		}
		d, err := r.ask(it.Wire.Join(), it.FinalName, false)
		if err != nil {
			return 0, err
		}
		cr, perr := mgmt.ParseControlResponse(enc.NewWireReader(d.Content()), true)
		if perr != nil || cr.Val == nil {
			return 0, fmt.Errorf("not a ControlResponse: %v", perr)
		}
		return cr.Val.StatusCode, nil
	}
	// every case starts from (and leaves) empty tables under /c16
	clean := func() error {
		for p := range concPrefixes {
			for fi, fid := range faceIDs {
				a := &mgmt.ControlArgs{Name: mkName(concPrefixes[p])}
				if fi == 1 {
					a.FaceId = utils.IdPtr(fid)
				}
				if _, err := send("unregister", a); err != nil {
					return err
				}
			}
		}
		return nil
	}
	if err := clean(); err != nil {
		return finish(err)
	}
	defer func() { _ = clean() }()
	names := make([]enc.Name, len(concLookups))
	depths := make([]int, len(concLookups))
	for i, n := range concLookups {
		names[i] = mkName(n)
		depths[i] = lookupDepth(n)
	}

	// states[k] = reference tables after k commands; the writer appends before it issues command k
	var mu sync.Mutex
	states := []concState{{}}
	var issued, done atomic.Int64
	var stop atomic.Bool
	var overlapped atomic.Int64
	anomalies := make(chan string, 64)
	var wg sync.WaitGroup
	for g := 0; g < c.Readers; g++ {
		wg.Add(1)
		go func(g int) {
			defer wg.Done()
			defer func() {
				if p := recover(); p != nil {
					select {
					case anomalies <- fmt.Sprintf("a lookup panicked: %v", p):
					default:
					}
				}
			}()
			for i := g; !stop.Load(); i++ {
				li := i % len(names)
				d0 := done.Load()
				got := hopsOf(table.FibStrategyTable.FindNextHopsEnc(names[li].Clone()))
				i1 := issued.Load()
				if i1 > d0 {
					overlapped.Add(1)
				}
				mu.Lock()
				ok := false
				var want []string
				for k := d0; k <= i1 && int(k) < len(states); k++ {
					w := states[k].lookup(depths[li])
					want = append(want, w)
					if w == got {
						ok = true
					}
				}
				mu.Unlock()
				if !ok {
					select {
					case anomalies <- fmt.Sprintf("a lookup of %s that overlapped command(s) #%d..#%d returned %s; the states between those commands give %v", concLookups[li], d0+1, i1, got, want):
					default:
					}
					return
				}
			}
		}(g)
	}
	var cmdErr error
	for k, cmd := range c.Cmds {
		a := &mgmt.ControlArgs{Name: mkName(concPrefixes[cmd.P])}
		fid := faceIDs[cmd.Face]
		if cmd.Face == 1 {
			a.FaceId = utils.IdPtr(fid)
		}
		if cmd.Verb == "register" {
			a.Cost = utils.IdPtr(cmd.Cost)
			a.Flags = cmd.Flags
		}
		// the reference state if the command is accepted
		mu.Lock()
		next := states[k].clone()
		if cmd.Verb == "register" {
			fl := uint64(1)
			if cmd.Flags != nil {
				fl = *cmd.Flags
			}
			if next[cmd.P] == nil {
				next[cmd.P] = map[uint64]concRoute{}
			}
			if _, had := next[cmd.P][fid]; had {
				classes["refresh-of-existing-route"] = true
			}
			next[cmd.P][fid] = concRoute{cost: cmd.Cost, flags: fl}
		} else {
			delete(next[cmd.P], fid)
		}
		states = append(states, next)
		mu.Unlock()
		issued.Store(int64(k + 1))
		code, err := send(cmd.Verb, a)
		if err != nil {
			cmdErr = fmt.Errorf("rib/%s #%d: %w", cmd.Verb, k+1, err)
			break
		}
		if code != 200 {
			cmdErr = fmt.Errorf("rib/%s #%d (%s face %d cost %d) was answered with status %d", cmd.Verb, k+1, concPrefixes[cmd.P], fid, cmd.Cost, code)
			break
		}
		done.Store(int64(k + 1))
		select {
		case a := <-anomalies:
			stop.Store(true)
			wg.Wait()
			return finish(errors.New(a))
		default:
		}
	}
	// let the readers see the final state at least once
	if cmdErr == nil {
		time.Sleep(200 * time.Microsecond)
	}
	stop.Store(true)
	wg.Wait()
	select {
	case a := <-anomalies:
		return finish(errors.New(a))
	default:
	}
	if cmdErr != nil {
		if errors.Is(cmdErr, errWatchdog) {
			return finish(cmdErr)
		}
		// an unanswered or refused well-formed command is C17's business, not this unit's
		classes["command-not-accepted (C17's)"] = true
		return finish(nil)
	}
	if overlapped.Load() > 0 {
		classes["lookup-overlapped-a-command"] = true
	}
	// final state, sequentially
	final := states[len(states)-1]
	for i, n := range names {
		if got, want := hopsOf(table.FibStrategyTable.FindNextHopsEnc(n.Clone())), final.lookup(depths[i]); got != want {
			return finish(fmt.Errorf("after all %d commands were answered a lookup of %s returns %s, the registered routes give %s", len(c.Cmds), concLookups[i], got, want))
		}
	}
	return finish(nil)
}

const concRule = "route registrations, refreshes and removals issued one at a time as signed rib/register / rib/unregister commands to a real daemon on the real scheduler (management thread, internal face, forwarding thread; both FIBs) while 1..4 goroutines look names up in the FIB; every lookup must return the next-hop set of its name in one of the table states between the commands it overlapped (reference flattening over nested prefixes with child-inherit / capture flags, two faces). Built with -race. Non-trivial: >=1 refresh of an existing route AND >=1 lookup that overlapped a command; distinct by case hash"

func TestC16MgmtRoutes(t *testing.T) {
	rec := evid.New("C16", "TestC16MgmtRoutes", "name-tree FIB; "+concRule)
	evid.Check(t, rec, genConcCase, execConcFor("nametree"))
}
func TestC16MgmtRoutesReplay(t *testing.T) {
	evid.Replay(t, "TestC16MgmtRoutes", execConcFor("nametree"))
}
func TestC16MgmtRoutesHT(t *testing.T) {
	rec := evid.New("C16", "TestC16MgmtRoutesHT", "hash-table FIB; "+concRule)
	evid.Check(t, rec, genConcCase, execConcFor("hashtable"))
}
func TestC16MgmtRoutesHTReplay(t *testing.T) {
	evid.Replay(t, "TestC16MgmtRoutesHT", execConcFor("hashtable"))
}

// ---------------------------------------------------------------------------- registration racing the face's own teardown
//
// An application connects, sends rib/register (the route points at the requesting face, or --
// Explicit -- at another short-lived face it names) and goes away at once; the face's teardown
// (face table, dispatch map, RIB clean-up) runs on the face's goroutine while the command is still
// on its way through the forwarding thread to the management thread. Whatever the order, after
// both have finished the tables must equal a sequential order of "register" and "face removed":
// no route and no next hop towards a face that no longer exists.

type GoneRound struct {
	P        int  `json:"p"`        // prefix index
	Explicit bool `json:"explicit"` // the route names a second short-lived face instead of the requesting one
	Yield    int  `json:"yield"`    // processor yields between sending the command and closing the face
	Cmds     int  `json:"cmds"`     // 1..3 registrations sent back to back before the face closes
}

type GoneCase struct {
	Rounds []GoneRound `json:"rounds"`
}

func genGoneCase(t *rapid.T) GoneCase {
	var c GoneCase
	n := 1 + uni(t, "rounds", 12)
	for i := 0; i < n; i++ {
		c.Rounds = append(c.Rounds, GoneRound{P: uni(t, "p", len(concPrefixes)), Explicit: pct(t, "explicit", 35),
			Yield: pick(t, "yield", []int{0, 0, 1, 2, 5, 20}), Cmds: 1 + uni(t, "cmds", 3)})
	}
	return c
}

func execGoneFor(fib string) func(GoneCase) evid.Result {
	return func(c GoneCase) (res evid.Result) {
		finish := func(err error, cl ...string) evid.Result {
			if errors.Is(err, errWatchdog) {
				panic(fmt.Sprintf("watchdog: no progress for %v (%v)", watchdog, err))
			}
			return evid.Result{Err: err, Classes: cl, NonTrivial: len(c.Rounds) >= 2}
		}
		rg := getConcRig(fib)
		if rg.err != nil {
			return finish(rg.err)
		}
		r := rg.r
		signer := sec.NewSha256IntSigner(basic.NewTimer())
		mk := func(i int) (*face.VerifTransport, *face.NDNLPLinkService) {
			tr := face.VerifMakeTransport(defn.DecodeURIString(fmt.Sprintf("fd://%d", 300+i)), defn.DecodeURIString("unix:///run/nfd/nfd.sock"),
				face.PersistencyPersistent, defn.Local, defn.PointToPoint, defn.MaxNDNPacketSize)
			ls := face.MakeNDNLPLinkService(tr, face.MakeNDNLPLinkServiceOptions())
			ls.Run(nil)
			return tr, ls
		}
		var classes []string
		for ri, rd := range c.Rounds {
			trA, lsA := mk(2 * ri)
			trB, lsB := mk(2*ri + 1)
			if err := waitFor(func() bool { return face.FaceTable.Get(lsA.FaceID()) != nil && face.FaceTable.Get(lsB.FaceID()) != nil }); err != nil {
				return finish(err)
			}
			target := lsA.FaceID()
			a := &mgmt.ControlArgs{Name: mkName(concPrefixes[rd.P])}
			if rd.Explicit {
				target = lsB.FaceID()
				a.FaceId = utils.IdPtr(target)
			}
			for k := 0; k < rd.Cmds; k++ {
				concNonce++
				a.Cost = utils.IdPtr(uint64(k))
				it, err := mgmt.NewConfig(true, signer, spec.Spec{}).MakeCmd("rib", "register", a,
					&ndn.InterestConfig{Lifetime: utils.IdPtr(4 * time.Second), Nonce: utils.IdPtr(concNonce)})
				if err != nil {
					return finish(fmt.Errorf("harness: MakeCmd: %v", err))
				}
				lsA.VerifHandleIncomingFrame(it.Wire.Join())
			}
			for y := 0; y < rd.Yield; y++ {
				runtime.Gosched()
			}
			// the application goes away (and, Explicit, so does the face its route names)
			if rd.Explicit {
				trB.Close()
			}
			trA.Close()
			if err := waitFor(func() bool {
				return face.FaceTable.Get(lsA.FaceID()) == nil && (!rd.Explicit || face.FaceTable.Get(lsB.FaceID()) == nil)
			}); err != nil {
				return finish(err)
			}
			// barrier: commands reach the management thread in order, so once this one is answered
			// the registrations above have been dealt with
			concNonce++
			bar, err := mgmt.NewConfig(true, signer, spec.Spec{}).MakeCmd("rib", "unregister",
				&mgmt.ControlArgs{Name: mkName("/c16/barrier")}, &ndn.InterestConfig{Lifetime: utils.IdPtr(4 * time.Second), Nonce: utils.IdPtr(concNonce)})
			if err != nil {
				return finish(fmt.Errorf("harness: MakeCmd: %v", err))
			}
			if _, err := r.ask(bar.Wire.Join(), bar.FinalName, false); err != nil {
				return finish(err)
			}
			if !rd.Explicit {
				trB.Close()
				if err := waitFor(func() bool { return face.FaceTable.Get(lsB.FaceID()) == nil }); err != nil {
					return finish(err)
				}
			}
			// A face that has left the face table may still be in the middle of its teardown (the RIB
			// clean-up follows the removal from the table): what must not happen is that something
			// towards it *stays*. Stale state is reported only if it is still there 5 s after the
			// management thread answered the barrier.
			stale := func() error {
				for _, e := range table.Rib.GetAllEntries() {
					for _, rt := range e.GetRoutes() {
						if rt.FaceID == target {
							return fmt.Errorf("round %d: face %d registered %s (%d command(s)%s) and went away; 5 s after its removal from the face table and after the management thread had dealt with the command the RIB still holds a route of %s towards face %d, which no longer exists -- no order of 'register' and 'face removed' leaves that",
								ri, lsA.FaceID(), concPrefixes[rd.P], rd.Cmds, map[bool]string{true: ", naming a second face that left with it", false: ""}[rd.Explicit], e.Name, target)
						}
					}
				}
				for _, h := range table.FibStrategyTable.FindNextHopsEnc(mkName(concPrefixes[rd.P] + "/x")) {
					if h.Nexthop == target {
						return fmt.Errorf("round %d: 5 s after face %d left, the FIB still forwards %s/x to it", ri, target, concPrefixes[rd.P])
					}
				}
				return nil
			}
			var serr error
			for end := time.Now().Add(5 * time.Second); ; time.Sleep(200 * time.Microsecond) {
				if serr = stale(); serr == nil || time.Now().After(end) {
					break
				}
			}
			if serr != nil {
				return finish(serr)
			}
			if rd.Explicit {
				classes = append(classes, "route-names-a-second-face-that-leaves-too")
			}
		}
		return finish(nil, dedupeStr(classes)...)
	}
}

func dedupeStr(xs []string) []string {
	seen := map[string]bool{}
	var out []string
	for _, x := range xs {
		if !seen[x] {
			seen[x] = true
			out = append(out, x)
		}
	}
	return out
}

const goneRule = "1..12 rounds against a process-lifetime daemon on the real scheduler: a fresh face sends 1..3 signed rib/register commands (route towards itself, or towards a second fresh face it names) and its transport closes after 0..20 processor yields, so that the face's teardown races the command's way to the management thread; once the face has left the face table and a later command has been answered, neither RIB nor FIB may hold anything towards the departed face. Built with -race. Non-trivial: >= 2 rounds; distinct by case hash"

func TestC16MgmtFaceGone(t *testing.T) {
	rec := evid.New("C16", "TestC16MgmtFaceGone", "name-tree FIB; "+goneRule)
	evid.Check(t, rec, genGoneCase, execGoneFor("nametree"))
}
func TestC16MgmtFaceGoneReplay(t *testing.T) {
	evid.Replay(t, "TestC16MgmtFaceGone", execGoneFor("nametree"))
}
func TestC16MgmtFaceGoneHT(t *testing.T) {
	rec := evid.New("C16", "TestC16MgmtFaceGoneHT", "hash-table FIB; "+goneRule)
	evid.Check(t, rec, genGoneCase, execGoneFor("hashtable"))
}
func TestC16MgmtFaceGoneHTReplay(t *testing.T) {
	evid.Replay(t, "TestC16MgmtFaceGoneHT", execGoneFor("hashtable"))
}

func TestC16MgmtFaceGoneRegress(t *testing.T) {
	evid.Regress(t, "C16", "TestC16MgmtFaceGone", execGoneFor("nametree"))
}
func TestC16MgmtFaceGoneHTRegress(t *testing.T) {
	evid.Regress(t, "C16", "TestC16MgmtFaceGoneHT", execGoneFor("hashtable"))
}
