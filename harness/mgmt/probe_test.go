package mgmt

import (
	"testing"
	"fmt"

	enc "github.com/named-data/ndnd/std/encoding"
	mgmt "github.com/named-data/ndnd/std/ndn/mgmt_2022"
)

func TestProbeEmptyName(t *testing.T) {
	p := mgmt.ControlParameters{Val: &mgmt.ControlArgs{Name: enc.Name{}}}
	b := p.Bytes()
	fmt.Printf("%x\n", b)
	q, err := mgmt.ParseControlParameters(enc.NewBufferReader(b), true)
	fmt.Println(err, q.Val.Name == nil, len(q.Val.Name))
	p = mgmt.ControlParameters{Val: &mgmt.ControlArgs{}}
	b = p.Bytes()
	fmt.Printf("%x\n", b)
	q, err = mgmt.ParseControlParameters(enc.NewBufferReader(b), true)
	fmt.Println(err, q.Val.Name == nil, len(q.Val.Name))
	q, err = mgmt.ParseControlParameters(enc.NewBufferReader([]byte{}), true)
	fmt.Println(err, q, q != nil && q.Val == nil)
	q, err = mgmt.ParseControlParameters(enc.NewBufferReader([]byte{0x68, 0x02, 0x07, 0x00}), true)
	fmt.Println(err, q.Val.Name == nil, len(q.Val.Name))
	var nn enc.Name
	fmt.Println(nn.Clone() == nil, enc.Name{}.Clone() == nil)
}
