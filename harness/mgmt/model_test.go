package mgmt

import (
	"fmt"
	"strings"

	enc "github.com/named-data/ndnd/std/encoding"
	mgmt "github.com/named-data/ndnd/std/ndn/mgmt_2022"

	"verif/harness/internal/evid"
)

// ---------------------------------------------------------------------------- reference tables
//
// Written from the statement of C17 and the NFD management protocol it refers to (command
// defaults, status codes), not from fw/mgmt.

type routeKey struct {
	name   string
	face   uint64
	origin uint64
}

type routeVal struct {
	cost, flags uint64
	exp         *uint64 // ms
}

func (v routeVal) String() string {
	if v.exp != nil {
		return fmt.Sprintf("cost=%d flags=%d exp=%d", v.cost, v.flags, *v.exp)
	}
	return fmt.Sprintf("cost=%d flags=%d", v.cost, v.flags)
}

// sameRoute: a is what the daemon lists, b the reference. A route registered with an expiration period
// must be listed with one, and without one if it has none; the value listed may be the period as
// registered (this RIB) or what is left of it (NFD's rib/list): anything up to the registered period.
func sameRoute(a, b routeVal) bool {
	if a.cost != b.cost || a.flags != b.flags || (a.exp == nil) != (b.exp == nil) {
		return false
	}
	return a.exp == nil || *a.exp <= *b.exp
}

type faceState struct {
	live        bool // in the face table
	mtu         int
	pers        uint64
	localFields bool
	congMark    bool
	bci         uint64 // ns
	dct         uint64
}

type model struct {
	localhop   bool
	ids        [nAppFaces]uint64
	nullID     uint64
	internalID uint64

	rib      map[routeKey]routeVal
	ribMaybe map[routeKey]bool // routes of destroyed faces: may or may not have been cleaned up
	fib      map[string]map[uint64]uint64
	fibMaybe map[string]map[uint64]bool // direct next hops towards destroyed faces
	strat    map[string]string
	capacity uint64
	faces    [nAppFaces]faceState
}

const defaultStrategy = strategyPrefix + "/best-route/v=1"

func newModel(r *rig) *model {
	m := &model{localhop: r.cfg.Localhop, nullID: r.nullID, internalID: r.internalID,
		rib: map[routeKey]routeVal{}, ribMaybe: map[routeKey]bool{},
		fib: map[string]map[uint64]uint64{}, fibMaybe: map[string]map[uint64]bool{},
		strat: map[string]string{"/": defaultStrategy}, capacity: uint64(r.cfg.CsCap)}
	for i, f := range r.faces {
		m.ids[i] = f.id
		m.faces[i] = faceState{live: true, mtu: 8800, pers: uint64(f.spec.pers), bci: 100000000, dct: 65536}
	}
	return m
}

// faceIndex returns the application face with that id, or -1.
func (m *model) faceIndex(id uint64) int {
	for i, x := range m.ids {
		if x == id {
			return i
		}
	}
	return -1
}

// faceExists: is id in the face table according to the reference?
func (m *model) faceExists(id uint64) bool {
	if id == m.nullID || id == m.internalID {
		return true
	}
	if i := m.faceIndex(id); i >= 0 {
		return m.faces[i].live
	}
	return false
}

const nxFace = uint64(4242)

// resolveFid turns the symbolic FaceId of a case into the number put on the wire.
func (m *model) resolveFid(s string, arrival int) (id uint64, present bool) {
	switch s {
	case "":
		return 0, false
	case "0":
		return 0, true
	case "own":
		return m.ids[arrival], true
	case "int":
		return m.internalID, true
	case "null":
		return m.nullID, true
	case "nx":
		return nxFace, true
	case "max":
		return 1<<64 - 1, true
	}
	var k int
	fmt.Sscanf(s, "f%d", &k)
	return m.ids[k], true
}

// ---------------------------------------------------------------------------- expectations

type expKind int

const (
	expNoEffect expKind = iota // not authorised / unknown: no table change; any non-200 answer or silence
	expOK                      // must be answered 200 and have exactly the effect
	expBad                     // must be answered 4xx, no table change
	expEither                  // statement silent: 200 + effect, or 4xx + no change
	expDataset                 // a dataset must come back and list the tables
	expIgnore                  // no requirement on the answer; no table change
)

type expectation struct {
	kind  expKind
	class string
	// apply performs the reference effect (expOK / expEither answered 200).
	apply func()
	// echo checks the parameters echoed in a 200 response.
	echo func(a *mgmt.ControlArgs) error
	// optionalResponse: the answer cannot reach the requester (it destroyed its own face)
	optionalResponse bool
	// probeFace >= 0: after an accepted command send a packet out of that face
	probeFace int
	// probeName != "": after an accepted command send an Interest under that name
	probeName string
	// known: the tolerance of a listed known finding was applied
	known bool
	// skip: the command must not be executed by the harness at all
	skip bool
}

// knownOverrun names the known finding "nested TLV whose length overruns its container is
// decoded as an empty structure" (std/encoding Delegate), as far as it shows through C17.
const knownOverrun = "params-length-overrun-decoded-as-empty"

// knownBigDataset names the known finding "a status dataset whose encoding does not fit one
// Data packet is never answered": makeStatusDataset publishes a single segment (its size test
// counts buffers, not bytes), the over-long Data is dropped on its way out, and Interests for
// further segments are ignored by every module.
const knownBigDataset = "status-dataset-larger-than-one-packet"

// strictOverrun switches the tolerance of that known finding off (used by the unit that
// re-confirms the finding).
var strictOverrun bool

// outerOverrun reports whether b starts with a ControlParameters TLV header whose length
// runs past the end of b.
func outerOverrun(b []byte) bool {
	if len(b) < 2 || b[0] != 0x68 {
		return false
	}
	var l uint64
	var hdr int
	switch {
	case b[1] <= 0xfc:
		l, hdr = uint64(b[1]), 2
	case b[1] == 0xfd:
		if len(b) < 4 {
			return false
		}
		l, hdr = uint64(b[2])<<8|uint64(b[3]), 4
	case b[1] == 0xfe:
		if len(b) < 6 {
			return false
		}
		l, hdr = uint64(b[2])<<24|uint64(b[3])<<16|uint64(b[4])<<8|uint64(b[5]), 6
	default:
		if len(b) < 10 {
			return false
		}
		for _, x := range b[2:10] {
			l = l<<8 | uint64(x)
		}
		hdr = 10
	}
	return l > uint64(len(b)-hdr)
}

var controlVerbs = map[string]bool{
	"rib/register": true, "rib/unregister": true, "fib/add-nexthop": true, "fib/remove-nexthop": true,
	"strategy-choice/set": true, "strategy-choice/unset": true, "cs/config": true,
	"faces/create": true, "faces/update": true, "faces/destroy": true,
}

var datasetVerbs = map[string]bool{
	"rib/list": true, "fib/list": true, "strategy-choice/list": true, "cs/info": true, "faces/list": true,
	"status/general": true,
}

func hasExtra(op Op) bool {
	p := op.P
	mv := op.Mod + "/" + op.Verb
	used := func(fields ...string) map[string]bool {
		s := map[string]bool{}
		for _, f := range fields {
			s[f] = true
		}
		return s
	}
	var u map[string]bool
	switch mv {
	case "rib/register":
		u = used("n", "fid", "org", "cost", "fl", "exp")
	case "rib/unregister":
		u = used("n", "fid", "org")
	case "fib/add-nexthop":
		u = used("n", "fid", "cost")
	case "fib/remove-nexthop":
		u = used("n", "fid")
	case "strategy-choice/set":
		u = used("n", "st")
	case "strategy-choice/unset":
		u = used("n")
	case "cs/config":
		u = used("cap", "fl", "mk")
	case "faces/update":
		u = used("fid", "pers", "bci", "dct", "mtu", "fl", "mk")
	case "faces/destroy":
		u = used("fid")
	case "faces/create":
		u = used("uri", "luri", "pers", "bci", "dct", "mtu", "fl", "mk")
	default:
		return false
	}
	present := map[string]bool{"n": p.Name != nil, "fid": p.Fid != "", "uri": p.Uri != nil, "luri": p.LUri != nil,
		"org": p.Org != nil, "cost": p.Cost != nil, "cap": p.Cap != nil, "cnt": p.Cnt != nil, "fl": p.Flags != nil,
		"mk": p.Mask != nil, "st": p.Strat != nil, "exp": p.Exp != nil, "pers": p.Pers != nil, "bci": p.BCI != nil,
		"dct": p.DCT != nil, "mtu": p.Mtu != nil}
	for f, is := range present {
		if is && !u[f] {
			return true
		}
	}
	return false
}

func isPrefixStr(p, n string) bool {
	if p == "/" {
		return true
	}
	return n == p || strings.HasPrefix(n, p+"/")
}

func nameEq(n enc.Name, uri string) bool {
	return n != nil && n.String() == mkName(uri).String()
}

func mkName(s string) enc.Name {
	n, err := enc.NameFromStr(s)
	if err != nil {
		panic(fmt.Sprintf("bad name %q: %v", s, err))
	}
	return n
}

func u64eq(p *uint64, v uint64) bool { return p != nil && *p == v }

// minUsableMTU: an MTU below this cannot carry a single byte of payload on a fragmenting
// NDNLPv2 link even in the most favourable case (LpPacket header 4 + Sequence 10 +
// FragIndex/FragCount 8 = 22), so "an MTU too small to carry a packet" certainly covers it.
// NFD's documented minimum is 64; between the two the statement is silent.
const (
	mustRefuseMTUBelow = 23
	mustAcceptMTUFrom  = 64
)

// expect classifies a command against the reference state (before the command).
func (m *model) expect(op Op, arrivalScopeLocal bool) expectation {
	e := expectation{probeFace: -1}
	mv := op.Mod + "/" + op.Verb
	noeffect := func(class string) expectation {
		return expectation{kind: expNoEffect, class: class, probeFace: -1}
	}
	// --- authorisation: only the local prefix from a local face; RIB commands also under the
	// link-local prefix when that is enabled
	if !m.faces[op.Face].live {
		return noeffect("noauth:arrival-face-destroyed")
	}
	switch op.Pfx {
	case pfxLocal:
		if !arrivalScopeLocal {
			return noeffect("noauth:localhost-from-nonlocal-face")
		}
	case pfxLocalhop:
		if !m.localhop {
			return noeffect("noauth:localhop-disabled")
		}
		if op.Mod != "rib" {
			return noeffect("noauth:localhop-non-rib")
		}
	default:
		return noeffect("noauth:other-prefix")
	}
	// --- datasets
	if op.Form == "ds" {
		if datasetVerbs[mv] {
			return expectation{kind: expDataset, class: "dataset:" + mv, probeFace: -1}
		}
		return noeffect("unknown:" + mv)
	}
	if op.Form == "dsx" {
		return expectation{kind: expIgnore, class: "dataset-with-extra-components", probeFace: -1}
	}
	if mv == "faces/query" {
		return expectation{kind: expIgnore, class: "faces/query", probeFace: -1}
	}
	if op.Form == "announce" {
		return noeffect("unknown:rib/announce-with-application-parameters")
	}
	if !controlVerbs[mv] {
		return noeffect("unknown:verb-or-module")
	}
	// --- parameters present and decodable
	switch op.Form {
	case "noparam":
		e.kind, e.class = expBad, "bad:no-parameters:"+mv
		return e
	case "garbage", "empty", "wrongtlv", "trunc":
		if op.overrun && !strictOverrun && evid.Known("C17", knownOverrun) {
			// known finding (std/encoding): a ControlParameters TLV whose length overruns the
			// component is decoded as an empty parameter block instead of being rejected.
			// Exactly that signature is tolerated: such a command may also be handled as the
			// same command with no parameters at all.
			inner := m.expect(Op{Face: op.Face, Pfx: op.Pfx, Mod: op.Mod, Verb: op.Verb, Form: "plain"}, arrivalScopeLocal)
			if inner.kind == expOK || inner.kind == expEither {
				inner.kind, inner.class = expEither, "known:overrunning-parameters-handled-as-empty"
				inner.known = true
				return inner
			}
		}
		e.kind, e.class = expBad, "bad:undecodable-parameters("+op.Form+")"
		return e
	}
	p := op.P
	arrivalID := m.ids[op.Face]
	fid, fidPresent := m.resolveFid(p.Fid, op.Face)
	target := arrivalID // default: the requesting face
	if fidPresent && fid != 0 {
		target = fid
	}
	bad := func(class string) expectation {
		return expectation{kind: expBad, class: "bad:" + class, probeFace: -1}
	}
	ok := func(class string) {
		e.kind, e.class = expOK, "ok:"+class
		if hasExtra(op) {
			// NFD refuses fields a command does not define; the statement does not say
			e.kind, e.class = expEither, "either:extra-field:"+mv
		}
	}
	either := func(class string) {
		e.kind, e.class = expEither, "either:"+class
	}

	switch mv {
	case "rib/register":
		if p.Name == nil {
			return bad("missing-name:" + mv)
		}
		if !m.faceExists(target) {
			return bad("face-does-not-exist:" + mv)
		}
		key := routeKey{*p.Name, target, 0}
		if p.Org != nil {
			key.origin = *p.Org
		}
		val := routeVal{cost: 0, flags: 1, exp: p.Exp}
		if p.Cost != nil {
			val.cost = *p.Cost
		}
		if p.Flags != nil {
			val.flags = *p.Flags
		}
		ok(mv)
		e.apply = func() { m.rib[key] = val; delete(m.ribMaybe, key) }
		e.echo = func(a *mgmt.ControlArgs) error {
			if !nameEq(a.Name, key.name) || !u64eq(a.FaceId, key.face) || !u64eq(a.Origin, key.origin) ||
				!u64eq(a.Cost, val.cost) || !u64eq(a.Flags, val.flags) {
				return fmt.Errorf("echo %v, want Name=%s FaceId=%d Origin=%d Cost=%d Flags=%d", a.ToDict(), key.name, key.face, key.origin, val.cost, val.flags)
			}
			if val.exp != nil && !u64eq(a.ExpirationPeriod, *val.exp) {
				return fmt.Errorf("echo %v lacks ExpirationPeriod=%d", a.ToDict(), *val.exp)
			}
			return nil
		}
	case "rib/unregister":
		if p.Name == nil {
			return bad("missing-name:" + mv)
		}
		key := routeKey{*p.Name, target, 0}
		if p.Org != nil {
			key.origin = *p.Org
		}
		ok(mv)
		if !m.faceExists(target) {
			either("unregister-on-nonexistent-face")
		}
		e.apply = func() { delete(m.rib, key); delete(m.ribMaybe, key) }
		e.echo = func(a *mgmt.ControlArgs) error {
			if !nameEq(a.Name, key.name) || !u64eq(a.FaceId, key.face) || !u64eq(a.Origin, key.origin) {
				return fmt.Errorf("echo %v, want Name=%s FaceId=%d Origin=%d", a.ToDict(), key.name, key.face, key.origin)
			}
			return nil
		}
	case "fib/add-nexthop":
		if p.Name == nil {
			return bad("missing-name:" + mv)
		}
		if !m.faceExists(target) {
			return bad("face-does-not-exist:" + mv)
		}
		cost := uint64(0)
		if p.Cost != nil {
			cost = *p.Cost
		}
		name := *p.Name
		ok(mv)
		e.apply = func() {
			if m.fib[name] == nil {
				m.fib[name] = map[uint64]uint64{}
			}
			m.fib[name][target] = cost
			if m.fibMaybe[name] != nil {
				delete(m.fibMaybe[name], target)
			}
		}
		e.echo = func(a *mgmt.ControlArgs) error {
			if !nameEq(a.Name, name) || !u64eq(a.FaceId, target) || !u64eq(a.Cost, cost) {
				return fmt.Errorf("echo %v, want Name=%s FaceId=%d Cost=%d", a.ToDict(), name, target, cost)
			}
			return nil
		}
	case "fib/remove-nexthop":
		if p.Name == nil {
			return bad("missing-name:" + mv)
		}
		name := *p.Name
		ok(mv)
		if !m.faceExists(target) {
			either("remove-nexthop-on-nonexistent-face")
		}
		e.apply = func() {
			if h := m.fib[name]; h != nil {
				delete(h, target)
				if len(h) == 0 {
					delete(m.fib, name)
				}
			}
			if h := m.fibMaybe[name]; h != nil {
				delete(h, target)
			}
		}
		e.echo = func(a *mgmt.ControlArgs) error {
			if !nameEq(a.Name, name) || !u64eq(a.FaceId, target) {
				return fmt.Errorf("echo %v, want Name=%s FaceId=%d", a.ToDict(), name, target)
			}
			return nil
		}
	case "strategy-choice/set":
		if p.Name == nil {
			return bad("missing-name:" + mv)
		}
		if p.Strat == nil {
			return bad("missing-strategy")
		}
		name := *p.Name
		sc := comps(*p.Strat)
		pc := comps(strategyPrefix)
		if len(sc) < len(pc) || join(sc[:len(pc)]) != strategyPrefix {
			return bad("strategy-outside-strategy-prefix")
		}
		if len(sc) == len(pc) {
			return bad("strategy-name-lacks-strategy-component")
		}
		sname := sc[len(pc)]
		if sname != "best-route" && sname != "multicast" {
			return bad("unknown-strategy")
		}
		canonical := strategyPrefix + "/" + sname + "/v=1"
		nonMinimal := false
		if len(sc) > len(pc)+1 {
			switch sc[len(pc)+1] {
			case "v=1":
			case "54=%00%01", "54=%00%00%00%01":
				// version 1 written with more bytes than needed: refusing it is fine, and so is
				// accepting it as version 1 -- the choice then in force must be the registered
				// strategy (dataset, echo and the probe below judge that)
				nonMinimal = true
			default:
				return bad("unknown-or-malformed-strategy-version")
			}
		}
		ok(mv)
		if nonMinimal {
			either("strategy-version-in-non-minimal-encoding")
		}
		if len(sc) > len(pc)+2 {
			// NFD treats further components as strategy parameters, which a strategy may refuse
			either("strategy-name-with-parameters")
		}
		e.probeName = name
		e.apply = func() { m.strat[name] = canonical }
		e.echo = func(a *mgmt.ControlArgs) error {
			if !nameEq(a.Name, name) || a.Strategy == nil || !nameEq(a.Strategy.Name, canonical) {
				return fmt.Errorf("echo %v, want Name=%s Strategy=%s", a.ToDict(), name, canonical)
			}
			return nil
		}
	case "strategy-choice/unset":
		if p.Name == nil {
			return bad("missing-name:" + mv)
		}
		name := *p.Name
		if name == "/" {
			return bad("unset-root-strategy")
		}
		ok(mv)
		e.probeName = name
		e.apply = func() { delete(m.strat, name) }
		e.echo = func(a *mgmt.ControlArgs) error {
			if !nameEq(a.Name, name) {
				return fmt.Errorf("echo %v, want Name=%s", a.ToDict(), name)
			}
			return nil
		}
	case "cs/config":
		if (p.Flags == nil) != (p.Mask == nil) {
			return bad("flags-without-mask")
		}
		ok(mv)
		if p.Cap != nil && *p.Cap > 1<<63-1 {
			either("capacity-not-representable")
		}
		e.apply = func() {
			if p.Cap != nil {
				m.capacity = *p.Cap
			}
		}
		e.echo = func(a *mgmt.ControlArgs) error {
			if p.Cap != nil && !u64eq(a.Capacity, *p.Cap) {
				return fmt.Errorf("echo %v, want Capacity=%d", a.ToDict(), *p.Cap)
			}
			return nil
		}
	case "faces/update":
		if !m.faceExists(target) {
			return bad("face-does-not-exist:" + mv)
		}
		if target == m.nullID || target == m.internalID {
			return bad("reserved-face-cannot-be-updated")
		}
		k := m.faceIndex(target)
		spec := faceSpecs[k]
		_ = spec
		if (p.Flags == nil) != (p.Mask == nil) {
			return bad("flags-without-mask")
		}
		ok(mv)
		if p.Pers != nil && *p.Pers != m.faces[k].pers {
			// which transitions a transport permits (and whether 7 is a persistency at all)
			// is not part of the statement
			either("persistency-change")
		}
		if p.Mtu != nil {
			switch {
			case *p.Mtu < mustRefuseMTUBelow:
				return bad("mtu-too-small-to-carry-a-packet")
			case *p.Mtu < mustAcceptMTUFrom:
				either("mtu-between-22-and-64")
			}
		}
		if p.Flags != nil && *p.Mask&1 != 0 && *p.Flags&1 != 0 && spec.scope != 1 {
			// NFD refuses local fields on a non-local face
			either("local-fields-on-nonlocal-face")
		}
		e.probeFace = k
		e.apply = func() {
			f := &m.faces[k]
			if p.Pers != nil {
				f.pers = *p.Pers
			}
			if p.Mtu != nil {
				f.mtu = 8800
				if *p.Mtu < 8800 {
					f.mtu = int(*p.Mtu)
				}
			}
			if p.BCI != nil {
				f.bci = *p.BCI
			}
			if p.DCT != nil {
				f.dct = *p.DCT
			}
			if p.Flags != nil {
				if *p.Mask&1 != 0 {
					f.localFields = *p.Flags&1 != 0
				}
				if *p.Mask&4 != 0 {
					f.congMark = *p.Flags&4 != 0
				}
			}
		}
		e.echo = func(a *mgmt.ControlArgs) error {
			if !u64eq(a.FaceId, target) {
				return fmt.Errorf("echo %v, want FaceId=%d", a.ToDict(), target)
			}
			if p.Mtu != nil {
				want := uint64(8800)
				if *p.Mtu < 8800 {
					want = *p.Mtu
				}
				if !u64eq(a.Mtu, want) {
					return fmt.Errorf("echo %v, want Mtu=%d", a.ToDict(), want)
				}
			}
			return nil
		}
	case "faces/destroy":
		if !fidPresent {
			return bad("missing-face-id")
		}
		k := m.faceIndex(fid)
		if k < 0 || !m.faces[k].live {
			// NFD answers 200 for a face that is already gone
			e.kind, e.class = expEither, "either:destroy-nonexistent-face"
			e.apply = func() {}
			e.echo = func(a *mgmt.ControlArgs) error { return nil }
			return e
		}
		ok(mv)
		e.optionalResponse = k == op.Face
		e.apply = func() {
			m.faces[k].live = false
			for key := range m.rib {
				if key.face == fid {
					delete(m.rib, key)
					m.ribMaybe[key] = true
				}
			}
			for name, h := range m.fib {
				if _, has := h[fid]; has {
					delete(h, fid)
					if m.fibMaybe[name] == nil {
						m.fibMaybe[name] = map[uint64]bool{}
					}
					m.fibMaybe[name][fid] = true
					if len(h) == 0 {
						delete(m.fib, name)
					}
				}
			}
		}
		e.echo = func(a *mgmt.ControlArgs) error {
			if !u64eq(a.FaceId, fid) {
				return fmt.Errorf("echo %v, want FaceId=%d", a.ToDict(), fid)
			}
			return nil
		}
	case "faces/create":
		// the generator only issues requests that must be refused (see genOp)
		cl := createClass(p)
		if cl == "uri" {
			for i, fs := range faceSpecs {
				if fs.remote != *p.Uri {
					continue
				}
				if !m.faces[i].live {
					// would succeed and open a real socket inside the bubble: never executed
					return expectation{kind: expIgnore, class: "skipped:create-would-open-a-socket", probeFace: -1, skip: true}
				}
				cl = "conflicts-with-existing-face"
			}
		}
		return bad("create-refused:" + cl)
	}
	return e
}

func createClass(p P) string {
	switch {
	case p.Uri == nil:
		return "missing-uri"
	case (p.Flags == nil) != (p.Mask == nil):
		return "flags-without-mask"
	case p.Pers != nil:
		return "persistency"
	case p.Mtu != nil && *p.Mtu < mustRefuseMTUBelow:
		return "mtu-too-small"
	}
	return "uri"
}

func comps(s string) []string {
	if s == "/" || s == "" {
		return nil
	}
	return strings.Split(strings.TrimPrefix(s, "/"), "/")
}

func join(c []string) string {
	if len(c) == 0 {
		return "/"
	}
	return "/" + strings.Join(c, "/")
}
