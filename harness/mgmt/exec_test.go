package mgmt

import (
	"bytes"
	"encoding/json"
	"fmt"
	"os"
	"path/filepath"
	"sort"
	"strings"
	"testing"
	"testing/synctest"
	"time"

	"github.com/named-data/ndnd/fw/defn"
	"github.com/named-data/ndnd/fw/dispatch"
	"github.com/named-data/ndnd/fw/face"
	"github.com/named-data/ndnd/fw/table"
	enc "github.com/named-data/ndnd/std/encoding"
	basic "github.com/named-data/ndnd/std/engine/basic"
	"github.com/named-data/ndnd/std/ndn"
	mgmt "github.com/named-data/ndnd/std/ndn/mgmt_2022"
	spec "github.com/named-data/ndnd/std/ndn/spec_2022"
	sec "github.com/named-data/ndnd/std/security"
	"github.com/named-data/ndnd/std/utils"

	"verif/harness/internal/evid"
)

// ---------------------------------------------------------------------------- building Interests

type executor struct {
	r        *rig
	m        *model
	signer   ndn.Signer
	nonce    uint64
	classes  map[string]bool
	counts   map[string]int
	nOK      int // accepted state-changing commands
	nNoAuth  int // commands refused for authorisation
	nBad     int // commands refused for their parameters (4xx)
	csBefore int // CS entries over all threads just before the current Interest was sent
}

func (x *executor) class(c string) { x.classes[c] = true }

func (x *executor) args(op Op) *mgmt.ControlArgs {
	p := op.P
	a := &mgmt.ControlArgs{Uri: p.Uri, LocalUri: p.LUri, Origin: p.Org, Cost: p.Cost, Capacity: p.Cap, Count: p.Cnt,
		Flags: p.Flags, Mask: p.Mask, ExpirationPeriod: p.Exp, FacePersistency: p.Pers,
		BaseCongestionMarkInterval: p.BCI, DefaultCongestionThreshold: p.DCT, Mtu: p.Mtu}
	if p.Name != nil {
		a.Name = mkName(*p.Name)
		if a.Name == nil {
			a.Name = enc.Name{}
		}
	}
	if id, present := x.m.resolveFid(p.Fid, op.Face); present {
		a.FaceId = utils.IdPtr(id)
	}
	if p.Strat != nil {
		sn := mkName(*p.Strat)
		if sn == nil {
			sn = enc.Name{}
		}
		a.Strategy = &mgmt.Strategy{Name: sn}
	}
	return a
}

// build encodes the Interest of op. match is the name the answer must carry (exactly for
// commands, as a prefix for datasets).
func (x *executor) build(op Op, idx int) (wire []byte, match enc.Name, comp []byte, err error) {
	x.nonce++
	icfg := &ndn.InterestConfig{Lifetime: utils.IdPtr(time.Second), Nonce: utils.IdPtr(0x5eed0000 + x.nonce), MustBeFresh: op.Fresh}
	if op.Hint != "" {
		icfg.ForwardingHint = []enc.Name{mkName(op.Hint)}
	}
	name := mkName(op.Pfx)
	name = append(name.Clone(), enc.NewStringComponent(enc.TypeGenericNameComponent, op.Mod),
		enc.NewStringComponent(enc.TypeGenericNameComponent, op.Verb))
	uniq := enc.NewStringComponent(enc.TypeGenericNameComponent, fmt.Sprintf("u%d", idx))
	var it *ndn.EncodedInterest
	switch op.Form {
	case "ds", "dsx":
		icfg.CanBePrefix, icfg.MustBeFresh = true, true
		match = name.Clone()
		if op.Form == "dsx" {
			name = append(name, enc.NewVersionComponent(0))
		}
		it, err = spec.Spec{}.MakeInterest(name, icfg, nil, nil)
	case "signed":
		if op.Pfx == pfxLocal || op.Pfx == pfxLocalhop {
			// exactly what std/engine/basic's ExecMgmtCmd does
			it, err = mgmt.NewConfig(op.Pfx == pfxLocal, x.signer, spec.Spec{}).MakeCmd(op.Mod, op.Verb, x.args(op), icfg)
		} else {
			pc := mgmt.ControlParameters{Val: x.args(op)}
			name = append(name, enc.NewBytesComponent(enc.TypeGenericNameComponent, pc.Bytes()))
			it, err = spec.Spec{}.MakeInterest(name, icfg, enc.Wire{}, x.signer)
		}
	case "noparam":
		it, err = spec.Spec{}.MakeInterest(name, icfg, nil, nil)
	case "announce":
		it, err = spec.Spec{}.MakeInterest(name, icfg, enc.Wire{op.Raw}, x.signer)
	default:
		var val []byte
		pc := mgmt.ControlParameters{Val: x.args(op)}
		switch op.Form {
		case "plain":
			val = pc.Bytes()
		case "garbage":
			val = op.Raw
		case "empty":
			val = []byte{}
		case "wrongtlv":
			val = pc.Bytes()
			val[0] = 0x65 // ControlResponse instead of ControlParameters
		case "trunc":
			val = pc.Bytes()
			if len(val) > 2 {
				val = val[:len(val)-1-len(val)/3]
			} else {
				val = val[:1]
			}
		default:
			return nil, nil, nil, fmt.Errorf("unknown form %q", op.Form)
		}
		comp = val
		name = append(name, enc.NewBytesComponent(enc.TypeGenericNameComponent, val), uniq)
		it, err = spec.Spec{}.MakeInterest(name, icfg, nil, nil)
	}
	if err != nil {
		return nil, nil, nil, err
	}
	if match == nil {
		match = it.FinalName
	}
	wire = it.Wire.Join()
	if op.Lp {
		pkt := &spec.Packet{LpPacket: &spec.LpPacket{PitToken: []byte{0xaa, byte(idx), 0xcc, 0xdd}, Fragment: enc.Wire{wire}}}
		e := spec.PacketEncoder{}
		e.Init(pkt)
		wire = e.Encode(pkt).Join()
	}
	return wire, match, comp, nil
}

// ---------------------------------------------------------------------------- answers

type answer struct {
	got    bool
	data   *spec.Data
	status int64 // ControlResponse status; -1: the Data does not carry a ControlResponse
	text   string
	params *mgmt.ControlArgs
}

func (a answer) String() string {
	if !a.got {
		return "silence"
	}
	if a.status < 0 {
		return "a Data that is not a ControlResponse"
	}
	return fmt.Sprintf("%d %q", a.status, a.text)
}

// collect finds the answer to the Interest in what face i emitted.
func (x *executor) collect(i int, match enc.Name, dataset bool) (answer, error) {
	pk, err := x.r.drain(i)
	if err != nil {
		return answer{}, err
	}
	var a answer
	for _, p := range pk {
		d := p.pkt.Data
		if d == nil {
			continue
		}
		n := d.Name()
		if dataset {
			if !match.IsPrefix(n) || len(n) != len(match)+2 {
				continue
			}
		} else if !n.Equal(match) {
			continue
		}
		if a.got {
			return a, fmt.Errorf("two Data packets answer one Interest (%s)", match)
		}
		a.got, a.data, a.status = true, d, -1
		if !dataset {
			cr, err := mgmt.ParseControlResponse(enc.NewWireReader(d.Content()), true)
			if err == nil && cr != nil && cr.Val != nil {
				a.status, a.text, a.params = int64(cr.Val.StatusCode), cr.Val.StatusText, cr.Val.Params
				if a.params == nil {
					a.params = &mgmt.ControlArgs{}
				}
			}
		}
	}
	return a, nil
}

// ---------------------------------------------------------------------------- tables vs reference

type ribObs map[routeKey]routeVal

func observeRib() (ribObs, error) {
	obs := ribObs{}
	seen := map[string]bool{}
	for _, e := range table.Rib.GetAllEntries() {
		name := e.Name.String()
		if seen[name] {
			return nil, fmt.Errorf("RIB lists the entry %s twice", name)
		}
		seen[name] = true
		for _, rt := range e.GetRoutes() {
			k := routeKey{name, rt.FaceID, rt.Origin}
			if _, dup := obs[k]; dup {
				return nil, fmt.Errorf("RIB entry %s has two routes for face %d origin %d", name, rt.FaceID, rt.Origin)
			}
			v := routeVal{cost: rt.Cost, flags: rt.Flags}
			if rt.ExpirationPeriod != nil {
				v.exp = up(uint64(*rt.ExpirationPeriod / time.Millisecond))
			}
			obs[k] = v
		}
	}
	return obs, nil
}

type fibObs map[string]map[uint64]uint64

func observeFib() (fibObs, error) {
	obs := fibObs{}
	for _, e := range table.FibStrategyTable.GetAllFIBEntries() {
		name := e.Name().String()
		if _, dup := obs[name]; dup {
			return nil, fmt.Errorf("FIB lists the entry %s twice", name)
		}
		h := map[uint64]uint64{}
		for _, nh := range e.GetNextHops() {
			if _, dup := h[nh.Nexthop]; dup {
				return nil, fmt.Errorf("FIB entry %s lists face %d twice", name, nh.Nexthop)
			}
			h[nh.Nexthop] = nh.Cost
		}
		obs[name] = h
	}
	return obs, nil
}

func observeStrategies() (map[string]string, error) {
	obs := map[string]string{}
	for _, e := range table.FibStrategyTable.GetAllForwardingStrategies() {
		name := e.Name().String()
		if _, dup := obs[name]; dup {
			return nil, fmt.Errorf("strategy table lists %s twice", name)
		}
		obs[name] = e.GetStrategy().String()
	}
	return obs, nil
}

func hopsStr(h map[uint64]uint64) string {
	fs := make([]uint64, 0, len(h))
	for f := range h {
		fs = append(fs, f)
	}
	sort.Slice(fs, func(i, j int) bool { return fs[i] < fs[j] })
	var sb strings.Builder
	for _, f := range fs {
		fmt.Fprintf(&sb, "%d@%d ", f, h[f])
	}
	return "{" + strings.TrimSpace(sb.String()) + "}"
}

func sortedRouteKeys[V any](m map[routeKey]V) []routeKey {
	ks := make([]routeKey, 0, len(m))
	for k := range m {
		ks = append(ks, k)
	}
	sort.Slice(ks, func(i, j int) bool {
		a, b := ks[i], ks[j]
		if a.name != b.name {
			return a.name < b.name
		}
		if a.face != b.face {
			return a.face < b.face
		}
		return a.origin < b.origin
	})
	return ks
}

// compareTables checks the daemon's tables against the reference (required ⊆ observed ⊆
// required ∪ allowed) and lets the reference adopt what was observed where it is undecided.
func (x *executor) compareTables() error {
	m := x.m
	// RIB
	rib, err := observeRib()
	if err != nil {
		return err
	}
	for _, k := range sortedRouteKeys(rib) {
		v := rib[k]
		if want, ok := m.rib[k]; ok {
			if !sameRoute(v, want) {
				return fmt.Errorf("RIB route %s face=%d origin=%d is {%v}, reference {%v}", k.name, k.face, k.origin, v, want)
			}
		} else if !m.ribMaybe[k] {
			return fmt.Errorf("RIB has a route nobody registered: %s face=%d origin=%d {%v}", k.name, k.face, k.origin, v)
		}
	}
	for _, k := range sortedRouteKeys(m.rib) {
		if _, ok := rib[k]; !ok {
			return fmt.Errorf("RIB lacks the registered route %s face=%d origin=%d {%v}", k.name, k.face, k.origin, m.rib[k])
		}
	}
	for k := range m.ribMaybe {
		if _, ok := rib[k]; !ok {
			delete(m.ribMaybe, k)
		}
	}
	// FIB: direct effects of fib/* commands (names under /f), and management's own entries
	fib, err := observeFib()
	if err != nil {
		return err
	}
	for _, name := range sortedKeys(fib) {
		if !isPrefixStr("/f", name) {
			continue
		}
		for f, c := range fib[name] {
			if want, ok := m.fib[name][f]; ok {
				if want != c {
					return fmt.Errorf("FIB %s: next hop %d has cost %d, reference %d", name, f, c, want)
				}
			} else if !m.fibMaybe[name][f] {
				return fmt.Errorf("FIB %s has a next hop nobody added: face %d (entry %s)", name, f, hopsStr(fib[name]))
			}
		}
		if len(fib[name]) == 0 {
			return fmt.Errorf("FIB lists %s without next hops", name)
		}
	}
	for _, name := range sortedKeys(m.fib) {
		for f := range m.fib[name] {
			if _, ok := fib[name][f]; !ok {
				return fmt.Errorf("FIB %s lacks the next hop %d added by fib/add-nexthop (entry %s, reference %s)", name, f, hopsStr(fib[name]), hopsStr(m.fib[name]))
			}
		}
	}
	for name, h := range m.fibMaybe {
		for f := range h {
			if _, ok := fib[name][f]; !ok {
				delete(h, f)
			}
		}
	}
	if _, ok := fib[pfxLocal][m.internalID]; !ok {
		return fmt.Errorf("FIB entry %s no longer points to the management face (%s)", pfxLocal, hopsStr(fib[pfxLocal]))
	}
	if m.localhop {
		if _, ok := fib[pfxLocalhop][m.internalID]; !ok {
			return fmt.Errorf("FIB entry %s no longer points to the management face", pfxLocalhop)
		}
	}
	// strategy choices
	st, err := observeStrategies()
	if err != nil {
		return err
	}
	for _, n := range sortedKeys(st) {
		if want, ok := m.strat[n]; !ok || want != st[n] {
			return fmt.Errorf("strategy table: %s -> %s, reference %q", n, st[n], m.strat[n])
		}
	}
	for _, n := range sortedKeys(m.strat) {
		if _, ok := st[n]; !ok {
			return fmt.Errorf("strategy table lacks %s -> %s", n, m.strat[n])
		}
	}
	// CS capacity
	if got := uint64(table.CsCapacity()); got != m.capacity {
		return fmt.Errorf("CS capacity is %d, reference %d", got, m.capacity)
	}
	// faces
	want := map[uint64]bool{m.nullID: true, m.internalID: true}
	for i := range m.faces {
		if m.faces[i].live {
			want[m.ids[i]] = true
		}
	}
	got := map[uint64]bool{}
	for _, f := range face.FaceTable.GetAll() {
		got[f.FaceID()] = true
		if !want[f.FaceID()] {
			return fmt.Errorf("face table has the unexpected face %d (%s)", f.FaceID(), f.RemoteURI())
		}
	}
	for id := range want {
		if !got[id] {
			return fmt.Errorf("face table lacks face %d", id)
		}
	}
	for i := range m.faces {
		fs := m.faces[i]
		if !fs.live {
			continue
		}
		ls := x.r.faces[i].ls
		o := ls.Options()
		if ls.MTU() != fs.mtu {
			return fmt.Errorf("face %d (#%d): MTU %d, reference %d", m.ids[i], i, ls.MTU(), fs.mtu)
		}
		if uint64(ls.Persistency()) != fs.pers {
			return fmt.Errorf("face %d (#%d): persistency %d, reference %d", m.ids[i], i, ls.Persistency(), fs.pers)
		}
		if o.IsConsumerControlledForwardingEnabled != fs.localFields || o.IsIncomingFaceIndicationEnabled != fs.localFields ||
			o.IsLocalCachePolicyEnabled != fs.localFields {
			return fmt.Errorf("face %d (#%d): local fields %+v, reference %v", m.ids[i], i, o, fs.localFields)
		}
		if o.IsCongestionMarkingEnabled != fs.congMark {
			return fmt.Errorf("face %d (#%d): congestion marking %v, reference %v", m.ids[i], i, o.IsCongestionMarkingEnabled, fs.congMark)
		}
		if uint64(o.BaseCongestionMarkingInterval) != fs.bci || o.DefaultCongestionThresholdBytes != fs.dct {
			return fmt.Errorf("face %d (#%d): congestion parameters %v/%d, reference %d/%d", m.ids[i], i,
				o.BaseCongestionMarkingInterval, o.DefaultCongestionThresholdBytes, fs.bci, fs.dct)
		}
		if o.IsFragmentationEnabled != x.r.faces[i].spec.frag {
			return fmt.Errorf("face %d (#%d): fragmentation setting changed", m.ids[i], i)
		}
	}
	return nil
}

// ---------------------------------------------------------------------------- datasets

func (x *executor) checkDataset(mv string, d *spec.Data, pfx string) error {
	content := d.Content()
	rd := func() enc.ParseReader { return enc.NewWireReader(content) }
	switch mv {
	case "rib/list":
		ds, err := mgmt.ParseRibStatus(rd(), true)
		if err != nil {
			return fmt.Errorf("rib/list does not decode: %v", err)
		}
		got := ribObs{}
		for _, e := range ds.Entries {
			for _, rt := range e.Routes {
				k := routeKey{e.Name.String(), rt.FaceId, rt.Origin}
				if _, dup := got[k]; dup {
					return fmt.Errorf("rib/list lists %v twice", k)
				}
				got[k] = routeVal{cost: rt.Cost, flags: rt.Flags, exp: rt.ExpirationPeriod}
			}
			if len(e.Routes) == 0 {
				return fmt.Errorf("rib/list lists %s without routes", e.Name)
			}
		}
		want, err := observeRib()
		if err != nil {
			return err
		}
		for _, k := range sortedRouteKeys(want) {
			if v, ok := got[k]; !ok || !sameRoute(v, want[k]) {
				return fmt.Errorf("rib/list: route %s face=%d origin=%d {%v} of the RIB is listed as {%v} (listed=%v)", k.name, k.face, k.origin, want[k], v, ok)
			}
		}
		for _, k := range sortedRouteKeys(got) {
			if _, ok := want[k]; !ok {
				return fmt.Errorf("rib/list lists %s face=%d origin=%d which is not in the RIB", k.name, k.face, k.origin)
			}
		}
	case "fib/list":
		ds, err := mgmt.ParseFibStatus(rd(), true)
		if err != nil {
			return fmt.Errorf("fib/list does not decode: %v", err)
		}
		got := fibObs{}
		for _, e := range ds.Entries {
			n := e.Name.String()
			if _, dup := got[n]; dup {
				return fmt.Errorf("fib/list lists %s twice", n)
			}
			h := map[uint64]uint64{}
			for _, r := range e.NextHopRecords {
				if _, dup := h[r.FaceId]; dup {
					return fmt.Errorf("fib/list lists face %d twice under %s", r.FaceId, n)
				}
				h[r.FaceId] = r.Cost
			}
			got[n] = h
		}
		want, err := observeFib()
		if err != nil {
			return err
		}
		for _, n := range sortedKeys(want) {
			if hopsStr(got[n]) != hopsStr(want[n]) || got[n] == nil {
				return fmt.Errorf("fib/list: %s is %s in the FIB, listed as %s", n, hopsStr(want[n]), hopsStr(got[n]))
			}
		}
		for _, n := range sortedKeys(got) {
			if _, ok := want[n]; !ok {
				return fmt.Errorf("fib/list lists %s which is not in the FIB", n)
			}
		}
	case "strategy-choice/list":
		ds, err := mgmt.ParseStrategyChoiceMsg(rd(), true)
		if err != nil {
			return fmt.Errorf("strategy-choice/list does not decode: %v", err)
		}
		got := map[string]string{}
		for _, sc := range ds.StrategyChoices {
			n := sc.Name.String()
			if _, dup := got[n]; dup {
				return fmt.Errorf("strategy-choice/list lists %s twice", n)
			}
			if sc.Strategy == nil {
				return fmt.Errorf("strategy-choice/list: %s without a strategy", n)
			}
			got[n] = sc.Strategy.Name.String()
		}
		for _, n := range sortedKeys(x.m.strat) {
			if got[n] != x.m.strat[n] {
				return fmt.Errorf("strategy-choice/list: %s -> %q, reference %s", n, got[n], x.m.strat[n])
			}
		}
		for _, n := range sortedKeys(got) {
			if _, ok := x.m.strat[n]; !ok {
				return fmt.Errorf("strategy-choice/list lists %s -> %s, not in the reference", n, got[n])
			}
		}
	case "cs/info":
		ds, err := mgmt.ParseCsInfoMsg(rd(), true)
		if err != nil || ds.CsInfo == nil {
			return fmt.Errorf("cs/info does not decode: %v", err)
		}
		if ds.CsInfo.Capacity != x.m.capacity {
			return fmt.Errorf("cs/info reports capacity %d, reference %d", ds.CsInfo.Capacity, x.m.capacity)
		}
		// the count was taken when the dataset was generated, i.e. before the dataset itself was cached
		if ds.CsInfo.NCsEntries != uint64(x.csBefore) {
			return fmt.Errorf("cs/info reports %d entries, the threads held %d when it was asked", ds.CsInfo.NCsEntries, x.csBefore)
		}
	case "faces/list":
		ds, err := mgmt.ParseFaceStatusMsg(rd(), true)
		if err != nil {
			return fmt.Errorf("faces/list does not decode: %v", err)
		}
		got := map[uint64]*mgmt.FaceStatus{}
		for _, v := range ds.Vals {
			if got[v.FaceId] != nil {
				return fmt.Errorf("faces/list lists face %d twice", v.FaceId)
			}
			got[v.FaceId] = v
		}
		all := face.FaceTable.GetAll()
		if len(all) != len(got) {
			return fmt.Errorf("faces/list lists %d faces, the face table has %d", len(got), len(all))
		}
		for _, f := range all {
			v := got[f.FaceID()]
			if v == nil {
				return fmt.Errorf("faces/list lacks face %d", f.FaceID())
			}
			if v.Uri != f.RemoteURI().String() || v.LocalUri != f.LocalURI().String() || v.FaceScope != uint64(f.Scope()) ||
				v.FacePersistency != uint64(f.Persistency()) || v.LinkType != uint64(f.LinkType()) ||
				v.Mtu == nil || *v.Mtu != uint64(f.MTU()) {
				return fmt.Errorf("faces/list: face %d listed as %+v, table has uri=%s local=%s scope=%d pers=%d link=%d mtu=%d",
					f.FaceID(), *v, f.RemoteURI(), f.LocalURI(), f.Scope(), f.Persistency(), f.LinkType(), f.MTU())
			}
			if k := x.m.faceIndex(f.FaceID()); k >= 0 {
				fs := x.m.faces[k]
				if (v.Flags&1 != 0) != fs.localFields || (v.Flags&4 != 0) != fs.congMark || *v.Mtu != uint64(fs.mtu) || v.FacePersistency != fs.pers {
					return fmt.Errorf("faces/list: face %d flags=%d mtu=%d pers=%d, reference %+v", f.FaceID(), v.Flags, *v.Mtu, v.FacePersistency, fs)
				}
				if v.Uri != faceSpecs[k].remote {
					return fmt.Errorf("faces/list: face %d uri %s, reference %s", f.FaceID(), v.Uri, faceSpecs[k].remote)
				}
			}
		}
	case "status/general":
		ds, err := mgmt.ParseGeneralStatus(rd(), true)
		if err != nil {
			return fmt.Errorf("status/general does not decode: %v", err)
		}
		nfib := len(table.FibStrategyTable.GetAllFIBEntries())
		if ds.NfdVersion != "verif-c17" || ds.NFibEntries != uint64(nfib) {
			return fmt.Errorf("status/general: version %q, %d FIB entries; expected verif-c17, %d", ds.NfdVersion, ds.NFibEntries, nfib)
		}
		if ds.StartTimestamp != uint64(x.r.start.UnixMilli()) || ds.CurrentTimestamp != uint64(time.Now().UnixMilli()) {
			return fmt.Errorf("status/general: timestamps %d/%d, expected %d/%d", ds.StartTimestamp, ds.CurrentTimestamp,
				x.r.start.UnixMilli(), time.Now().UnixMilli())
		}
	}
	// the dataset is published under the prefix it was asked for, as version + segment 0, final
	n := d.Name()
	want := mkName(pfx + "/" + mv)
	if !want.IsPrefix(n) || len(n) != len(want)+2 || n[len(n)-2].Typ != enc.TypeVersionNameComponent || n[len(n)-1].Typ != enc.TypeSegmentNameComponent {
		return fmt.Errorf("dataset %s published as %s", mv, n)
	}
	return nil
}

// ---------------------------------------------------------------------------- probes

// probeFace sends one packet out of application face k, as the forwarding thread would,
// and requires that it comes out of the transport intact.
func (x *executor) probeFace(k int, size int, marks bool) error {
	f := x.r.faces[k]
	x.r.faces[k].tr.VerifTakeFrames()
	name := mkName(fmt.Sprintf("/probe/%d", x.nonce))
	x.nonce++
	var wire []byte
	var l3 *spec.Packet
	if size <= 0 {
		it, err := spec.Spec{}.MakeInterest(name, &ndn.InterestConfig{Nonce: utils.IdPtr(x.nonce)}, nil, nil)
		if err != nil {
			return nil
		}
		wire = it.Wire.Join()
	} else {
		d, err := spec.Spec{}.MakeData(name, &ndn.DataConfig{ContentType: utils.IdPtr(ndn.ContentTypeBlob)},
			enc.Wire{bytes.Repeat([]byte{0x5a}, size)}, sec.NewSha256Signer())
		if err != nil {
			return nil
		}
		wire = d.Wire.Join()
	}
	l3, _, err := spec.ReadPacket(enc.NewBufferReader(wire))
	if err != nil {
		return nil
	}
	pkt := &defn.Pkt{Name: name, L3: l3, Raw: wire, IncomingFaceID: utils.IdPtr(x.m.internalID)}
	out := dispatch.OutPkt{Pkt: pkt, InFace: utils.IdPtr(x.m.internalID)}
	if marks {
		tok := []byte{0, 0, 0, 0, 0, 9}
		pkt.PitToken = tok
		pkt.CongestionMark = utils.IdPtr(uint64(1))
		out.PitToken = tok
	}
	f.ls.SendPacket(out)
	synctest.Wait()
	pk, err := x.r.drain(k)
	if err != nil {
		return fmt.Errorf("probe of face #%d (MTU %d): %v", k, f.ls.MTU(), err)
	}
	over := 4
	if marks {
		over += 8 + 12
	}
	if !f.spec.frag && len(wire)+over > f.ls.MTU() {
		// does not fit a link without fragmentation: no requirement
		x.counts["probe-does-not-fit-stream-face"]++
		return nil
	}
	if len(pk) != 1 || !bytes.Equal(pk[0].wire, wire) {
		return fmt.Errorf("face #%d (id %d, MTU %d) is unusable: a %d-byte packet handed to it came out as %d packets", k, f.id, f.ls.MTU(), len(wire), len(pk))
	}
	if pk[0].maxFrame > f.ls.MTU() {
		// frame sizes against the MTU are the business of C10 (fragmentation); only counted here
		x.counts["probe-frame-larger-than-mtu(C10)"]++
	}
	if pk[0].frames > 1 {
		x.class("probe-fragmented")
	}
	return nil
}

// probeInterest makes the forwarding plane look up the strategy of name.
func (x *executor) probeInterest(name string, idx int) {
	n := append(mkName(name).Clone(), enc.NewStringComponent(enc.TypeGenericNameComponent, fmt.Sprintf("probe%d", idx)))
	x.nonce++
	it, err := spec.Spec{}.MakeInterest(n, &ndn.InterestConfig{Lifetime: utils.IdPtr(time.Second), Nonce: utils.IdPtr(0x5eed0000 + x.nonce)}, nil, nil)
	if err != nil {
		return
	}
	x.r.inject(0, it.Wire.Join())
	synctest.Wait()
}

// ---------------------------------------------------------------------------- one command

func (x *executor) step(idx int, op Op) error {
	x.r.drainAll()
	wire, match, comp, err := x.build(op, idx)
	if err != nil {
		// the library refused to encode this command: nothing to send
		x.counts["not-encodable"]++
		return nil
	}
	op.overrun = outerOverrun(comp)
	exp := x.m.expect(op, faceSpecs[op.Face].scope == defn.Local)
	x.class(exp.class)
	if exp.known {
		x.counts["tolerated-known-finding:"+knownOverrun]++
	}
	if exp.skip {
		x.counts["skipped-commands"]++
		return nil
	}
	x.csBefore = 0
	for _, th := range x.r.threads {
		x.csBefore += th.GetNumCsEntries()
	}
	x.r.inject(op.Face, wire)
	synctest.Wait()
	ans, err := x.collect(op.Face, match, exp.kind == expDataset)
	if err != nil {
		return err
	}
	mv := op.Mod + "/" + op.Verb
	desc := fmt.Sprintf("%s %s (%s) at face #%d [%s]", op.Pfx, mv, op.Form, op.Face, exp.class)
	accepted := false
	switch exp.kind {
	case expNoEffect:
		if ans.got && ans.status == 200 {
			return fmt.Errorf("%s: answered %v although it must not be executed", desc, ans)
		}
		if strings.HasPrefix(exp.class, "noauth") {
			x.nNoAuth++
		}
	case expIgnore:
	case expBad:
		if !ans.got {
			return fmt.Errorf("%s: no answer, a 4xx status is required", desc)
		}
		if ans.status < 400 || ans.status > 499 {
			return fmt.Errorf("%s: answered %v, a 4xx status is required", desc, ans)
		}
		x.nBad++
	case expOK, expEither:
		switch {
		case !ans.got && exp.optionalResponse:
			accepted = true // judged by the tables below
		case !ans.got:
			return fmt.Errorf("%s: no answer", desc)
		case ans.status == 200:
			accepted = true
			if err := exp.echo(ans.params); err != nil {
				return fmt.Errorf("%s: %v", desc, err)
			}
		case exp.kind == expEither && ans.status >= 400 && ans.status <= 499:
			x.class(exp.class + "->4xx")
			x.nBad++
		default:
			return fmt.Errorf("%s: answered %v, expected 200", desc, ans)
		}
		if accepted {
			if op.Pfx == pfxLocalhop {
				x.class("accepted-under-localhop-prefix")
				if faceSpecs[op.Face].scope != defn.Local {
					x.class("accepted-under-localhop-prefix-from-nonlocal-face")
				}
			}
			if exp.kind == expEither {
				x.class(exp.class + "->200")
			}
			exp.apply()
			x.nOK++
		}
	case expDataset:
		if !ans.got {
			return fmt.Errorf("%s: no dataset came back", desc)
		}
		if err := x.checkDataset(mv, ans.data, op.Pfx); err != nil {
			return fmt.Errorf("%s: %v", desc, err)
		}
	}
	if err := x.compareTables(); err != nil {
		return fmt.Errorf("after %s, answered %v: %v", desc, ans, err)
	}
	if accepted && exp.probeFace >= 0 && x.m.faces[exp.probeFace].live {
		size := op.Probe
		if size == 0 {
			size = 300
		}
		if err := x.probeFace(exp.probeFace, size, true); err != nil {
			return fmt.Errorf("after %s: %v", desc, err)
		}
		if err := x.probeFace(exp.probeFace, 0, false); err != nil {
			return fmt.Errorf("after %s: %v", desc, err)
		}
		x.class("probe-after-faces/update")
	}
	if accepted && exp.probeName != "" {
		x.probeInterest(exp.probeName, idx)
	}
	// let pending Interests expire and cached answers go stale before the next command
	time.Sleep(2 * time.Second)
	synctest.Wait()
	return nil
}

// sweep: at the end every live face must still transmit, and every dataset must list the
// tables (asked through face 0, which the generator never degrades).
func (x *executor) sweep(n int) error {
	for k := range x.r.faces {
		if x.m.faces[k].live {
			if err := x.probeFace(k, 200, true); err != nil {
				return fmt.Errorf("closing sweep: %v", err)
			}
		}
	}
	for i, mv := range [][2]string{{"rib", "list"}, {"fib", "list"}, {"strategy-choice", "list"}, {"cs", "info"}, {"faces", "list"}, {"status", "general"}} {
		if err := x.step(n+i, Op{Face: 0, Pfx: pfxLocal, Mod: mv[0], Verb: mv[1], Form: "ds"}); err != nil {
			return fmt.Errorf("closing sweep: %v", err)
		}
	}
	return nil
}

// ---------------------------------------------------------------------------- exec

func execC17(t *testing.T) func(Case) evid.Result {
	return func(c Case) (res evid.Result) {
		synctest.Test(t, func(*testing.T) {
			res = runCase(c)
		})
		return res
	}
}

func runCase(c Case) (res evid.Result) {
	r := newRig(rigConfig{Threads: c.Threads, Localhop: c.Localhop, Fib: c.Fib, CsCap: c.CsCap})
	defer r.close()
	defer func() {
		// a panic on the harness goroutine comes from code under test called synchronously
		// (the link service's receive path)
		if p := recover(); p != nil {
			res.Err = fmt.Errorf("panic in the receive path: %v", p)
		}
	}()
	x := &executor{r: r, m: newModel(r), signer: sec.NewSha256IntSigner(basic.NewTimer()),
		classes: map[string]bool{}, counts: map[string]int{}}
	finish := func(err error) evid.Result {
		if r.unnumbered > 0 {
			x.counts["fragments-without-index-and-count(C10)"] += r.unnumbered
		}
		res := evid.Result{Err: err, Counts: x.counts}
		for _, k := range sortedKeys(x.classes) {
			res.Classes = append(res.Classes, k)
		}
		res.NonTrivial = x.nOK >= 1 && x.nNoAuth >= 1 && x.nBad >= 1
		return res
	}
	if err := x.compareTables(); err != nil {
		return finish(fmt.Errorf("before any command: %v", err))
	}
	for i, op := range c.Ops {
		if op.Face < 0 || op.Face >= nAppFaces {
			return finish(fmt.Errorf("case refers to face %d", op.Face))
		}
		if err := x.step(i, op); err != nil {
			return finish(fmt.Errorf("op %d: %v", i, err))
		}
	}
	return finish(x.sweep(len(c.Ops)))
}

const ruleC17 = "rapid histories (<=15 quick / <=24 thorough management Interests: every module/verb incl. unknown ones and the six datasets; " +
	"ControlParameters with absent/boundary/out-of-range fields, missing and undecodable parameter components; arrival under /localhost/nfd, " +
	"/localhop/nfd (option on and off) and other prefixes, at local and non-local faces) against the full daemon in a synctest bubble " +
	"(1-3 forwarding threads, management thread, 5 NDNLPv2 faces over in-memory transports, both FIB implementations); after every command the answer, " +
	"the RIB, the direct FIB effects, the strategy table, CS capacity and face properties are compared with reference tables, datasets are decoded with " +
	"the mgmt_2022 parsers and compared with the tables, faces touched by faces/update must still transmit; closing sweep of all six datasets. " +
	"Non-trivial: >=1 accepted state-changing command AND >=1 command refused for authorisation AND >=1 command refused with 4xx for its parameters; distinct by hash of the case"

func TestC17Mgmt(t *testing.T) {
	rec := evid.New("C17", "TestC17Mgmt", ruleC17)
	evid.Check(t, rec, genCase, execC17(t))
}

// The same executor on behalf of C06 and C07, whose anchors include the management modules
// through which routes are registered (fw/mgmt/rib.go) and the cache capacity is set
// (fw/mgmt/cs.go): histories dominated by rib/register, rib/unregister and faces/destroy,
// respectively by cs/config, judged by the same reference (every field of every route in the
// RIB, its direct FIB effect, the capacity in force, the datasets).
func TestC06Mgmt(t *testing.T) {
	rec := evid.New("C06", "TestC06Mgmt", "rib-dominated profile of: "+ruleC17)
	evid.Check(t, rec, genCaseRib, execC17(t))
}

func TestC07Mgmt(t *testing.T) {
	rec := evid.New("C07", "TestC07Mgmt", "cs/config-dominated profile of: "+ruleC17)
	evid.Check(t, rec, genCaseCs, execC17(t))
}

func TestC06MgmtReplay(t *testing.T) { evid.Replay(t, "TestC06Mgmt", execC17(t)) }
func TestC07MgmtReplay(t *testing.T) { evid.Replay(t, "TestC07Mgmt", execC17(t)) }

func TestC17MgmtReplay(t *testing.T) {
	replayShim(t, "TestC17Mgmt")
	evid.Replay(t, "TestC17Mgmt", execC17(t))
}

// replayShim: a process death inside Test...Regress (or the known-finding unit) leaves an
// in-flight file that names that unit; the case is one of unit's, so re-address the file.
func replayShim(t *testing.T, unit string) {
	p := os.Getenv("VERIF_REPLAY")
	if p == "" {
		return
	}
	b, err := os.ReadFile(p)
	if err != nil {
		return
	}
	var rf map[string]json.RawMessage
	if json.Unmarshal(b, &rf) != nil {
		return
	}
	var u string
	_ = json.Unmarshal(rf["unit"], &u)
	if u != unit+"Regress" && !(unit == "TestC17Mgmt" && (u == "TestC17KnownOverrun" || u == "TestC17KnownBigDataset")) {
		return
	}
	rf["unit"], _ = json.Marshal(unit)
	nb, _ := json.Marshal(rf)
	np := filepath.Join(t.TempDir(), "replay.json")
	if os.WriteFile(np, nb, 0o644) == nil {
		t.Setenv("VERIF_REPLAY", np)
	}
}

func TestC17MgmtRegress(t *testing.T) {
	evid.Regress(t, "C17", "TestC17Mgmt", execC17(t))
}

// TestC17KnownOverrun re-confirms the listed known finding with a fixed case, judged
// strictly (a ControlParameters TLV whose length overruns the component must be refused).
func TestC17KnownOverrun(t *testing.T) {
	if !evid.Known("C17", knownOverrun) {
		t.Skip("not listed as a known finding")
	}
	rec := evid.New("C17", "TestC17KnownOverrun", "fixed cases re-confirming the known finding "+knownOverrun+" under the strict oracle")
	strictOverrun = true
	defer func() { strictOverrun = false }()
	cases := []Case{
		{Threads: 1, Fib: "nametree", CsCap: 64, Ops: []Op{{Face: 0, Pfx: pfxLocal, Mod: "cs", Verb: "config", Form: "garbage", Raw: []byte{0x68, 0x05, 0x07, 0x00}}}},
		{Threads: 1, Fib: "hashtable", CsCap: 64, Ops: []Op{{Face: 0, Pfx: pfxLocal, Mod: "faces", Verb: "update", Form: "garbage",
			Raw: []byte{0x68, 0xff, 0xff, 0xff, 0xff, 0xff, 0xff, 0xff, 0xff, 0xff}}}},
	}
	confirmed := 0
	run := execC17(t)
	evid.Each(t, rec, cases, func(c Case) evid.Result {
		res := run(c)
		out := evid.Result{NonTrivial: true}
		if res.Err != nil && strings.Contains(res.Err.Error(), "a 4xx status is required") {
			confirmed++
			out.Classes = []string{"known-finding-reconfirmed"}
		} else if res.Err != nil {
			out.Err = res.Err // some other violation: must not be hidden
		} else {
			out.Classes = []string{"known-finding-not-reproduced"}
		}
		return out
	})
	if confirmed > 0 {
		evid.ReportKnown("C17", knownOverrun)
	} else {
		t.Logf("the known finding %s does not reproduce any more: its entry can be turned into status fixed", knownOverrun)
	}
}

// TestC17KnownBigDataset re-confirms the listed known finding with fixed histories: a few
// hundred accepted registrations, then the RIB and FIB datasets. Any violation other than
// the missing dataset is reported as such.
func TestC17KnownBigDataset(t *testing.T) {
	if !evid.Known("C17", knownBigDataset) {
		t.Skip("not listed as a known finding")
	}
	rec := evid.New("C17", "TestC17KnownBigDataset", "fixed histories re-confirming the known finding "+knownBigDataset+": 400 / 1000 accepted rib/register commands for prefixes of their own, then rib/list and fib/list")
	mk := func(k int, fib string) Case {
		c := Case{Threads: 1, Fib: fib, CsCap: 1024, Ops: bulkOps(k, 0)}
		c.Ops = append(c.Ops, Op{Face: 0, Pfx: pfxLocal, Mod: "rib", Verb: "list", Form: "ds"})
		return c
	}
	mkFib := func(k int, fib string) Case {
		c := Case{Threads: 1, Fib: fib, CsCap: 1024, Ops: bulkOps(k, 0)}
		c.Ops = append(c.Ops, Op{Face: 0, Pfx: pfxLocal, Mod: "fib", Verb: "list", Form: "ds"})
		return c
	}
	cases := []Case{mk(400, "nametree"), mk(1000, "hashtable"), mkFib(400, "hashtable"), mkFib(1000, "nametree")}
	confirmed := 0
	run := execC17(t)
	evid.Each(t, rec, cases, func(c Case) evid.Result {
		res := run(c)
		out := evid.Result{NonTrivial: true}
		if res.Err != nil && strings.Contains(res.Err.Error(), "no dataset came back") && strings.Contains(res.Err.Error(), fmt.Sprintf("op %d:", len(c.Ops)-1)) {
			confirmed++
			out.Classes = []string{"known-finding-reconfirmed"}
		} else if res.Err != nil {
			out.Err = res.Err // some other violation: must not be hidden
		} else {
			out.Classes = []string{"known-finding-not-reproduced"}
		}
		return out
	})
	if confirmed > 0 {
		evid.ReportKnown("C17", knownBigDataset)
	} else {
		t.Logf("the known finding %s does not reproduce any more: its entry can be turned into status fixed", knownBigDataset)
	}
}
