package mgmt

import (
	"fmt"

	"pgregory.net/rapid"

	"verif/harness/internal/evid"
)

// ---------------------------------------------------------------------------- case (plain data)

// P is a ControlParameters block: nil / "" = field absent.
type P struct {
	Name  *string `json:"n,omitempty"`   // name URI
	Fid   string  `json:"fid,omitempty"` // FaceId, symbolic: "" absent | "0" | "own" | "f0".."f4" | "int" | "null" | "nx" | "max"
	Uri   *string `json:"uri,omitempty"`
	LUri  *string `json:"luri,omitempty"`
	Org   *uint64 `json:"org,omitempty"`
	Cost  *uint64 `json:"cost,omitempty"`
	Cap   *uint64 `json:"cap,omitempty"`
	Cnt   *uint64 `json:"cnt,omitempty"`
	Flags *uint64 `json:"fl,omitempty"`
	Mask  *uint64 `json:"mk,omitempty"`
	Strat *string `json:"st,omitempty"` // strategy name URI
	Exp   *uint64 `json:"exp,omitempty"`
	Pers  *uint64 `json:"pers,omitempty"`
	BCI   *uint64 `json:"bci,omitempty"`
	DCT   *uint64 `json:"dct,omitempty"`
	Mtu   *uint64 `json:"mtu,omitempty"`
}

// Op is one management Interest entering at an application face.
type Op struct {
	Face  int    `json:"f"`              // arrival face (index into faceSpecs)
	Pfx   string `json:"pfx"`            // management prefix used in the name
	Mod   string `json:"m"`              // module component
	Verb  string `json:"v"`              // verb component
	Form  string `json:"form"`           // signed | plain | noparam | garbage | empty | wrongtlv | trunc | ds | dsx | announce
	P     P      `json:"p"`              // parameters (forms signed, plain, wrongtlv, trunc)
	Raw   []byte `json:"raw,omitempty"`  // parameter component (form garbage)
	Lp    bool   `json:"lp,omitempty"`   // sent inside an LpPacket carrying a PIT token
	Fresh bool   `json:"mbf,omitempty"`  // MustBeFresh on a command Interest
	Hint  string `json:"hint,omitempty"` // a forwarding hint (one delegation) carried by the Interest
	Probe int    `json:"probe,omitempty"`

	// set by the executor, not part of the case: the parameter component starts with a
	// ControlParameters header whose length overruns the component
	overrun bool
}

type Case struct {
	Threads  int    `json:"threads"`
	Localhop bool   `json:"localhop"`
	Fib      string `json:"fib"`
	CsCap    uint16 `json:"cscap"`
	Ops      []Op   `json:"ops"`
}

const (
	pfxLocal    = "/localhost/nfd"
	pfxLocalhop = "/localhop/nfd"
)

func sp(s string) *string { return &s }
func up(u uint64) *uint64 { return &u }

// ---------------------------------------------------------------------------- name universes

// RIB commands act on "/" and names under /r, direct FIB commands on names under /f: the
// RIB->FIB flattening (property C06, known defects) rewrites FIB entries at RIB names and
// at the FIB root, so the direct effects of fib/* commands are only decidable on names no
// RIB command touches. Nothing under /localhost/nfd or /localhop/nfd is ever a target (a
// route there would re-route management itself).
var (
	ribNames   = []string{"/", "/r", "/r/a", "/r/a/b", "/r/b", "/r/a/b/c"}
	fibNames   = []string{"/f", "/f/a", "/f/a/b", "/f/b", "/f/a/b/c"}
	stratNames = []string{"/", "/", "/s", "/s/a", "/s/a/b", "/r/a", "/f/a", "/localhost", "/localhop/x"}
)

const strategyPrefix = "/localhost/nfd/strategy"

var goodStrategies = []string{
	strategyPrefix + "/best-route/v=1",
	strategyPrefix + "/multicast/v=1",
	strategyPrefix + "/best-route",
	strategyPrefix + "/multicast",
}

var oddStrategies = []string{
	strategyPrefix,                         // no strategy component at all
	strategyPrefix + "/nosuch",             // unknown strategy
	strategyPrefix + "/nosuch/v=1",         //
	strategyPrefix + "/32=multicast",       // the bytes of a strategy's name in a component of another type
	strategyPrefix + "/32=best-route/v=1",  //
	strategyPrefix + "/200=best-route",     //
	strategyPrefix + "/best-route/8=v%3D1", // a generic component that reads like a version
	strategyPrefix + "/best-route/v=2",     // unknown version
	strategyPrefix + "/best-route/v=0",     //
	strategyPrefix + "/multicast/v=18446744073709551615",
	strategyPrefix + "/best-route/1",            // trailing component that is not a version
	strategyPrefix + "/best-route/54=%01%02%03", // version component that is not a number encoding
	strategyPrefix + "/best-route/54=",          // empty version component
	strategyPrefix + "/best-route/54=%00%01",    // version 1 in a non-minimal (2-byte) number encoding
	strategyPrefix + "/multicast/54=%00%00%00%01",
	strategyPrefix + "/best-route/v=1/x",    // parameters after the version
	strategyPrefix + "/multicast/v=1/v=1",   //
	"/localhost/nfd/strategyx/best-route",   //
	"/localhost/nfd",                        //
	"/localhost",                            //
	"/",                                     // empty strategy name
	"/best-route/v=1",                       //
	"/example/strategy/best-route/v=1",      //
	"/localhop/nfd/strategy/best-route/v=1", //
}

var otherPrefixes = []string{"/localhost/nfdx", "/localhost", "/nfd", "/localhop/nfdx", "/example/nfd", "/localhost/NFD", "/localhop", "/"}

var mtuValues = []uint64{0, 1, 21, 22, 23, 30, 42, 54, 63, 64, 65, 128, 576, 1500, 8800, 8801, 1 << 32, 1<<64 - 1}
var mtuStream = []uint64{0, 1, 21, 22, 8800, 8801, 1 << 32}

var garbage = [][]byte{
	{0x68},
	{0x68, 0x05, 0x07},
	{0x68, 0x03, 0x07, 0x05, 0x08},
	{0x68, 0xfd},
	{0x68, 0xff, 0xff, 0xff, 0xff, 0xff, 0xff, 0xff, 0xff, 0xff},
	{0xff, 0xff},
	{0x07, 0x09, 0x08, 0x01},
	{0x68, 0x04, 0x69, 0x09, 0x01, 0x02}, // FaceId with an impossible length
	{0x68, 0x03, 0x69, 0x03, 0x01},       // truncated natural number
	{0x68, 0x04, 0x6b, 0x02, 0x07, 0x09}, // Strategy whose Name overruns
}

// application parameters of rib/announce Interests: a Data packet, pieces of one, garbage
var announcements = [][]byte{
	{0x06, 0x1d, 0x07, 0x08, 0x08, 0x01, 'r', 0x08, 0x03, 'P', 'A', 0x00, 0x14, 0x03, 0x18, 0x01, 0x05, 0x15, 0x00, 0x16, 0x03, 0x1b, 0x01, 0x00, 0x17, 0x04, 1, 2, 3, 4, 0x00},
	{0x06, 0x1d, 0x07, 0x08, 0x08, 0x01, 'r'},
	{0x06, 0x00},
	{0x06, 0xfd, 0xff},
	{0x05, 0x03, 0x07, 0x01, 0x08},
	{0xff, 0xff, 0xff},
	{0x00},
}

// ---------------------------------------------------------------------------- generator

type genState struct {
	t         *rapid.T
	c         *Case
	routes    []routeKeyS // registered (name, fid-as-index, origin) for unregister
	hops      [][2]string // (name, fid)
	strats    []string
	destroyed [nAppFaces]bool
	nDestroy  int
	weights   []int // nil: the default mix of command kinds
	// allowInternal: routes may name the internal (management) face. Interests of any name
	// under such a route reach the management thread, which must still act only on those
	// under its own prefixes (seeded defect C17-r3-2 made it act on all of them).
	allowInternal bool
	intRoutes     []string // two-component prefixes that some generated command routes towards the management face
}

type routeKeyS struct {
	name string
	fid  string
	org  *uint64
}

// uni draws an (almost) uniformly distributed number in [0, n). rapid's own integer and
// SampledFrom generators strongly favour small values / first elements, which would make
// the stated weights meaningless; single bits are fair, and shrink towards 0.
func uni(t *rapid.T, label string, n int) int {
	bits := 3
	for 1<<(bits-3) < n {
		bits++
	}
	v := 0
	for i := 0; i < bits; i++ {
		v <<= 1
		if rapid.Bool().Draw(t, label) {
			v |= 1
		}
	}
	return v % n
}

func pct(t *rapid.T, label string, p int) bool { return uni(t, label, 100) >= 100-p }

func pick[T any](t *rapid.T, label string, items []T) T { return items[uni(t, label, len(items))] }

func weighted(t *rapid.T, label string, items []string, weights []int) string {
	tot := 0
	for _, w := range weights {
		tot += w
	}
	x := uni(t, label, tot)
	for i, w := range weights {
		if x < w {
			return items[i]
		}
		x -= w
	}
	return items[len(items)-1]
}

func optU(t *rapid.T, label string, pPresent int, vals []uint64) *uint64 {
	if !pct(t, label+"?", pPresent) {
		return nil
	}
	return up(pick(t, label, vals))
}

func (g *genState) fid(label string, allowAbsent bool) string {
	// never the internal (management) face: a route towards it lets Interests of any name
	// reach the management thread, and which of them do then depends on the RIB->FIB
	// flattening (C06); the directed regression case localhop-disabled-but-routed covers it
	opts := []string{"", "0", "own", "fk", "nx", "max", "null", "int"}
	w := []int{4, 1, 3, 6, 2, 1, 1, 0}
	if !allowAbsent {
		w[0] = 0
	}
	if g.allowInternal {
		w[7] = 2
	}
	s := weighted(g.t, label, opts, w)
	if s == "fk" {
		s = fmt.Sprintf("f%d", uni(g.t, label+"k", nAppFaces))
	}
	return s
}

func (g *genState) genOp() Op {
	t := g.t
	kinds := []string{"rib-reg", "rib-unreg", "fib-add", "fib-rm", "st-set", "st-unset", "cs-config",
		"face-update", "face-destroy", "face-create", "dataset", "unknown", "query"}
	weights := []int{12, 6, 8, 5, 9, 4, 7, 16, 3, 6, 12, 5, 2}
	if g.weights != nil {
		weights = g.weights
	}
	kind := weighted(t, "kind", kinds, weights)
	op := Op{Form: "signed"}
	switch kind {
	case "rib-reg":
		op.Mod, op.Verb = "rib", "register"
		op.P.Name = sp(pick(t, "name", ribNames))
		op.P.Fid = g.fid("fid", true)
		op.P.Org = optU(t, "org", 40, []uint64{0, 64, 65, 128, 255})
		op.P.Cost = optU(t, "cost", 50, []uint64{0, 1, 7, 10, 1<<64 - 1})
		op.P.Flags = optU(t, "flags", 40, []uint64{0, 1, 2, 3})
		op.P.Exp = optU(t, "exp", 30, []uint64{3600000, 86400000})
		if g.allowInternal && pct(t, "toInternal", 40) {
			op.P.Fid = "int"
		}
		if len(g.routes) > 0 && pct(t, "reregister", 35) {
			// re-register an existing (prefix, face, origin) with freshly drawn optional fields:
			// every field of the stored route must follow the new command, absent ones included
			// (added after seeded defect C17-r2-2: a stale ExpirationPeriod survived)
			r := pick(t, "reroute", g.routes)
			op.P.Name, op.P.Fid, op.P.Org = sp(r.name), r.fid, r.org
		}
		g.routes = append(g.routes, routeKeyS{*op.P.Name, op.P.Fid, op.P.Org})
		if op.P.Fid == "int" {
			switch cs := comps(*op.P.Name); len(cs) {
			case 0:
				g.intRoutes = append(g.intRoutes, "/x/nfd", "/example/nfd")
			case 1:
				g.intRoutes = append(g.intRoutes, *op.P.Name+"/nfd")
			case 2:
				g.intRoutes = append(g.intRoutes, *op.P.Name)
			}
		}
	case "rib-unreg":
		op.Mod, op.Verb = "rib", "unregister"
		if len(g.routes) > 0 && pct(t, "existing", 70) {
			r := pick(t, "route", g.routes)
			op.P.Name, op.P.Fid, op.P.Org = sp(r.name), r.fid, r.org
		} else {
			op.P.Name = sp(pick(t, "name", ribNames))
			op.P.Fid = g.fid("fid", true)
			op.P.Org = optU(t, "org", 40, []uint64{0, 64, 65, 128, 255})
		}
	case "fib-add":
		op.Mod, op.Verb = "fib", "add-nexthop"
		op.P.Name = sp(pick(t, "name", fibNames))
		op.P.Fid = g.fid("fid", true)
		op.P.Cost = optU(t, "cost", 60, []uint64{0, 1, 7, 10, 1<<64 - 1})
		g.hops = append(g.hops, [2]string{*op.P.Name, op.P.Fid})
	case "fib-rm":
		op.Mod, op.Verb = "fib", "remove-nexthop"
		if len(g.hops) > 0 && pct(t, "existing", 70) {
			h := pick(t, "hop", g.hops)
			op.P.Name, op.P.Fid = sp(h[0]), h[1]
		} else {
			op.P.Name = sp(pick(t, "name", fibNames))
			op.P.Fid = g.fid("fid", true)
		}
	case "st-set":
		op.Mod, op.Verb = "strategy-choice", "set"
		op.P.Name = sp(pick(t, "name", stratNames))
		if pct(t, "good", 60) {
			op.P.Strat = sp(pick(t, "strat", goodStrategies))
		} else {
			op.P.Strat = sp(pick(t, "oddstrat", oddStrategies))
		}
		g.strats = append(g.strats, *op.P.Name)
	case "st-unset":
		op.Mod, op.Verb = "strategy-choice", "unset"
		if len(g.strats) > 0 && pct(t, "existing", 60) {
			op.P.Name = sp(pick(t, "sname", g.strats))
		} else {
			op.P.Name = sp(pick(t, "name", stratNames))
		}
	case "cs-config":
		op.Mod, op.Verb = "cs", "config"
		op.P.Cap = optU(t, "cap", 80, []uint64{0, 1, 2, 65535, 1 << 32, 1<<63 - 1, 1 << 63, 1<<64 - 1})
		switch uni(t, "fm", 10) {
		case 0:
			op.P.Flags = up(uint64(uni(t, "flags", 4)))
		case 1:
			op.P.Mask = up(uint64(uni(t, "mask", 4)))
		case 2, 3:
			op.P.Flags = up(uint64(uni(t, "flags", 4)))
			op.P.Mask = up(uint64(uni(t, "mask", 4)))
		}
	case "face-update":
		op.Mod, op.Verb = "faces", "update"
		// target: face 0 is the observer (its MTU is never lowered, it is never destroyed), so
		// that the closing dataset sweep always has a face it can use
		tgt := weighted(t, "tgt", []string{"own", "f1", "f2", "f3", "f4", "nx", "int", "null", "0", "f0"},
			[]int{3, 2, 6, 5, 2, 2, 1, 1, 1, 1})
		if tgt == "own" {
			op.P.Fid = weighted(t, "ownform", []string{"", "0", "own"}, []int{2, 1, 1})
			op.Face = pick(t, "ownface", []int{1, 3, 3})
			tgt = fmt.Sprintf("f%d", op.Face)
		} else {
			op.P.Fid = tgt
		}
		frag := tgt == "f2" || tgt == "f3"
		if tgt != "f0" {
			if frag {
				op.P.Mtu = optU(t, "mtu", 75, mtuValues)
			} else {
				op.P.Mtu = optU(t, "mtu", 60, mtuStream)
			}
		}
		op.P.Pers = optU(t, "pers", 25, []uint64{0, 1, 2, 7})
		switch uni(t, "fm", 10) {
		case 0:
			op.P.Flags = up(uint64(uni(t, "flags", 8)))
		case 1:
			op.P.Mask = up(uint64(uni(t, "mask", 8)))
		case 2, 3, 4:
			op.P.Flags = up(uint64(uni(t, "flags", 8)))
			op.P.Mask = up(uint64(uni(t, "mask", 8)))
		}
		op.P.BCI = optU(t, "bci", 15, []uint64{0, 1, 100000000, 5000000000})
		op.P.DCT = optU(t, "dct", 15, []uint64{0, 1, 65536, 1 << 40})
		op.Probe = pick(t, "probe", []int{0, 0, 40, 300, 1500, 8000})
	case "face-destroy":
		op.Mod, op.Verb = "faces", "destroy"
		tgt := weighted(t, "tgt", []string{"", "0", "nx", "max", "fk"}, []int{1, 1, 2, 1, 6})
		if tgt == "fk" {
			k := 1 + uni(t, "k", nAppFaces-1)
			if g.nDestroy >= 2 && !g.destroyed[k] {
				tgt = "nx"
			} else {
				tgt = fmt.Sprintf("f%d", k)
				if !g.destroyed[k] {
					g.destroyed[k] = true
					g.nDestroy++
				}
			}
		}
		op.P.Fid = tgt
	case "face-create":
		// only requests that must be refused: a successful create opens a real socket,
		// which cannot live inside a bubble (see NOTES.md; covered by TestC17FaceCreate)
		op.Mod, op.Verb = "faces", "create"
		switch uni(t, "how", 8) {
		case 0: // missing Uri
		case 1:
			op.P.Uri = sp(pick(t, "baduri", []string{"", "nonsense", "udp4://", "udp4://10.0.0.9", "udp4://10.0.0.9:0",
				"udp4://10.0.0.9:65536", "null://", "internal://", "bogus://10.0.0.9:6363", "ws://10.0.0.9:9696",
				"udp6://10.0.0.9:6363x"}))
		case 2:
			op.P.Uri = sp(pick(t, "scheme", []string{"fd://99", "dev://eth0", "unix:///tmp/nosuch.sock"}))
		case 3: // conflicts with an existing face (one that no earlier command may have destroyed)
			k := uni(t, "k", nAppFaces)
			if g.destroyed[k] {
				k = 0
			}
			op.P.Uri = sp(faceSpecs[k].remote)
		case 4: // multicast / unspecified remote
			op.P.Uri = sp(pick(t, "mc", []string{"udp4://224.0.23.170:56363", "udp4://0.0.0.0:6363", "tcp4://224.0.0.1:6363",
				"udp6://[ff02::1234]:56363"}))
		case 5: // on-demand persistency cannot be requested
			op.P.Uri = sp(pick(t, "u", []string{"udp4://10.0.0.9:6363", "tcp4://10.0.0.9:6363"}))
			op.P.Pers = up(pick(t, "pers", []uint64{1, 7}))
		default: // Flags without Mask or Mask without Flags
			op.P.Uri = sp(pick(t, "u", []string{"udp4://10.0.0.9:6363", "tcp4://10.0.0.9:6363"}))
			if pct(t, "flagsonly", 50) {
				op.P.Flags = up(1)
			} else {
				op.P.Mask = up(1)
			}
		}
		op.P.Mtu = optU(t, "mtu", 30, mtuValues)
	case "dataset":
		ds := pick(t, "ds", [][2]string{{"rib", "list"}, {"fib", "list"}, {"strategy-choice", "list"}, {"cs", "info"},
			{"faces", "list"}, {"status", "general"}})
		op.Mod, op.Verb = ds[0], ds[1]
		op.Form = "ds"
		if pct(t, "dsx", 8) {
			op.Form = "dsx"
		}
	case "unknown":
		mv := pick(t, "mv", [][2]string{{"foo", "bar"}, {"rib", "foo"}, {"fib", "list2"}, {"cs", "erase"}, {"cs", "query"},
			{"rib", "announce"}, {"status", "foo"}, {"", ""}, {"rib", ""}, {"strategy-choice", "reset"}, {"faces", "events"},
			{"RIB", "register"}, {"nfd", "rib"}, {"strategy", "set"}})
		op.Mod, op.Verb = mv[0], mv[1]
		op.P.Name = sp(pick(t, "name", ribNames))
		op.P.Fid = g.fid("fid", true)
		if pct(t, "announce", 25) {
			// rib/announce as NFD defines it: the prefix announcement (a Data) travels as
			// application parameters; YaNFD does not implement it but must survive it
			op.Mod, op.Verb, op.Form, op.P = "rib", "announce", "announce", P{}
			op.Raw = pick(t, "annraw", announcements)
		}
	case "query":
		op.Mod, op.Verb = "faces", "query"
		op.Form = "garbage"
		op.Raw = pick(t, "filter", [][]byte{{0x96, 0x03, 0x69, 0x01, 0x03}, {0x96, 0x00}, {0x96, 0x05, 0x69},
			{0x68, 0x00}, {}, {0x96, 0x04, 0x83, 0x02, 'f', 'd'}})
	}

	// an occasional field the verb has no use for
	if op.Form == "signed" && pct(t, "extra", 12) {
		switch uni(t, "which", 8) {
		case 0:
			if op.P.Cnt == nil {
				op.P.Cnt = up(3)
			}
		case 1:
			if op.P.LUri == nil {
				op.P.LUri = sp("udp4://10.0.0.1:6363")
			}
		case 2:
			if op.P.Cap == nil && op.Mod != "cs" {
				op.P.Cap = up(5)
			}
		case 3:
			if op.P.Mtu == nil && op.Mod != "faces" {
				op.P.Mtu = up(1200)
			}
		case 4, 5:
			// a Strategy where none is expected (the only nested structure among the parameters)
			if op.P.Strat == nil && op.Mod != "strategy-choice" {
				op.P.Strat = sp(pick(t, "xstrat", goodStrategies))
			}
		case 6:
			if op.P.Name == nil && (op.Mod == "faces" || op.Mod == "cs") {
				op.P.Name = sp(pick(t, "xname", ribNames))
			}
		default:
			if op.P.Uri == nil && !(op.Mod == "faces" && op.Verb == "create") {
				op.P.Uri = sp("udp4://10.0.0.9:6363")
			}
		}
	}

	// form of the parameters
	if op.Form == "signed" && !(op.Mod == "rib" && op.Verb == "announce") {
		op.Form = weighted(t, "form", []string{"signed", "plain", "noparam", "garbage", "empty", "wrongtlv", "trunc"},
			[]int{62, 20, 5, 5, 2, 3, 3})
		if op.Form == "garbage" {
			op.Raw = pick(t, "raw", garbage)
		}
	}

	// arrival
	ownTarget := op.Mod == "faces" && op.Verb == "update" && op.Face != 0
	arr := weighted(t, "arrival", []string{"auth", "hop", "nonlocal", "otherpfx"}, []int{68, 10, 14, 8})
	switch arr {
	case "auth":
		op.Pfx = pfxLocal
		if !ownTarget {
			op.Face = pick(t, "face", []int{0, 0, 0, 1, 1, 3, 3})
		}
	case "hop":
		op.Pfx = pfxLocalhop
		if !ownTarget {
			op.Face = uni(t, "face", nAppFaces)
		}
		if pct(t, "hoprib", 50) && op.Mod != "rib" && op.Form != "ds" && op.Form != "dsx" {
			// most localhop traffic is prefix registration
			name := pick(t, "hopname", ribNames)
			op = Op{Face: op.Face, Pfx: pfxLocalhop, Mod: "rib", Verb: "register", Form: "signed",
				P: P{Name: &name, Cost: optU(t, "hopcost", 50, []uint64{0, 5})}}
			g.routes = append(g.routes, routeKeyS{name, "", nil})
		}
	case "nonlocal":
		op.Pfx = pfxLocal
		op.Face = pick(t, "face", []int{2, 2, 4})
		// a remote sender may add a forwarding hint that points towards the management face
		// (/localhop/nfd is routed there when link-local management is on): the command is named
		// under /localhost all the same and must have no effect (seeded C17-r5-2)
		if pct(t, "nlhint", 40) {
			op.Hint = pick(t, "nlhintname", []string{pfxLocalhop, pfxLocalhop, pfxLocal, "/r"})
		}
	default:
		op.Pfx = pick(t, "pfx", otherPrefixes)
		if len(g.intRoutes) > 0 && pct(t, "routedpfx", 75) {
			// a two-component prefix that an earlier command routed towards the management face
			op.Pfx = pick(t, "routedpfxname", g.intRoutes)
		}
		if !ownTarget {
			op.Face = pick(t, "face", []int{0, 1, 2, 3})
		}
	}
	op.Lp = pct(t, "lp", 20)
	op.Fresh = pct(t, "mbf", 20)
	if arr == "auth" && pct(t, "lhint", 6) {
		op.Hint = pfxLocal // a hint that leads where the name leads anyway
	}
	return op
}

// Profiles for the units that look at the management layer on behalf of C06 (routes are
// registered through fw/mgmt/rib.go) and C07 (the capacity is lowered through fw/mgmt/cs.go).
var (
	weightsRib = []int{30, 14, 2, 1, 1, 1, 1, 3, 6, 1, 10, 1, 0}
	weightsCs  = []int{3, 1, 2, 1, 2, 1, 40, 3, 1, 1, 14, 2, 0}
)

func genCaseRib(t *rapid.T) Case { return genCaseW(t, weightsRib) }
func genCaseCs(t *rapid.T) Case  { return genCaseW(t, weightsCs) }
func genCase(t *rapid.T) Case    { return genCaseW(t, nil) }

func genCaseW(t *rapid.T, weights []int) Case {
	c := Case{
		Threads:  pick(t, "threads", []int{1, 1, 2, 3}),
		Localhop: pct(t, "localhop", 50),
		Fib:      pick(t, "fib", []string{"nametree", "hashtable"}),
		CsCap:    pick(t, "cscap", []uint16{0, 1, 64, 1024}),
	}
	maxOps := 15
	if evid.Thorough() {
		maxOps = 24
	}
	n := 1 + uni(t, "nops", maxOps)
	g := &genState{t: t, c: &c, weights: weights, allowInternal: pct(t, "allowInternal", 40)}
	for i := 0; i < n; i++ {
		op := g.genOp()
		// lets the shrinker delete any single command (all-zero bits = dropped)
		if uni(t, "keep", 16) == 0 && i > 0 {
			continue
		}
		c.Ops = append(c.Ops, op)
	}
	// now and then a large table: a burst of registrations for prefixes of their own, then
	// the RIB and FIB datasets (which then run to several kilobytes). While the known finding
	// "a status dataset that does not fit one packet is never answered" is listed, the burst
	// is kept to sizes whose datasets fit comfortably (exclusion by construction).
	if pct(t, "bulk", 3) {
		sizes := []int{40, 90, 150, 400, 1000}
		if evid.Known("C17", knownBigDataset) {
			sizes = sizes[:3]
		}
		k := pick(t, "bulkn", sizes)
		pos := uni(t, "bulkpos", len(c.Ops)+1)
		c.Ops = append(c.Ops[:pos:pos], append(bulkOps(k, uni(t, "bulkseed", 1000)), c.Ops[pos:]...)...)
		c.Ops = append(c.Ops,
			Op{Face: 0, Pfx: pfxLocal, Mod: "rib", Verb: "list", Form: "ds"},
			Op{Face: 0, Pfx: pfxLocal, Mod: "fib", Verb: "list", Form: "ds"})
	}
	return c
}

// bulkOps: k accepted rib/register commands for k prefixes /r/b/k<i>, spread over the faces.
func bulkOps(k, seed int) []Op {
	ops := make([]Op, 0, k)
	for i := 0; i < k; i++ {
		name := fmt.Sprintf("/r/b/k%d", i)
		ops = append(ops, Op{Face: 0, Pfx: pfxLocal, Mod: "rib", Verb: "register", Form: "signed",
			P: P{Name: &name, Fid: fmt.Sprintf("f%d", 1+(i+seed)%4), Org: up(uint64((i*7 + seed) % 256)), Cost: up(uint64(i + seed))}})
	}
	return ops
}
