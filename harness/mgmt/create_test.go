package mgmt

import (
	"bytes"
	"errors"
	"fmt"
	"net"
	"testing"
	"time"

	"github.com/named-data/ndnd/fw/core"
	"github.com/named-data/ndnd/fw/defn"
	"github.com/named-data/ndnd/fw/dispatch"
	"github.com/named-data/ndnd/fw/face"
	"github.com/named-data/ndnd/fw/fw"
	fwmgmt "github.com/named-data/ndnd/fw/mgmt"
	"github.com/named-data/ndnd/fw/table"
	enc "github.com/named-data/ndnd/std/encoding"
	basic "github.com/named-data/ndnd/std/engine/basic"
	"github.com/named-data/ndnd/std/ndn"
	mgmt "github.com/named-data/ndnd/std/ndn/mgmt_2022"
	spec "github.com/named-data/ndnd/std/ndn/spec_2022"
	sec "github.com/named-data/ndnd/std/security"
	"github.com/named-data/ndnd/std/utils"
	"pgregory.net/rapid"

	"verif/harness/internal/evid"
)

// faces/create that succeeds opens a real UDP socket, whose read loop cannot live inside a
// synctest bubble. This unit therefore runs the same daemon on the real scheduler and the
// real clock: one command at a time, each wait ends on an event (the answer arrives, the
// datagrams arrive) and is only bounded by a generous watchdog. Nothing here depends on
// timing for its verdict.

type CreateCase struct {
	Mtu   *uint64 `json:"mtu,omitempty"`
	Pers  *uint64 `json:"pers,omitempty"`
	Flags *uint64 `json:"fl,omitempty"`
	Mask  *uint64 `json:"mk,omitempty"`
	BCI   *uint64 `json:"bci,omitempty"`
	DCT   *uint64 `json:"dct,omitempty"`
	Probe int     `json:"probe"`
	Marks bool    `json:"marks"`
	Again bool    `json:"again"` // repeat the create (must conflict)
	Fib   string  `json:"fib"`
}

func genCreateCase(t *rapid.T) CreateCase {
	c := CreateCase{
		Mtu:   optU(t, "mtu", 85, []uint64{0, 1, 22, 23, 30, 40, 54, 63, 64, 65, 128, 576, 1500, 8800, 8801, 1 << 32, 1<<64 - 1}),
		Pers:  optU(t, "pers", 35, []uint64{0, 2, 2, 1, 7}),
		BCI:   optU(t, "bci", 15, []uint64{0, 1, 100000000}),
		DCT:   optU(t, "dct", 15, []uint64{0, 65536, 1 << 40}),
		Probe: pick(t, "probe", []int{40, 300, 1500, 8000}),
		Marks: pct(t, "marks", 60),
		Again: pct(t, "again", 30),
		Fib:   pick(t, "fib", []string{"nametree", "hashtable"}),
	}
	switch uni(t, "fm", 10) {
	case 0:
		c.Flags = up(uint64(uni(t, "flags", 8)))
	case 1:
		c.Mask = up(uint64(uni(t, "mask", 8)))
	case 2, 3, 4:
		c.Flags = up(uint64(uni(t, "flags", 8)))
		c.Mask = up(uint64(uni(t, "mask", 8)))
	}
	return c
}

const watchdog = 20 * time.Second

var errWatchdog = errors.New("watchdog")

func waitFor(cond func() bool) error {
	deadline := time.Now().Add(watchdog)
	for !cond() {
		if time.Now().After(deadline) {
			return errWatchdog
		}
		time.Sleep(50 * time.Microsecond)
	}
	return nil
}

type realRig struct {
	thread   *fw.Thread
	mgmtDone chan struct{}
	tr       *face.VerifTransport
	ls       *face.NDNLPLinkService
	pending  [][]byte
}

func newRealRig(fib string) (*realRig, error) {
	r := &realRig{}
	core.ShouldQuit = false
	cfg := core.DefaultConfig()
	cfg.Core.LogLevel = "FATAL"
	cfg.Fw.Threads = 1
	cfg.Faces.Udp.PortUnicast = 0 // let the system choose the local port of created faces
	cfg.Tables.Fib.Algorithm = fib
	core.Version = "verif-c17"
	core.StartTimestamp = time.Now()
	core.LoadConfig(cfg, "")
	if !loggerOnce {
		core.InitializeLogger("")
		loggerOnce = true
	}
	face.Configure()
	fw.Configure()
	table.VerifReset()
	table.Configure()
	fwmgmt.Configure()
	// face ids are NOT restarted here: a send goroutine of the previous case may still be
	// about to unregister its (old) id, which must not hit a face of this case
	if face.VerifFaceTableLen() != 0 {
		return nil, fmt.Errorf("face table not empty at the start of a case")
	}
	table.CreateFIBTable(fib)
	face.MakeNullLinkService(face.MakeNullTransport()).Run(nil)
	mt := fwmgmt.MakeMgmtThread()
	r.mgmtDone = make(chan struct{})
	go func() {
		mt.Run()
		close(r.mgmtDone)
	}()
	fw.Threads = []*fw.Thread{fw.NewThread(0)}
	r.thread = fw.Threads[0]
	go r.thread.Run()
	dispatch.InitializeFWThreads([]dispatch.FWThread{r.thread})
	if err := waitFor(func() bool {
		return len(table.FibStrategyTable.FindNextHopsEnc(mkName(pfxLocal))) == 1 && face.VerifFaceTableLen() == 2
	}); err != nil {
		return nil, err
	}
	fs := faceSpecs[0]
	r.tr = face.VerifMakeTransport(defn.DecodeURIString(fs.remote), defn.DecodeURIString(fs.local), fs.pers, fs.scope,
		defn.PointToPoint, defn.MaxNDNPacketSize)
	opt := face.MakeNDNLPLinkServiceOptions()
	opt.IsFragmentationEnabled = false
	r.ls = face.MakeNDNLPLinkService(r.tr, opt)
	r.ls.Run(nil)
	return r, nil
}

func (r *realRig) close() error {
	core.ShouldQuit = true
	r.tr.Close()
	if err := waitFor(func() bool { return face.FaceTable.Get(r.ls.FaceID()) == nil }); err != nil {
		return err
	}
	for _, f := range face.FaceTable.GetAll() {
		id := f.FaceID()
		if f.RemoteURI().Scheme() == "null" {
			// its Close blocks until its goroutine has started
			if err := waitFor(func() bool { return f.State() == defn.Up }); err != nil {
				return err
			}
		}
		f.Close()
		if err := waitFor(func() bool { return face.FaceTable.Get(id) == nil }); err != nil {
			return err
		}
	}
	r.thread.TellToQuit()
	<-r.thread.HasQuit
	<-r.mgmtDone
	core.ShouldQuit = false
	return nil
}

// ask sends one Interest at the local face and waits for the Data that answers it.
func (r *realRig) ask(wire []byte, match enc.Name, dataset bool) (*spec.Data, error) {
	r.ls.VerifHandleIncomingFrame(wire)
	var found *spec.Data
	var perr error
	err := waitFor(func() bool {
		r.pending = append(r.pending, r.tr.VerifTakeFrames()...)
		n := 0
		pk, err := reassemble(r.pending, 0, &n)
		if err != nil {
			if len(r.pending) > 0 && n > 0 {
				return false // fragments still arriving
			}
			perr = err
			return true
		}
		for _, p := range pk {
			if d := p.pkt.Data; d != nil {
				if (!dataset && d.Name().Equal(match)) || (dataset && match.IsPrefix(d.Name())) {
					found = d
				}
			}
		}
		if found != nil {
			r.pending = nil
		}
		return found != nil
	})
	if err != nil {
		return nil, err
	}
	return found, perr
}

func execCreate(c CreateCase) (res evid.Result) {
	classes := map[string]bool{}
	counts := map[string]int{}
	finish := func(err error) evid.Result {
		if errors.Is(err, errWatchdog) {
			// the machine did not schedule us for 20 s, or an answer that must come did not:
			// let the process die so that the driver re-runs the case in a fresh process
			panic(fmt.Sprintf("watchdog: no progress for %v (%v)", watchdog, err))
		}
		r := evid.Result{Err: err, Counts: counts}
		for _, k := range sortedKeys(classes) {
			r.Classes = append(r.Classes, k)
		}
		r.NonTrivial = classes["created"] && classes["probe-delivered"] || classes["refused"]
		return r
	}
	r, err := newRealRig(c.Fib)
	if err != nil {
		return finish(err)
	}
	closed := false
	defer func() {
		if !closed {
			_ = r.close()
		}
	}()
	sock, err := net.ListenUDP("udp4", &net.UDPAddr{IP: net.IPv4(127, 0, 0, 1)})
	if err != nil {
		return finish(nil) // no sockets here: nothing to check
	}
	defer sock.Close()
	_ = sock.SetReadBuffer(4 << 20)
	uri := fmt.Sprintf("udp4://127.0.0.1:%d", sock.LocalAddr().(*net.UDPAddr).Port)
	signer := sec.NewSha256IntSigner(basic.NewTimer())
	nonce := uint64(0x5eed0000)
	cmd := func(verb string, a *mgmt.ControlArgs) (*mgmt.ControlResponseVal, error) {
		nonce++
		it, err := mgmt.NewConfig(true, signer, spec.Spec{}).MakeCmd("faces", verb, a,
			&ndn.InterestConfig{Lifetime: utils.IdPtr(4 * time.Second), Nonce: utils.IdPtr(nonce)})
		if err != nil {
			return nil, err
		}
		d, err := r.ask(it.Wire.Join(), it.FinalName, false)
		if err != nil {
			return nil, err
		}
		cr, err := mgmt.ParseControlResponse(enc.NewWireReader(d.Content()), true)
		if err != nil || cr.Val == nil {
			return nil, fmt.Errorf("faces/%s answered with something that is not a ControlResponse: %v", verb, err)
		}
		if cr.Val.Params == nil {
			cr.Val.Params = &mgmt.ControlArgs{}
		}
		return cr.Val, nil
	}
	facesWithURI := func() (ids []uint64) {
		for _, f := range face.FaceTable.GetAll() {
			if f.RemoteURI().String() == uri {
				ids = append(ids, f.FaceID())
			}
		}
		return
	}

	// --- expectation (reference: statement of C17 + NFD face management)
	mustRefuse := (c.Flags == nil) != (c.Mask == nil) || (c.Mtu != nil && *c.Mtu < mustRefuseMTUBelow)
	mayRefuse := (c.Mtu != nil && *c.Mtu < mustAcceptMTUFrom) || (c.Pers != nil && *c.Pers != 0 && *c.Pers != 2)

	args := &mgmt.ControlArgs{Uri: &uri, Mtu: c.Mtu, FacePersistency: c.Pers, Flags: c.Flags, Mask: c.Mask,
		BaseCongestionMarkInterval: c.BCI, DefaultCongestionThreshold: c.DCT}
	cr, err := cmd("create", args)
	if err != nil {
		return finish(fmt.Errorf("faces/create %s: %w", uri, err))
	}
	ids := facesWithURI()
	switch {
	case cr.StatusCode >= 400 && cr.StatusCode <= 499:
		classes["refused"] = true
		if !mustRefuse && !mayRefuse {
			return finish(fmt.Errorf("faces/create %s mtu=%v pers=%v flags=%v/%v: answered %d %q, expected 200", uri, deref(c.Mtu), deref(c.Pers), deref(c.Flags), deref(c.Mask), cr.StatusCode, cr.StatusText))
		}
		if len(ids) != 0 {
			return finish(fmt.Errorf("faces/create answered %d but the face table has face %v with that URI", cr.StatusCode, ids))
		}
	case cr.StatusCode == 200:
		if mustRefuse {
			// close what was created before reporting
			for _, id := range ids {
				face.FaceTable.Get(id).Close()
			}
			return finish(fmt.Errorf("faces/create %s mtu=%v flags=%v/%v: answered 200, a 4xx status is required", uri, deref(c.Mtu), deref(c.Flags), deref(c.Mask)))
		}
		classes["created"] = true
		if len(ids) != 1 || !u64eq(cr.Params.FaceId, ids[0]) {
			return finish(fmt.Errorf("faces/create answered 200 with FaceId=%v, the face table has %v for %s", deref(cr.Params.FaceId), ids, uri))
		}
		f := face.FaceTable.Get(ids[0])
		wantMTU := 8800
		if c.Mtu != nil && *c.Mtu < 8800 {
			wantMTU = int(*c.Mtu)
		}
		if f.MTU() != wantMTU || !u64eq(cr.Params.Mtu, uint64(wantMTU)) {
			return finish(fmt.Errorf("created face has MTU %d (echoed %v), requested %v", f.MTU(), deref(cr.Params.Mtu), deref(c.Mtu)))
		}
		if cr.Params.Uri == nil || *cr.Params.Uri != uri || f.Scope() != defn.Local {
			return finish(fmt.Errorf("created face: uri %v scope %v", cr.Params.Uri, f.Scope()))
		}
		if c.Pers != nil && (*c.Pers == 0 || *c.Pers == 2) && uint64(f.Persistency()) != *c.Pers {
			return finish(fmt.Errorf("created face has persistency %d, requested %d", f.Persistency(), *c.Pers))
		}
		// the new face must transmit: hand it a packet as forwarding would, read the datagrams
		// UDP may drop under a burst: keep the probe to a few dozen datagrams
		size := c.Probe
		payload := wantMTU - 54
		if payload < 2 {
			payload = 2
		}
		if size > 30*payload {
			size = 30 * payload
		}
		name := mkName("/probe/created")
		d, err := spec.Spec{}.MakeData(name, &ndn.DataConfig{ContentType: utils.IdPtr(ndn.ContentTypeBlob)},
			enc.Wire{bytes.Repeat([]byte{0x5a}, size)}, sec.NewSha256Signer())
		if err != nil {
			return finish(nil)
		}
		wire := d.Wire.Join()
		l3, _, _ := spec.ReadPacket(enc.NewBufferReader(wire))
		pkt := &defn.Pkt{Name: name, L3: l3, Raw: wire, IncomingFaceID: utils.IdPtr(r.ls.FaceID())}
		out := dispatch.OutPkt{Pkt: pkt, InFace: utils.IdPtr(r.ls.FaceID())}
		if c.Marks {
			tok := []byte{0, 0, 0, 0, 0, 9}
			pkt.PitToken, pkt.CongestionMark, out.PitToken = tok, utils.IdPtr(uint64(1)), tok
		}
		f.SendPacket(out)
		var frames [][]byte
		buf := make([]byte, 70000)
		delivered := false
		for !delivered {
			sock.SetReadDeadline(time.Now().Add(watchdog))
			n, _, err := sock.ReadFromUDP(buf)
			if err != nil {
				return finish(fmt.Errorf("created face %d (MTU %d) is unusable: a %d-byte packet handed to it did not come out of the socket (%d datagrams so far): %v",
					ids[0], f.MTU(), len(wire), len(frames), err))
			}
			frames = append(frames, append([]byte{}, buf[:n]...))
			un := 0
			pk, err := reassemble(frames, 9, &un)
			if err == nil && len(pk) == 1 && bytes.Equal(pk[0].wire, wire) {
				delivered = true
				if pk[0].frames > 1 {
					classes["probe-fragmented"] = true
				}
				if pk[0].maxFrame > f.MTU() {
					counts["probe-frame-larger-than-mtu(C10)"]++
				}
			} else if err == nil && len(pk) > 0 {
				return finish(fmt.Errorf("created face %d (MTU %d) garbled a %d-byte packet", ids[0], f.MTU(), len(wire)))
			}
		}
		classes["probe-delivered"] = true
		// the face is listed
		it, err := spec.Spec{}.MakeInterest(mkName(pfxLocal+"/faces/list"), &ndn.InterestConfig{CanBePrefix: true, MustBeFresh: true,
			Lifetime: utils.IdPtr(4 * time.Second), Nonce: utils.IdPtr(nonce + 1000)}, nil, nil)
		if err == nil {
			dd, err := r.ask(it.Wire.Join(), mkName(pfxLocal+"/faces/list"), true)
			if err != nil {
				return finish(fmt.Errorf("faces/list: %w", err))
			}
			ds, err := mgmt.ParseFaceStatusMsg(enc.NewWireReader(dd.Content()), true)
			if err != nil {
				return finish(fmt.Errorf("faces/list does not decode: %v", err))
			}
			ok := false
			for _, v := range ds.Vals {
				if v.FaceId == ids[0] {
					ok = v.Uri == uri && v.Mtu != nil && *v.Mtu == uint64(wantMTU) && v.FaceScope == 1
				}
			}
			if !ok || len(ds.Vals) != face.VerifFaceTableLen() {
				return finish(fmt.Errorf("faces/list does not list the created face %d correctly (%d entries)", ids[0], len(ds.Vals)))
			}
		}
		if c.Again {
			cr2, err := cmd("create", args)
			if err != nil {
				return finish(fmt.Errorf("second faces/create: %w", err))
			}
			if cr2.StatusCode < 400 || cr2.StatusCode > 499 || len(facesWithURI()) != 1 {
				return finish(fmt.Errorf("second faces/create of %s answered %d, faces with that URI: %v", uri, cr2.StatusCode, facesWithURI()))
			}
			classes["conflict-refused"] = true
		}
		// destroy it
		cr3, err := cmd("destroy", &mgmt.ControlArgs{FaceId: utils.IdPtr(ids[0])})
		if err != nil {
			return finish(fmt.Errorf("faces/destroy: %w", err))
		}
		if cr3.StatusCode != 200 || face.FaceTable.Get(ids[0]) != nil {
			return finish(fmt.Errorf("faces/destroy of the created face answered %d, still in the table: %v", cr3.StatusCode, face.FaceTable.Get(ids[0]) != nil))
		}
		f.Close() // faces/destroy only unregisters; release the socket and the goroutines
	default:
		return finish(fmt.Errorf("faces/create answered %d %q", cr.StatusCode, cr.StatusText))
	}
	closed = true
	return finish(r.close())
}

func deref(p *uint64) any {
	if p == nil {
		return "absent"
	}
	return *p
}

const ruleC17Create = "faces/create with a udp4 loopback URI pointing at a socket of the harness, MTU from {absent, 0, 1, 22, 23, .., 64, .., 8801, 2^32, 2^64-1}, " +
	"persistency, Flags/Mask subsets, congestion parameters, on the real scheduler (a created face owns a real socket). Oracle: MTU < 23 or Flags without Mask -> 4xx and no face; " +
	"MTU >= 64 with valid parameters -> 200, face listed with the clamped MTU, a packet (40..8000 bytes, optionally with PIT token and congestion mark) handed to the face arrives intact at the socket, " +
	"a second create conflicts, faces/destroy removes it. Non-trivial: the request was refused, or the face was created and its probe delivered"

func TestC17FaceCreate(t *testing.T) {
	rec := evid.New("C17", "TestC17FaceCreate", ruleC17Create)
	evid.Check(t, rec, genCreateCase, execCreate)
}

func TestC17FaceCreateReplay(t *testing.T) {
	replayShim(t, "TestC17FaceCreate")
	evid.Replay(t, "TestC17FaceCreate", execCreate)
}

func TestC17FaceCreateRegress(t *testing.T) {
	evid.Regress(t, "C17", "TestC17FaceCreate", execCreate)
}
