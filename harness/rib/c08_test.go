package rib

import (
	"fmt"
	"testing"
	"testing/synctest"

	"github.com/named-data/ndnd/fw/table"

	"verif/harness/internal/evid"
)

// C08 (RIB part): the RIB tree holds exactly the nodes on paths from the root to prefixes
// holding routes, and the FIB fed by it holds nothing beyond the prefixes holding routes --
// after every operation and after un-registering everything.

func wantRibNodes(m *model) int {
	nodes := map[string]bool{}
	for k := range m.routes {
		for _, p := range prefixes(k.name) {
			if p != "/" {
				nodes[p] = true
			}
		}
	}
	return len(nodes)
}

func checkStructure(m *model, c Case, step int) error {
	got, _ := table.VerifRibStats()
	if want := wantRibNodes(m); got != want {
		return fmt.Errorf("step %d RIB tree holds %d nodes, live routes require %d", step, got, want)
	}
	// nothing beyond what the live routes require: the FIB holds exactly as many next-hop records
	// as the flattening of the live routes prescribes (none once everything is un-registered)
	wantHops := 0
	for _, h := range m.fib() {
		wantHops += len(h)
	}
	gotHops := 0
	for _, e := range table.FibStrategyTable.GetAllFIBEntries() {
		gotHops += len(e.GetNextHops())
	}
	if gotHops != wantHops {
		return fmt.Errorf("step %d FIB holds %d next-hop records, the live routes require %d", step, gotHops, wantHops)
	}
	fs := table.VerifFibStatsOf(table.FibStrategyTable)
	prefixesWithRoutes := map[string]bool{}
	for k := range m.routes {
		prefixesWithRoutes[k.name] = true
	}
	for n := range m.strat { // an entry is also kept for a prefix with a strategy choice of its own
		prefixesWithRoutes[n] = true
	}
	switch fs.Kind {
	case "nametree":
		nodes := map[string]bool{}
		for n := range prefixesWithRoutes {
			for _, p := range prefixes(n) {
				if p != "/" {
					nodes[p] = true
				}
			}
		}
		if fs.TreeNodes != len(nodes) {
			return fmt.Errorf("step %d FIB name tree holds %d nodes, the prefixes holding routes require %d", step, fs.TreeNodes, len(nodes))
		}
	case "hashtable":
		want := len(prefixesWithRoutes)
		if !prefixesWithRoutes["/"] {
			want++ // the root entry always exists (default strategy)
		}
		if fs.Real != want {
			return fmt.Errorf("step %d FIB hash table holds %d real entries, the prefixes holding routes require %d", step, fs.Real, want)
		}
		// (which prefixes get a virtual entry is the table's policy; see harness/fib/c08_test.go)
		all := map[string]bool{}
		for n := range prefixesWithRoutes {
			for _, p := range prefixes(n) {
				if p != "/" {
					all[p] = true
				}
			}
		}
		if fs.Virt > len(all) || fs.VirtNames > len(all) {
			return fmt.Errorf("step %d FIB hash table holds %d virtual entries (%d name sets), the live prefixes have %d prefixes in all", step, fs.Virt, fs.VirtNames, len(all))
		}
	}
	return nil
}

func execC08Rib(t *testing.T) func(Case) evid.Result {
	return func(c Case) evid.Result { return bubble(t, func() evid.Result { return runC08Rib(c) }) }
}

func runC08Rib(c Case) (res evid.Result) {
	setup(c)
	m := newModel()
	chain := false
	i := 0
	step := func(op Op) error {
		before := wantRibNodes(m)
		m.apply(op)
		if before-wantRibNodes(m) >= 2 {
			chain = true
		}
		applyOp(op)
		synctest.Wait()
		m.reconcile()
		i++
		return checkStructure(m, c, i-1)
	}
	for _, op := range c.Ops {
		if err := step(op); err != nil {
			return evid.Result{Err: err}
		}
	}
	if c.Drain {
		for _, op := range c.Ops {
			if op.Kind != "add" {
				continue
			}
			if err := step(Op{Kind: "rm", Name: op.Name, Face: op.Face, Origin: op.Origin}); err != nil {
				return evid.Result{Err: err}
			}
		}
		if len(m.routes) != 0 {
			return evid.Result{Err: fmt.Errorf("harness: model not empty after drain")}
		}
		res.Classes = append(res.Classes, "drained")
	}
	res.NonTrivial = chain
	if chain {
		res.Classes = append(res.Classes, "removal-empties-chain>=2")
	}
	return res
}

const ruleC08Rib = "the C06 histories; after every op the RIB node count and the FIB structure statistics (hooks) are compared with what the harness's live route multiset requires; half of the cases then un-register everything. Non-trivial: >=1 removal/clean-up that makes a chain of >=2 RIB nodes unnecessary"

func TestC08Rib(t *testing.T) {
	rec := evid.New("C08", "TestC08Rib", ruleC08Rib)
	evid.Check(t, rec, genCase, execC08Rib(t))
}

func TestC08RibReplay(t *testing.T) { evid.Replay(t, "TestC08Rib", execC08Rib(t)) }

func TestC08RibRegress(t *testing.T) { evid.Regress(t, "C08", "TestC08Rib", execC08Rib(t)) }
