// Package rib decides C06 (the FIB always equals the flattening of the currently registered
// routes) and the RIB part of C08 (the RIB tree holds nothing beyond what live routes require).
package rib

import (
	"fmt"
	"sort"
	"strings"
	"testing"
	"testing/synctest"
	"time"

	"github.com/named-data/ndnd/fw/core"
	"github.com/named-data/ndnd/fw/face"
	"github.com/named-data/ndnd/fw/table"
	enc "github.com/named-data/ndnd/std/encoding"
	"github.com/named-data/ndnd/std/log"
	"pgregory.net/rapid"

	"verif/harness/internal/evid"
)

type Op struct {
	Kind   string `json:"k"` // add | rm | cleanup | facedown | wait
	Name   string `json:"n,omitempty"`
	Face   uint64 `json:"f"`
	Origin uint64 `json:"o,omitempty"`
	Cost   uint64 `json:"c,omitempty"`
	Flags  uint64 `json:"fl,omitempty"`
	Exp    *int64 `json:"exp,omitempty"` // add: ExpirationPeriod in ms (nil: the route does not expire)
	D      int64  `json:"d,omitempty"`   // wait: virtual milliseconds
}

type Case struct {
	Algo  string `json:"algo"`
	M     int    `json:"m"`
	Ops   []Op   `json:"ops"`
	Drain bool   `json:"drain"`
}

func init() { log.SetLevel(log.FatalLevel) }

// ------------------------------------------------------------------ names

func comps(s string) []string {
	if s == "/" || s == "" {
		return nil
	}
	return strings.Split(strings.TrimPrefix(s, "/"), "/")
}

func join(c []string) string {
	if len(c) == 0 {
		return "/"
	}
	return "/" + strings.Join(c, "/")
}

func prefixes(s string) []string {
	c := comps(s)
	out := make([]string, 0, len(c)+1)
	for i := 0; i <= len(c); i++ {
		out = append(out, join(c[:i]))
	}
	return out
}

var nameCache = map[string]enc.Name{}

func mkName(s string) enc.Name {
	if n, ok := nameCache[s]; ok {
		return n.Clone()
	}
	n, err := enc.NameFromStr(s)
	if err != nil {
		panic(err)
	}
	nameCache[s] = n
	return n.Clone()
}

// ------------------------------------------------------------------ reference: multiset of live routes

type routeKey struct {
	name   string
	face   uint64
	origin uint64
}

type routeVal struct{ cost, flags uint64 }

// model: the routes the user of the RIB has registered and not removed. A route registered with an
// expiration period is certainly registered until the period is over; from then on the statement leaves
// open whether the table still holds it (this RIB stores the period and never acts on it; NFD's removes
// the route), so the reference looks at the RIB listing and adopts what it sees (reconcile). A route
// registered - or registered again - without a period never expires.
type model struct {
	routes map[routeKey]routeVal
	expAt  map[routeKey]int64 // virtual ms at which the period of a route is over (absent: never)
	now    int64
	gone   int             // routes seen to have left the table after their period
	strat  map[string]bool // prefixes with a strategy choice of their own (matters for the structure bound only)
}

func newModel() *model {
	return &model{routes: map[routeKey]routeVal{}, expAt: map[routeKey]int64{}, strat: map[string]bool{}}
}

func (m *model) apply(op Op) {
	switch op.Kind {
	case "add":
		k := routeKey{op.Name, op.Face, op.Origin}
		m.routes[k] = routeVal{op.Cost, op.Flags}
		delete(m.expAt, k)
		if op.Exp != nil {
			m.expAt[k] = m.now + *op.Exp
		}
	case "rm":
		delete(m.routes, routeKey{op.Name, op.Face, op.Origin})
		delete(m.expAt, routeKey{op.Name, op.Face, op.Origin})
	case "cleanup", "facedown":
		for k := range m.routes {
			if k.face == op.Face {
				delete(m.routes, k)
				delete(m.expAt, k)
			}
		}
	case "wait":
		m.now += op.D
	case "setstrat":
		m.strat[op.Name] = true
	case "unsetstrat":
		delete(m.strat, op.Name)
	}
}

// reconcile drops from the reference the routes whose period is over and which the RIB no longer lists.
func (m *model) reconcile() {
	var due []routeKey
	for k, at := range m.expAt {
		if m.now >= at {
			due = append(due, k)
		}
	}
	if len(due) == 0 {
		return
	}
	listed := map[routeKey]bool{}
	for _, e := range table.Rib.GetAllEntries() {
		for _, r := range e.GetRoutes() {
			listed[routeKey{e.Name.String(), r.FaceID, r.Origin}] = true
		}
	}
	for _, k := range due {
		if !listed[k] {
			delete(m.routes, k)
			delete(m.expAt, k)
			m.gone++
		}
	}
}

func (m *model) routesAt(name string) map[routeKey]routeVal {
	out := map[routeKey]routeVal{}
	for k, v := range m.routes {
		if k.name == name {
			out[k] = v
		}
	}
	return out
}

func hasCapture(rs map[routeKey]routeVal) bool {
	for _, v := range rs {
		if v.flags&2 != 0 {
			return true
		}
	}
	return false
}

// flatten computes, from scratch, the next hops of a prefix that holds routes, as the
// statement of C06 defines them.
func (m *model) flatten(name string) map[uint64]uint64 {
	out := map[uint64]uint64{}
	add := func(f, c uint64) {
		if old, ok := out[f]; !ok || c < old {
			out[f] = c
		}
	}
	own := m.routesAt(name)
	for k, v := range own {
		add(k.face, v.cost)
	}
	if hasCapture(own) {
		return out
	}
	ps := prefixes(name)
	for i := len(ps) - 2; i >= 0; i-- {
		rs := m.routesAt(ps[i])
		for k, v := range rs {
			if v.flags&1 != 0 {
				add(k.face, v.cost)
			}
		}
		if hasCapture(rs) {
			break
		}
	}
	return out
}

// expected FIB: prefix -> next hops, for exactly the prefixes that hold routes.
func (m *model) fib() map[string]map[uint64]uint64 {
	out := map[string]map[uint64]uint64{}
	for k := range m.routes {
		if _, ok := out[k.name]; !ok {
			out[k.name] = m.flatten(k.name)
		}
	}
	return out
}

// ------------------------------------------------------------------ generator

// "32=a" / "32=b": components with the value bytes of "a" / "b" and another type (siblings that
// differ in nothing but the component type)
var alphabet = []string{"a", "b", "c", "32=a", "32=b"}

func genName(t *rapid.T, label string) string {
	d := rapid.SampledFrom([]int{0, 1, 1, 2, 2, 3, 3, 4}).Draw(t, label+"depth")
	c := make([]string, d)
	for i := range c {
		c[i] = alphabet[rapid.SampledFrom([]int{0, 0, 0, 0, 1, 1, 1, 2, 2, 3, 4}).Draw(t, label+"c")]
	}
	return join(c)
}

// rawOp is drawn independently of the history (so that rapid can delete list elements
// while shrinking); references to earlier operations are resolved afterwards.
type rawOp struct {
	Kind         string
	Lit          string
	How, Ref     int
	X1, X2       string
	Face, Origin uint64
	Cost, Flags  uint64
	RmEx         bool
	Exp          int64 // < 0: none
	D            int64
}

func genRaw(t *rapid.T) rawOp {
	return rawOp{
		Kind:   rapid.SampledFrom([]string{"add", "add", "add", "add", "add", "add", "add", "add", "rm", "rm", "rm", "rm", "cleanup", "cleanup", "facedown", "facedown", "wait", "wait", "setstrat", "unsetstrat"}).Draw(t, "kind"),
		Lit:    genName(t, "n"),
		How:    rapid.IntRange(0, 9).Draw(t, "how"),
		Ref:    rapid.IntRange(0, 1000).Draw(t, "ref"),
		X1:     rapid.SampledFrom(alphabet).Draw(t, "x1"),
		X2:     rapid.SampledFrom(alphabet).Draw(t, "x2"),
		Face:   uint64(rapid.IntRange(1, 4).Draw(t, "face")),
		Origin: rapid.SampledFrom([]uint64{0, 0, 0, 65, 128, 255, 5, 0x10005, 0x20005, 1<<32 + 65}).Draw(t, "origin"),
		Cost:   rapid.SampledFrom([]uint64{0, 0, 1, 1, 2, 2, 5, 10, 1 << 33, 1 << 63, 1<<64 - 1}).Draw(t, "cost"),
		Flags:  uint64(rapid.IntRange(0, 3).Draw(t, "flags")),
		RmEx:   rapid.IntRange(0, 4).Draw(t, "rmex") > 0,
		Exp:    rapid.SampledFrom([]int64{-1, -1, -1, -1, -1, -1, 0, 50, 1000, 60000}).Draw(t, "exp"),
		D:      rapid.SampledFrom([]int64{1, 49, 50, 51, 999, 1000, 1001, 5000, 59000, 70000}).Draw(t, "wait"),
	}
}

func genCase(t *rapid.T) Case {
	c := Case{Algo: rapid.SampledFrom([]string{"nametree", "hashtable"}).Draw(t, "algo"), M: rapid.IntRange(1, 4).Draw(t, "m")}
	raws := rapid.SliceOfN(rapid.Custom(genRaw), 1, 40).Draw(t, "ops")
	c.Drain = rapid.Bool().Draw(t, "drain")
	m := newModel()
	var used []string
	pick := func(r rawOp) string {
		if len(used) > 0 {
			base := comps(used[r.Ref%len(used)])
			switch r.How {
			case 0, 1, 2:
				return join(base)
			case 3, 4: // grandchild: creates a gap (/a and /a/b/c without /a/b)
				if len(base) <= 2 {
					return join(append(append([]string{}, base...), r.X1, r.X2))
				}
			case 5:
				if len(base) <= 3 {
					return join(append(append([]string{}, base...), r.X1))
				}
			case 6:
				if len(base) > 0 {
					return join(base[:len(base)-1])
				}
			}
		}
		return r.Lit
	}
	for _, r := range raws {
		var op Op
		switch r.Kind {
		case "add":
			op = Op{Kind: "add", Name: pick(r), Face: r.Face, Origin: r.Origin, Cost: r.Cost, Flags: r.Flags}
			if r.Exp >= 0 {
				e := r.Exp
				op.Exp = &e
			}
		case "rm":
			keys := make([]routeKey, 0, len(m.routes))
			for k := range m.routes {
				keys = append(keys, k)
			}
			sort.Slice(keys, func(i, j int) bool {
				if keys[i].name != keys[j].name {
					return keys[i].name < keys[j].name
				}
				if keys[i].face != keys[j].face {
					return keys[i].face < keys[j].face
				}
				return keys[i].origin < keys[j].origin
			})
			if len(keys) > 0 && r.RmEx {
				k := keys[r.Ref%len(keys)]
				op = Op{Kind: "rm", Name: k.name, Face: k.face, Origin: k.origin}
			} else {
				op = Op{Kind: "rm", Name: pick(r), Face: r.Face, Origin: r.Origin}
			}
		case "wait":
			op = Op{Kind: "wait", D: r.D}
		case "setstrat", "unsetstrat":
			// strategy choices live in the same table as the next hops the RIB publishes; they say nothing
			// about next hops (the reference ignores them). Never the root: it cannot be unset.
			op = Op{Kind: r.Kind, Name: pick(r)}
			if op.Name == "/" {
				op = Op{Kind: "wait", D: 1}
			}
		default:
			op = Op{Kind: r.Kind, Face: r.Face}
		}
		m.apply(op)
		if op.Name != "" {
			used = append(used, op.Name)
		}
		c.Ops = append(c.Ops, op)
	}
	return c
}

// ------------------------------------------------------------------ execution

func hopsString(h map[uint64]uint64) string {
	fs := make([]uint64, 0, len(h))
	for f := range h {
		fs = append(fs, f)
	}
	sort.Slice(fs, func(i, j int) bool { return fs[i] < fs[j] })
	var sb strings.Builder
	for _, f := range fs {
		fmt.Fprintf(&sb, "%d@%d ", f, h[f])
	}
	return sb.String()
}

func observedHops(hs []*table.FibNextHopEntry) (map[uint64]uint64, error) {
	out := map[uint64]uint64{}
	for _, h := range hs {
		if _, dup := out[h.Nexthop]; dup {
			return nil, fmt.Errorf("face %d listed twice", h.Nexthop)
		}
		out[h.Nexthop] = h.Cost
	}
	return out, nil
}

func sameHops(a, b map[uint64]uint64) bool {
	if len(a) != len(b) {
		return false
	}
	for k, v := range a {
		if w, ok := b[k]; !ok || v != w {
			return false
		}
	}
	return true
}

func setup(c Case) {
	cfg := core.DefaultConfig()
	cfg.Tables.Fib.Hashtable.M = uint16(c.M)
	cfg.Tables.Fib.Algorithm = c.Algo
	core.LoadConfig(cfg, "")
	table.VerifReset()
	table.CreateFIBTable(c.Algo)
}

func applyOp(op Op) {
	switch op.Kind {
	case "add":
		r := &table.Route{FaceID: op.Face, Origin: op.Origin, Cost: op.Cost, Flags: op.Flags}
		if op.Exp != nil {
			d := time.Duration(*op.Exp) * time.Millisecond
			r.ExpirationPeriod = &d
		}
		table.Rib.AddEncRoute(mkName(op.Name), r)
	case "wait":
		time.Sleep(time.Duration(op.D) * time.Millisecond)
		synctest.Wait()
	case "setstrat":
		table.FibStrategyTable.SetStrategyEnc(mkName(op.Name), mkName("/localhost/nfd/strategy/multicast/v=1"))
	case "unsetstrat":
		table.FibStrategyTable.UnSetStrategyEnc(mkName(op.Name))
	case "rm":
		table.Rib.RemoveRouteEnc(mkName(op.Name), op.Face, op.Origin)
	case "cleanup":
		table.Rib.CleanUpFace(op.Face)
	case "facedown":
		face.FaceTable.Remove(op.Face) // the real path: face table -> dispatch -> Rib.CleanUpFace
	}
}

func universe(c Case) []string {
	set := map[string]bool{"/": true, "/z": true, "/z/z": true}
	for _, op := range c.Ops {
		if op.Name == "" {
			continue
		}
		for _, p := range prefixes(op.Name) {
			set[p] = true
		}
		pc := comps(op.Name)
		for _, x := range alphabet {
			set[join(append(append([]string{}, pc...), x))] = true
		}
		set[join(append(append([]string{}, pc...), "z", "z"))] = true
	}
	out := make([]string, 0, len(set))
	for k := range set {
		out = append(out, k)
	}
	sort.Strings(out)
	return out
}

func checkState(m *model, names []string, step int) error {
	want := m.fib()
	// lookups: LPM over exactly the prefixes holding routes
	for _, q := range names {
		var w map[uint64]uint64
		ps := prefixes(q)
		for i := len(ps) - 1; i >= 0; i-- {
			if h, ok := want[ps[i]]; ok {
				w = h
				break
			}
		}
		got, err := observedHops(table.FibStrategyTable.FindNextHopsEnc(mkName(q)))
		if err != nil {
			return fmt.Errorf("step %d FindNextHops(%s): %v", step, q, err)
		}
		if !sameHops(got, w) {
			return fmt.Errorf("step %d FindNextHops(%s) = {%s} want {%s} (flattening of the longest prefix holding routes)", step, q, hopsString(got), hopsString(w))
		}
	}
	// FIB listing = exactly the prefixes holding routes
	seen := map[string]bool{}
	for _, e := range table.FibStrategyTable.GetAllFIBEntries() {
		n := e.Name().String()
		if seen[n] {
			return fmt.Errorf("step %d FIB listing has %s twice", step, n)
		}
		seen[n] = true
		got, err := observedHops(e.GetNextHops())
		if err != nil {
			return fmt.Errorf("step %d FIB listing %s: %v", step, n, err)
		}
		w, ok := want[n]
		if !ok {
			return fmt.Errorf("step %d FIB has entry %s {%s} but no route is registered there", step, n, hopsString(got))
		}
		if !sameHops(got, w) {
			return fmt.Errorf("step %d FIB entry %s = {%s} want {%s}", step, n, hopsString(got), hopsString(w))
		}
	}
	for n := range want {
		if !seen[n] {
			return fmt.Errorf("step %d FIB lacks entry %s which holds routes", step, n)
		}
	}
	// RIB listing = live multiset
	got := map[routeKey]routeVal{}
	for _, e := range table.Rib.GetAllEntries() {
		for _, r := range e.GetRoutes() {
			k := routeKey{e.Name.String(), r.FaceID, r.Origin}
			if _, dup := got[k]; dup {
				return fmt.Errorf("step %d RIB lists route %v twice", step, k)
			}
			got[k] = routeVal{r.Cost, r.Flags}
		}
	}
	if len(got) != len(m.routes) {
		return fmt.Errorf("step %d RIB lists %d routes, %d are registered", step, len(got), len(m.routes))
	}
	for k, v := range m.routes {
		if g, ok := got[k]; !ok || g != v {
			return fmt.Errorf("step %d RIB route %v = %v (present %v) want %v", step, k, g, ok, v)
		}
	}
	return nil
}

type flags struct{ gap, capture, removal bool }

func classify(c Case) flags {
	var f flags
	m := newModel()
	for _, op := range c.Ops {
		switch op.Kind {
		case "add":
			if op.Flags&2 != 0 {
				f.capture = true
			}
		case "rm":
			if _, ok := m.routes[routeKey{op.Name, op.Face, op.Origin}]; ok {
				f.removal = true
			}
		case "cleanup", "facedown":
			for k := range m.routes {
				if k.face == op.Face {
					f.removal = true
				}
			}
		}
		m.apply(op)
		// gap chain: two prefixes with routes, one at least two levels below the other, nothing between
		names := map[string]bool{}
		for k := range m.routes {
			names[k.name] = true
		}
		for n := range names {
			ps := prefixes(n)
			for i := len(ps) - 3; i >= 0; i-- {
				if names[ps[i]] && !names[ps[i+1]] {
					f.gap = true
				}
			}
		}
	}
	return f
}

// bubble runs f under virtual time (route expiry, if the table implements it, is a matter of timers).
func bubble(t *testing.T, f func() evid.Result) (res evid.Result) {
	synctest.Test(t, func(*testing.T) {
		defer func() {
			if r := recover(); r != nil {
				res.Err = fmt.Errorf("panic: %v", r)
			}
		}()
		res = f()
	})
	return res
}

func execC06(t *testing.T) func(Case) evid.Result {
	return func(c Case) evid.Result { return bubble(t, func() evid.Result { return runC06(c) }) }
}

func runC06(c Case) (res evid.Result) {
	setup(c)
	m := newModel()
	names := universe(c)
	periods, lapsed := false, false
	for i, op := range c.Ops {
		m.apply(op)
		applyOp(op)
		synctest.Wait() // a timer that is due now (an expiry, if the table has such a thing) has run
		for _, at := range m.expAt {
			periods = true
			if m.now >= at {
				lapsed = true
			}
		}
		m.reconcile()
		if err := checkState(m, names, i); err != nil {
			return evid.Result{Err: err}
		}
	}
	if periods {
		res.Classes = append(res.Classes, "route-with-expiration-period")
	}
	if lapsed {
		res.Classes = append(res.Classes, "expiration-period-over-while-registered")
	}
	if m.gone > 0 {
		res.Classes = append(res.Classes, "expired-route-left-the-table")
	}
	f := classify(c)
	res.NonTrivial = f.gap && f.capture && f.removal
	if f.gap {
		res.Classes = append(res.Classes, "gap-chain")
	}
	if f.capture {
		res.Classes = append(res.Classes, "capture-flag")
	}
	if f.removal {
		res.Classes = append(res.Classes, "effective-removal-or-face-cleanup")
	}
	res.Classes = append(res.Classes, "algo-"+c.Algo)
	return res
}

const ruleC06 = "rapid histories (<=40 ops) of AddEncRoute (re-registration with changed cost/flags included), RemoveRouteEnc, Rib.CleanUpFace and face.FaceTable.Remove over nested prefixes from {a,b,c,32=a,32=b}^0..4 (gap chains, siblings - also siblings differing only in the component type -, root), costs up to 2^64-1, strategy choices set and unset on the same prefixes in between, optional ExpirationPeriod (0, 50 ms, 1 s, 60 s) and virtual-time waits around those periods (a route whose period is over may stay or go: the reference adopts what the RIB lists; one without a period never goes), faces 1..4, origins {0,65,128,255,5,0x10005,0x20005,2^32+65}, all four flag combinations, on the name-tree or hash-table FIB; after every op FindNextHopsEnc over the universe, GetAllFIBEntries and Rib.GetAllEntries are compared with a from-scratch flattening of the harness's own route multiset. Non-trivial: history with a gap chain, >=1 capture flag and >=1 effective removal or face clean-up; distinct by case hash"

func TestC06Rib(t *testing.T) {
	rec := evid.New("C06", "TestC06Rib", ruleC06)
	evid.Check(t, rec, genCase, execC06(t))
}

func TestC06RibReplay(t *testing.T) { evid.Replay(t, "TestC06Rib", execC06(t)) }

func TestC06RibRegress(t *testing.T) { evid.Regress(t, "C06", "TestC06Rib", execC06(t)) }
