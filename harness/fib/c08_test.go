package fib

import (
	"fmt"
	"testing"

	"github.com/named-data/ndnd/fw/table"

	"verif/harness/internal/evid"
)

// C08 (FIB part): the FIB structures hold nothing beyond what their live entries require.
// Oracle: name tree -- the nodes are exactly the union of the paths from the root to the
// prefixes that hold next hops or a strategy; hash table -- the real table is exactly those
// prefixes (the root always holds a strategy), the virtual table has no more entries than the
// live prefixes have prefixes (none when nothing is live). Checked after every
// operation, and after removing everything that was added.

func wantStructure(m *model, M int) (treeNodes, real, virt int) {
	nodes := map[string]bool{}
	virts := map[string]bool{}
	live := map[string]bool{}
	for n, h := range m.hops {
		if len(h) > 0 {
			live[n] = true
		}
	}
	for n := range m.strat {
		live[n] = true
	}
	for n := range live {
		for _, p := range prefixes(n) {
			if p != "/" {
				nodes[p] = true
			}
		}
		if c := comps(n); len(c) >= M {
			virts[join(c[:M])] = true
		}
	}
	return len(nodes), len(live), len(virts)
}

func checkStructure(impls []impl, m *model, M int, step int) error {
	wn, wr, wv := wantStructure(m, M)
	for _, im := range impls {
		st := table.VerifFibStatsOf(im.t)
		switch st.Kind {
		case "nametree":
			if st.TreeNodes != wn {
				return fmt.Errorf("step %d nametree holds %d nodes (%d needed by its own walk), live entries require %d", step, st.TreeNodes, st.NodesNeeded, wn)
			}
		case "hashtable":
			if st.Real != wr {
				return fmt.Errorf("step %d hashtable real table holds %d entries, live entries require %d", step, st.Real, wr)
			}
			// Which prefixes of the live names get a virtual entry is the table's policy (one level at
			// depth m today; every multiple of m would do as well): whatever it is, a virtual entry
			// indexes live names, so there can be no more of them than live names have prefixes, and
			// none when nothing is live. (The exact count under today's policy is kept as a statistic.)
			if st.Virt > wn || st.VirtNames > wn {
				return fmt.Errorf("step %d hashtable virtual table holds %d entries (name sets %d), the live entries have %d prefixes in all", step, st.Virt, st.VirtNames, wn)
			}
			_ = wv
		default:
			return fmt.Errorf("unknown table kind %q", st.Kind)
		}
	}
	return nil
}

func execC08Fib(c Case) (res evid.Result) {
	defer func() {
		if r := recover(); r != nil {
			res.Err = fmt.Errorf("panic: %v", r)
		}
	}()
	impls := makeTables(c.M)
	m := newModel()
	chain := false
	ops := append([]Op{}, c.Ops...)
	step := func(i int, op Op) error {
		// does this removal empty a chain of >= 2 nodes?
		if op.Kind == "rm" || op.Kind == "clr" || op.Kind == "unset" {
			bn, _, _ := wantStructure(m, c.M)
			m.apply(op)
			an, _, _ := wantStructure(m, c.M)
			if bn-an >= 2 {
				chain = true
			}
		} else {
			m.apply(op)
		}
		for _, im := range impls {
			applyOp(im.t, op)
		}
		return checkStructure(impls, m, c.M, i)
	}
	for i, op := range ops {
		if err := step(i, op); err != nil {
			return evid.Result{Err: err}
		}
	}
	if c.Drain {
		// remove everything that was added, in the (deterministic) order of the history
		i := len(ops)
		for _, op := range c.Ops {
			var un Op
			switch op.Kind {
			case "ins":
				un = Op{Kind: "rm", Name: op.Name, Face: op.Face}
			case "set":
				if op.Name == "/" {
					continue
				}
				un = Op{Kind: "unset", Name: op.Name}
			case "repl":
				for _, r := range op.Batch {
					if err := step(i, Op{Kind: "clr", Name: r.Name}); err != nil {
						return evid.Result{Err: err}
					}
					i++
				}
				continue
			default:
				continue
			}
			if err := step(i, un); err != nil {
				return evid.Result{Err: err}
			}
			i++
		}
		wn, wr, wv := wantStructure(m, c.M)
		if wn != 0 || wr != 1 || wv != 0 {
			return evid.Result{Err: fmt.Errorf("harness: model not empty after drain (%d,%d,%d)", wn, wr, wv)}
		}
		res.Classes = append(res.Classes, "drained")
	}
	res.NonTrivial = chain
	if chain {
		res.Classes = append(res.Classes, "removal-empties-chain>=2")
	}
	return res
}

const ruleC08Fib = "the C05 histories; after every op the structure statistics (hook) of both FIBs are compared with what the reference's live prefixes require; half of the cases then remove everything that was added. Non-trivial: >=1 removal that makes a chain of >=2 tree nodes unnecessary"

func TestC08Fib(t *testing.T) {
	rec := evid.New("C08", "TestC08Fib", ruleC08Fib)
	evid.Check(t, rec, genCase, execC08Fib)
}

func TestC08FibReplay(t *testing.T) {
	evid.Replay(t, "TestC08Fib", execC08Fib)
}

func TestC08FibRegress(t *testing.T) {
	evid.Regress(t, "C08", "TestC08Fib", execC08Fib)
}
