// Package fib decides C05 (FIB lookup is longest-prefix match under every update history,
// in both FIBs) and the FIB part of C08 (the FIB structures hold nothing beyond what
// their live entries require).
package fib

import (
	"fmt"
	"sort"
	"strings"
	"testing"

	"github.com/named-data/ndnd/fw/core"
	"github.com/named-data/ndnd/fw/table"
	enc "github.com/named-data/ndnd/std/encoding"
	"pgregory.net/rapid"

	"verif/harness/internal/evid"
)

// ---------------------------------------------------------------------------- case

type Op struct {
	Kind  string `json:"k"` // ins | rm | clr | set | unset | repl | flap
	Name  string `json:"n"`
	Face  uint64 `json:"f,omitempty"`
	Cost  uint64 `json:"c,omitempty"`
	Strat int    `json:"s,omitempty"`
	// repl: the next-hop sets of several prefixes replaced in one call (ReplaceNextHopsEnc: what
	// the RIB publishes with), in any order -- withdrawals (empty sets) before or after updates of
	// the same prefix, of ancestors, of descendants (seeded C05-r7-1 resolved the nodes of the whole
	// batch first and pruned some of them while applying it)
	Batch []Repl `json:"b,omitempty"`
	// flap: Rep times "insert (Face, Cost) at Name, remove it again" -- a long history in one operation
	// (a table that counts its removals, compacts itself or rebuilds an index after so many of them
	// must come out the same; seeded C05-r9-1 compacted after 1024 prunes and lost the next insertion)
	Rep int `json:"rep,omitempty"`
}

type Repl struct {
	Name string      `json:"n"`
	Hops [][2]uint64 `json:"h,omitempty"` // (face, cost)
}

type Case struct {
	M       int      `json:"m"`
	Ops     []Op     `json:"ops"`
	Queries []string `json:"q"` // extra lookup names, besides the closure of touched names
	Drain   bool     `json:"drain"`
}

var strategies = []string{
	"/localhost/nfd/strategy/best-route/v=1",
	"/localhost/nfd/strategy/multicast/v=1",
	"/s/x/v=7",
}

const defaultStrategy = "/localhost/nfd/strategy/best-route/v=1"

func mkName(s string) enc.Name {
	n, err := enc.NameFromStr(s)
	if err != nil {
		panic(err)
	}
	return n
}

func comps(s string) []string {
	if s == "/" || s == "" {
		return nil
	}
	return strings.Split(strings.TrimPrefix(s, "/"), "/")
}

func join(c []string) string {
	if len(c) == 0 {
		return "/"
	}
	return "/" + strings.Join(c, "/")
}

var prefixCache = map[string][]string{}

func prefixes(s string) []string {
	if p, ok := prefixCache[s]; ok {
		return p
	}
	p := prefixesSlow(s)
	prefixCache[s] = p
	return p
}

func prefixesSlow(s string) []string {
	c := comps(s)
	out := make([]string, 0, len(c)+1)
	for i := 0; i <= len(c); i++ {
		out = append(out, join(c[:i]))
	}
	return out
}

func isPrefix(p, n string) bool {
	pc, nc := comps(p), comps(n)
	if len(pc) > len(nc) {
		return false
	}
	for i := range pc {
		if pc[i] != nc[i] {
			return false
		}
	}
	return true
}

// ---------------------------------------------------------------------------- reference model

type model struct {
	hops  map[string]map[uint64]uint64
	strat map[string]string
}

func newModel() *model {
	return &model{hops: map[string]map[uint64]uint64{}, strat: map[string]string{"/": defaultStrategy}}
}

func (m *model) apply(op Op) {
	switch op.Kind {
	case "ins":
		if m.hops[op.Name] == nil {
			m.hops[op.Name] = map[uint64]uint64{}
		}
		m.hops[op.Name][op.Face] = op.Cost
	case "rm":
		if h := m.hops[op.Name]; h != nil {
			delete(h, op.Face)
			if len(h) == 0 {
				delete(m.hops, op.Name)
			}
		}
	case "clr":
		delete(m.hops, op.Name)
	case "repl":
		for _, r := range op.Batch {
			delete(m.hops, r.Name)
			for _, h := range r.Hops {
				if m.hops[r.Name] == nil {
					m.hops[r.Name] = map[uint64]uint64{}
				}
				m.hops[r.Name][h[0]] = h[1]
			}
		}
	case "set":
		m.strat[op.Name] = strategies[op.Strat]
	case "unset":
		delete(m.strat, op.Name)
	case "flap":
		if op.Rep > 0 { // the last round decides: the face is gone from that prefix
			m.apply(Op{Kind: "rm", Name: op.Name, Face: op.Face})
		}
	}
}

func (m *model) lookupHops(name string) map[uint64]uint64 {
	ps := prefixes(name)
	for i := len(ps) - 1; i >= 0; i-- {
		if h := m.hops[ps[i]]; len(h) > 0 {
			return h
		}
	}
	return nil
}

func (m *model) lookupStrat(name string) string {
	ps := prefixes(name)
	for i := len(ps) - 1; i >= 0; i-- {
		if s, ok := m.strat[ps[i]]; ok {
			return s
		}
	}
	return ""
}

func (m *model) registered(name string) bool {
	if len(m.hops[name]) > 0 {
		return true
	}
	_, ok := m.strat[name]
	return ok && name != "/"
}

// sandwiched: name has a registered proper ancestor (non-root) or root next hops, and a registered descendant.
func (m *model) sandwiched(name string) bool {
	anc, desc := false, false
	for _, p := range prefixes(name) {
		if p != name && (m.registered(p) || (p == "/" && len(m.hops["/"]) > 0)) {
			anc = true
		}
	}
	for k := range m.hops {
		if k != name && isPrefix(name, k) {
			desc = true
		}
	}
	for k := range m.strat {
		if k != name && isPrefix(name, k) {
			desc = true
		}
	}
	return anc && desc
}

// ---------------------------------------------------------------------------- generator

var alphabet = []string{"a", "b", "c"}

// spell writes a name the way the cases spell it: one-to-one (Name.String prints
// numeric-convention components as decimal numbers, so that values of different width read alike).
func spell(n enc.Name) string {
	c := make([]string, len(n))
	for i := range n {
		c[i] = n[i].CanonicalString()
	}
	return join(c)
}

var twins = map[string]string{"50=%01": "50=%00%01", "50=%00%01": "50=%01", "54=%00": "54=%00%00", "54=%00%00": "54=%00", "b": "32=b", "32=b": "b"}

func genName(t *rapid.T, maxDepth int, label string) string {
	d := rapid.IntRange(0, maxDepth).Draw(t, label+"depth")
	c := make([]string, d)
	for i := range c {
		// bias towards "a" so that names share prefixes
		c[i] = alphabet[rapid.SampledFrom([]int{0, 0, 0, 1, 1, 2}).Draw(t, label+"c")]
		// now and then a typed component, and a pair of names whose bytes can be split in two
		// ways: /a/32=b and /a%00/8290= (type 8290 = 0x2062: "8-byte type, value" without a
		// length reads the same for both -- the hash-table FIB keys its entries by name hash)
		// and numeric-convention components whose values differ only in width: segment 1 written
		// in one and in two bytes are different components that print alike ("seg=1")
		if x := rapid.IntRange(0, 39).Draw(t, label+"odd"); x < 6 {
			c[i] = []string{"32=b", "a%00", "8290=", "50=%01", "50=%00%01", "54=%00"}[x]
		}
	}
	return join(c)
}

func genCase(t *rapid.T) Case {
	c := Case{M: rapid.IntRange(1, 6).Draw(t, "m")}
	m := newModel()
	touched := []string{}
	nops := rapid.IntRange(1, 60).Draw(t, "nops")
	// one case in four has many faces (an entry with sixteen next hops and more may be kept differently
	// from a small one: seeded C05-r10-1 switched to a sorted list searched by bisection at sixteen)
	maxFace := 5
	if rapid.IntRange(0, 3).Draw(t, "manyFaces") == 0 {
		maxFace = 24
	}
	kinds := []string{"ins", "ins", "ins", "rm", "rm", "clr", "set", "set", "unset", "repl"}
	if rapid.IntRange(0, 9).Draw(t, "longHistory") == 0 {
		kinds = append(kinds, "flap") // one case in ten: about one operation in eleven repeats itself up to 2100 times
	}
	// one case in twelve lives around one very long name (about 64 components and beyond: a table that
	// keeps the set of prefix lengths in use in a machine word must not stop at the word size); such
	// cases are short, every lookup walks the whole chain
	var deepBase []string
	if rapid.IntRange(0, 11).Draw(t, "deep") == 0 {
		d := rapid.SampledFrom([]int{33, 62, 63, 64, 65, 70}).Draw(t, "deepdepth")
		for i := 0; i < d; i++ {
			deepBase = append(deepBase, "a")
		}
		nops = rapid.IntRange(1, 12).Draw(t, "deepnops")
	}
	pick := func(label string) string {
		if deepBase != nil {
			k := len(deepBase) + rapid.IntRange(-3, 3).Draw(t, label+"deepdelta")
			p := append([]string{}, deepBase...)
			for len(p) < k {
				p = append(p, rapid.SampledFrom(alphabet).Draw(t, label+"deepc"))
			}
			if rapid.IntRange(0, 5).Draw(t, label+"deepshort") == 0 {
				k = rapid.IntRange(0, 3).Draw(t, label+"deepk")
			}
			return join(p[:k])
		}
		// existing prefix, its parent, a child of it, or a fresh name
		if len(touched) > 0 {
			switch rapid.IntRange(0, 9).Draw(t, label+"how") {
			case 0, 1, 2, 3:
				return rapid.SampledFrom(touched).Draw(t, label+"ex")
			case 4, 5:
				p := comps(rapid.SampledFrom(touched).Draw(t, label+"par"))
				if len(p) > 0 {
					return join(p[:len(p)-1])
				}
				return "/"
			case 6, 7:
				p := comps(rapid.SampledFrom(touched).Draw(t, label+"chi"))
				if len(p) < 7 {
					return join(append(append([]string{}, p...), rapid.SampledFrom(alphabet).Draw(t, label+"cc")))
				}
			case 8:
				// the twin of an existing prefix: one component replaced by one that differs only in
				// the width of a numeric-convention value or in type / escaping
				p := append([]string{}, comps(rapid.SampledFrom(touched).Draw(t, label+"twin"))...)
				if len(p) > 0 {
					i := rapid.IntRange(0, len(p)-1).Draw(t, label+"twi")
					if tw, ok := twins[p[i]]; ok {
						p[i] = tw
					} else {
						p[i] = rapid.SampledFrom([]string{"50=%01", "50=%00%01"}).Draw(t, label+"tww")
					}
					return join(p)
				}
			}
		}
		return genName(t, 7, label)
	}
	for i := 0; i < nops; i++ {
		var op Op
		switch rapid.SampledFrom(kinds).Draw(t, "kind") {
		case "repl":
			op = Op{Kind: "repl"}
			for k := rapid.IntRange(1, 4).Draw(t, "batch"); k > 0; k-- {
				r := Repl{Name: pick("rn")}
				for j := rapid.IntRange(0, 2+maxFace/6*5).Draw(t, "rhops"); j > 0; j-- {
					f := uint64(rapid.IntRange(1, maxFace).Draw(t, "rface"))
					dup := false
					for _, h := range r.Hops {
						dup = dup || h[0] == f
					}
					if !dup {
						r.Hops = append(r.Hops, [2]uint64{f, rapid.SampledFrom([]uint64{0, 1, 2, 10}).Draw(t, "rcost")})
					}
				}
				op.Batch = append(op.Batch, r)
				touched = append(touched, r.Name)
			}
		case "flap":
			op = Op{Kind: "flap", Name: pick("n"), Face: uint64(rapid.IntRange(1, maxFace).Draw(t, "face")), Cost: 3,
				Rep: rapid.SampledFrom([]int{3, 100, 1023, 1024, 1025, 2100}).Draw(t, "flapRep")}
		case "ins":
			op = Op{Kind: "ins", Name: pick("n"), Face: uint64(rapid.IntRange(1, maxFace).Draw(t, "face")),
				Cost: rapid.SampledFrom([]uint64{0, 1, 1, 2, 10, 1 << 40}).Draw(t, "cost")}
		case "rm":
			op = Op{Kind: "rm", Name: pick("n"), Face: uint64(rapid.IntRange(1, maxFace).Draw(t, "face"))}
			// prefer a face that exists there
			if h := m.hops[op.Name]; len(h) > 0 && rapid.Bool().Draw(t, "rmexisting") {
				fs := make([]uint64, 0, len(h))
				for f := range h {
					fs = append(fs, f)
				}
				sort.Slice(fs, func(i, j int) bool { return fs[i] < fs[j] })
				op.Face = rapid.SampledFrom(fs).Draw(t, "rmface")
			}
		case "clr":
			op = Op{Kind: "clr", Name: pick("n")}
		case "set":
			op = Op{Kind: "set", Name: pick("n"), Strat: rapid.IntRange(0, len(strategies)-1).Draw(t, "strat")}
		case "unset":
			op = Op{Kind: "unset", Name: pick("n")}
			if op.Name == "/" {
				// caller precondition: the root strategy can be replaced but not unset
				// (fw/mgmt/strategy-choice.go refuses it); C17 checks the refusal.
				op = Op{Kind: "set", Name: "/", Strat: rapid.IntRange(0, len(strategies)-1).Draw(t, "strat")}
			}
		}
		m.apply(op)
		if op.Kind != "repl" {
			touched = append(touched, op.Name)
		}
		c.Ops = append(c.Ops, op)
	}
	nq := rapid.IntRange(0, 6).Draw(t, "nq")
	for i := 0; i < nq; i++ {
		if deepBase != nil {
			c.Queries = append(c.Queries, pick("q"))
			continue
		}
		c.Queries = append(c.Queries, genName(t, 8, "q"))
	}
	c.Drain = rapid.Bool().Draw(t, "drain")
	return c
}

// ---------------------------------------------------------------------------- execution

func hopsString(h map[uint64]uint64) string {
	fs := make([]uint64, 0, len(h))
	for f := range h {
		fs = append(fs, f)
	}
	sort.Slice(fs, func(i, j int) bool { return fs[i] < fs[j] })
	var sb strings.Builder
	for _, f := range fs {
		fmt.Fprintf(&sb, "%d@%d ", f, h[f])
	}
	return sb.String()
}

func observedHops(hs []*table.FibNextHopEntry) (map[uint64]uint64, error) {
	out := map[uint64]uint64{}
	for _, h := range hs {
		if h == nil {
			return nil, fmt.Errorf("nil next-hop entry in list")
		}
		if _, dup := out[h.Nexthop]; dup {
			return nil, fmt.Errorf("face %d listed twice", h.Nexthop)
		}
		out[h.Nexthop] = h.Cost
	}
	return out, nil
}

func sameHops(a, b map[uint64]uint64) bool {
	if len(a) != len(b) {
		return false
	}
	for k, v := range a {
		if w, ok := b[k]; !ok || v != w {
			return false
		}
	}
	return true
}

type impl struct {
	name string
	t    table.FibStrategy
}

func makeTables(m int) []impl {
	cfg := core.DefaultConfig()
	cfg.Tables.Fib.Hashtable.M = uint16(m)
	core.LoadConfig(cfg, "")
	table.CreateFIBTable("nametree")
	tree := table.FibStrategyTable
	table.CreateFIBTable("hashtable")
	ht := table.FibStrategyTable
	return []impl{{"nametree", tree}, {"hashtable", ht}}
}

func applyOp(t table.FibStrategy, op Op) {
	var n enc.Name
	if op.Kind != "repl" {
		n = mkName(op.Name) // a fresh name per call: the hash table keeps the caller's slice
	}
	switch op.Kind {
	case "ins":
		t.InsertNextHopEnc(n, op.Face, op.Cost)
	case "rm":
		t.RemoveNextHopEnc(n, op.Face)
	case "clr":
		t.ClearNextHopsEnc(n)
	case "repl":
		var ups []table.FibNextHopsUpdate
		for _, r := range op.Batch {
			u := table.FibNextHopsUpdate{Name: mkName(r.Name)}
			for _, h := range r.Hops {
				u.Nexthops = append(u.Nexthops, table.FibNextHopEntry{Nexthop: h[0], Cost: h[1]})
			}
			ups = append(ups, u)
		}
		t.ReplaceNextHopsEnc(ups)
	case "set":
		t.SetStrategyEnc(n, mkName(strategies[op.Strat]))
	case "unset":
		t.UnSetStrategyEnc(n)
	case "flap":
		for i := 0; i < op.Rep; i++ {
			t.InsertNextHopEnc(mkName(op.Name), op.Face, op.Cost)
			t.RemoveNextHopEnc(mkName(op.Name), op.Face)
		}
	}
}

var parsed = map[string]enc.Name{}

func cachedName(s string) enc.Name {
	if n, ok := parsed[s]; ok {
		return n
	}
	n := mkName(s)
	parsed[s] = n
	return n
}

func checkTables(impls []impl, m *model, names []string, step int) error {
	for _, im := range impls {
		for _, q := range names {
			qn := cachedName(q)
			got, err := observedHops(im.t.FindNextHopsEnc(qn))
			if err != nil {
				return fmt.Errorf("step %d %s FindNextHops(%s): %v", step, im.name, q, err)
			}
			want := m.lookupHops(q)
			if !sameHops(got, want) {
				return fmt.Errorf("step %d %s FindNextHops(%s) = {%s} want {%s}", step, im.name, q, hopsString(got), hopsString(want))
			}
			gs := im.t.FindStrategyEnc(qn)
			ws := m.lookupStrat(q)
			if gs == nil || !gs.Equal(cachedName(ws)) {
				return fmt.Errorf("step %d %s FindStrategy(%s) = %v want %s", step, im.name, q, gs, ws)
			}
		}
		// listings
		seen := map[string]bool{}
		for _, e := range im.t.GetAllFIBEntries() {
			n := spell(e.Name())
			if seen[n] {
				return fmt.Errorf("step %d %s FIB listing has %s twice", step, im.name, n)
			}
			seen[n] = true
			got, err := observedHops(e.GetNextHops())
			if err != nil {
				return fmt.Errorf("step %d %s FIB listing %s: %v", step, im.name, n, err)
			}
			if want := m.hops[n]; len(want) == 0 || !sameHops(got, want) {
				return fmt.Errorf("step %d %s FIB listing %s = {%s} want {%s}", step, im.name, n, hopsString(got), hopsString(want))
			}
		}
		for n, h := range m.hops {
			if len(h) > 0 && !seen[n] {
				return fmt.Errorf("step %d %s FIB listing lacks %s", step, im.name, n)
			}
		}
		seen = map[string]bool{}
		for _, e := range im.t.GetAllForwardingStrategies() {
			n := spell(e.Name())
			if seen[n] {
				return fmt.Errorf("step %d %s strategy listing has %s twice", step, im.name, n)
			}
			seen[n] = true
			if want, ok := m.strat[n]; !ok || e.GetStrategy().String() != want {
				return fmt.Errorf("step %d %s strategy listing %s = %v want %q", step, im.name, n, e.GetStrategy(), m.strat[n])
			}
		}
		for n := range m.strat {
			if !seen[n] {
				return fmt.Errorf("step %d %s strategy listing lacks %s", step, im.name, n)
			}
		}
	}
	return nil
}

func closure(c Case) []string {
	set := map[string]bool{"/": true}
	var names []string
	for _, op := range c.Ops {
		if op.Kind == "repl" {
			for _, r := range op.Batch {
				names = append(names, r.Name)
			}
			continue
		}
		names = append(names, op.Name)
	}
	for _, name := range names {
		for _, p := range prefixes(name) {
			set[p] = true
		}
		pc := comps(name)
		for _, x := range alphabet {
			set[join(append(append([]string{}, pc...), x))] = true
			set[join(append(append([]string{}, pc...), x, "a"))] = true
			set[join(append(append([]string{}, pc...), "a", x))] = true
		}
	}
	for _, q := range c.Queries {
		set[q] = true
	}
	out := make([]string, 0, len(set))
	for k := range set {
		out = append(out, k)
	}
	sort.Strings(out)
	return out
}

// execC05 runs a case against both implementations and the reference.
func execC05(c Case) (res evid.Result) {
	defer func() {
		if r := recover(); r != nil {
			res.Err = fmt.Errorf("panic: %v", r)
		}
	}()
	impls := makeTables(c.M)
	m := newModel()
	names := closure(c)
	if err := checkTables(impls, m, names, -1); err != nil {
		return evid.Result{Err: err}
	}
	sandwich, longer := false, false
	for _, q := range names {
		if len(comps(q)) > c.M {
			longer = true
		}
	}
	for i, op := range c.Ops {
		if (op.Kind == "rm" || op.Kind == "clr" || op.Kind == "unset") && m.registered(op.Name) && m.sandwiched(op.Name) {
			sandwich = true
		}
		m.apply(op)
		for _, im := range impls {
			applyOp(im.t, op)
		}
		// after every op: all names related to the touched prefix (its prefixes and
		// everything below it) and the listings; the whole closure every 6th op and at the end
		check := names
		if i%6 != 5 && i != len(c.Ops)-1 {
			check = check[:0:0]
			for _, q := range names {
				if isPrefix(op.Name, q) || isPrefix(q, op.Name) {
					check = append(check, q)
				}
			}
		}
		if err := checkTables(impls, m, check, i); err != nil {
			return evid.Result{Err: err}
		}
	}
	res.NonTrivial = sandwich && longer
	if sandwich {
		res.Classes = append(res.Classes, "removal-between-registered-ancestor-and-descendant")
	}
	if longer {
		res.Classes = append(res.Classes, "query-longer-than-m")
	}
	return res
}

const ruleC05 = "rapid state-machine histories (<=60 ops: insert/update/remove/clear next hop, set/unset strategy, batch replacement; in one case in ten also 'insert and remove again' repeated 3..2100 times as one operation) over names from {a,b,c}^0..7 (one case in twelve: a short history around a name of 33..70 components) applied to the name-tree FIB, the hash-table FIB (m drawn 1..6) and a reference map; after every op every name in the closure (prefixes of touched names, 1- and 2-component extensions, extra random names up to depth 8) is looked up in both tables and both listings are compared. Non-trivial: >=1 removal/clear/unset on a registered prefix that has a registered ancestor and a registered descendant AND >=1 queried name longer than m; distinct by hash of the case"

func TestC05Fib(t *testing.T) {
	rec := evid.New("C05", "TestC05Fib", ruleC05)
	evid.Check(t, rec, genCase, execC05)
}

func TestC05FibReplay(t *testing.T) {
	evid.Replay(t, "TestC05Fib", execC05)
}

func TestC05FibRegress(t *testing.T) {
	evid.Regress(t, "C05", "TestC05Fib", execC05)
}
