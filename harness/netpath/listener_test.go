package netpath

import (
	"bytes"
	"fmt"
	"net"
	"sort"
	"sync"
	"testing"
	"time"

	"github.com/named-data/ndnd/fw/core"
	"github.com/named-data/ndnd/fw/defn"
	"github.com/named-data/ndnd/fw/dispatch"
	"github.com/named-data/ndnd/fw/face"
	"github.com/named-data/ndnd/fw/fw"
	"github.com/named-data/ndnd/fw/table"
	"pgregory.net/rapid"

	"verif/harness/internal/evid"
)

// C10 / C04 where an on-demand UDP face begins: the real UDP listener. Every other unit constructs its
// faces itself and starts them with Run(nil); a face that the listener creates is started with the
// datagram that made the listener create it. The harness is 2..6 peers with sockets of their own. All
// peers send their first datagram back to back (so that the listener reads the next one while the face
// for the previous one is being set up) -- a bare Interest, an LpPacket, or the first fragment of a
// fragmented Interest -- and, once their face exists, the rest. A recording forwarding thread notes
// every packet with the face it is attributed to. Each peer's face must deliver exactly the packets
// that peer sent, byte-identical, once, and nothing else; no face without a peer may appear.
// (Seeded C10-r8-1: the initial frame handled after Run returned, when the listener's one receive
// buffer already holds the next datagram.)

type LPeer struct {
	N    []int `json:"n"`              // name padding of every packet (its size); the first one creates the face
	Frag int   `json:"frag,omitempty"` // > 0: the first packet is sent as fragments of at most this many bytes
	Bare bool  `json:"bare,omitempty"` // the first packet is a bare TLV, not an LpPacket
	Rev  bool  `json:"rev,omitempty"`  // fragments of the first packet last first
	// Junk > 0: before anything else the peer sends a datagram that is no packet: 1 empty, 2 one byte,
	// 3 bytes that are no TLV, 4 a truncated LpPacket, 5 an Interest cut short. Whether the listener makes
	// a face for such a peer is its business; it must survive, and the peer's packets must arrive.
	Junk int `json:"junk,omitempty"`
}

type ListenerCase struct {
	Peers []LPeer `json:"peers"`
	Order []int   `json:"order,omitempty"` // order in which the peers send their first datagram (a permutation prefix; rest ascending)
}

func genListener(t *rapid.T) ListenerCase {
	var c ListenerCase
	n := rapid.IntRange(2, 6).Draw(t, "peers")
	for i := 0; i < n; i++ {
		p := LPeer{Bare: rapid.Bool().Draw(t, "bare"), Rev: rapid.Bool().Draw(t, "rev")}
		for k := rapid.IntRange(1, 4).Draw(t, "npkts"); k > 0; k-- {
			p.N = append(p.N, rapid.SampledFrom([]int{0, 1, 30, 200, 1000, 1400, 3000, 8000}).Draw(t, "pad"))
		}
		if rapid.IntRange(0, 2).Draw(t, "frag") == 0 {
			p.Frag = rapid.SampledFrom([]int{200, 600, 1400}).Draw(t, "mtu")
		}
		if rapid.IntRange(0, 3).Draw(t, "junk") == 0 {
			p.Junk = rapid.IntRange(1, 5).Draw(t, "junkKind")
		}
		c.Peers = append(c.Peers, p)
	}
	c.Order = rapid.Permutation(seqInts(n)).Draw(t, "order")
	return c
}

func seqInts(n int) []int {
	out := make([]int, n)
	for i := range out {
		out[i] = i
	}
	return out
}

type attributed struct {
	face uint64
	raw  []byte
}

type listenRec struct {
	mu   sync.Mutex
	pkts []attributed
}

func (r *listenRec) String() string        { return "listener-recorder" }
func (r *listenRec) GetNumPitEntries() int { return 0 }
func (r *listenRec) GetNumCsEntries() int  { return 0 }
func (r *listenRec) QueueData(p *defn.Pkt) {}
func (r *listenRec) QueueInterest(p *defn.Pkt) {
	r.mu.Lock()
	f := uint64(0)
	if p.IncomingFaceID != nil {
		f = *p.IncomingFaceID
	}
	r.pkts = append(r.pkts, attributed{f, append([]byte{}, p.Raw...)})
	r.mu.Unlock()
}
func (r *listenRec) snapshot() []attributed {
	r.mu.Lock()
	defer r.mu.Unlock()
	return append([]attributed{}, r.pkts...)
}

var listenerSeq int

type listenOutcome struct {
	err     error // wrong bytes, wrong face, duplicates: certain
	missing error // something did not arrive (real time: judged over several executions)
	skipped string
	frags   bool
	junk    bool
}

func runListener(c ListenerCase, patience time.Duration) (out listenOutcome) {
	cfg := core.DefaultConfig()
	cfg.Fw.Threads = 1
	core.LoadConfig(cfg, "")
	core.ShouldQuit = false
	face.Configure()
	table.VerifReset()
	table.Configure()
	table.CreateFIBTable(cfg.Tables.Fib.Algorithm)
	rec := &listenRec{}
	dispatch.InitializeFWThreads([]dispatch.FWThread{rec})
	fw.Threads = make([]*fw.Thread, 1)
	face.VerifResetFaceTable()

	// a free port for the listener
	probe, err := net.ListenUDP("udp4", &net.UDPAddr{IP: net.IPv4(127, 0, 0, 1)})
	if err != nil {
		return listenOutcome{skipped: "no-sockets-here"}
	}
	port := probe.LocalAddr().(*net.UDPAddr).Port
	probe.Close()
	lu := defn.MakeUDPFaceURI(4, "127.0.0.1", uint16(port))
	l, err := face.MakeUDPListener(lu)
	if err != nil {
		return listenOutcome{skipped: "listener-not-constructed"}
	}
	go l.Run()
	defer func() {
		l.Close()
		for _, f := range face.FaceTable.GetAll() {
			f.Close()
		}
		waitFor(5*time.Second, func() bool { return face.VerifFaceTableLen() == 0 })
	}()
	lisAddr := &net.UDPAddr{IP: net.IPv4(127, 0, 0, 1), Port: port}

	type peer struct {
		conn  *net.UDPConn
		uri   string
		pkts  [][]byte // the Interests, as the forwarder must see them
		first [][]byte // datagrams of the first packet
		rest  [][]byte // datagrams of the others (one each)
	}
	var peers []*peer
	for i, ps := range c.Peers {
		uc, err := net.ListenUDP("udp4", &net.UDPAddr{IP: net.IPv4(127, 0, 0, 1)})
		if err != nil {
			return listenOutcome{skipped: "no-sockets-here"}
		}
		defer uc.Close()
		ru := defn.MakeUDPFaceURI(4, "127.0.0.1", uint16(uc.LocalAddr().(*net.UDPAddr).Port))
		ru.Canonize()
		p := &peer{conn: uc, uri: ru.String()}
		var seq uint64 = uint64(1000 * (i + 1))
		for k, pad := range ps.N {
			listenerSeq++
			x := Exchange{P: fmt.Sprintf("/lis/%d/p%d", listenerSeq, i), Pad: pad, Life: 4000}
			w := interestWire(x, k, listenerSeq)
			p.pkts = append(p.pkts, w)
			var dgs [][]byte
			switch {
			case k == 0 && ps.Frag > 0 && len(w) > ps.Frag:
				dgs = fragmentFrames(w, nil, ps.Frag, 0, &seq)
				if ps.Rev {
					for a, b := 0, len(dgs)-1; a < b; a, b = a+1, b-1 {
						dgs[a], dgs[b] = dgs[b], dgs[a]
					}
				}
				out.frags = true
			case k == 0 && ps.Bare:
				dgs = [][]byte{w}
			default:
				dgs = fragmentFrames(w, nil, maxPacket+200, 0, &seq) // one LpPacket
			}
			if k == 0 {
				p.first = dgs
			} else {
				p.rest = append(p.rest, dgs...)
			}
		}
		peers = append(peers, p)
	}

	// the listener may need a moment to bind: the first datagram of the first peer is repeated until a face exists
	order := append([]int{}, c.Order...)
	seen := map[int]bool{}
	for _, i := range order {
		seen[i] = true
	}
	for i := range peers {
		if !seen[i] {
			order = append(order, i)
		}
	}
	faceOf := func(p *peer) face.LinkService {
		for _, f := range face.FaceTable.GetAll() {
			if f.RemoteURI() != nil && f.RemoteURI().String() == p.uri {
				return f
			}
		}
		return nil
	}
	if !waitFor(3*time.Second, func() bool {
		// is the listener's port bound?  (a second bind without SO_REUSEADDR fails while it is)
		pc, err := net.ListenUDP("udp4", lisAddr)
		if err == nil {
			pc.Close()
			return false
		}
		return true
	}) {
		return listenOutcome{skipped: "listener-did-not-bind"}
	}
	junk := false
	for i, ps := range c.Peers {
		var j []byte
		switch ps.Junk {
		case 0:
			continue
		case 1:
			j = []byte{}
		case 2:
			j = []byte{0x64}
		case 3:
			j = []byte{0xff, 0xff, 0xfe, 0x00}
		case 4:
			j = []byte{0x64, 0x20, 0x50, 0x01}
		default:
			j = peers[i].pkts[0][:len(peers[i].pkts[0])/2]
		}
		peers[i].conn.WriteToUDP(j, lisAddr)
		junk = true
	}
	if junk {
		out.junk = true
		time.Sleep(40 * time.Millisecond) // a face made for such a datagram is up before the peer's packets follow
	}
	// phase 1: the first datagram of every peer, back to back; the further fragments of a fragmented first
	// packet only once the peer's face exists (they must reach that face's own socket, not the listener)
	for _, i := range order {
		peers[i].conn.WriteToUDP(peers[i].first[0], lisAddr)
	}
	for _, p := range peers {
		p := p
		if !waitFor(patience, func() bool { return faceOf(p) != nil }) {
			out.missing = fmt.Errorf("no face for peer %s appeared within %v of its first datagram", p.uri, patience)
			return out
		}
	}
	for _, p := range peers {
		for _, d := range p.first[1:] {
			p.conn.WriteToUDP(d, lisAddr)
		}
		for _, d := range p.rest {
			p.conn.WriteToUDP(d, lisAddr)
		}
	}
	total := 0
	for _, p := range peers {
		total += len(p.pkts)
	}
	waitFor(patience, func() bool { return len(rec.snapshot()) >= total })
	time.Sleep(20 * time.Millisecond) // anything beyond what is due shows up now
	got := rec.snapshot()

	// judge
	whose := func(h []byte) string {
		for pi, p := range peers {
			for k, w := range p.pkts {
				if bytes.Equal(h, w) {
					return fmt.Sprintf("it is packet %d of peer %d, %s", k, pi, p.uri)
				}
			}
		}
		return "no peer sent these bytes"
	}
	byFace := map[uint64][][]byte{}
	for _, a := range got {
		byFace[a.face] = append(byFace[a.face], a.raw)
	}
	claimed := map[uint64]bool{}
	for pi, p := range peers {
		f := faceOf(p)
		if f == nil {
			out.missing = fmt.Errorf("the face of peer %d (%s) disappeared", pi, p.uri)
			return out
		}
		claimed[f.FaceID()] = true
		have := byFace[f.FaceID()]
		used := make([]bool, len(have))
		for k, w := range p.pkts {
			found := false
			for j, h := range have {
				if !used[j] && bytes.Equal(h, w) {
					used[j], found = true, true
					break
				}
			}
			if !found && out.missing == nil {
				out.missing = fmt.Errorf("packet %d of peer %d (%s, %d bytes, first datagram %x…) was not delivered by its face %d", k, pi, p.uri, len(w), head(p.first[0]), f.FaceID())
			}
		}
		for j, h := range have {
			if !used[j] {
				out.err = fmt.Errorf("face %d (peer %d, %s) delivered a packet that peer never sent, or delivered one twice: %d bytes %x… (%s)", f.FaceID(), pi, p.uri, len(h), head(h), whose(h))
				return out
			}
		}
	}
	var extra []uint64
	for id := range byFace {
		if !claimed[id] {
			extra = append(extra, id)
		}
	}
	sort.Slice(extra, func(i, j int) bool { return extra[i] < extra[j] })
	if len(extra) > 0 {
		h := byFace[extra[0]][0]
		out.err = fmt.Errorf("face %d, which belongs to no peer, delivered %d bytes %x… (%s)", extra[0], len(h), head(h), whose(h))
	}
	return out
}

func execListener(c ListenerCase) (res evid.Result) {
	if len(c.Peers) < 1 {
		return evid.Result{Classes: []string{"skipped:no-peers"}}
	}
	o := runListener(c, 2*time.Second)
	if o.skipped != "" {
		return evid.Result{Classes: []string{o.skipped}}
	}
	if o.err != nil {
		// certain kinds of failure: confirmed by one more execution from scratch
		if o2 := runListener(c, 4*time.Second); o2.err != nil {
			return evid.Result{Err: fmt.Errorf("%v (again in a second execution: %v)", o.err, o2.err)}
		}
		res.Classes = append(res.Classes, "not-reproduced")
	} else if o.missing != nil {
		// real time: something missing counts only if it is missing in three executions with growing patience
		again := 0
		var last error
		for _, d := range []time.Duration{5 * time.Second, 10 * time.Second} {
			o2 := runListener(c, d)
			if o2.err != nil {
				return evid.Result{Err: o2.err}
			}
			if o2.missing != nil {
				again++
				last = o2.missing
			}
		}
		if again == 2 {
			return evid.Result{Err: fmt.Errorf("%v (missing in three executions, the last one patient for 10 s: %v)", o.missing, last)}
		}
		res.Classes = append(res.Classes, "inconclusive-timing")
	}
	if o.frags {
		res.Classes = append(res.Classes, "first-packet-fragmented")
	}
	if o.junk {
		res.Classes = append(res.Classes, "a-peer-begins-with-a-datagram-that-is-no-packet")
	}
	res.Classes = append(res.Classes, fmt.Sprintf("peers-%d", len(c.Peers)))
	res.NonTrivial = len(c.Peers) >= 3
	return res
}

const ruleListener = "the real UDP listener on a loopback port; 2..6 harness peers - some after a datagram that is no packet at all (empty, one byte, no TLV, truncated) - send their first datagram (bare Interest, LpPacket or first fragment) back to back in a drawn order, then - once their on-demand face exists - the rest (1..4 Interests of 40..8100 bytes per peer); a recording forwarding thread attributes every packet to a face: the face of each peer must deliver exactly that peer's packets, byte-identical, once, and no other face anything. Real time: wrong bytes / wrong face / duplicates after one re-execution, something missing only if missing in three executions with growing patience. Non-trivial: >= 3 peers"

func TestC10UdpListener(t *testing.T) {
	rec := evid.New("C10", "TestC10UdpListener", ruleListener)
	evid.Check(t, rec, genListener, execListener)
}

func TestC10UdpListenerReplay(t *testing.T) { evid.Replay(t, "TestC10UdpListener", execListener) }

// The same executor for C04: every case has peers that begin with a datagram that is no packet; the
// listener goroutine and the process must survive it (a panic kills the test process: the driver
// re-runs the in-flight case and reports it) and everything else must go on as usual.
func genListenerJunk(t *rapid.T) ListenerCase {
	c := genListener(t)
	for i := range c.Peers {
		if c.Peers[i].Junk == 0 && (i == 0 || rapid.Bool().Draw(t, "junkToo")) {
			c.Peers[i].Junk = rapid.IntRange(1, 5).Draw(t, "junkKind2")
		}
	}
	return c
}

const ruleListenerJunk = "C04 at the UDP listener: as TestC10UdpListener, and at least one peer begins with a datagram that is no packet (empty, one byte, not a TLV, a truncated LpPacket, half an Interest). The process and the listener must survive and every peer's packets must still be delivered by its face. Non-trivial: >= 3 peers"

func TestC04UdpListener(t *testing.T) {
	rec := evid.New("C04", "TestC04UdpListener", ruleListenerJunk)
	evid.Check(t, rec, genListenerJunk, execListener)
}

func TestC04UdpListenerReplay(t *testing.T) { evid.Replay(t, "TestC04UdpListener", execListener) }
