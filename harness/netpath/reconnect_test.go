package netpath

import (
	"bytes"
	"fmt"
	"net"
	"sync"
	"testing"
	"time"

	"github.com/named-data/ndnd/fw/core"
	"github.com/named-data/ndnd/fw/defn"
	"github.com/named-data/ndnd/fw/dispatch"
	"github.com/named-data/ndnd/fw/face"
	"github.com/named-data/ndnd/fw/fw"
	"github.com/named-data/ndnd/fw/table"
	"pgregory.net/rapid"

	"verif/harness/internal/evid"
)

// C11 across connections of one face. A TCP face with permanent persistency re-dials when its
// connection breaks; the stream it then reads is a new one. The harness is the peer: it accepts
// the face's connection, writes whole blocks (Interests with names of their own) in generated
// chunkings, then breaks the connection with a reset -- on a block boundary or in the middle
// of a block -- accepts the next connection and goes on. Whatever was received of a block
// when its connection broke is gone with that connection: the link layer must be handed exactly
// the blocks written whole, in order, byte-identical; nothing of a broken block, and nothing of
// it glued to the first bytes of the next connection. (The coverage survey showed that no unit
// executed the reconnect path; seeded C11-r6-1 kept the framing state across reconnects.)
// Real sockets, real time: a missing block is reported only after a generous wait that the
// unchanged tree needs a few milliseconds of.

type ReconnPhase struct {
	Sizes  []int `json:"sizes"`  // value sizes of the blocks written whole on this connection
	Chunks []int `json:"chunks"` // write sizes, cycled
	Cut    int   `json:"cut"`    // then: this many bytes of one more block before the reset (0: on a block boundary)
}

type ReconnCase struct {
	Phases []ReconnPhase `json:"phases"`
	// MTU > 0: the face's MTU is lowered to this value after creation, as faces/update does. It
	// bounds what the face sends; blocks it receives are still limited by the maximum packet size
	// only (seeded C11-r7-2: the stream transports dropped received blocks larger than the MTU)
	MTU int `json:"mtu,omitempty"`
}

func genReconn(t *rapid.T) ReconnCase {
	var c ReconnCase
	n := rapid.IntRange(2, 4).Draw(t, "connections")
	for i := 0; i < n; i++ {
		p := ReconnPhase{}
		for k := rapid.IntRange(0, 6).Draw(t, "blocks"); k > 0; k-- {
			p.Sizes = append(p.Sizes, rapid.SampledFrom([]int{0, 1, 40, 200, 247, 248, 249, 1000, 3000, 8000, 8700}).Draw(t, "size"))
		}
		for k := rapid.IntRange(1, 4).Draw(t, "nchunks"); k > 0; k-- {
			p.Chunks = append(p.Chunks, rapid.SampledFrom([]int{1, 2, 3, 7, 100, 1500, 9000, 100000}).Draw(t, "chunk"))
		}
		if i < n-1 {
			p.Cut = rapid.SampledFrom([]int{0, 1, 2, 3, 4, 5, 9, 50, 300, 2999}).Draw(t, "cut")
		}
		c.Phases = append(c.Phases, p)
	}
	if rapid.IntRange(0, 2).Draw(t, "lowMTU") == 0 {
		c.MTU = rapid.SampledFrom([]int{64, 200, 1500, 8000}).Draw(t, "mtu")
	}
	return c
}

type reconnRec struct {
	mu   sync.Mutex
	pkts [][]byte
}

func (r *reconnRec) String() string        { return "reconnect-recorder" }
func (r *reconnRec) GetNumPitEntries() int { return 0 }
func (r *reconnRec) GetNumCsEntries() int  { return 0 }
func (r *reconnRec) QueueData(p *defn.Pkt) {}
func (r *reconnRec) QueueInterest(p *defn.Pkt) {
	r.mu.Lock()
	r.pkts = append(r.pkts, append([]byte{}, p.Raw...))
	r.mu.Unlock()
}
func (r *reconnRec) take() [][]byte {
	r.mu.Lock()
	defer r.mu.Unlock()
	out := r.pkts
	r.pkts = nil
	return out
}

var reconnSeq int

// reconnInterest: an Interest whose name value has the given size (so the block has a size of its choosing).
func reconnInterest(size int) []byte {
	reconnSeq++
	x := Exchange{P: fmt.Sprintf("/rc/%d", reconnSeq), Pad: size, Life: 4000}
	return interestWire(x, 0, reconnSeq)
}

func execReconn(c ReconnCase) (res evid.Result) {
	cfg := core.DefaultConfig()
	cfg.Fw.Threads = 1
	cfg.Faces.Tcp.PortUnicast = 0
	core.LoadConfig(cfg, "")
	core.ShouldQuit = false
	face.Configure()
	table.VerifReset()
	table.Configure()
	table.CreateFIBTable(cfg.Tables.Fib.Algorithm)
	rec := &reconnRec{}
	dispatch.InitializeFWThreads([]dispatch.FWThread{rec})
	fw.Threads = make([]*fw.Thread, 1) // (only its length is used: name hash -> thread)
	face.VerifResetFaceTable()

	l, err := net.ListenTCP("tcp4", &net.TCPAddr{IP: net.IPv4(127, 0, 0, 1)})
	if err != nil {
		return evid.Result{Classes: []string{"no-sockets-here"}}
	}
	defer l.Close()
	remote := defn.MakeTCPFaceURI(4, "127.0.0.1", uint16(l.Addr().(*net.TCPAddr).Port))
	remote.Canonize()
	tr, err := face.MakeUnicastTCPTransport(remote, nil, face.PersistencyPermanent)
	if err != nil {
		return evid.Result{Err: fmt.Errorf("harness: tcp transport: %v", err)}
	}
	opt := face.MakeNDNLPLinkServiceOptions()
	opt.IsFragmentationEnabled = false
	ls := face.MakeNDNLPLinkService(tr, opt)
	ls.Run(nil)
	if c.MTU > 0 {
		ls.SetMTU(c.MTU)
	}
	// The face is taken down the way a peer does it: an orderly end of the current connection
	// (the transport then closes itself; calling its Close from outside blocks on its own
	// channel -- an observation outside the listed properties, NOTES.md)
	var cur *net.TCPConn
	defer func() {
		if cur != nil {
			cur.Close()
		}
		waitFor(5*time.Second, func() bool { return face.VerifFaceTableLen() == 0 })
	}()
	_ = ls

	var want [][]byte
	classes := map[string]bool{}
	for pi, ph := range c.Phases {
		l.SetDeadline(time.Now().Add(20 * time.Second))
		conn, err := l.AcceptTCP()
		if err != nil {
			if pi == 0 {
				return evid.Result{Err: fmt.Errorf("harness: the face never connected: %v", err)}
			}
			return evid.Result{Err: fmt.Errorf("connection %d: after its connection was reset the permanent face did not connect again within 20 s: %v", pi, err)}
		}
		cur = conn
		var stream []byte
		for _, sz := range ph.Sizes {
			b := reconnInterest(sz)
			want = append(want, b)
			stream = append(stream, b...)
		}
		if ph.Cut > 0 {
			b := reconnInterest(3000)
			if ph.Cut < len(b) {
				stream = append(stream, b[:ph.Cut]...)
				classes["connection-broken-inside-a-block"] = true
				if ph.Cut <= 4 {
					classes["connection-broken-inside-a-block-header"] = true
				}
			}
		} else if pi < len(c.Phases)-1 {
			classes["connection-broken-on-a-block-boundary"] = true
		}
		for off, k := 0, 0; off < len(stream); k++ {
			n := ph.Chunks[k%len(ph.Chunks)]
			if off+n > len(stream) {
				n = len(stream) - off
			}
			if _, err := conn.Write(stream[off : off+n]); err != nil {
				return evid.Result{Err: fmt.Errorf("harness: write on connection %d: %v", pi, err)}
			}
			off += n
		}
		// everything written whole must arrive before the connection is broken (a reset may
		// overtake data that has not been read yet)
		if !waitFor(20*time.Second, func() bool { rec.mu.Lock(); defer rec.mu.Unlock(); return len(rec.pkts) >= len(want) }) {
			got := rec.take()
			return evid.Result{Err: fmt.Errorf("connection %d: %d whole blocks were written so far, the link layer was handed %d within 20 s%s", pi, len(want), len(got), firstDiff(want, got))}
		}
		if pi < len(c.Phases)-1 {
			time.Sleep(2 * time.Millisecond) // let the partial block reach the reader
			conn.SetLinger(0)                // reset, not an orderly end: a permanent face re-dials after a read error
			conn.Close()
			cur = nil
		}
	}
	time.Sleep(20 * time.Millisecond)
	got := rec.take()
	if len(got) != len(want) {
		return evid.Result{Err: fmt.Errorf("%d blocks were written whole over %d connections, the link layer was handed %d%s", len(want), len(c.Phases), len(got), firstDiff(want, got))}
	}
	for i := range want {
		if !bytes.Equal(want[i], got[i]) {
			return evid.Result{Err: fmt.Errorf("block %d handed to the link layer differs from the block written%s", i, firstDiff(want, got))}
		}
	}
	if c.MTU > 0 {
		for _, b := range want {
			if len(b) > c.MTU {
				classes["received-blocks-larger-than-the-lowered-face-mtu"] = true
			}
		}
	}
	res.NonTrivial = classes["connection-broken-inside-a-block"] && len(want) >= 2
	for k := range classes {
		res.Classes = append(res.Classes, k)
	}
	return res
}

func firstDiff(want, got [][]byte) string {
	for i := 0; i < len(want) || i < len(got); i++ {
		switch {
		case i >= len(got):
			return fmt.Sprintf(" (block %d, %d bytes, never arrived)", i, len(want[i]))
		case i >= len(want):
			return fmt.Sprintf(" (an extra block of %d bytes arrived: %x...)", len(got[i]), head(got[i]))
		case !bytes.Equal(want[i], got[i]):
			return fmt.Sprintf(" (block %d: written %d bytes %x..., handed over %d bytes %x...)", i, len(want[i]), head(want[i]), len(got[i]), head(got[i]))
		}
	}
	return ""
}

const reconnRule = "a TCP face with permanent persistency over a real loopback socket; 2..4 connections, on each 0..6 whole blocks (Interests of 30..8800 bytes) written in generated chunkings, then a reset on a block boundary or 1..2999 bytes into a further block; the face re-dials and the peer goes on. The link layer must be handed exactly the blocks written whole, in order, byte-identical. Non-trivial: some connection broken inside a block and >= 2 whole blocks; distinct by case hash"

func TestC11Reconnect(t *testing.T) {
	rec := evid.New("C11", "TestC11Reconnect", reconnRule)
	evid.Check(t, rec, genReconn, execReconn)
}
func TestC11ReconnectReplay(t *testing.T) { evid.Replay(t, "TestC11Reconnect", execReconn) }
