package netpath

import (
	"bytes"
	"fmt"
	"net"
	"os"
	"path/filepath"
	"runtime"
	"sort"
	"sync"
	"sync/atomic"
	"time"

	"github.com/named-data/ndnd/fw/core"
	"github.com/named-data/ndnd/fw/defn"
	"github.com/named-data/ndnd/fw/dispatch"
	"github.com/named-data/ndnd/fw/face"
	"github.com/named-data/ndnd/fw/fw"
	"github.com/named-data/ndnd/fw/table"
	enc "github.com/named-data/ndnd/std/encoding"
	"github.com/named-data/ndnd/std/log"

	"verif/harness/internal/lpwire"
	"verif/harness/internal/tlvwalk"
)

func init() { log.SetLevel(log.FatalLevel) }

// ------------------------------------------------------------------ events from the socket readers

type event struct {
	face  int
	frame []byte // one complete TLV block (stream) or one datagram (udp)
	bad   string // stream: the bytes at the front cannot start a block
}

type evq struct {
	mu  sync.Mutex
	evs []event
	sig chan struct{}
}

func (q *evq) push(e event) {
	q.mu.Lock()
	q.evs = append(q.evs, e)
	q.mu.Unlock()
	select {
	case q.sig <- struct{}{}:
	default:
	}
}

func (q *evq) grab() []event {
	q.mu.Lock()
	e := q.evs
	q.evs = nil
	q.mu.Unlock()
	return e
}

// take waits until at least one event is there; nil after wait without any.
func (q *evq) take(wait time.Duration) []event {
	if e := q.grab(); len(e) > 0 {
		return e
	}
	t := time.NewTimer(wait)
	defer t.Stop()
	for {
		select {
		case <-q.sig:
			if e := q.grab(); len(e) > 0 {
				return e
			}
		case <-t.C:
			return q.grab()
		}
	}
}

// ------------------------------------------------------------------ harness side of a face

type partial struct {
	count uint64
	frags map[uint64][]byte
	toks  map[uint64][]byte
	has   map[uint64]bool
	extra bool // some fragment carried header fields besides the PIT token
}

type hface struct {
	idx    int
	spec   FaceSpec
	stream bool
	mtu    int
	id     uint64 // face id in the forwarder

	sconn interface { // harness end of a stream socket
		net.Conn
		CloseWrite() error
	}
	uconn *net.UDPConn
	peer  *net.UDPAddr
	ls    *face.NDNLPLinkService

	out          [][]byte // frames waiting to be written
	pk           []int    // pk[i]: the packet out[i] belongs to
	ci           int      // position in the chunk script
	sleeps, tiny int
	seq          uint64 // next Sequence of the harness's own fragments

	// receive side, main goroutine only
	parts  map[uint64]*partial
	run    struct{ base, next, count uint64 } // fragment run arriving in index order
	inRun  bool
	ranges [][2]uint64 // Sequence ranges of the last fragmented packets
	// Sequence -> FragIndex of the last 256 fragment frames received
	recentSeq   map[uint64]uint64
	recentOrder []uint64

	// reader goroutine
	done     chan struct{}
	leftover []byte // stream: bytes after the last complete block when the stream ended
	rdErr    error
	reads    int
	partRead int // reads that ended inside a block

	// stalled-reader scenario: after stallAfter bytes the reader stops reading for stallFor, once
	stallAfter int
	stallFor   time.Duration
	stallState atomic.Int32 // 0 not yet, 1 stalling, 2 over
	stallBegan time.Time    // written before stallState becomes 1
	rbuf       int          // size of the read buffer (0: 64 kB)
	rx         atomic.Int64 // bytes read so far
}

func (h *hface) reader(q *evq) {
	defer close(h.done)
	if h.stream {
		buf := make([]byte, 1<<16)
		if h.rbuf > 0 {
			buf = make([]byte, h.rbuf)
		}
		var acc []byte
		for {
			n, err := h.sconn.Read(buf)
			if n > 0 {
				h.reads++
				acc = append(acc, buf[:n]...)
				blocks, rest, bad := splitBlocks(acc)
				for _, b := range blocks {
					q.push(event{face: h.idx, frame: b})
				}
				acc = append([]byte{}, rest...)
				if len(acc) > 0 {
					h.partRead++
				}
				if h.stallFor > 0 && h.stallState.Load() == 0 && h.rx.Add(int64(n)) >= int64(h.stallAfter) {
					h.stallBegan = time.Now()
					h.stallState.Store(1)
					time.Sleep(h.stallFor)
					h.stallState.Store(2)
				}
				if bad != "" {
					q.push(event{face: h.idx, bad: bad})
					h.leftover = acc
					// keep draining so that the forwarder never blocks on us
					for err == nil {
						_, err = h.sconn.Read(buf)
					}
					h.rdErr = err
					return
				}
			}
			if err != nil {
				h.leftover, h.rdErr = acc, err
				return
			}
		}
	}
	buf := make([]byte, 1<<16)
	for {
		n, _, err := h.uconn.ReadFromUDP(buf)
		if err != nil {
			h.rdErr = err
			return
		}
		h.reads++
		q.push(event{face: h.idx, frame: append([]byte{}, buf[:n]...)})
	}
}

// pauseN: pause as scripted, but at most maxSleeps sleeping pauses per face and run (a sleep costs
// real time: ~60 us at least).
func (h *hface) pauseN(p int) {
	if p < 0 {
		if h.sleeps >= maxSleeps {
			return
		}
		h.sleeps++
	}
	pause(p)
}

const (
	maxSleeps = 150
	maxTiny   = 400 // writes of fewer than 64 bytes per face and run; later ones take the rest of what is pending
)

func pause(p int) {
	switch {
	case p > 0:
		for i := 0; i < p; i++ {
			runtime.Gosched()
		}
	case p < 0:
		time.Sleep(time.Duration(-p) * time.Microsecond)
	}
}

// permute orders the datagrams of one flush. pk[i] is the packet the i-th datagram belongs to.
func permute(frames [][]byte, pk []int, ord int) [][]byte {
	n := len(frames)
	idx := make([]int, n)
	for i := range idx {
		idx[i] = i
	}
	switch {
	case ord == 1: // every packet's fragments last to first
		for lo := 0; lo < n; {
			hi := lo
			for hi < n && pk[hi] == pk[lo] {
				hi++
			}
			for a, b := lo, hi-1; a < b; a, b = a+1, b-1 {
				idx[a], idx[b] = idx[b], idx[a]
			}
			lo = hi
		}
	case ord == 2: // round robin over the packets of the flush
		var groups [][]int
		for i := 0; i < n; i++ {
			if i == 0 || pk[i] != pk[i-1] {
				groups = append(groups, nil)
			}
			groups[len(groups)-1] = append(groups[len(groups)-1], i)
		}
		idx = idx[:0]
		for k := 0; len(idx) < n; k++ {
			for _, g := range groups {
				if k < len(g) {
					idx = append(idx, g[k])
				}
			}
		}
	case ord >= 3: // the whole flush shuffled (Fisher-Yates driven by an LCG seeded from the case)
		x := uint32(ord)*2654435761 + uint32(n)
		for i := n - 1; i > 0; i-- {
			x = x*1664525 + 1013904223
			j := int((x >> 8) % uint32(i+1))
			idx[i], idx[j] = idx[j], idx[i]
		}
	}
	out := make([][]byte, n)
	for i, j := range idx {
		out[i] = frames[j]
	}
	return out
}

// ------------------------------------------------------------------ one run of a case

type stats struct {
	completed    int // exchanges whose Data reached the consumer
	midBlock     int // harness writes that ended inside a TLV block
	multiBlock   int // harness writes carrying the end of >= 2 blocks
	fwdFragPkts  int // packets the forwarder sent fragmented (reassembled by the harness)
	fwdFragMax   int
	harFragPkts  int // packets the harness sent fragmented
	aboveFaceMTU int // frames the harness sent that are larger than the receiving face's own MTU
	reordered    int // flushes whose datagrams were sent out of order
	exactMTU     int // frames from the forwarder of exactly the MTU of a udp face
	partialReads int
	bareFromFwd  int
	congMarks    int
	otherFields  int
	kinds        map[string]bool // face kinds that carried a completed exchange
	pitChecked   bool
	dupAnswers   int
}

type runResult struct {
	setup   error    // the harness could not build its sockets
	viol    error    // corruption / duplication / misdelivery: timing independent
	missing []string // timing dependent: "ex:<i>" not completed, "face:<i>" still in the face table, "pit", "reader:<i>"
	detail  map[string]string
	st      stats
}

type exState struct {
	iw, dw   []byte
	tok      []byte
	hops     map[int]bool
	cost     int
	started  bool
	done     bool
	intAt    map[int]int
	answered map[int]bool
	dataAt   int
}

func vf(item int, format string, a ...any) error {
	return fmt.Errorf("[%d] %s", item, fmt.Sprintf(format, a...))
}

func mkName(s string) enc.Name {
	n, err := enc.NameFromStr(s)
	if err != nil {
		panic(err)
	}
	return n
}

var strategyNames = map[bool]string{false: "/localhost/nfd/strategy/best-route/v=1", true: "/localhost/nfd/strategy/multicast/v=1"}

// nextHops: faces of the longest routed prefix of name (the harness's own longest-prefix match).
func nextHops(c Case, prefix string) map[int]bool {
	best := -1
	want := comps(prefix)
	for _, r := range c.Routes {
		rc := comps(r.Prefix)
		if len(rc) > len(want) || len(rc) < best {
			continue
		}
		ok := true
		for i := range rc {
			if rc[i] != want[i] {
				ok = false
			}
		}
		if ok && len(rc) > best {
			best = len(rc)
		}
	}
	out := map[int]bool{}
	for _, r := range c.Routes {
		rc := comps(r.Prefix)
		if len(rc) != best || len(rc) > len(want) {
			continue
		}
		ok := true
		for i := range rc {
			if rc[i] != want[i] {
				ok = false
			}
		}
		if ok {
			out[r.Face] = true
		}
	}
	return out
}

// framesFor: the link-layer frames the harness sends on face h for pkt (token may be empty).
// sendMTU: the size up to which the harness, as the peer of face h, sends frames to it.
func (h *hface) sendMTU() int {
	if h.spec.PeerMTU > h.mtu {
		return h.spec.PeerMTU
	}
	return h.mtu
}

func (h *hface) framesFor(pkt []byte, tok []byte, bare bool, st *stats) [][]byte {
	lp := lpwire.LP{PitToken: tok, Fragment: pkt, HasFragment: true}
	whole := lp.Encode()
	if len(tok) == 0 && bare {
		whole = pkt
	}
	if h.stream || len(whole) <= h.sendMTU() {
		if !h.stream && len(whole) > h.mtu {
			st.aboveFaceMTU++
		}
		return [][]byte{whole}
	}
	st.harFragPkts++
	return fragmentFrames(pkt, tok, h.sendMTU(), h.spec.Slack, &h.seq)
}

// env is a running forwarder with its faces; the harness owns the other end of every socket.
type env struct {
	threads     []*fw.Thread
	faces       []*hface
	q           *evq
	dir         string
	quitThreads func()
}

// bringUp builds the forwarder of case c (threads, faces over real sockets, strategy, routes). prep, if
// not nil, sees every harness-side face after its sockets exist and before its reader starts.
func bringUp(c Case, prep func(h *hface)) (*env, error) {
	// ---- forwarder
	nth := c.Threads
	if nth < 1 {
		nth = 1
	}
	cfg := core.DefaultConfig()
	cfg.Fw.Threads = nth
	cfg.Faces.Udp.PortUnicast = 0
	cfg.Faces.Tcp.PortUnicast = 0
	cfg.Faces.CongestionMarking = c.CongMark
	core.LoadConfig(cfg, "")
	core.ShouldQuit = false
	face.Configure()
	fw.Configure()
	table.VerifReset()
	table.Configure()
	face.VerifResetFaceTable()
	table.CreateFIBTable(cfg.Tables.Fib.Algorithm)

	fw.Threads = make([]*fw.Thread, nth)
	var disp []dispatch.FWThread
	for i := 0; i < nth; i++ {
		th := fw.NewThread(i)
		fw.Threads[i] = th
		disp = append(disp, th)
		go th.Run()
	}
	dispatch.InitializeFWThreads(disp)
	threads := fw.Threads
	quitThreads := func() {
		core.ShouldQuit = true
		for _, th := range threads {
			th.TellToQuit()
		}
		for _, th := range threads {
			<-th.HasQuit
		}
		core.ShouldQuit = false
	}

	// ---- faces over real sockets
	dir, err := os.MkdirTemp("", "np")
	if err != nil {
		quitThreads()
		return nil, err
	}
	q := &evq{sig: make(chan struct{}, 1)}
	var faces []*hface
	var closers []func()
	fail := func(err error) (*env, error) {
		for _, f := range closers {
			f()
		}
		for _, h := range faces {
			if h.ls != nil {
				h.ls.Close()
			}
		}
		waitFor(5*time.Second, func() bool { return face.VerifFaceTableLen() == 0 })
		quitThreads()
		os.RemoveAll(dir)
		return nil, err
	}
	for i, fs := range c.Faces {
		h := &hface{idx: i, spec: fs, mtu: maxPacket, parts: map[uint64]*partial{}, done: make(chan struct{})}
		faces = append(faces, h)
		opt := face.MakeNDNLPLinkServiceOptions()
		switch fs.Kind {
		case "unix":
			h.stream = true
			path := filepath.Join(dir, fmt.Sprintf("f%d.sock", i))
			l, err := net.ListenUnix("unix", &net.UnixAddr{Name: path, Net: "unix"})
			if err != nil {
				return fail(err)
			}
			hc, err := net.DialUnix("unix", nil, &net.UnixAddr{Name: path, Net: "unix"})
			if err != nil {
				l.Close()
				return fail(err)
			}
			closers = append(closers, func() { hc.Close() })
			l.SetDeadline(time.Now().Add(5 * time.Second))
			fc, err := l.AcceptUnix()
			l.Close()
			if err != nil {
				return fail(err)
			}
			local := defn.MakeUnixFaceURI(path)
			local.Canonize()
			tr, err := face.MakeUnixStreamTransport(defn.MakeFDFaceURI(i+1), local, fc)
			if err != nil {
				fc.Close()
				return fail(fmt.Errorf("unix transport: %v", err))
			}
			opt.IsFragmentationEnabled = false // as the listener does: reliable stream
			h.sconn = hc
			h.ls = face.MakeNDNLPLinkService(tr, opt)
		case "tcp":
			h.stream = true
			l, err := net.ListenTCP("tcp4", &net.TCPAddr{IP: net.IPv4(127, 0, 0, 1)})
			if err != nil {
				return fail(err)
			}
			hc, err := net.DialTCP("tcp4", nil, l.Addr().(*net.TCPAddr))
			if err != nil {
				l.Close()
				return fail(err)
			}
			closers = append(closers, func() { hc.Close() })
			l.SetDeadline(time.Now().Add(5 * time.Second))
			fc, err := l.AcceptTCP()
			l.Close()
			if err != nil {
				return fail(err)
			}
			tr, err := face.AcceptUnicastTCPTransport(fc, nil, face.PersistencyOnDemand)
			if err != nil || tr == nil {
				fc.Close()
				return fail(fmt.Errorf("tcp transport: %v", err))
			}
			opt.IsFragmentationEnabled = false
			h.sconn = hc
			h.ls = face.MakeNDNLPLinkService(tr, opt)
		case "udp":
			uc, err := net.ListenUDP("udp4", &net.UDPAddr{IP: net.IPv4(127, 0, 0, 1)})
			if err != nil {
				return fail(err)
			}
			closers = append(closers, func() { uc.Close() })
			uc.SetReadBuffer(4 << 20)
			remote := defn.MakeUDPFaceURI(4, "127.0.0.1", uint16(uc.LocalAddr().(*net.UDPAddr).Port))
			remote.Canonize()
			tr, err := face.MakeUnicastUDPTransport(remote, nil, face.PersistencyPersistent)
			if err != nil {
				return fail(fmt.Errorf("udp transport: %v", err))
			}
			if fs.MTU > 0 {
				tr.SetMTU(fs.MTU)
				h.mtu = fs.MTU
			}
			lu := tr.LocalURI()
			h.peer = &net.UDPAddr{IP: net.IPv4(127, 0, 0, 1), Port: int(lu.Port())}
			h.uconn = uc
			h.ls = face.MakeNDNLPLinkService(tr, opt)
		default:
			return fail(fmt.Errorf("face kind %q", fs.Kind))
		}
		if prep != nil {
			prep(h)
		}
		h.ls.Run(nil)
		h.id = h.ls.FaceID()
		go h.reader(q)
	}
	if c.Multicast {
		table.FibStrategyTable.SetStrategyEnc(mkName("/"), mkName(strategyNames[true]))
	}
	for _, r := range c.Routes {
		table.FibStrategyTable.InsertNextHopEnc(mkName(r.Prefix), faces[r.Face].id, r.Cost)
	}

	return &env{threads: threads, faces: faces, q: q, dir: dir, quitThreads: quitThreads}, nil
}

func runOnce(c Case, noProgress time.Duration) (rr runResult) {
	rr.detail = map[string]string{}
	rr.st.kinds = map[string]bool{}
	st := &rr.st

	e, err := bringUp(c, nil)
	if err != nil {
		rr.setup = err
		return
	}
	defer os.RemoveAll(e.dir)
	threads, faces, q, quitThreads := e.threads, e.faces, e.q, e.quitThreads

	// ---- the applications
	exs := make([]*exState, len(c.Ex))
	byInt, byData, byName := map[string]int{}, map[string]int{}, map[string]int{}
	for i, x := range c.Ex {
		e := &exState{iw: interestWire(x, i, c.Seed), dw: dataWire(x, i, c.Seed), tok: unhex(x.Tok), hops: nextHops(c, x.P),
			intAt: map[int]int{}, answered: map[int]bool{}}
		// admission cost: datagrams the harness sends towards udp sockets of the forwarder for this exchange
		if cf := faces[x.C]; !cf.stream {
			e.cost += datagrams(cf, e.iw, e.tok, x.Bare)
		}
		if x.Ans {
			for f := range e.hops {
				if pf := faces[f]; !pf.stream {
					e.cost += datagrams(pf, e.dw, make([]byte, 6), false)
				}
			}
		}
		exs[i] = e
		byInt[string(e.iw)] = i
		byData[string(e.dw)] = i
		byName[string(nameValue(x.P, i, x.Pad, 0))] = i
	}
	win := c.Win
	if win < 1 {
		win = 1
	}
	next, outstanding, outCost, doneCnt := 0, 0, 0, 0
	finish := func(i int) {
		if e := exs[i]; !e.done {
			e.done = true
			outstanding--
			outCost -= e.cost
			doneCnt++
		}
	}
	admit := func() {
		for next < len(exs) && outstanding < win && (outstanding == 0 || outCost+exs[next].cost <= udpBudget) {
			e, x := exs[next], c.Ex[next]
			e.started = true
			h := faces[x.C]
			h.out = append(h.out, h.framesFor(e.iw, e.tok, x.Bare, st)...)
			h.outPk(next)
			outstanding++
			outCost += e.cost
			next++
		}
	}
	flush := func() error {
		for _, h := range faces {
			if len(h.out) == 0 {
				continue
			}
			frames, pk := h.out, h.pk
			h.out, h.pk = nil, nil
			if !h.stream {
				if h.spec.Ord != 0 && len(frames) > 1 {
					st.reordered++
					frames = permute(frames, pk, h.spec.Ord)
				}
				for k, f := range frames {
					if _, err := h.uconn.WriteToUDP(f, h.peer); err != nil {
						return fmt.Errorf("harness write on face %d: %v", h.idx, err)
					}
					if len(h.spec.Pauses) > 0 {
						h.pauseN(h.spec.Pauses[(h.ci+k)%len(h.spec.Pauses)])
					}
				}
				h.ci += len(frames)
				continue
			}
			var data []byte
			ends := map[int]bool{}
			for _, f := range frames {
				data = append(data, f...)
				ends[len(data)] = true
			}
			for pos := 0; pos < len(data); {
				sz := 0
				if len(h.spec.Chunks) > 0 {
					sz = h.spec.Chunks[h.ci%len(h.spec.Chunks)]
				}
				if sz > 0 && sz < 64 {
					if h.tiny >= maxTiny {
						sz = 0
					}
					h.tiny++
				}
				if sz <= 0 || sz > len(data)-pos {
					sz = len(data) - pos
				}
				if _, err := h.sconn.Write(data[pos : pos+sz]); err != nil {
					return fmt.Errorf("harness write on face %d: %v", h.idx, err)
				}
				nEnds := 0
				for p := pos + 1; p <= pos+sz; p++ {
					if ends[p] {
						nEnds++
					}
				}
				pos += sz
				if !ends[pos] {
					st.midBlock++
				}
				if nEnds >= 2 {
					st.multiBlock++
				}
				if len(h.spec.Pauses) > 0 {
					h.pauseN(h.spec.Pauses[h.ci%len(h.spec.Pauses)])
				}
				h.ci++
			}
		}
		return nil
	}

	// handle one reassembled network packet that arrived on face h
	handlePacket := func(h *hface, pkt []byte, tok []byte, hasTok bool) error {
		t, err := tlvwalk.ParseOne(pkt)
		if err != nil || !t.Shortest() {
			return vf(1, "face %d (%s) received %d bytes that are not one well-formed TLV block (%v): % x", h.idx, h.spec.Kind, len(pkt), err, head(pkt))
		}
		switch t.Type {
		case tInterest:
			i, ok := byInt[string(pkt)]
			if !ok {
				return vf(2, "face %d (%s) received an Interest of %d bytes that is not byte-identical to any Interest the harness sent%s: % x", h.idx, h.spec.Kind, len(pkt), nearest(pkt, exs, byName, true), head(pkt))
			}
			e := exs[i]
			if !e.started {
				return vf(2, "face %d received the Interest of exchange %d before the harness sent it", h.idx, i)
			}
			if !e.hops[h.idx] {
				return vf(2, "the Interest of exchange %d (prefix %s) arrived at face %d (%s), which is not a next hop of its name (next hops: %v)", i, c.Ex[i].P, h.idx, h.spec.Kind, keys(e.hops))
			}
			if c.Ex[i].C == h.idx {
				return vf(2, "the Interest of exchange %d was sent back to the face it came from (%d)", i, h.idx)
			}
			e.intAt[h.idx]++
			if e.intAt[h.idx] > 1 {
				return vf(2, "the Interest of exchange %d arrived %d times at face %d (%s); it was sent once, under a unique name", i, e.intAt[h.idx], h.idx, h.spec.Kind)
			}
			if !hasTok || len(tok) == 0 {
				return vf(2, "the Interest of exchange %d arrived at face %d without a PIT token", i, h.idx)
			}
			if len(tok) > 32 {
				return vf(2, "the Interest of exchange %d arrived at face %d with a PIT token of %d bytes", i, h.idx, len(tok))
			}
			if c.Ex[i].Ans {
				e.answered[h.idx] = true
				if len(e.answered) > 1 {
					st.dupAnswers++
				}
				h.out = append(h.out, h.framesFor(e.dw, tok, false, st)...)
				h.outPk(1000 + i)
			} else {
				finish(i)
			}
		case tData:
			i, ok := byData[string(pkt)]
			if !ok {
				return vf(3, "face %d (%s) received a Data of %d bytes that is not byte-identical to any Data a producer sent%s: % x", h.idx, h.spec.Kind, len(pkt), nearest(pkt, exs, byName, false), head(pkt))
			}
			e := exs[i]
			if len(e.answered) == 0 {
				return vf(3, "face %d received the Data of exchange %d, which no producer has sent", h.idx, i)
			}
			if c.Ex[i].C != h.idx {
				return vf(3, "the Data of exchange %d arrived at face %d (%s); only face %d asked for that name", i, h.idx, h.spec.Kind, c.Ex[i].C)
			}
			e.dataAt++
			if e.dataAt > 1 {
				return vf(3, "the Data of exchange %d arrived %d times at its consumer (face %d, %s)", i, e.dataAt, h.idx, h.spec.Kind)
			}
			if len(e.tok) == 0 && (hasTok || len(tok) > 0) {
				return vf(3, "the Data of exchange %d arrived at its consumer with PIT token %x; the consumer supplied none", i, tok)
			}
			if len(e.tok) > 0 && !bytes.Equal(tok, e.tok) {
				return vf(3, "the Data of exchange %d arrived at its consumer (face %d) with PIT token %x (present=%v); the consumer supplied %x", i, h.idx, tok, hasTok, e.tok)
			}
			st.completed++
			st.kinds[h.spec.Kind] = true
			for f := range e.answered {
				st.kinds[faces[f].spec.Kind] = true
			}
			finish(i)
		default:
			return vf(1, "face %d (%s) received a TLV block of type %d (%d bytes): neither Interest nor Data: % x", h.idx, h.spec.Kind, t.Type, len(pkt), head(pkt))
		}
		return nil
	}

	// handle one link-layer frame from the forwarder
	handleFrame := func(h *hface, fr []byte) error {
		if len(fr) > h.mtu {
			return vf(3, "face %d (%s, MTU %d) received a frame of %d bytes", h.idx, h.spec.Kind, h.mtu, len(fr))
		}
		if !h.stream && len(fr) == h.mtu {
			st.exactMTU++
		}
		lp, err := lpwire.ParseFrame(fr)
		if err != nil {
			return vf(1, "face %d (%s) received a frame of %d bytes that is neither a well-formed LpPacket nor a bare packet (%v): % x", h.idx, h.spec.Kind, len(fr), err, head(fr))
		}
		if fr[0] != lpwire.TLpPacket {
			st.bareFromFwd++
		}
		if lp.CongestionMark != nil {
			st.congMarks++
		}
		if len(lp.Other) > 0 || lp.IncomingFaceId != nil || lp.NextHopFaceId != nil {
			st.otherFields++
		}
		if !lp.HasFragment || len(lp.Fragment) == 0 {
			return nil // IDLE frame: carries nothing
		}
		if (lp.FragIndex == nil && lp.FragCount == nil) || (val(lp.FragIndex) == 0 && lp.FragCount != nil && *lp.FragCount == 1) {
			h.inRun = false
			return handlePacket(h, lp.Fragment, lp.PitToken, lp.HasPitToken)
		}
		// a fragment
		if lp.Seq == nil {
			return vf(3, "face %d received a fragment (FragIndex %v, FragCount %v) without a Sequence", h.idx, pv(lp.FragIndex), pv(lp.FragCount))
		}
		if lp.FragCount == nil {
			return vf(3, "face %d received a fragment with FragIndex %d but no FragCount", h.idx, val(lp.FragIndex))
		}
		idx, cnt, seq := val(lp.FragIndex), *lp.FragCount, *lp.Seq
		if cnt == 0 || idx >= cnt {
			return vf(3, "face %d received a fragment with FragIndex %d, FragCount %d", h.idx, idx, cnt)
		}
		if cnt > 400 {
			return vf(3, "face %d received a fragment with FragCount %d; a peer link service accepts at most 400", h.idx, cnt)
		}
		// every fragment frame carries a Sequence of its own (the peer finds a packet's fragments by
		// Sequence-FragIndex); in which order the frames of a packet are emitted is free (legitimate
		// variation C10-4 emits them last first), so this is checked on the values, not on arrival order
		if prev, seen := h.recentSeq[seq]; seen && prev != idx {
			return vf(3, "face %d: fragment %d of %d carries Sequence %d, which fragment %d of a packet sent just before carried too: the peer computes the base Sequence as Sequence-FragIndex and cannot reassemble", h.idx, idx, cnt, seq, prev)
		}
		if h.recentSeq == nil {
			h.recentSeq = map[uint64]uint64{}
		}
		h.recentSeq[seq] = idx
		h.recentOrder = append(h.recentOrder, seq)
		if len(h.recentOrder) > 256 {
			delete(h.recentSeq, h.recentOrder[0])
			h.recentOrder = h.recentOrder[1:]
		}
		if idx == 0 {
			for _, r := range h.ranges {
				if seq <= r[1] && r[0] <= seq+cnt-1 && r[0] != seq {
					return vf(3, "face %d: the fragments of a packet use Sequence %d..%d, overlapping those of a packet sent just before (%d..%d): interleaved at the peer they would be mixed up", h.idx, seq, seq+cnt-1, r[0], r[1])
				}
			}
			h.ranges = append(h.ranges, [2]uint64{seq, seq + cnt - 1})
			if len(h.ranges) > 2 {
				h.ranges = h.ranges[1:]
			}
		}
		base := seq - idx
		p := h.parts[base]
		if p == nil {
			p = &partial{count: cnt, frags: map[uint64][]byte{}, toks: map[uint64][]byte{}, has: map[uint64]bool{}}
			h.parts[base] = p
		}
		if p.count != cnt {
			return vf(3, "face %d: fragments of the packet with base Sequence %d disagree on FragCount (%d and %d)", h.idx, base, p.count, cnt)
		}
		if old, dup := p.frags[idx]; dup && !bytes.Equal(old, lp.Fragment) {
			return vf(3, "face %d: fragment %d of the packet with base Sequence %d arrived twice with different bytes", h.idx, idx, base)
		}
		p.frags[idx] = lp.Fragment
		p.has[idx] = lp.HasPitToken
		p.toks[idx] = lp.PitToken
		if lp.CongestionMark != nil || len(lp.Other) > 0 || lp.IncomingFaceId != nil || lp.NextHopFaceId != nil {
			p.extra = true
		}
		if uint64(len(p.frags)) < cnt {
			return nil
		}
		delete(h.parts, base)
		var pkt []byte
		var tok []byte
		hasTok, tokSet := false, false
		for k := uint64(0); k < cnt; k++ {
			pkt = append(pkt, p.frags[k]...)
			if p.has[k] {
				if tokSet && !bytes.Equal(tok, p.toks[k]) {
					return vf(3, "face %d: the fragments of one packet carry different PIT tokens (%x and %x)", h.idx, tok, p.toks[k])
				}
				tok, hasTok, tokSet = p.toks[k], true, true
			}
		}
		st.fwdFragPkts++
		if int(cnt) > st.fwdFragMax {
			st.fwdFragMax = int(cnt)
		}
		if !p.extra && lpSize(len(tok), len(pkt)) <= h.mtu {
			return vf(3, "face %d (MTU %d): a packet of %d bytes that fits one frame (%d bytes with its header) was sent as %d fragments", h.idx, h.mtu, len(pkt), lpSize(len(tok), len(pkt)), cnt)
		}
		return handlePacket(h, pkt, tok, hasTok)
	}

	process := func(evs []event) error {
		for _, ev := range evs {
			h := faces[ev.face]
			if ev.bad != "" {
				return vf(1, "the byte stream received on face %d (%s) does not split into TLV blocks: %s", h.idx, h.spec.Kind, ev.bad)
			}
			if err := handleFrame(h, ev.frame); err != nil {
				return err
			}
		}
		return nil
	}

	// ---- main loop
	var harnessErr error
	admit()
	harnessErr = flush()
	for rr.viol == nil && harnessErr == nil && doneCnt < len(exs) {
		evs := q.take(noProgress)
		if len(evs) == 0 {
			break // no progress
		}
		rr.viol = process(evs)
		if rr.viol != nil {
			break
		}
		admit()
		harnessErr = flush()
	}
	complete := doneCnt == len(exs) && harnessErr == nil

	// ---- teardown: always complete, whatever happened
	if rr.viol == nil && complete {
		pause(-2000) // let duplicates, if any, show up
		if err := process(q.grab()); err != nil {
			rr.viol = err
		}
	}
	for _, h := range faces {
		if h.stream {
			h.sconn.CloseWrite() // the forwarder reads EOF and closes; we read what it had written until EOF
		} else {
			h.ls.Close() // nothing tells a UDP face that its peer is gone: close it as management would
		}
	}
	down := waitFor(10*time.Second, func() bool { return face.VerifFaceTableLen() == 0 })
	if !down {
		for _, h := range faces {
			if face.FaceTable.Get(h.id) != nil {
				rr.missing = append(rr.missing, fmt.Sprintf("face:%d", h.idx))
				rr.detail[fmt.Sprintf("face:%d", h.idx)] = fmt.Sprintf("face %d (%s) is still in the face table 10 s after its socket was closed", h.idx, h.spec.Kind)
			}
		}
	}
	for _, h := range faces {
		if !h.stream {
			h.uconn.SetReadDeadline(time.Now().Add(20 * time.Millisecond))
		} else if !down {
			h.sconn.SetReadDeadline(time.Now().Add(50 * time.Millisecond))
		}
	}
	for _, h := range faces {
		select {
		case <-h.done:
		case <-time.After(10 * time.Second):
			h.close()
			<-h.done
			rr.missing = append(rr.missing, fmt.Sprintf("reader:%d", h.idx))
			rr.detail[fmt.Sprintf("reader:%d", h.idx)] = fmt.Sprintf("the stream of face %d (%s) did not end within 10 s after the harness closed its side", h.idx, h.spec.Kind)
		}
		st.partialReads += h.partRead
	}
	if rr.viol == nil {
		if err := process(q.grab()); err != nil {
			rr.viol = err
		}
	}
	if rr.viol == nil && complete {
		for _, h := range faces {
			if h.stream && len(h.leftover) > 0 {
				rr.viol = vf(1, "the byte stream received on face %d (%s) ended with %d bytes that are not a complete TLV block: % x", h.idx, h.spec.Kind, len(h.leftover), head(h.leftover))
				break
			}
			if len(h.parts) > 0 {
				var bs []uint64
				for b := range h.parts {
					bs = append(bs, b)
				}
				sort.Slice(bs, func(i, j int) bool { return bs[i] < bs[j] })
				rr.viol = vf(3, "face %d (%s) received fragments that never completed a packet although every exchange completed: base Sequence %d has %d of %d fragments", h.idx, h.spec.Kind, bs[0], len(h.parts[bs[0]].frags), h.parts[bs[0]].count)
				break
			}
		}
	}
	if !complete {
		for i, e := range exs {
			if e.done {
				continue
			}
			k := fmt.Sprintf("ex:%d", i)
			rr.missing = append(rr.missing, k)
			what := "its Interest was never sent (the window was blocked by earlier exchanges)"
			switch {
			case e.started && len(e.intAt) == 0:
				what = fmt.Sprintf("its Interest (%d bytes, sent on face %d %s) never arrived at a next hop %v", len(e.iw), c.Ex[i].C, faces[c.Ex[i].C].spec.Kind, keys(e.hops))
			case e.started:
				what = fmt.Sprintf("its Interest arrived at face(s) %v, the producer answered with a Data of %d bytes, which never arrived at the consumer (face %d, %s)", keys2(e.intAt), len(e.dw), c.Ex[i].C, faces[c.Ex[i].C].spec.Kind)
			}
			rr.detail[k] = what
		}
		if harnessErr != nil {
			rr.detail["harness"] = harnessErr.Error()
		}
		for _, h := range faces {
			if h.stream && len(h.leftover) > 0 {
				rr.detail[fmt.Sprintf("leftover:%d", h.idx)] = fmt.Sprintf("the stream received on face %d ended with %d bytes of an incomplete block", h.idx, len(h.leftover))
			}
			if len(h.parts) > 0 {
				rr.detail[fmt.Sprintf("parts:%d", h.idx)] = fmt.Sprintf("face %d holds %d incomplete fragment sets", h.idx, len(h.parts))
			}
		}
	}
	// PIT: every exchange answered and completed => the entries are consumed and must go away
	if rr.viol == nil && complete && c.PitCheck && allAnswered(c) {
		st.pitChecked = true
		total := func() int {
			n := 0
			for _, th := range threads {
				n += th.GetNumPitEntries()
			}
			return n
		}
		if !waitFor(6*time.Second, func() bool { return total() == 0 }) {
			rr.missing = append(rr.missing, "pit")
			rr.detail["pit"] = fmt.Sprintf("every exchange was answered and completed, yet %d PIT entries remain 6 s later", total())
		}
	}
	for _, h := range faces {
		h.close()
	}
	quitThreads()
	sort.Strings(rr.missing)
	return rr
}

// outPk labels the frames appended to out since the last call as belonging to packet id.
func (h *hface) outPk(id int) {
	for len(h.pk) < len(h.out) {
		h.pk = append(h.pk, id)
	}
}

func (h *hface) close() {
	if h.stream {
		h.sconn.Close()
	} else {
		h.uconn.Close()
	}
}

func allAnswered(c Case) bool {
	for _, x := range c.Ex {
		if !x.Ans {
			return false
		}
	}
	return true
}

func waitFor(d time.Duration, cond func() bool) bool {
	end := time.Now().Add(d)
	step := 50 * time.Microsecond
	for !cond() {
		if time.Now().After(end) {
			return false
		}
		time.Sleep(step)
		if step < 2*time.Millisecond {
			step *= 2
		}
	}
	return true
}

func val(p *uint64) uint64 {
	if p == nil {
		return 0
	}
	return *p
}

func pv(p *uint64) string {
	if p == nil {
		return "absent"
	}
	return fmt.Sprint(*p)
}

func head(b []byte) []byte {
	if len(b) > 48 {
		return b[:48]
	}
	return b
}

func keys(m map[int]bool) []int {
	var out []int
	for k := range m {
		out = append(out, k)
	}
	sort.Ints(out)
	return out
}

func keys2(m map[int]int) []int {
	var out []int
	for k := range m {
		out = append(out, k)
	}
	sort.Ints(out)
	return out
}

// nearest explains a mismatch: finds the exchange with the same name and says where the bytes differ.
func nearest(pkt []byte, exs []*exState, byName map[string]int, interest bool) string {
	t, err := tlvwalk.ParseOne(pkt)
	if err != nil {
		return ""
	}
	kids, err := tlvwalk.Children(pkt, t.ValOff, t.End)
	if err != nil || len(kids) == 0 || kids[0].Type != tName {
		return " (its value is not a sequence of TLVs starting with a Name)"
	}
	nv := kids[0].Value(pkt)
	best, bi := -1, -1
	for name, i := range byName {
		if len(nv) >= len(name) && string(nv[:len(name)]) == name && len(name) > best {
			best, bi = len(name), i
		}
	}
	if bi < 0 {
		return " (its name belongs to no exchange)"
	}
	want := exs[bi].dw
	if interest {
		want = exs[bi].iw
	}
	d := 0
	for d < len(want) && d < len(pkt) && want[d] == pkt[d] {
		d++
	}
	return fmt.Sprintf(" (its name is that of exchange %d, whose packet has %d bytes; first difference at byte %d)", bi, len(want), d)
}

// datagrams: how many datagrams the harness sends on udp face h for pkt.
func datagrams(h *hface, pkt []byte, tok []byte, bare bool) int {
	var s uint64
	lp := lpwire.LP{PitToken: tok}
	n := lp.Size(len(pkt))
	if len(tok) == 0 && bare {
		n = len(pkt)
	}
	if n <= h.sendMTU() {
		return 1
	}
	return len(fragmentFrames(pkt, tok, h.sendMTU(), h.spec.Slack, &s))
}

const udpBudget = 110
