// Package netpath re-checks C11 (stream framing), C10 (fragmentation / reassembly) and C01 (Data
// delivery, byte-identical, with the consumer's PIT token) over REAL sockets: a complete forwarder
// (real unix-stream / TCP / UDP transports with their receive goroutines, the link services' send
// goroutines and queues, 1..3 forwarding threads, a FIB) runs inside the test process in real time;
// the harness owns the other end of every socket and plays all applications.
//
// The pipeline semantics are kept trivial on purpose (unique names: no aggregation, no cache hit, no
// retransmission); they are harness/fwsim's job. What is exercised here is the byte path:
// kernel-made chunkings of the streams, runReceive -> readTlvStream -> handleIncomingFrame,
// sendPacket -> sendFrame -> conn.Write, the reuse of the link service's output buffer, real
// datagrams through reassembly in both directions.
package netpath

import (
	"encoding/hex"
	"fmt"
	"sort"
	"strings"
	"testing"
	"time"

	"pgregory.net/rapid"

	"verif/harness/internal/evid"
)

type FaceSpec struct {
	Kind string `json:"k"`             // unix | tcp | udp
	MTU  int    `json:"mtu,omitempty"` // udp: MTU set on the transport (0: the default, 8800)
	// udp: > MTU: the harness, as the peer, sends frames of up to this size to the face (a face's MTU
	// bounds what it sends; its peer may have a larger one). 0: the harness keeps to the face's MTU.
	PeerMTU int `json:"pmtu,omitempty"`
	// stream faces: the harness writes what is pending on the socket in pieces of these sizes, cycled
	// (0 or more than is pending: all that is pending); empty: everything pending in one write
	Chunks []int `json:"ch,omitempty"`
	// after every write: n > 0: n x runtime.Gosched(); n < 0: sleep -n microseconds; cycled
	Pauses []int `json:"pa,omitempty"`
	// udp faces: order in which the datagrams of one flush are sent: 0 as produced, 1 every packet's
	// fragments last to first, 2 round robin over the packets, >= 3 shuffled (seed)
	Ord   int `json:"ord,omitempty"`
	Slack int `json:"sl,omitempty"` // udp faces: the harness's fragments carry this many bytes less than would fit
}

type Route struct {
	Prefix string `json:"p"`
	Face   int    `json:"f"` // index into Faces
	Cost   uint64 `json:"c"`
}

type Exchange struct {
	C       int    `json:"c"`             // consumer face (index into Faces)
	P       string `json:"p"`             // routed prefix; the Interest's name is <P>/x<index>[/<Pad bytes>]
	Pad     int    `json:"pad,omitempty"` // > 0: a further name component of this many bytes
	CBP     bool   `json:"cbp,omitempty"`
	MBF     bool   `json:"mbf,omitempty"`
	Life    int    `json:"life"`           // InterestLifetime, ms (>= 4000)
	Tok     string `json:"tok,omitempty"`  // consumer's PIT token, hex, 1..32 bytes; "": none
	Bare    bool   `json:"bare,omitempty"` // without a token: the Interest goes out as a bare TLV, not in an LpPacket
	Ext     int    `json:"ext,omitempty"`  // with CBP: the Data's name has this many more components
	Fresh   int    `json:"fresh"`          // FreshnessPeriod in the Data's MetaInfo; -1: no MetaInfo
	Content int    `json:"n"`              // bytes of Content; -1: no Content element
	Ans     bool   `json:"ans"`            // the producer answers
}

type Case struct {
	Threads   int        `json:"th"`
	Faces     []FaceSpec `json:"faces"`
	Routes    []Route    `json:"routes"`
	Ex        []Exchange `json:"ex"`
	Win       int        `json:"win"` // exchanges outstanding at once
	Multicast bool       `json:"mc,omitempty"`
	CongMark  bool       `json:"cm,omitempty"`  // faces.congestion_marking
	PitCheck  bool       `json:"pit,omitempty"` // after the run wait for the PITs to drain (costs up to a PIT tick)
	Seed      int        `json:"seed"`
}

// ------------------------------------------------------------------ generator

var prefixPool = []string{"/a", "/a/b", "/b", "/c/d", "/a/b/c", "/b/e"}

func isStream(k string) bool { return k != "udp" }

// dataLimit: the largest Data wire size that every face on the way can carry (construct valid only).
func dataLimit(c Case, x Exchange) int {
	lim := maxPacket
	slackCM := 0
	if c.CongMark {
		slackCM = 8 // room for a congestion mark the forwarder may add
	}
	if isStream(c.Faces[x.C].Kind) {
		lim = min(lim, maxFragmentFor(maxPacket-slackCM, len(x.Tok)/2))
	}
	for f := range nextHops(c, x.P) {
		if isStream(c.Faces[f].Kind) {
			lim = min(lim, maxFragmentFor(maxPacket, 6))
		}
	}
	return lim
}

func genChunks(t *rapid.T, label string) (ch []int, pa []int) {
	n := rapid.IntRange(1, 6).Draw(t, label+"-nch")
	for i := 0; i < n; i++ {
		var sz int
		switch rapid.IntRange(0, 7).Draw(t, label+"-cls") {
		case 0, 1:
			sz = rapid.IntRange(1, 5).Draw(t, label+"-tiny")
		case 2:
			sz = rapid.IntRange(6, 40).Draw(t, label+"-small")
		case 3:
			sz = rapid.IntRange(40, 130).Draw(t, label+"-block")
		case 4:
			sz = rapid.IntRange(130, 2500).Draw(t, label+"-blocks")
		case 5:
			sz = rapid.IntRange(2500, 20000).Draw(t, label+"-large")
		case 6:
			sz = rapid.SampledFrom([]int{8799, 8800, 8801, 4400, 253, 254, 255, 256}).Draw(t, label+"-edge")
		default:
			sz = 0
		}
		ch = append(ch, sz)
	}
	if rapid.IntRange(0, 2).Draw(t, label+"-paused") > 0 {
		m := rapid.IntRange(1, 4).Draw(t, label+"-npa")
		for i := 0; i < m; i++ {
			switch rapid.IntRange(0, 3).Draw(t, label+"-pcls") {
			case 0:
				pa = append(pa, 0)
			case 1, 2:
				pa = append(pa, rapid.IntRange(1, 30).Draw(t, label+"-gosched"))
			default:
				pa = append(pa, -rapid.IntRange(1, 300).Draw(t, label+"-us"))
			}
		}
	}
	return
}

func genMTU(t *rapid.T, label string) int {
	switch rapid.IntRange(0, 6).Draw(t, label+"-cls") {
	case 0, 1:
		return rapid.IntRange(128, 260).Draw(t, label+"-tiny")
	case 2, 3:
		return rapid.IntRange(261, 700).Draw(t, label+"-small")
	case 4:
		return rapid.IntRange(700, 1500).Draw(t, label+"-mid")
	case 5:
		return rapid.SampledFrom([]int{1500, 1280, 576, 4000, 8799}).Draw(t, label+"-std")
	}
	return 0
}

func genToken(t *rapid.T, label string) string {
	if rapid.IntRange(0, 9).Draw(t, label+"-has") < 4 {
		return ""
	}
	n := rapid.SampledFrom([]int{1, 2, 3, 4, 6, 6, 8, 16, 31, 32}).Draw(t, label+"-len")
	b := make([]byte, n)
	for i := range b {
		b[i] = byte(rapid.IntRange(0, 255).Draw(t, label+"-b"))
	}
	return hex.EncodeToString(b)
}

// genCase draws a case for a profile: "c11" unix+tcp faces only; "c10" udp faces with small MTUs;
// "c01" mixed faces, several threads.
func genCase(profile string) func(t *rapid.T) Case {
	return func(t *rapid.T) Case {
		var c Case
		c.Seed = rapid.IntRange(0, 999).Draw(t, "seed")
		switch profile {
		case "c11":
			c.Threads = rapid.IntRange(1, 2).Draw(t, "threads")
		case "c10":
			c.Threads = rapid.IntRange(1, 2).Draw(t, "threads")
		default:
			c.Threads = rapid.IntRange(1, 3).Draw(t, "threads")
		}
		nf := rapid.IntRange(2, 4).Draw(t, "nfaces")
		if profile == "c01" {
			nf = rapid.IntRange(3, 5).Draw(t, "nfaces01")
		}
		for i := 0; i < nf; i++ {
			l := fmt.Sprintf("f%d", i)
			var fs FaceSpec
			switch profile {
			case "c11":
				fs.Kind = rapid.SampledFrom([]string{"unix", "tcp"}).Draw(t, l+"-kind")
			case "c10":
				fs.Kind = "udp"
			default:
				fs.Kind = rapid.SampledFrom([]string{"unix", "tcp", "udp"}).Draw(t, l+"-kind")
			}
			if fs.Kind == "udp" {
				fs.MTU = genMTU(t, l+"-mtu")
				if fs.MTU > 0 && fs.MTU < maxPacket && rapid.IntRange(0, 2).Draw(t, l+"-pmtuq") == 0 {
					pm := rapid.SampledFrom([]int{fs.MTU + 1, 1500, 4000, maxPacket}).Draw(t, l+"-pmtu")
					if pm > fs.MTU {
						fs.PeerMTU = pm
					}
				}
				fs.Ord = rapid.SampledFrom([]int{0, 0, 1, 2, 3, 7, 12}).Draw(t, l+"-ord")
				if rapid.Bool().Draw(t, l+"-slack") {
					fs.Slack = rapid.IntRange(1, 40).Draw(t, l+"-sl")
				}
				if rapid.IntRange(0, 3).Draw(t, l+"-upause") == 0 {
					fs.Pauses = []int{rapid.IntRange(0, 10).Draw(t, l+"-ug"), 0, -rapid.IntRange(0, 50).Draw(t, l+"-us")}
				}
			} else if profile == "c11" || rapid.Bool().Draw(t, l+"-chunked") {
				if rapid.IntRange(0, 4).Draw(t, l+"-ch") > 0 {
					fs.Chunks, fs.Pauses = genChunks(t, l)
				}
			}
			c.Faces = append(c.Faces, fs)
		}
		// routes
		np := rapid.IntRange(1, 3).Draw(t, "nprefixes")
		used := map[string]bool{}
		for len(used) < np {
			p := rapid.SampledFrom(prefixPool).Draw(t, "prefix")
			if used[p] {
				continue
			}
			used[p] = true
			nh := rapid.IntRange(1, min(2, nf-1)).Draw(t, "nhops")
			fsel := map[int]bool{}
			for len(fsel) < nh {
				f := rapid.IntRange(0, nf-1).Draw(t, "hop")
				if fsel[f] {
					continue
				}
				fsel[f] = true
				c.Routes = append(c.Routes, Route{Prefix: p, Face: f, Cost: uint64(rapid.IntRange(0, 10).Draw(t, "cost"))})
			}
		}
		var prefixes []string
		for p := range used {
			prefixes = append(prefixes, p)
		}
		sort.Strings(prefixes)
		c.Win = rapid.SampledFrom([]int{1, 1, 2, 3, 4, 8, 16}).Draw(t, "win")
		c.Multicast = profile == "c01" && rapid.IntRange(0, 4).Draw(t, "mc") == 0
		c.CongMark = rapid.IntRange(0, 6).Draw(t, "cm") == 0
		c.PitCheck = rapid.IntRange(0, 3).Draw(t, "pit") == 0
		maxEx := 16
		if evid.Thorough() {
			maxEx = 40
		}
		nex := rapid.IntRange(1, maxEx).Draw(t, "nex")
		allAns := rapid.IntRange(0, 2).Draw(t, "allans") > 0
		for i := 0; i < nex; i++ {
			l := fmt.Sprintf("x%d", i)
			x := Exchange{P: rapid.SampledFrom(prefixes).Draw(t, l+"-p"), Fresh: -1, Ans: true}
			hops := nextHops(c, x.P)
			var cand []int
			for f := 0; f < nf; f++ {
				if !hops[f] {
					cand = append(cand, f)
				}
			}
			x.C = rapid.SampledFrom(cand).Draw(t, l+"-c")
			x.CBP = rapid.IntRange(0, 2).Draw(t, l+"-cbp") == 0
			x.MBF = rapid.IntRange(0, 2).Draw(t, l+"-mbf") == 0
			if x.CBP {
				x.Ext = rapid.IntRange(0, 2).Draw(t, l+"-ext")
			}
			x.Life = rapid.SampledFrom([]int{4000, 4001, 10000, 65535, 65536, 100000}).Draw(t, l+"-life")
			x.Tok = genToken(t, l+"-tok")
			x.Bare = rapid.Bool().Draw(t, l+"-bare")
			if rapid.IntRange(0, 3).Draw(t, l+"-meta") == 0 {
				x.Fresh = rapid.SampledFrom([]int{0, 1000, 100000}).Draw(t, l+"-fresh")
			}
			if !allAns {
				x.Ans = rapid.IntRange(0, 7).Draw(t, l+"-ans") > 0
			}
			// the smallest MTUs on the way (udp faces only)
			cm, pm := 0, 0
			if fs := c.Faces[x.C]; fs.Kind == "udp" {
				cm = fs.MTU
				if cm == 0 {
					cm = maxPacket
				}
			}
			for _, f := range keys(hops) {
				if fs := c.Faces[f]; fs.Kind == "udp" {
					m := fs.MTU
					if m == 0 {
						m = maxPacket
					}
					if pm == 0 || m < pm {
						pm = m
					}
				}
			}
			// Interest size: mostly small, sometimes around the producer's MTU, sometimes large
			switch rapid.IntRange(0, 9).Draw(t, l+"-icls") {
			case 0:
				x.Pad = rapid.IntRange(1, 300).Draw(t, l+"-pad")
			case 1:
				x.Pad = rapid.IntRange(300, 1500).Draw(t, l+"-padL")
			case 2, 3:
				if pm > 0 && pm < 1700 {
					target := maxFragmentFor(pm, 6) + rapid.IntRange(-1, 2).Draw(t, l+"-idelta")
					for p := 1; p < 1700; p++ {
						x.Pad = p
						if interestSize(x, i) >= target {
							break
						}
					}
				}
			}
			// Data size
			lim := dataLimit(c, x)
			target := 0
			switch rapid.IntRange(0, 11).Draw(t, l+"-dcls") {
			case 0:
				target = -1 // no Content element
			case 1, 2:
				target = dataSize(x, i, 0) + rapid.IntRange(0, 100).Draw(t, l+"-dsmall")
			case 3:
				target = rapid.IntRange(100, 1500).Draw(t, l+"-dmid")
			case 4:
				target = rapid.IntRange(1500, 8800).Draw(t, l+"-dlarge")
			case 5, 6:
				target = lim - rapid.SampledFrom([]int{0, 0, 1, 2, 3, 10}).Draw(t, l+"-dlim")
			case 7, 8:
				if cm > 0 { // around what fits one frame to the consumer, and around multiples of the fragment payload
					one := maxFragmentFor(cm, len(x.Tok)/2)
					k := rapid.SampledFrom([]int{1, 1, 1, 2, 3}).Draw(t, l+"-k")
					target = k*one + rapid.IntRange(-2, 2).Draw(t, l+"-cdelta")
					if k > 1 {
						target = k*(one-20) + rapid.IntRange(-24, 24).Draw(t, l+"-cdelta2")
					}
				} else {
					target = rapid.IntRange(200, 3000).Draw(t, l+"-dmid2")
				}
			case 9, 10:
				if pm > 0 {
					one := maxFragmentFor(pm, 6)
					target = rapid.SampledFrom([]int{1, 1, 2, 3}).Draw(t, l+"-pk")*one + rapid.IntRange(-2, 2).Draw(t, l+"-pdelta")
				} else {
					target = rapid.IntRange(200, 3000).Draw(t, l+"-dmid3")
				}
			default:
				target = dataSize(x, i, 0) + rapid.IntRange(0, 40).Draw(t, l+"-dtiny")
			}
			if target > lim {
				target = lim
			}
			x.Content = contentFor(x, i, target)
			if dataSize(x, i, x.Content) > lim {
				// even the smallest Data of this name is too large (cannot happen with these names)
				x.Pad, x.Ext = 0, 0
				x.Content = contentFor(x, i, min(target, lim))
			}
			c.Ex = append(c.Ex, x)
		}
		return c
	}
}

// validate: the constructive preconditions (so that a hand-written replay file cannot produce a
// legitimate drop that would look like a loss).
func validate(c Case) error {
	if len(c.Faces) < 2 || len(c.Faces) > 8 || len(c.Ex) == 0 || c.Threads < 1 || c.Threads > 8 {
		return fmt.Errorf("faces/exchanges/threads out of range")
	}
	for _, f := range c.Faces {
		if f.Kind != "unix" && f.Kind != "tcp" && f.Kind != "udp" {
			return fmt.Errorf("face kind %q", f.Kind)
		}
		if f.Kind == "udp" && f.MTU != 0 && (f.MTU < 128 || f.MTU > maxPacket) {
			return fmt.Errorf("mtu %d", f.MTU)
		}
	}
	for _, r := range c.Routes {
		if r.Face < 0 || r.Face >= len(c.Faces) || !strings.HasPrefix(r.Prefix, "/") || len(comps(r.Prefix)) == 0 {
			return fmt.Errorf("route %+v", r)
		}
	}
	if c.Win > 16 {
		return fmt.Errorf("window %d", c.Win)
	}
	for i, x := range c.Ex {
		if x.C < 0 || x.C >= len(c.Faces) {
			return fmt.Errorf("exchange %d: consumer", i)
		}
		h := nextHops(c, x.P)
		if len(h) == 0 || h[x.C] {
			return fmt.Errorf("exchange %d: no next hop other than the consumer", i)
		}
		routed := false
		for _, r := range c.Routes {
			routed = routed || r.Prefix == x.P
		}
		if !routed || x.Life < 4000 || len(x.Tok) > 64 || len(x.Tok)%2 != 0 || x.Pad > 2000 || x.Ext > 2 || (x.Ext > 0 && !x.CBP) {
			return fmt.Errorf("exchange %d: fields", i)
		}
		if _, err := hex.DecodeString(x.Tok); err != nil {
			return fmt.Errorf("exchange %d: token", i)
		}
		if dataSize(x, i, x.Content) > dataLimit(c, x) || x.Content < -1 {
			return fmt.Errorf("exchange %d: Data of %d bytes, limit %d", i, dataSize(x, i, x.Content), dataLimit(c, x))
		}
	}
	return nil
}

// ------------------------------------------------------------------ judging a case

var noProgress = []time.Duration{2500 * time.Millisecond, 5 * time.Second, 10 * time.Second}

func exec(profile string) func(Case) evid.Result {
	return func(c Case) (res evid.Result) {
		defer func() {
			if r := recover(); r != nil {
				res.Err = fmt.Errorf("panic on the harness goroutine: %v", r)
			}
		}()
		if err := validate(c); err != nil {
			res.Classes = append(res.Classes, "harness-invalid-case")
			return res
		}
		miss := map[string]int{}
		var last runResult
		runs := 0
		for attempt := 0; attempt < len(noProgress); attempt++ {
			rr := runOnce(c, noProgress[attempt])
			runs++
			if rr.setup != nil {
				res.Classes = append(res.Classes, "harness-setup-failed")
				return res
			}
			if rr.viol != nil {
				// corruption / duplication / misdelivery cannot be made by timing; executed once more before
				// it is reported (the forwarder's PIT tokens are random)
				rr2 := runOnce(c, noProgress[attempt])
				if rr2.setup != nil {
					res.Classes = append(res.Classes, "harness-setup-failed")
					return res
				}
				if rr2.viol != nil {
					res.Err = fmt.Errorf("%v  || second execution: %v", rr.viol, rr2.viol)
					return res
				}
				res.Classes = append(res.Classes, "violation-not-reproduced")
				rr = rr2
			}
			last = rr
			if len(rr.missing) == 0 {
				break
			}
			for _, k := range rr.missing {
				miss[k]++
			}
		}
		if len(last.missing) > 0 {
			var common []string
			for k, n := range miss {
				if n == runs {
					common = append(common, k)
				}
			}
			sort.Strings(common)
			if len(common) > 0 {
				var why []string
				for _, k := range common {
					why = append(why, k+": "+last.detail[k])
				}
				for k, v := range last.detail {
					if strings.HasPrefix(k, "leftover") || strings.HasPrefix(k, "parts") || k == "harness" {
						why = append(why, v)
					}
				}
				sort.Strings(why[len(common):])
				res.Err = fmt.Errorf("[4/5] incomplete in each of %d executions from scratch (waiting %v, %v and %v without any progress): %s", runs, noProgress[0], noProgress[1], noProgress[2], strings.Join(why, "; "))
				return res
			}
		}
		if runs > 1 {
			res.Classes = append(res.Classes, "inconclusive-timing")
		}
		st := last.st
		streamNT := st.midBlock > 0
		udpNT := st.fwdFragPkts > 0 && st.harFragPkts > 0
		switch profile {
		case "c11":
			res.NonTrivial = st.completed > 0 && streamNT
		case "c10":
			res.NonTrivial = st.completed > 0 && udpNT
		default:
			res.NonTrivial = st.completed > 0 && (streamNT || udpNT)
		}
		cl := func(b bool, s string) {
			if b {
				res.Classes = append(res.Classes, s)
			}
		}
		cl(true, fmt.Sprintf("threads-%d", c.Threads))
		for k := range st.kinds {
			cl(true, "completed-over-"+k)
		}
		cl(len(st.kinds) >= 2, "completed-across-face-kinds")
		cl(st.completed > 0, "exchange-completed")
		cl(st.completed == len(c.Ex), "all-exchanges-completed")
		cl(streamNT, "stream-write-ended-inside-block")
		cl(st.multiBlock > 0, "stream-write-with-several-blocks")
		cl(st.partialReads > 0, "harness-read-ended-inside-block")
		cl(st.fwdFragPkts > 0, "forwarder-fragmented")
		cl(st.fwdFragMax >= 10, "forwarder-fragmented-10+")
		cl(st.harFragPkts > 0, "harness-fragmented")
		cl(st.aboveFaceMTU > 0, "frames-larger-than-the-receiving-face's-mtu")
		cl(udpNT, "fragmented-both-directions")
		cl(st.reordered > 0, "fragments-sent-out-of-order")
		cl(st.exactMTU > 0, "frame-of-exactly-the-mtu")
		cl(st.bareFromFwd > 0, "forwarder-sent-bare-packet")
		cl(st.congMarks > 0, "congestion-mark-seen")
		cl(st.otherFields > 0, "other-lp-fields-seen")
		cl(st.pitChecked, "pit-drained-checked")
		cl(st.dupAnswers > 0, "several-producers-answered")
		cl(c.Multicast, "multicast")
		cl(c.CongMark, "congestion-marking-on")
		cl(c.Win > 1, "window>1")
		near, tok6, tok32, bare, unans, big, cbpExt := false, false, false, false, false, false, false
		for i, x := range c.Ex {
			n := dataSize(x, i, x.Content)
			near = near || n >= dataLimit(c, x)-2
			big = big || n >= 4000
			tok6 = tok6 || len(x.Tok) == 12
			tok32 = tok32 || len(x.Tok) == 64
			bare = bare || (x.Tok == "" && x.Bare)
			unans = unans || !x.Ans
			cbpExt = cbpExt || x.Ext > 0
		}
		cl(near, "data-at-the-size-limit")
		cl(big, "data>=4000")
		cl(tok6, "consumer-token-of-6-bytes")
		cl(tok32, "consumer-token-of-32-bytes")
		cl(bare, "bare-interest")
		cl(unans, "unanswered-exchange")
		cl(cbpExt, "data-name-longer-than-interest")
		res.Counts = map[string]int{"exchanges-completed": st.completed, "packets-fragmented-by-forwarder": st.fwdFragPkts, "packets-fragmented-by-harness": st.harFragPkts, "executions": runs}
		return res
	}
}

const ruleCommon = "a complete forwarder (real unix/tcp/udp transports over real sockets, link services with their send queues and goroutines, 1..3 forwarding threads, FIB) in real time; the harness owns the other end of every socket and plays consumers and producers for a list of exchanges under unique names (window 1..16): Interest written on the consumer's socket (bare or in an LpPacket with a 1..32-byte PIT token), read at a producer's socket, answered with Data (0..8800 bytes, biased to the size limits) echoing the forwarder's token, read at the consumer's socket. Judged: everything received splits into well-formed blocks/frames carrying Interests or Data only; Interests byte-identical, at a FIB next hop, once, with a token; Data byte-identical, at the asking face only, once, with exactly the consumer's token; fragments <= MTU with consistent FragIndex/FragCount/Sequence; every exchange completes (a miss is reported only when the same exchange is missing in 3 executions from scratch with 2.5/5/10 s no-progress deadlines); after closing the sockets the faces leave the face table and (when all answered) the PITs drain. "

const (
	rule11 = ruleCommon + "C11 profile: unix and tcp faces; the harness's writes are cut by a chunk script (1..5 bytes, about a block, several blocks, large) with Gosched/microsecond pauses. Non-trivial: >= 1 exchange completed end to end AND >= 1 harness write ended inside a TLV block."
	rule10 = ruleCommon + "C10 profile: udp faces, MTU 128..8800 biased small; the harness fragments what it sends - to the face's MTU, or to a larger MTU of its own - (payload slack, fragments in order / reversed / round robin / shuffled). Non-trivial: >= 1 exchange completed end to end AND >= 1 packet fragmented by the forwarder AND >= 1 by the harness."
	rule01 = ruleCommon + "C01 profile: 3..5 faces of mixed kinds, 1..3 threads, best-route or multicast. Non-trivial: >= 1 exchange completed end to end AND (a harness write ended inside a TLV block OR packets were fragmented in both directions)."
)

func TestC11Sockets(t *testing.T) {
	evid.Check(t, evid.New("C11", "TestC11Sockets", rule11), genCase("c11"), exec("c11"))
}
func TestC11SocketsReplay(t *testing.T) { evid.Replay(t, "TestC11Sockets", exec("c11")) }

func TestC10Datagrams(t *testing.T) {
	evid.Check(t, evid.New("C10", "TestC10Datagrams", rule10), genCase("c10"), exec("c10"))
}
func TestC10DatagramsReplay(t *testing.T) { evid.Replay(t, "TestC10Datagrams", exec("c10")) }

func TestC01Sockets(t *testing.T) {
	evid.Check(t, evid.New("C01", "TestC01Sockets", rule01), genCase("c01"), exec("c01"))
}
func TestC01SocketsReplay(t *testing.T) { evid.Replay(t, "TestC01Sockets", exec("c01")) }
