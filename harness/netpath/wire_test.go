package netpath

import (
	"encoding/hex"
	"fmt"
	"strings"

	"verif/harness/internal/lpwire"
	"verif/harness/internal/tlvwalk"
)

// Independent builders of the packets the harness's applications exchange. Written from
// the NDN packet format specification on top of internal/tlvwalk; nothing here calls the
// repository's encoder or decoder.

const (
	tInterest  = 5
	tData      = 6
	tName      = 7
	tGeneric   = 8
	tCBP       = 0x21
	tMBF       = 0x12
	tNonce     = 0x0a
	tLifetime  = 0x0c
	tMetaInfo  = 0x14
	tFreshness = 0x19
	tContent   = 0x15
	tSigInfo   = 0x16
	tSigType   = 0x1b
	tSigValue  = 0x17

	maxPacket = 8800
)

func tlvSize(typ uint64, valueLen int) int {
	return tlvwalk.VarNumSize(typ) + tlvwalk.VarNumSize(uint64(valueLen)) + valueLen
}

func comps(prefix string) []string {
	var out []string
	for _, c := range strings.Split(prefix, "/") {
		if c != "" {
			out = append(out, c)
		}
	}
	return out
}

// nameValueSize / nameValue: <prefix>/x<uniq>[/pppp..(pad bytes)][/e0[/e1]] (ext extra components).
func nameValueSize(prefix string, uniq, pad, ext int) int {
	n := 0
	for _, c := range comps(prefix) {
		n += tlvSize(tGeneric, len(c))
	}
	n += tlvSize(tGeneric, len(fmt.Sprintf("x%d", uniq)))
	if pad > 0 {
		n += tlvSize(tGeneric, pad)
	}
	n += ext * tlvSize(tGeneric, 2)
	return n
}

func nameValue(prefix string, uniq, pad, ext int) []byte {
	var v []byte
	for _, c := range comps(prefix) {
		v = tlvwalk.AppendTLV(v, tGeneric, []byte(c))
	}
	v = tlvwalk.AppendTLV(v, tGeneric, []byte(fmt.Sprintf("x%d", uniq)))
	if pad > 0 {
		p := make([]byte, pad)
		for i := range p {
			p[i] = 'a' + byte((i*7+uniq)%26)
		}
		v = tlvwalk.AppendTLV(v, tGeneric, p)
	}
	for e := 0; e < ext; e++ {
		v = tlvwalk.AppendTLV(v, tGeneric, []byte{'e', '0' + byte(e)})
	}
	return v
}

func lifetimeValue(ms int) []byte { return tlvwalk.EncodeNNI(uint64(ms)) }

func interestSize(x Exchange, i int) int {
	inner := tlvSize(tName, nameValueSize(x.P, i, x.Pad, 0)) + 6 + tlvSize(tLifetime, len(lifetimeValue(x.Life)))
	if x.CBP {
		inner += 2
	}
	if x.MBF {
		inner += 2
	}
	return tlvSize(tInterest, inner)
}

// interestWire: Name [CanBePrefix] [MustBeFresh] Nonce InterestLifetime -- no HopLimit, so the
// forwarder has nothing to rewrite and must forward the wire unchanged.
func interestWire(x Exchange, i int, seed int) []byte {
	v := tlvwalk.AppendTLV(nil, tName, nameValue(x.P, i, x.Pad, 0))
	if x.CBP {
		v = tlvwalk.AppendTLV(v, tCBP)
	}
	if x.MBF {
		v = tlvwalk.AppendTLV(v, tMBF)
	}
	n := uint32(seed)*2654435761 + uint32(i)*40503 + 0x9e3779b9
	v = tlvwalk.AppendTLV(v, tNonce, []byte{byte(n >> 24), byte(n >> 16), byte(n >> 8), byte(n)})
	v = tlvwalk.AppendTLV(v, tLifetime, lifetimeValue(x.Life))
	return tlvwalk.EncodeTLV(tInterest, v)
}

func metaInfoSize(x Exchange) int {
	if x.Fresh < 0 {
		return 0
	}
	return tlvSize(tMetaInfo, tlvSize(tFreshness, len(tlvwalk.EncodeNNI(uint64(x.Fresh)))))
}

const sigSize = 5 + 34 // SignatureInfo{SignatureType=0} SignatureValue(32 bytes)

// dataSize is the wire size of the Data of exchange i carrying content bytes of content (-1: no Content element).
func dataSize(x Exchange, i int, content int) int {
	inner := tlvSize(tName, nameValueSize(x.P, i, x.Pad, x.Ext)) + metaInfoSize(x) + sigSize
	if content >= 0 {
		inner += tlvSize(tContent, content)
	}
	return tlvSize(tData, inner)
}

func fill(dst []byte, n int, seed uint32) []byte {
	x := seed*2654435761 + 12345
	for i := 0; i < n; i++ {
		if i&3 == 0 {
			x = x*1664525 + 1013904223
		}
		dst = append(dst, byte(x>>(8*uint(i&3))))
	}
	return dst
}

// dataWire: Name [MetaInfo{FreshnessPeriod}] [Content] SignatureInfo SignatureValue. The name is the
// Interest's name plus x.Ext components (only with CanBePrefix). The forwarder does not verify signatures.
func dataWire(x Exchange, i int, seed int) []byte {
	v := tlvwalk.AppendTLV(nil, tName, nameValue(x.P, i, x.Pad, x.Ext))
	if x.Fresh >= 0 {
		v = tlvwalk.AppendTLV(v, tMetaInfo, tlvwalk.AppendNNI(nil, tFreshness, uint64(x.Fresh)))
	}
	if x.Content >= 0 {
		v = tlvwalk.AppendTLV(v, tContent, fill(nil, x.Content, uint32(seed)*131+uint32(i)))
	}
	v = tlvwalk.AppendTLV(v, tSigInfo, tlvwalk.AppendNNI(nil, tSigType, 0))
	v = tlvwalk.AppendTLV(v, tSigValue, fill(nil, 32, uint32(seed)*17+uint32(i)+99))
	return tlvwalk.EncodeTLV(tData, v)
}

// contentFor returns the Content length (>= -1) that makes the Data of exchange i as close to target
// wire bytes as possible without exceeding it (-1 if even the content-less Data is larger).
func contentFor(x Exchange, i int, target int) int {
	if dataSize(x, i, 0) > target {
		return -1
	}
	c := target - dataSize(x, i, 0)
	for c > 0 && dataSize(x, i, c) > target {
		c--
	}
	return c
}

// lpSize is the size of an LpPacket frame with a PIT token of tokLen bytes (0: none) around a
// fragment of n bytes.
func lpSize(tokLen int, n int) int {
	p := lpwire.LP{}
	if tokLen > 0 {
		p.PitToken = make([]byte, tokLen)
	}
	return p.Size(n)
}

// maxFragmentFor: the largest n with lpSize(tokLen, n) <= total.
func maxFragmentFor(total int, tokLen int) int {
	n := total
	for n > 0 && lpSize(tokLen, n) > total {
		n--
	}
	return n
}

func unhex(s string) []byte {
	b, err := hex.DecodeString(s)
	if err != nil {
		panic("harness: bad hex in case: " + s)
	}
	return b
}

// fragmentFrames splits pkt into NDNLPv2 fragments none larger than mtu, the way a peer link service
// does: Sequence = *seq + FragIndex, FragIndex, FragCount, and the PIT token on every fragment (as the
// forwarder's own link service emits them). slack shrinks the payload below the maximum.
func fragmentFrames(pkt []byte, tok []byte, mtu int, slack int, seq *uint64) [][]byte {
	payload := func(wide bool) int {
		k := uint64(1)
		if wide {
			k = 300
		}
		h := lpwire.LP{Seq: lpwire.U64(0), FragIndex: lpwire.U64(k), FragCount: lpwire.U64(k), PitToken: tok}
		n := mtu
		for n > 0 && h.Size(n) > mtu {
			n--
		}
		n -= slack
		if n < 16 {
			n = 16
		}
		return n
	}
	p := payload(false)
	cnt := (len(pkt) + p - 1) / p
	if cnt > 255 {
		p = payload(true)
		cnt = (len(pkt) + p - 1) / p
	}
	var out [][]byte
	for i := 0; i < cnt; i++ {
		lo, hi := i*p, (i+1)*p
		if hi > len(pkt) {
			hi = len(pkt)
		}
		f := lpwire.LP{Seq: lpwire.U64(*seq + uint64(i)), FragIndex: lpwire.U64(uint64(i)), FragCount: lpwire.U64(uint64(cnt)),
			PitToken: tok, Fragment: pkt[lo:hi], HasFragment: true}
		out = append(out, f.Encode())
	}
	*seq += uint64(cnt)
	return out
}

// splitBlocks removes the complete TLV blocks at the front of acc (the harness's own stream splitter).
// bad != "" when what is at the front cannot be the start of any block the forwarder may send.
func splitBlocks(acc []byte) (blocks [][]byte, rest []byte, bad string) {
	for len(acc) > 0 {
		typ, tn, _, err := tlvwalk.ReadVarNum(acc, 0)
		if err != nil {
			break
		}
		ln, lnn, _, err := tlvwalk.ReadVarNum(acc, tn)
		if err != nil {
			break
		}
		if ln > maxPacket || tn+lnn+int(ln) > maxPacket {
			return blocks, acc, fmt.Sprintf("a block of type %d announcing %d value bytes (more than the maximum packet size) starts with % x", typ, ln, acc[:min(len(acc), 16)])
		}
		end := tn + lnn + int(ln)
		if len(acc) < end {
			break
		}
		blocks = append(blocks, append([]byte{}, acc[:end]...))
		acc = acc[end:]
	}
	return blocks, acc, ""
}
