package netpath

import (
	"bytes"
	"fmt"
	"os"
	"sort"
	"strings"
	"testing"
	"time"

	"github.com/named-data/ndnd/fw/face"
	"pgregory.net/rapid"

	"verif/harness/internal/evid"
	"verif/harness/internal/lpwire"
	"verif/harness/internal/tlvwalk"
)

// Stalled reader: a consumer on a TCP or unix face asks for several MB of Data and, at a generated
// point, stops reading its socket for 1.2..3 s while the producer keeps answering; the forwarder keeps
// sending to it until the socket buffers are full (measured on this machine: 3.9 MB for loopback TCP
// whatever SO_RCVBUF the reader sets -- the sender's buffer autotunes to tcp_wmem[2] = 4 MB, and a
// receive buffer below 64 kB only makes the drain crawl at one window per delayed ACK; 202 400 B
// for a unix stream socket), conn.Write blocks, the face's send queue (1024 packets) fills and whole
// packets are dropped there: a legitimate congestion drop. Then the consumer resumes and drains.
//
// Whatever is lost, what the socket delivers must remain a sequence of complete well-formed blocks:
// a transport that gives up on a frame in the middle of writing it (write deadline, error, ...) and
// goes on with the next frame garbles the stream for ever.

type StallCase struct {
	Threads    int    `json:"th"`
	CKind      string `json:"ck"`            // consumer's face: tcp | unix
	PKind      string `json:"pk"`            // producer's face: tcp | unix
	N          int    `json:"n"`             // exchanges
	Vary       int    `json:"vary"`          // Data i is (i*37 mod Vary) bytes smaller than the largest possible
	Tok        string `json:"tok,omitempty"` // consumer's PIT token (hex)
	RcvBuf     int    `json:"rcvbuf"`        // SO_RCVBUF of the consumer's socket (0: the system's default / autotuning)
	ReadBuf    int    `json:"rbuf"`          // size of the consumer's read buffer
	StallAfter int    `json:"after"`         // the consumer stops reading after this many bytes ...
	StallMs    int    `json:"ms"`            // ... for this long
	Ahead      int    `json:"ahead"`         // Interests sent and not yet seen at the producer
	Seed       int    `json:"seed"`
}

// bytes the forwarder can get rid of towards a reader that does not read (measured, plus margin)
func fillBytes(c StallCase) int {
	if c.CKind == "tcp" {
		rb := c.RcvBuf
		if rb == 0 {
			rb = 1 << 20 // left to the kernel's autotuning
		}
		return 4<<20 + 2*rb + 256<<10
	}
	return 300 << 10
}

func genStall(t *rapid.T) StallCase {
	c := StallCase{
		Threads: rapid.IntRange(1, 2).Draw(t, "threads"),
		CKind:   rapid.SampledFrom([]string{"tcp", "tcp", "unix"}).Draw(t, "ckind"),
		PKind:   rapid.SampledFrom([]string{"tcp", "unix"}).Draw(t, "pkind"),
		Vary:    rapid.SampledFrom([]int{1, 2, 50, 997, 3001}).Draw(t, "vary"),
		RcvBuf:  rapid.SampledFrom([]int{0, 65536, 131072, 262144, 1 << 20}).Draw(t, "rcvbuf"),
		ReadBuf: rapid.SampledFrom([]int{4096, 20000, 65536}).Draw(t, "rbuf"),
		StallMs: rapid.IntRange(1200, 3000).Draw(t, "ms"),
		Ahead:   rapid.SampledFrom([]int{32, 64, 128, 256}).Draw(t, "ahead"),
		Seed:    rapid.IntRange(0, 999).Draw(t, "seed"),
	}
	switch rapid.IntRange(0, 3).Draw(t, "aftercls") {
	case 0:
		c.StallAfter = 0
	case 1:
		c.StallAfter = rapid.IntRange(1, 20000).Draw(t, "after-s")
	default:
		c.StallAfter = rapid.IntRange(20000, 400000).Draw(t, "after-l")
	}
	c.Tok = genToken(t, "tok")
	// enough Data to fill every buffer on the way while the reader sleeps, sometimes more than the
	// face's send queue can hold on top of that (whole packets are then dropped at the queue)
	need := (c.StallAfter+fillBytes(c))/8000 + 40
	if rapid.SampledFrom([]bool{false, false, true}).Draw(t, "overflow") {
		c.N = need + 1024 + rapid.IntRange(50, 300).Draw(t, "n-over")
	} else {
		c.N = need + rapid.IntRange(0, 250).Draw(t, "n-extra")
	}
	return c
}

func (c StallCase) fwdCase() Case {
	return Case{Threads: c.Threads, Faces: []FaceSpec{{Kind: c.CKind}, {Kind: c.PKind}}, Routes: []Route{{Prefix: "/s", Face: 1}}, Seed: c.Seed}
}

func (c StallCase) exchange(i int) Exchange {
	x := Exchange{C: 0, P: "/s", Life: 10000, Tok: c.Tok, Fresh: -1, Ans: true}
	lim := min(maxFragmentFor(maxPacket, len(c.Tok)/2), maxFragmentFor(maxPacket, 6))
	if i >= c.N {
		x.Content = 10 // the small exchanges after the drain
		return x
	}
	x.Content = contentFor(x, i, lim-(i*37)%max(c.Vary, 1))
	return x
}

type stallStats struct {
	before, after int // Data received before the stall began / after it ended
	lost          int // answered by the producer, never delivered (legitimate)
	intLost       int
	filledFor     time.Duration // how long the stall went on after the producer had answered enough to fill every buffer
	finals        int           // small exchanges needed after the drain until one completed
	total         time.Duration
}

type stallResult struct {
	setup   error
	viol    error
	missing []string
	detail  map[string]string
	st      stallStats
}

func validateStall(c StallCase) error {
	ok := func(k string) bool { return k == "tcp" || k == "unix" }
	if !ok(c.CKind) || !ok(c.PKind) || c.N < 1 || c.N > 4000 || c.Threads < 1 || c.Threads > 4 || c.StallMs < 0 || c.StallMs > 10000 ||
		c.Ahead < 1 || c.Ahead > 512 || len(c.Tok) > 64 || len(c.Tok)%2 != 0 || c.RcvBuf < 0 || c.ReadBuf < 0 || c.ReadBuf > 1<<20 || c.StallAfter < 0 {
		return fmt.Errorf("fields out of range")
	}
	return nil
}

func runStall(c StallCase) (rr stallResult) {
	t0 := time.Now()
	rr.detail = map[string]string{}
	st := &rr.st
	e, err := bringUp(c.fwdCase(), func(h *hface) {
		if h.idx != 0 {
			return
		}
		if c.RcvBuf > 0 {
			h.sconn.(interface{ SetReadBuffer(int) error }).SetReadBuffer(c.RcvBuf)
		}
		h.rbuf, h.stallAfter, h.stallFor = c.ReadBuf, c.StallAfter, time.Duration(c.StallMs)*time.Millisecond
	})
	if err != nil {
		rr.setup = err
		return
	}
	defer os.RemoveAll(e.dir)
	cons, prod, q := e.faces[0], e.faces[1], e.q
	tok := unhex(c.Tok)

	const finals = 4
	total := c.N + finals
	iw, dw := make([][]byte, total), make([][]byte, total)
	byInt, byData := map[string]int{}, map[string]int{}
	for i := 0; i < total; i++ {
		x := c.exchange(i)
		iw[i], dw[i] = interestWire(x, i, c.Seed), dataWire(x, i, c.Seed)
		byInt[string(iw[i])], byData[string(dw[i])] = i, i
	}
	sentAt := make([]bool, total)
	intSeen, answered, dataSeen := make([]int, total), make([]bool, total), make([]int, total)
	sent, arrived := 0, 0
	answeredBytes := 0
	var filledAt time.Time
	need := c.StallAfter + fillBytes(c)

	write := func(h *hface, b []byte) error {
		if len(b) == 0 {
			return nil
		}
		_, err := h.sconn.Write(b)
		return err
	}
	interestFrame := func(i int) []byte {
		return lpwire.LP{PitToken: tok, Fragment: iw[i], HasFragment: true}.Encode()
	}
	var harnessErr error
	process := func(evs []event) error {
		var pout []byte
		for _, ev := range evs {
			h := e.faces[ev.face]
			if ev.bad != "" {
				return vf(1, "the byte stream received on face %d (%s) does not split into TLV blocks: %s", h.idx, h.spec.Kind, ev.bad)
			}
			lp, err := lpwire.ParseFrame(ev.frame)
			if err != nil {
				return vf(1, "face %d (%s) received a block of %d bytes that is neither a well-formed LpPacket nor a bare packet (%v): % x", h.idx, h.spec.Kind, len(ev.frame), err, head(ev.frame))
			}
			if lp.FragIndex != nil || lp.FragCount != nil || lp.Seq != nil {
				return vf(1, "face %d (%s, fragmentation off) received a frame with fragmentation fields", h.idx, h.spec.Kind)
			}
			if !lp.HasFragment || len(lp.Fragment) == 0 {
				continue
			}
			t, err := tlvwalk.ParseOne(lp.Fragment)
			if err != nil || !t.Shortest() {
				return vf(1, "face %d (%s) received %d bytes that are not one well-formed TLV block (%v): % x", h.idx, h.spec.Kind, len(lp.Fragment), err, head(lp.Fragment))
			}
			switch {
			case h == prod && t.Type == tInterest:
				i, ok := byInt[string(lp.Fragment)]
				if !ok || !sentAt[i] {
					return vf(2, "the producer's face received an Interest of %d bytes that is not byte-identical to any Interest the consumer sent: % x", len(lp.Fragment), head(lp.Fragment))
				}
				intSeen[i]++
				if intSeen[i] > 1 {
					return vf(2, "the Interest of exchange %d arrived %d times at the producer; it was sent once, under a unique name", i, intSeen[i])
				}
				if len(lp.PitToken) == 0 {
					return vf(2, "the Interest of exchange %d arrived at the producer without a PIT token", i)
				}
				arrived++
				answered[i] = true
				answeredBytes += len(dw[i])
				pout = append(pout, lpwire.LP{PitToken: lp.PitToken, Fragment: dw[i], HasFragment: true}.Encode()...)
			case h == cons && t.Type == tData:
				i, ok := byData[string(lp.Fragment)]
				if !ok {
					return vf(3, "the consumer's face (%s) received a Data of %d bytes that is not byte-identical to any Data the producer sent: % x", h.spec.Kind, len(lp.Fragment), head(lp.Fragment))
				}
				if !answered[i] {
					return vf(3, "the consumer received the Data of exchange %d, which the producer has not sent", i)
				}
				dataSeen[i]++
				if dataSeen[i] > 1 {
					return vf(3, "the Data of exchange %d arrived %d times at the consumer", i, dataSeen[i])
				}
				if !bytes.Equal(lp.PitToken, tok) || lp.HasPitToken != (len(tok) > 0) {
					return vf(3, "the Data of exchange %d arrived at the consumer with PIT token %x (present=%v); the consumer supplied %x", i, lp.PitToken, lp.HasPitToken, tok)
				}
				if cons.stallState.Load() == 2 {
					st.after++
				} else {
					st.before++
				}
			default:
				return vf(1, "face %d (%s) received a TLV block of type %d (%d bytes) that nobody sent towards it: % x", h.idx, h.spec.Kind, t.Type, len(lp.Fragment), head(lp.Fragment))
			}
		}
		if filledAt.IsZero() && answeredBytes >= need {
			filledAt = time.Now()
		}
		if err := write(prod, pout); err != nil && harnessErr == nil {
			harnessErr = fmt.Errorf("harness write on the producer's socket: %v", err)
		}
		return nil
	}

	// ---- the bulk: N Interests, at most Ahead of them between the consumer and the producer
	last := time.Now()
	for rr.viol == nil && harnessErr == nil {
		var out []byte
		for sent < c.N && sent-arrived < c.Ahead {
			out = append(out, interestFrame(sent)...)
			sentAt[sent] = true
			sent++
		}
		if err := write(cons, out); err != nil {
			harnessErr = fmt.Errorf("harness write on the consumer's socket: %v", err)
			break
		}
		evs := q.take(200 * time.Millisecond)
		if len(evs) > 0 {
			last = time.Now()
			rr.viol = process(evs)
			continue
		}
		if sent < c.N {
			// nothing moves although Interests are outstanding: count them as lost and go on
			st.intLost += sent - arrived
			arrived = sent
			continue
		}
		if cons.stallState.Load() != 1 && time.Since(last) >= 700*time.Millisecond {
			break // everything asked, the stall is over (or never began: too little arrived), and it is quiet
		}
	}
	// how long did the reader keep sleeping after every buffer on the way must have been full
	if !filledAt.IsZero() && cons.stallState.Load() == 2 {
		from := cons.stallBegan
		if filledAt.After(from) {
			from = filledAt
		}
		st.filledFor = cons.stallBegan.Add(cons.stallFor).Sub(from)
	}
	for i := 0; i < c.N; i++ {
		if answered[i] && dataSeen[i] == 0 {
			st.lost++
		}
	}

	// ---- the face must still be usable: a small exchange completes (repeated: the first ones may still
	// meet a full queue)
	usable := false
	for k := 0; k < finals && rr.viol == nil && harnessErr == nil && !usable; k++ {
		i := c.N + k
		sentAt[i] = true
		st.finals++
		if err := write(cons, interestFrame(i)); err != nil {
			harnessErr = fmt.Errorf("harness write on the consumer's socket: %v", err)
			break
		}
		end := time.Now().Add(3 * time.Second)
		for rr.viol == nil && dataSeen[i] == 0 && time.Now().Before(end) {
			rr.viol = process(q.take(100 * time.Millisecond))
		}
		usable = dataSeen[i] > 0
	}
	if rr.viol == nil && !usable {
		rr.missing = append(rr.missing, "final")
		why := fmt.Sprintf("after the consumer had drained its socket, none of %d small exchanges on the same faces completed within 3 s each", st.finals)
		if harnessErr != nil {
			why += " (" + harnessErr.Error() + ")"
		}
		rr.detail["final"] = why
	}

	// ---- teardown
	for _, h := range e.faces {
		h.sconn.CloseWrite()
	}
	down := waitFor(10*time.Second, func() bool { return face.VerifFaceTableLen() == 0 })
	if !down {
		for _, h := range e.faces {
			if face.FaceTable.Get(h.id) != nil {
				k := fmt.Sprintf("face:%d", h.idx)
				rr.missing = append(rr.missing, k)
				rr.detail[k] = fmt.Sprintf("face %d (%s) is still in the face table 10 s after its socket was closed", h.idx, h.spec.Kind)
			}
			h.sconn.SetReadDeadline(time.Now().Add(50 * time.Millisecond))
		}
	}
	for _, h := range e.faces {
		select {
		case <-h.done:
		case <-time.After(10 * time.Second):
			h.close()
			<-h.done
			k := fmt.Sprintf("reader:%d", h.idx)
			rr.missing = append(rr.missing, k)
			rr.detail[k] = fmt.Sprintf("the stream of face %d (%s) did not end within 10 s after the harness closed its side", h.idx, h.spec.Kind)
		}
	}
	if rr.viol == nil {
		rr.viol = process(q.grab())
	}
	if rr.viol == nil {
		for _, h := range e.faces {
			if len(h.leftover) > 0 && usable {
				rr.viol = vf(1, "the byte stream received on face %d (%s) ended with %d bytes that are not a complete TLV block: % x", h.idx, h.spec.Kind, len(h.leftover), head(h.leftover))
				break
			}
			if len(h.leftover) > 0 {
				rr.detail["leftover"] = fmt.Sprintf("the stream received on face %d (%s) ended with %d bytes of an incomplete block", h.idx, h.spec.Kind, len(h.leftover))
			}
		}
	}
	for _, h := range e.faces {
		h.close()
	}
	e.quitThreads()
	sort.Strings(rr.missing)
	st.total = time.Since(t0)
	return rr
}

var stallExec = func(c StallCase) (res evid.Result) {
	defer func() {
		if r := recover(); r != nil {
			res.Err = fmt.Errorf("panic on the harness goroutine: %v", r)
		}
	}()
	if err := validateStall(c); err != nil {
		res.Classes = append(res.Classes, "harness-invalid-case")
		return res
	}
	miss := map[string]int{}
	var last stallResult
	runs := 0
	for attempt := 0; attempt < 3; attempt++ {
		rr := runStall(c)
		runs++
		if rr.setup != nil {
			res.Classes = append(res.Classes, "harness-setup-failed")
			return res
		}
		if rr.viol != nil {
			rr2 := runStall(c)
			if rr2.setup != nil {
				res.Classes = append(res.Classes, "harness-setup-failed")
				return res
			}
			if rr2.viol != nil {
				res.Err = fmt.Errorf("%v  || second execution: %v", rr.viol, rr2.viol)
				return res
			}
			res.Classes = append(res.Classes, "violation-not-reproduced")
			rr = rr2
		}
		last = rr
		if len(rr.missing) == 0 {
			break
		}
		for _, k := range rr.missing {
			miss[k]++
		}
	}
	if len(last.missing) > 0 {
		var why []string
		for k, n := range miss {
			if n == runs {
				why = append(why, k+": "+last.detail[k])
			}
		}
		sort.Strings(why)
		if len(why) > 0 {
			if l := last.detail["leftover"]; l != "" {
				why = append(why, l)
			}
			res.Err = fmt.Errorf("[4/5] in each of %d executions from scratch: %s", runs, strings.Join(why, "; "))
			return res
		}
	}
	if runs > 1 {
		res.Classes = append(res.Classes, "inconclusive-timing")
	}
	st := last.st
	res.NonTrivial = st.filledFor >= 1100*time.Millisecond && st.after > 0
	cl := func(b bool, s string) {
		if b {
			res.Classes = append(res.Classes, s)
		}
	}
	cl(true, "consumer-"+c.CKind)
	cl(true, "producer-"+c.PKind)
	cl(st.filledFor >= 1100*time.Millisecond, "buffers-full-for-1.1s+")
	cl(st.filledFor > 0 && st.filledFor < 1100*time.Millisecond, "buffers-full-for-less")
	cl(st.lost > 0, "packets-dropped-at-the-full-queue")
	cl(st.lost == 0, "nothing-lost")
	cl(st.intLost > 0, "interests-lost")
	cl(st.before > 0, "data-before-the-stall")
	cl(st.after > 0, "data-after-the-stall")
	cl(st.finals > 1, "final-exchange-needed-repeats")
	res.Counts = map[string]int{"data-delivered": st.before + st.after, "data-lost-legitimately": st.lost, "executions": runs, "wall-ms": int(st.total / time.Millisecond)}
	return res
}

const ruleStall = "a forwarder with two stream faces (consumer tcp|unix, producer tcp|unix) over real sockets; the consumer asks for N x ~8.7 kB Data under unique names (enough to fill every socket buffer on the way: 4 MB+ for TCP, 300 kB for unix; a third of the cases 1024+ packets more, so that the face's send queue overflows) and stops reading its socket once, after a generated number of bytes, for 1.2..3 s (SO_RCVBUF default/64 kB..1 MB, read buffer 4..64 kB), then drains. Judged: everything the consumer's and the producer's socket deliver, before and after the stall, splits into complete well-formed blocks, each an LpPacket with a Data byte-identical to one the producer sent (an Interest the consumer sent), at most once, with the consumer's token; losses are legitimate and only counted; after the drain a small exchange on the same faces completes (up to 4 tries of 3 s; reported only if none does in 3 executions from scratch) and at EOF no partial block is left. Non-trivial: the reader kept sleeping >= 1.1 s after the producer had answered enough bytes to fill every buffer on the way AND Data arrived after the stall."

func TestC11StalledReader(t *testing.T) {
	evid.Check(t, evid.New("C11", "TestC11StalledReader", ruleStall), genStall, stallExec)
}
func TestC11StalledReaderReplay(t *testing.T) { evid.Replay(t, "TestC11StalledReader", stallExec) }
