// Package system: C15 through the shipped command-line tools and a real forwarder process.
//
// tools/putchunks.go and tools/catchunks.go are anchors of C15; they hard-wire the forwarder's
// unix socket, stdin and stdout, so the only way to drive them is as processes: the harness
// builds cmd/ndnd from the tree under test, starts `ndnd fw run` on /var/run/nfd/nfd.sock,
// and for every generated case pipes generated content into `ndnd put <name>` in generated
// chunk sizes and retrieves it with one or more `ndnd cat <name>`. Oracle: the bytes on cat's
// standard output are the published content, byte for byte.
//
// This is a real-time, multi-process unit. Everything that can be a matter of timing or of
// the sandbox (the socket directory cannot be created, the forwarder does not come up, put
// does not get its prefix registered in time, cat times out) is counted as a class and never
// reported; only wrong bytes, or a retrieval error that repeats on a fresh re-execution of the
// whole case, are violations.
package system

import (
	"bufio"
	"bytes"
	"fmt"
	"io"
	"net"
	"os"
	"os/exec"
	"path/filepath"
	"strings"
	"sync"
	"syscall"
	"testing"
	"time"

	"pgregory.net/rapid"

	"verif/harness/internal/evid"
)

const sockPath = "/var/run/nfd/nfd.sock"

type Case struct {
	Name   string `json:"name"`
	Size   int    `json:"size"`
	Fill   uint64 `json:"fill"`             // content = bytes of a xorshift sequence started here
	Writes []int  `json:"writes"`           // sizes of the writes into put's stdin, cycled; empty = one write
	Gap    int    `json:"gap"`              // microseconds between writes
	Cats   int    `json:"cats"`             // retrievals, one after the other (later ones may be answered from the forwarder's cache)
	Par    bool   `json:"par"`              // ... or all at once
	V2Size int    `json:"v2,omitempty"`     // > 0: afterwards the producer is replaced by one that publishes V2Size other bytes under the same name
	V2Wait bool   `json:"v2wait,omitempty"` // ... and the last retrieval happens after the discovery packet's freshness period
}

func content(c Case) []byte {
	out := make([]byte, c.Size)
	x := c.Fill | 1
	for i := range out {
		x ^= x << 13
		x ^= x >> 7
		x ^= x << 17
		out[i] = byte(x >> 32)
	}
	return out
}

func genCase(t *rapid.T) Case {
	c := Case{Fill: rapid.Uint64().Draw(t, "fill")}
	comps := rapid.SliceOfN(rapid.SampledFrom([]string{"a", "b", "obj", "x.y", "v2", "%41%20z", "8=typed", "seg=3", "..."}), 1, 4).Draw(t, "comps")
	c.Name = "/verif-sys/" + strings.Join(comps, "/")
	const seg = 8000
	max := 40
	if evid.Thorough() {
		max = 300
	}
	switch rapid.IntRange(0, 9).Draw(t, "sizeclass") {
	case 0:
		c.Size = rapid.IntRange(1, 20).Draw(t, "tiny")
	case 1, 2, 3:
		c.Size = rapid.IntRange(1, max).Draw(t, "k")*seg + rapid.IntRange(-2, 2).Draw(t, "d")
	case 4:
		c.Size = rapid.IntRange(1, max).Draw(t, "k")*8192 + rapid.IntRange(-2, 2).Draw(t, "d") // the tool's read buffer
	case 5:
		if evid.Thorough() { // > 1000 segments: catchunks writes intermediate output
			c.Size = rapid.IntRange(999, 1203).Draw(t, "k")*seg + rapid.IntRange(-1, 1).Draw(t, "d")
		} else {
			c.Size = rapid.IntRange(1, 3*seg).Draw(t, "small")
		}
	default:
		c.Size = rapid.IntRange(1, max*seg).Draw(t, "any")
	}
	if c.Size < 1 {
		c.Size = 1
	}
	if rapid.Bool().Draw(t, "chunked") {
		c.Writes = rapid.SliceOfN(rapid.SampledFrom([]int{1, 7, 100, 4096, 8000, 8191, 8192, 8193, 16384, 65536, 100000}), 1, 4).Draw(t, "writes")
		c.Gap = rapid.SampledFrom([]int{0, 0, 50, 500}).Draw(t, "gap")
		// keep the number of writes bounded (a write per byte of a large object only takes time)
		sum := 0
		for _, w := range c.Writes {
			sum += w
		}
		for c.Size/sum*len(c.Writes) > 1500 {
			sum = 0
			for i := range c.Writes {
				c.Writes[i] = c.Writes[i]*4 + 1
				sum += c.Writes[i]
			}
		}
	}
	c.Cats = rapid.IntRange(1, 3).Draw(t, "cats")
	c.Par = c.Cats > 1 && rapid.Bool().Draw(t, "par")
	// (drawn from bits: rapid's integer ranges favour their bounds, which would make this
	// expensive scenario far more frequent than intended)
	bits := rapid.SliceOfN(rapid.Bool(), 7, 7).Draw(t, "v2bits")
	if bits[0] && bits[1] && bits[2] && bits[3] { // 1 in 16
		c.V2Size = rapid.SampledFrom([]int{1, 7999, 8000, 8001, 20000}).Draw(t, "v2size")
		c.V2Wait = bits[4] && bits[5] // a quarter of those: costs 4.3 s of real time
	}
	return c
}

// ---- session: one forwarder per test process ----

type session struct {
	dir  string
	bin  string
	fw   *exec.Cmd
	lock *os.File
	why  string // non-empty: infrastructure not available
}

var (
	sessOnce sync.Once
	sess     *session
)

func repoDir() string {
	if d := os.Getenv("VERIF_REPO"); d != "" {
		return d
	}
	return "/repo"
}

func child(name string, args ...string) *exec.Cmd {
	cmd := exec.Command(name, args...)
	cmd.SysProcAttr = &syscall.SysProcAttr{Pdeathsig: syscall.SIGKILL}
	return cmd
}

func getSession() *session {
	sessOnce.Do(func() {
		s := &session{}
		sess = s
		var err error
		if s.dir, err = os.MkdirTemp("", "verif-system-"); err != nil {
			s.why = "no temp dir: " + err.Error()
			return
		}
		if err = os.MkdirAll(filepath.Dir(sockPath), 0o755); err != nil {
			s.why = "cannot create " + filepath.Dir(sockPath) + ": " + err.Error()
			return
		}
		// one user of the fixed socket path at a time on this machine
		if s.lock, err = os.OpenFile(filepath.Join(filepath.Dir(sockPath), "verif.lock"), os.O_CREATE|os.O_RDWR, 0o644); err != nil {
			s.why = "cannot create lock file: " + err.Error()
			return
		}
		deadline := time.Now().Add(4 * time.Minute) // well inside the unit's budget: a busy path is "unavailable", not a timeout
		for {
			if err = syscall.Flock(int(s.lock.Fd()), syscall.LOCK_EX|syscall.LOCK_NB); err == nil {
				break
			}
			if time.Now().After(deadline) {
				s.why = "socket path in use by another run"
				return
			}
			time.Sleep(200 * time.Millisecond)
		}
		s.bin = filepath.Join(s.dir, "ndnd")
		b := child("go", "build", "-o", s.bin, "./cmd/ndnd")
		b.Dir = repoDir()
		b.Env = append(os.Environ(), "GOFLAGS=-mod=mod", "GOPROXY=off", "GOSUMDB=off", "GOTOOLCHAIN=local")
		if out, err := b.CombinedOutput(); err != nil {
			s.why = "cmd/ndnd does not build: " + err.Error() + ": " + string(out)
			return
		}
		cfg := filepath.Join(s.dir, "yanfd.yml")
		os.WriteFile(cfg, []byte(fmt.Sprintf(`core:
  log_level: WARN
faces:
  udp:
    port_unicast: %d
    port_multicast: %d
  tcp:
    enabled: false
  unix:
    enabled: true
    socket_path: %s
  websocket:
    enabled: false
fw:
  threads: 2
`, 20000+os.Getpid()%20000, 40000+os.Getpid()%20000, sockPath)), 0o644)
		s.fw = child(s.bin, "fw", "run", cfg)
		logf, _ := os.Create(filepath.Join(s.dir, "fw.log"))
		s.fw.Stdout, s.fw.Stderr = logf, logf
		if err = s.fw.Start(); err != nil {
			s.why = "forwarder does not start: " + err.Error()
			return
		}
		up := false
		for i := 0; i < 100 && !up; i++ {
			time.Sleep(100 * time.Millisecond)
			if conn, err := net.Dial("unix", sockPath); err == nil {
				conn.Close()
				up = true
			}
		}
		if !up {
			s.why = "forwarder did not open " + sockPath + " within 10 s"
			s.fw.Process.Kill()
			s.fw.Wait()
			s.fw = nil
		}
	})
	return sess
}

func TestMain(m *testing.M) {
	rc := m.Run()
	if s := sess; s != nil {
		if s.fw != nil {
			s.fw.Process.Signal(syscall.SIGTERM)
			done := make(chan struct{})
			go func() { s.fw.Wait(); close(done) }()
			select {
			case <-done:
			case <-time.After(5 * time.Second):
				s.fw.Process.Kill()
				<-done
			}
		}
		if s.lock != nil {
			syscall.Flock(int(s.lock.Fd()), syscall.LOCK_UN)
			s.lock.Close()
		}
		if s.dir != "" {
			os.RemoveAll(s.dir)
		}
	}
	os.Exit(rc)
}

// ---- one case ----

type outcome struct {
	infra string // non-empty: timing / sandbox, nothing to judge
	err   error  // wrong behaviour observed
	soft  bool   // err is a retrieval failure (may be timing): needs to repeat to count
}

var execCounter int

// startPut starts `ndnd put <name>`, feeds it data and waits until its prefix is registered.
// The caller kills the process when done with it.
func startPut(s *session, name string, data []byte, writes []int, gap int, wait time.Duration) (*exec.Cmd, outcome) {
	put := child(s.bin, "put", name)
	stdin, err := put.StdinPipe()
	if err != nil {
		return nil, outcome{infra: "pipe: " + err.Error()}
	}
	stderr, _ := put.StderrPipe()
	put.Stdout = io.Discard
	if err := put.Start(); err != nil {
		return nil, outcome{infra: "put does not start: " + err.Error()}
	}
	kill := func() {
		put.Process.Kill()
		put.Wait()
	}
	lines := make(chan string, 64)
	go func() {
		sc := bufio.NewScanner(stderr)
		sc.Buffer(make([]byte, 1<<20), 1<<20)
		for sc.Scan() {
			select {
			case lines <- sc.Text():
			default:
			}
		}
		close(lines)
	}()
	go func() {
		defer stdin.Close()
		if len(writes) == 0 {
			stdin.Write(data)
			return
		}
		for off, k := 0, 0; off < len(data); k++ {
			n := writes[k%len(writes)]
			if off+n > len(data) {
				n = len(data) - off
			}
			if _, err := stdin.Write(data[off : off+n]); err != nil {
				return
			}
			off += n
			if gap > 0 {
				time.Sleep(time.Duration(gap) * time.Microsecond)
			}
		}
	}()
	registered, produced := false, false
	var seen []string
	timeout := time.After(wait)
	for !registered {
		select {
		case l, ok := <-lines:
			if !ok {
				kill()
				if strings.Contains(strings.Join(seen, "\n"), "Unable to produce object") {
					return nil, outcome{err: fmt.Errorf("ndnd put refused to publish %d bytes under %s: %s", len(data), name, strings.Join(seen, " | "))}
				}
				return nil, outcome{infra: "put exited before registering its prefix: " + strings.Join(seen, " | ")}
			}
			seen = append(seen, l)
			if strings.Contains(l, "Object produced") {
				produced = true
			}
			if strings.Contains(l, "Prefix registered") {
				registered = true
			}
		case <-timeout:
			kill()
			return nil, outcome{infra: fmt.Sprintf("put not ready within %v (produced=%v)", wait, produced)}
		}
	}
	go func() { // keep draining
		for range lines {
		}
	}()
	return put, outcome{}
}

// catOnce runs `ndnd cat <name>`; its standard output must be one of the acceptable contents.
func catOnce(s *session, name string, wait time.Duration, what string, acceptable ...[]byte) outcome {
	cmd := child(s.bin, "cat", name)
	var out, errb bytes.Buffer
	cmd.Stdout, cmd.Stderr = &out, &errb
	if err := cmd.Start(); err != nil {
		return outcome{infra: "cat does not start: " + err.Error()}
	}
	done := make(chan error, 1)
	go func() { done <- cmd.Wait() }()
	select {
	case <-done:
	case <-time.After(wait + 60*time.Second):
		cmd.Process.Kill()
		<-done
		return outcome{infra: "cat did not finish in time"}
	}
	got := out.Bytes()
	for _, data := range acceptable {
		if bytes.Equal(got, data) {
			return outcome{}
		}
	}
	data := acceptable[0]
	if strings.Contains(errb.String(), "Error fetching object") || len(got) == 0 {
		return outcome{soft: true, err: fmt.Errorf("ndnd cat %s failed to retrieve the %d bytes that ndnd put published (and keeps serving): got %d bytes; %s", name, len(data), len(got), lastLine(errb.String()))}
	}
	i := 0
	for i < len(got) && i < len(data) && got[i] == data[i] {
		i++
	}
	return outcome{err: fmt.Errorf("ndnd put published %s (%d bytes) under %s; ndnd cat wrote %d bytes, first difference at offset %d (segment %d, offset %d in it)", what, len(data), name, len(got), i, i/8000, i%8000)}
}

func runOnce(s *session, c Case, wait time.Duration) (o outcome) {
	data := content(c)
	// every execution publishes under a name of its own: the forwarder's cache outlives a case,
	// and an object of an earlier execution under the same name must not be confused with this one
	execCounter++
	c.Name = fmt.Sprintf("/verif-sys/%d-%d%s", os.Getpid(), execCounter, strings.TrimPrefix(c.Name, "/verif-sys"))
	put, o := startPut(s, c.Name, data, c.Writes, c.Gap, wait)
	if put == nil {
		return o
	}
	killed := false
	defer func() {
		if !killed {
			put.Process.Kill()
			put.Wait()
		}
	}()
	if c.Par {
		res := make([]outcome, c.Cats)
		var wg sync.WaitGroup
		for i := range res {
			wg.Add(1)
			go func(i int) { defer wg.Done(); res[i] = catOnce(s, c.Name, wait, "content", data) }(i)
		}
		wg.Wait()
		for _, r := range res {
			if r.err != nil && !r.soft {
				return r
			}
		}
		for _, r := range res {
			if r.err != nil || r.infra != "" {
				return r
			}
		}
	} else {
		for i := 0; i < c.Cats; i++ {
			if r := catOnce(s, c.Name, wait, "content", data); r.err != nil || r.infra != "" {
				return r
			}
		}
	}
	if c.V2Size == 0 {
		return outcome{}
	}
	// a second version: the first producer goes away (its packets stay in the forwarder's
	// cache), a new producer publishes other content under the same name
	put.Process.Kill()
	put.Wait()
	killed = true
	data2 := content(Case{Size: c.V2Size, Fill: c.Fill ^ 0x9e3779b97f4a7c15})
	put2, o := startPut(s, c.Name, data2, nil, 0, wait)
	if put2 == nil {
		return o
	}
	defer func() {
		put2.Process.Kill()
		put2.Wait()
	}()
	if c.V2Wait {
		// past the 4 s freshness period of the cached version-discovery packet: only the new
		// version may be delivered now
		time.Sleep(4300 * time.Millisecond)
		return catOnce(s, c.Name, wait, "a second version, more than the freshness period ago,", data2)
	}
	// within the freshness period the cached discovery packet of the first version is still
	// a legitimate answer: either version, whole
	return catOnce(s, c.Name, wait, "a second version", data2, data)
}

func lastLine(s string) string {
	ls := strings.Split(strings.TrimSpace(s), "\n")
	return ls[len(ls)-1]
}

func exec1(c Case) (res evid.Result) {
	s := getSession()
	if s.why != "" {
		res.Classes = append(res.Classes, "infrastructure-unavailable")
		res.Counts = map[string]int{"infrastructure-unavailable: " + firstWords(s.why): 1}
		return res
	}
	o := runOnce(s, c, 30*time.Second)
	if o.err != nil && o.soft {
		// a retrieval failure counts only if it repeats on a fresh execution with more time
		o2 := runOnce(s, c, 90*time.Second)
		if o2.err == nil {
			res.Classes = append(res.Classes, "retrieval-failed-once-then-succeeded(timing)")
			o = o2
		} else {
			o = o2
			o.soft = false
		}
	}
	if o.infra != "" {
		res.Classes = append(res.Classes, "timing-or-sandbox: "+firstWords(o.infra))
		return res
	}
	if o.err != nil {
		res.Err = o.err
		return res
	}
	res.NonTrivial = true
	nseg := (c.Size + 7999) / 8000
	switch {
	case nseg == 1:
		res.Classes = append(res.Classes, "one-segment")
	case nseg > 1000:
		res.Classes = append(res.Classes, "more-than-1000-segments")
	default:
		res.Classes = append(res.Classes, "several-segments")
	}
	if c.Size%8000 == 0 || c.Size%8000 == 1 || c.Size%8000 == 7999 {
		res.Classes = append(res.Classes, "size-at-segment-boundary")
	}
	if len(c.Writes) > 0 {
		res.Classes = append(res.Classes, "stdin-in-several-writes")
	}
	if c.V2Size > 0 {
		res.Classes = append(res.Classes, map[bool]string{true: "second-version:retrieved-after-freshness-period", false: "second-version:retrieved-at-once"}[c.V2Wait])
	}
	if c.Cats > 1 {
		res.Classes = append(res.Classes, map[bool]string{true: "concurrent-retrievals", false: "repeated-retrievals"}[c.Par])
	}
	return res
}

func firstWords(s string) string {
	f := strings.Fields(s)
	if len(f) > 6 {
		f = f[:6]
	}
	return strings.Join(f, " ")
}

const rule = "content of 1..320 000 bytes (thorough: up to ~9.6 MB, i.e. more than 1000 segments), biased to multiples of the 8000-byte segment size and of the tool's 8192-byte read buffer +-2, piped into `ndnd put <name>` in generated write sizes (1..100 000, cycled, optional pauses), retrieved by 1..3 `ndnd cat <name>` processes (sequentially or concurrently) through a real `ndnd fw run` forwarder process built from the tree under test; cat's standard output must equal the content byte for byte; in a twelfth of the cases the producer is then replaced by one publishing other content under the same name (a second version; the first stays in the forwarder's cache) and a last retrieval must deliver the new content if it happens after the 4 s freshness period of the version-discovery packet, and either version, whole, if it happens at once. Non-trivial: the whole pipeline ran and the output was compared (sandbox/timing problems are counted as classes and not judged); distinct by case hash"

func TestC15Tools(t *testing.T) {
	rec := evid.New("C15", "TestC15Tools", rule)
	evid.Check(t, rec, genCase, exec1)
}

func TestC15ToolsReplay(t *testing.T) { evid.Replay(t, "TestC15Tools", exec1) }
