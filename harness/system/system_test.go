// Package system: C15 through the shipped command-line tools and a real forwarder process.
//
// tools/putchunks.go and tools/catchunks.go are anchors of C15; they hard-wire the forwarder's
// unix socket, stdin and stdout, so the only way to drive them is as processes: the harness
// builds cmd/ndnd from the tree under test, starts `ndnd fw run` on /var/run/nfd/nfd.sock,
// and for every generated case pipes generated content into `ndnd put <name>` in generated
// chunk sizes and retrieves it with one or more `ndnd cat <name>`. Oracle: the bytes on cat's
// standard output are the published content, byte for byte.
//
// This is a real-time, multi-process unit. Everything that can be a matter of timing or of
// the sandbox (the socket directory cannot be created, the forwarder does not come up, put
// does not get its prefix registered in time, cat times out) is counted as a class and never
// reported; only wrong bytes, or a retrieval error that repeats on a fresh re-execution of the
// whole case, are violations.
package system

import (
	"bufio"
	"bytes"
	"fmt"
	"io"
	"net"
	"os"
	"os/exec"
	"path/filepath"
	"strings"
	"sync"
	"syscall"
	"testing"
	"time"

	"pgregory.net/rapid"

	"verif/harness/internal/evid"
)

const sockPath = "/var/run/nfd/nfd.sock"

type Case struct {
	Name   string `json:"name"`
	Size   int    `json:"size"`
	Fill   uint64 `json:"fill"`   // content = bytes of a xorshift sequence started here
	Writes []int  `json:"writes"` // sizes of the writes into put's stdin, cycled; empty = one write
	Gap    int    `json:"gap"`    // microseconds between writes
	Cats   int    `json:"cats"`   // retrievals, one after the other (later ones may be answered from the forwarder's cache)
	Par    bool   `json:"par"`    // ... or all at once
}

func content(c Case) []byte {
	out := make([]byte, c.Size)
	x := c.Fill | 1
	for i := range out {
		x ^= x << 13
		x ^= x >> 7
		x ^= x << 17
		out[i] = byte(x >> 32)
	}
	return out
}

func genCase(t *rapid.T) Case {
	c := Case{Fill: rapid.Uint64().Draw(t, "fill")}
	comps := rapid.SliceOfN(rapid.SampledFrom([]string{"a", "b", "obj", "x.y", "v2", "%41%20z", "8=typed", "seg=3", "..."}), 1, 4).Draw(t, "comps")
	c.Name = "/verif-sys/" + strings.Join(comps, "/")
	const seg = 8000
	max := 40
	if evid.Thorough() {
		max = 300
	}
	switch rapid.IntRange(0, 9).Draw(t, "sizeclass") {
	case 0:
		c.Size = rapid.IntRange(1, 20).Draw(t, "tiny")
	case 1, 2, 3:
		c.Size = rapid.IntRange(1, max).Draw(t, "k")*seg + rapid.IntRange(-2, 2).Draw(t, "d")
	case 4:
		c.Size = rapid.IntRange(1, max).Draw(t, "k")*8192 + rapid.IntRange(-2, 2).Draw(t, "d") // the tool's read buffer
	case 5:
		if evid.Thorough() { // > 1000 segments: catchunks writes intermediate output
			c.Size = rapid.IntRange(999, 1203).Draw(t, "k")*seg + rapid.IntRange(-1, 1).Draw(t, "d")
		} else {
			c.Size = rapid.IntRange(1, 3*seg).Draw(t, "small")
		}
	default:
		c.Size = rapid.IntRange(1, max*seg).Draw(t, "any")
	}
	if c.Size < 1 {
		c.Size = 1
	}
	if rapid.Bool().Draw(t, "chunked") {
		c.Writes = rapid.SliceOfN(rapid.SampledFrom([]int{1, 7, 100, 4096, 8000, 8191, 8192, 8193, 16384, 65536, 100000}), 1, 4).Draw(t, "writes")
		c.Gap = rapid.SampledFrom([]int{0, 0, 50, 500}).Draw(t, "gap")
		// keep the number of writes bounded (a write per byte of a large object only takes time)
		sum := 0
		for _, w := range c.Writes {
			sum += w
		}
		for c.Size/sum*len(c.Writes) > 1500 {
			sum = 0
			for i := range c.Writes {
				c.Writes[i] = c.Writes[i]*4 + 1
				sum += c.Writes[i]
			}
		}
	}
	c.Cats = rapid.IntRange(1, 3).Draw(t, "cats")
	c.Par = c.Cats > 1 && rapid.Bool().Draw(t, "par")
	return c
}

// ---- session: one forwarder per test process ----

type session struct {
	dir  string
	bin  string
	fw   *exec.Cmd
	lock *os.File
	why  string // non-empty: infrastructure not available
}

var (
	sessOnce sync.Once
	sess     *session
)

func repoDir() string {
	if d := os.Getenv("VERIF_REPO"); d != "" {
		return d
	}
	return "/repo"
}

func child(name string, args ...string) *exec.Cmd {
	cmd := exec.Command(name, args...)
	cmd.SysProcAttr = &syscall.SysProcAttr{Pdeathsig: syscall.SIGKILL}
	return cmd
}

func getSession() *session {
	sessOnce.Do(func() {
		s := &session{}
		sess = s
		var err error
		if s.dir, err = os.MkdirTemp("", "verif-system-"); err != nil {
			s.why = "no temp dir: " + err.Error()
			return
		}
		if err = os.MkdirAll(filepath.Dir(sockPath), 0o755); err != nil {
			s.why = "cannot create " + filepath.Dir(sockPath) + ": " + err.Error()
			return
		}
		// one user of the fixed socket path at a time on this machine
		if s.lock, err = os.OpenFile(filepath.Join(filepath.Dir(sockPath), "verif.lock"), os.O_CREATE|os.O_RDWR, 0o644); err != nil {
			s.why = "cannot create lock file: " + err.Error()
			return
		}
		deadline := time.Now().Add(10 * time.Minute)
		for {
			if err = syscall.Flock(int(s.lock.Fd()), syscall.LOCK_EX|syscall.LOCK_NB); err == nil {
				break
			}
			if time.Now().After(deadline) {
				s.why = "socket path in use by another run"
				return
			}
			time.Sleep(200 * time.Millisecond)
		}
		s.bin = filepath.Join(s.dir, "ndnd")
		b := child("go", "build", "-o", s.bin, "./cmd/ndnd")
		b.Dir = repoDir()
		b.Env = append(os.Environ(), "GOFLAGS=-mod=mod", "GOPROXY=off", "GOSUMDB=off", "GOTOOLCHAIN=local")
		if out, err := b.CombinedOutput(); err != nil {
			s.why = "cmd/ndnd does not build: " + err.Error() + ": " + string(out)
			return
		}
		cfg := filepath.Join(s.dir, "yanfd.yml")
		os.WriteFile(cfg, []byte(fmt.Sprintf(`core:
  log_level: WARN
faces:
  udp:
    port_unicast: %d
    port_multicast: %d
  tcp:
    enabled: false
  unix:
    enabled: true
    socket_path: %s
  websocket:
    enabled: false
fw:
  threads: 2
`, 20000+os.Getpid()%20000, 40000+os.Getpid()%20000, sockPath)), 0o644)
		s.fw = child(s.bin, "fw", "run", cfg)
		logf, _ := os.Create(filepath.Join(s.dir, "fw.log"))
		s.fw.Stdout, s.fw.Stderr = logf, logf
		if err = s.fw.Start(); err != nil {
			s.why = "forwarder does not start: " + err.Error()
			return
		}
		up := false
		for i := 0; i < 100 && !up; i++ {
			time.Sleep(100 * time.Millisecond)
			if conn, err := net.Dial("unix", sockPath); err == nil {
				conn.Close()
				up = true
			}
		}
		if !up {
			s.why = "forwarder did not open " + sockPath + " within 10 s"
			s.fw.Process.Kill()
			s.fw.Wait()
			s.fw = nil
		}
	})
	return sess
}

func TestMain(m *testing.M) {
	rc := m.Run()
	if s := sess; s != nil {
		if s.fw != nil {
			s.fw.Process.Signal(syscall.SIGTERM)
			done := make(chan struct{})
			go func() { s.fw.Wait(); close(done) }()
			select {
			case <-done:
			case <-time.After(5 * time.Second):
				s.fw.Process.Kill()
				<-done
			}
		}
		if s.lock != nil {
			syscall.Flock(int(s.lock.Fd()), syscall.LOCK_UN)
			s.lock.Close()
		}
		if s.dir != "" {
			os.RemoveAll(s.dir)
		}
	}
	os.Exit(rc)
}

// ---- one case ----

type outcome struct {
	infra string // non-empty: timing / sandbox, nothing to judge
	err   error  // wrong behaviour observed
	soft  bool   // err is a retrieval failure (may be timing): needs to repeat to count
}

var execCounter int

func runOnce(s *session, c Case, wait time.Duration) (o outcome) {
	data := content(c)
	// every execution publishes under a name of its own: the forwarder's cache outlives a case,
	// and an object of an earlier execution under the same name must not be confused with this one
	execCounter++
	c.Name = fmt.Sprintf("/verif-sys/%d-%d%s", os.Getpid(), execCounter, strings.TrimPrefix(c.Name, "/verif-sys"))
	put := child(s.bin, "put", c.Name)
	stdin, err := put.StdinPipe()
	if err != nil {
		return outcome{infra: "pipe: " + err.Error()}
	}
	stderr, _ := put.StderrPipe()
	put.Stdout = io.Discard
	if err := put.Start(); err != nil {
		return outcome{infra: "put does not start: " + err.Error()}
	}
	defer func() {
		put.Process.Kill()
		put.Wait()
	}()
	lines := make(chan string, 64)
	go func() {
		sc := bufio.NewScanner(stderr)
		sc.Buffer(make([]byte, 1<<20), 1<<20)
		for sc.Scan() {
			select {
			case lines <- sc.Text():
			default:
			}
		}
		close(lines)
	}()
	go func() {
		defer stdin.Close()
		if len(c.Writes) == 0 {
			stdin.Write(data)
			return
		}
		for off, k := 0, 0; off < len(data); k++ {
			n := c.Writes[k%len(c.Writes)]
			if off+n > len(data) {
				n = len(data) - off
			}
			if _, err := stdin.Write(data[off : off+n]); err != nil {
				return
			}
			off += n
			if c.Gap > 0 {
				time.Sleep(time.Duration(c.Gap) * time.Microsecond)
			}
		}
	}()
	registered, produced := false, false
	var seen []string
	timeout := time.After(wait)
	for !registered {
		select {
		case l, ok := <-lines:
			if !ok {
				if strings.Contains(strings.Join(seen, "\n"), "Unable to produce object") {
					return outcome{err: fmt.Errorf("ndnd put refused to publish %d bytes under %s: %s", c.Size, c.Name, strings.Join(seen, " | "))}
				}
				return outcome{infra: "put exited before registering its prefix: " + strings.Join(seen, " | ")}
			}
			seen = append(seen, l)
			if strings.Contains(l, "Object produced") {
				produced = true
			}
			if strings.Contains(l, "Prefix registered") {
				registered = true
			}
		case <-timeout:
			return outcome{infra: fmt.Sprintf("put not ready within %v (produced=%v)", wait, produced)}
		}
	}
	go func() { // keep draining
		for range lines {
		}
	}()

	cat := func() outcome {
		cmd := child(s.bin, "cat", c.Name)
		var out, errb bytes.Buffer
		cmd.Stdout, cmd.Stderr = &out, &errb
		if err := cmd.Start(); err != nil {
			return outcome{infra: "cat does not start: " + err.Error()}
		}
		done := make(chan error, 1)
		go func() { done <- cmd.Wait() }()
		select {
		case <-done:
		case <-time.After(wait + 60*time.Second):
			cmd.Process.Kill()
			<-done
			return outcome{infra: "cat did not finish in time"}
		}
		got := out.Bytes()
		if bytes.Equal(got, data) {
			return outcome{}
		}
		if strings.Contains(errb.String(), "Error fetching object") || len(got) == 0 {
			return outcome{soft: true, err: fmt.Errorf("ndnd cat %s failed to retrieve the %d bytes that ndnd put published (and keeps serving): got %d bytes; %s", c.Name, len(data), len(got), lastLine(errb.String()))}
		}
		i := 0
		for i < len(got) && i < len(data) && got[i] == data[i] {
			i++
		}
		return outcome{err: fmt.Errorf("ndnd put published %d bytes under %s; ndnd cat wrote %d bytes, first difference at offset %d (segment %d, offset %d in it)", len(data), c.Name, len(got), i, i/8000, i%8000)}
	}
	if c.Par {
		res := make([]outcome, c.Cats)
		var wg sync.WaitGroup
		for i := range res {
			wg.Add(1)
			go func(i int) { defer wg.Done(); res[i] = cat() }(i)
		}
		wg.Wait()
		for _, r := range res {
			if r.err != nil && !r.soft {
				return r
			}
		}
		for _, r := range res {
			if r.err != nil || r.infra != "" {
				return r
			}
		}
		return outcome{}
	}
	for i := 0; i < c.Cats; i++ {
		if r := cat(); r.err != nil || r.infra != "" {
			return r
		}
	}
	return outcome{}
}

func lastLine(s string) string {
	ls := strings.Split(strings.TrimSpace(s), "\n")
	return ls[len(ls)-1]
}

func exec1(c Case) (res evid.Result) {
	s := getSession()
	if s.why != "" {
		res.Classes = append(res.Classes, "infrastructure-unavailable")
		res.Counts = map[string]int{"infrastructure-unavailable: " + firstWords(s.why): 1}
		return res
	}
	o := runOnce(s, c, 30*time.Second)
	if o.err != nil && o.soft {
		// a retrieval failure counts only if it repeats on a fresh execution with more time
		o2 := runOnce(s, c, 90*time.Second)
		if o2.err == nil {
			res.Classes = append(res.Classes, "retrieval-failed-once-then-succeeded(timing)")
			o = o2
		} else {
			o = o2
			o.soft = false
		}
	}
	if o.infra != "" {
		res.Classes = append(res.Classes, "timing-or-sandbox: "+firstWords(o.infra))
		return res
	}
	if o.err != nil {
		res.Err = o.err
		return res
	}
	res.NonTrivial = true
	nseg := (c.Size + 7999) / 8000
	switch {
	case nseg == 1:
		res.Classes = append(res.Classes, "one-segment")
	case nseg > 1000:
		res.Classes = append(res.Classes, "more-than-1000-segments")
	default:
		res.Classes = append(res.Classes, "several-segments")
	}
	if c.Size%8000 == 0 || c.Size%8000 == 1 || c.Size%8000 == 7999 {
		res.Classes = append(res.Classes, "size-at-segment-boundary")
	}
	if len(c.Writes) > 0 {
		res.Classes = append(res.Classes, "stdin-in-several-writes")
	}
	if c.Cats > 1 {
		res.Classes = append(res.Classes, map[bool]string{true: "concurrent-retrievals", false: "repeated-retrievals"}[c.Par])
	}
	return res
}

func firstWords(s string) string {
	f := strings.Fields(s)
	if len(f) > 6 {
		f = f[:6]
	}
	return strings.Join(f, " ")
}

const rule = "content of 1..320 000 bytes (thorough: up to ~9.6 MB, i.e. more than 1000 segments), biased to multiples of the 8000-byte segment size and of the tool's 8192-byte read buffer +-2, piped into `ndnd put <name>` in generated write sizes (1..100 000, cycled, optional pauses), retrieved by 1..3 `ndnd cat <name>` processes (sequentially or concurrently) through a real `ndnd fw run` forwarder process built from the tree under test; cat's standard output must equal the content byte for byte. Non-trivial: the whole pipeline ran and the output was compared (sandbox/timing problems are counted as classes and not judged); distinct by case hash"

func TestC15Tools(t *testing.T) {
	rec := evid.New("C15", "TestC15Tools", rule)
	evid.Check(t, rec, genCase, exec1)
}

func TestC15ToolsReplay(t *testing.T) { evid.Replay(t, "TestC15Tools", exec1) }
