package object

import (
	"bytes"
	"fmt"
	"os"
	"runtime"
	"sync"
	"sync/atomic"
	"testing"

	enc "github.com/named-data/ndnd/std/encoding"
	"github.com/named-data/ndnd/std/ndn"
	spec "github.com/named-data/ndnd/std/ndn/spec_2022"
	"github.com/named-data/ndnd/std/object"
	"pgregory.net/rapid"

	"verif/harness/internal/evid"
)

// TestC15ProduceWhileServing: a producer publishes new versions (object.Client.Produce:
// Begin, Put per segment, Put metadata, Commit) while Interests for the object are being
// answered from the same store (Client.onInterest -> Store.Get, on the engine's goroutine).
// That is the normal life of a producer; the unit runs both at once on real goroutines,
// under the race detector. Every answer must be a whole packet that Produce built for the
// queried name, a prefix query must never go back to an older version than one it has
// already returned or than one whose Produce had returned before the query began, and once
// everything is published the newest version is served.
// (Added after seeded defect C15-r3-3 -- Commit merging into the live tree under the read
// lock -- was missed: every other unit serialises publishing and serving.)

type ServeCase struct {
	Store    string `json:"store"` // memory | bolt
	Versions int    `json:"versions"`
	Segs     []int  `json:"segs"` // segments per version (content = segs*8000-1 bytes)
	Readers  int    `json:"readers"`
	Procs    int    `json:"procs"`
	// Retire: while version k+1 is being published another goroutine removes version k-1 (its
	// segments by prefix, its metadata packet by name), as an application that keeps the last
	// two versions does. What it removed must not be served any more -- neither while the
	// producer's transaction is open nor after it has been committed (seeded C15-r6-1: a
	// removal during an open transaction went to the transaction's scratch tree).
	Retire bool `json:"retire,omitempty"`
}

func genServeCase(t *rapid.T) ServeCase {
	c := ServeCase{Store: rapid.SampledFrom([]string{"memory", "memory", "bolt"}).Draw(t, "store"),
		Versions: rapid.IntRange(2, 12).Draw(t, "versions"), Readers: rapid.IntRange(1, 6).Draw(t, "readers"),
		Procs: rapid.SampledFrom([]int{2, 4, 8}).Draw(t, "procs"), Retire: rapid.IntRange(0, 2).Draw(t, "retire") != 0}
	for i := 0; i < c.Versions; i++ {
		c.Segs = append(c.Segs, rapid.SampledFrom([]int{1, 1, 2, 3, 8, 20}).Draw(t, "segs"))
	}
	return c
}

func execServe(c ServeCase) (res evid.Result) {
	old := runtime.GOMAXPROCS(c.Procs)
	defer runtime.GOMAXPROCS(old)
	quiet()
	var st ndn.Store
	if c.Store == "bolt" {
		dir, err := os.MkdirTemp(tempRoot(), "verif-c15p-")
		if err != nil {
			res.Err = fmt.Errorf("harness: %v", err)
			return res
		}
		defer os.RemoveAll(dir)
		b, err := object.NewBoltStore(dir + "/serve.db")
		if err != nil {
			res.Err = fmt.Errorf("harness: bolt: %v", err)
			return res
		}
		defer b.Close()
		st = b
	} else {
		st = object.NewMemoryStore()
	}
	cl := newProducer(st)
	obj := mkName("/serve/obj")

	var mu sync.Mutex            // guards known
	known := map[string][]byte{} // packet name -> wire, filled after each Produce from the store itself (single-threaded moments only)
	var published atomic.Uint64  // highest version whose Produce has returned
	stop := make(chan struct{})
	var wg sync.WaitGroup
	errc := make(chan error, c.Readers+1)
	var answers, concurrent atomic.Int64
	var publishing atomic.Bool

	versionOf := func(wire []byte) (uint64, enc.Name, error) {
		d, _, err := spec.Spec{}.ReadData(enc.NewBufferReader(wire))
		if err != nil {
			return 0, nil, err
		}
		n := d.Name()
		for _, comp := range n {
			if comp.Typ == enc.TypeVersionNameComponent {
				return comp.NumberVal(), n, nil
			}
		}
		return 0, n, fmt.Errorf("no version component in %s", n)
	}

	for r := 0; r < c.Readers; r++ {
		wg.Add(1)
		go func(r int) {
			defer wg.Done()
			defer func() {
				if p := recover(); p != nil {
					errc <- fmt.Errorf("panic while answering from the store: %v", p)
				}
			}()
			var seen uint64
			for i := 0; ; i++ {
				select {
				case <-stop:
					return
				default:
				}
				floor := published.Load()
				during := publishing.Load()
				prefix := obj
				if (i+r)%2 == 1 {
					prefix = append(obj.Clone(), metaKeyword)
				}
				wire, err := st.Get(prefix, true)
				if err != nil {
					errc <- fmt.Errorf("Get(%s, prefix) failed while a new version was being published: %v", prefix, err)
					return
				}
				if wire == nil {
					if floor > 0 {
						errc <- fmt.Errorf("Get(%s, prefix) returns nothing although version %d had been published before the query began", prefix, floor)
						return
					}
					continue
				}
				v, n, err := versionOf(wire)
				if err != nil {
					errc <- fmt.Errorf("Get(%s, prefix) returned bytes that are not a Data packet of the object: %v", prefix, err)
					return
				}
				if v < floor || v < seen {
					errc <- fmt.Errorf("Get(%s, prefix) returned %s (version %d) although version %d had been published before the query began (this reader had already been served version %d)", prefix, n, v, floor, seen)
					return
				}
				seen = v
				mu.Lock()
				want, ok := known[n.String()]
				mu.Unlock()
				if ok && !bytes.Equal(want, wire) {
					errc <- fmt.Errorf("Get(%s, prefix) returned bytes for %s that differ from the packet Produce stored under that name", prefix, n)
					return
				}
				answers.Add(1)
				if during {
					concurrent.Add(1)
				}
			}
		}(r)
	}

	var removed []enc.Name // (written by one retirer at a time, read after it has finished)
	var retiredDuring atomic.Int64
	for vi := 0; vi < c.Versions; vi++ {
		ver := uint64(vi + 1)
		content := contentOf(uint32(vi+7), c.Segs[vi]*8000-1)
		var rwg sync.WaitGroup
		if c.Retire && ver >= 3 {
			old := ver - 2
			rwg.Add(1)
			go func() {
				defer rwg.Done()
				defer func() {
					if p := recover(); p != nil {
						errc <- fmt.Errorf("panic while removing version %d from the store: %v", old, p)
					}
				}()
				runtime.Gosched()
				during := publishing.Load()
				vp := append(obj.Clone(), enc.NewVersionComponent(old))
				mn := metaName(obj, old)
				if err := st.Remove(vp, true); err != nil {
					errc <- fmt.Errorf("Remove(%s, prefix) failed: %v", vp, err)
					return
				}
				if err := st.Remove(mn, false); err != nil {
					errc <- fmt.Errorf("Remove(%s) failed: %v", mn, err)
					return
				}
				if during && publishing.Load() {
					retiredDuring.Add(1)
				}
				gone := []enc.Name{mn}
				for sg := 0; sg < c.Segs[old-1]; sg++ {
					gone = append(gone, segName(obj, old, sg))
				}
				for _, n := range gone {
					if w, _ := st.Get(n, false); w != nil {
						errc <- fmt.Errorf("Remove of version %d had returned (while version %d was being published); Get(%s) still serves the packet", old, ver, n)
						return
					}
				}
				removed = append(removed, gone...)
			}()
		}
		publishing.Store(true)
		_, err := cl.Produce(object.ProduceArgs{Name: obj, Content: enc.Wire{content}, Version: &ver})
		publishing.Store(false)
		rwg.Wait()
		if err != nil {
			close(stop)
			wg.Wait()
			res.Err = fmt.Errorf("Produce of version %d failed: %v", ver, err)
			return res
		}
		// record what was stored (exact Gets; readers only use prefix Gets)
		mu.Lock()
		for s := 0; s < c.Segs[vi]; s++ {
			n := segName(obj, ver, s)
			w, _ := st.Get(n, false)
			known[n.String()] = append([]byte{}, w...)
		}
		mn := metaName(obj, ver)
		w, _ := st.Get(mn, false)
		known[mn.String()] = append([]byte{}, w...)
		mu.Unlock()
		published.Store(ver)
		runtime.Gosched()
	}
	close(stop)
	wg.Wait()
	select {
	case err := <-errc:
		res.Err = err
		return res
	default:
	}
	// afterwards: nothing that was removed is served (the transactions that were open during the
	// removals have long been committed)
	for _, n := range removed {
		if w, _ := st.Get(n, false); w != nil {
			res.Err = fmt.Errorf("after everything was published and version(s) retired, Get(%s) still serves a packet that had been removed", n)
			return res
		}
	}
	if retiredDuring.Load() > 0 {
		res.Classes = append(res.Classes, "version-removed-while-a-transaction-was-open")
	}
	// afterwards: the newest version is served
	for _, prefix := range []enc.Name{obj, append(obj.Clone(), metaKeyword)} {
		wire, err := st.Get(prefix, true)
		if err != nil || wire == nil {
			res.Err = fmt.Errorf("after all versions were published Get(%s, prefix) returns %v, %v", prefix, wire != nil, err)
			return res
		}
		if v, n, err := versionOf(wire); err != nil || v != uint64(c.Versions) {
			res.Err = fmt.Errorf("after versions 1..%d were published Get(%s, prefix) returns %s (version %d, %v)", c.Versions, prefix, n, v, err)
			return res
		}
	}
	res.NonTrivial = concurrent.Load() > 0
	res.Classes = append(res.Classes, "store-"+c.Store)
	if concurrent.Load() > 0 {
		res.Classes = append(res.Classes, "answered-while-publishing")
	}
	return res
}

const ruleServe = "a producer publishes 2..12 versions (1..20 segments each) with object.Client.Produce into a MemoryStore or BoltStore while 1..6 goroutines keep answering prefix queries (object and metadata prefix) from the same store, as Client.onInterest does; real goroutines, GOMAXPROCS 2..8, race detector on. Every answer must be a whole packet Produce stored under its name, never of a version older than one published before the query began or than one the reader was served before; afterwards the newest version is served. Non-trivial: >= 1 query was answered while a Produce call was in progress; distinct by case hash"

func TestC15ProduceWhileServing(t *testing.T) {
	rec := evid.New("C15", "TestC15ProduceWhileServing", ruleServe)
	evid.Check(t, rec, genServeCase, execServe)
}

func TestC15ProduceWhileServingReplay(t *testing.T) {
	evid.Replay(t, "TestC15ProduceWhileServing", execServe)
}
