package object

import (
	"bytes"
	"fmt"
	"os"
	"path/filepath"
	"sort"
	"testing"

	enc "github.com/named-data/ndnd/std/encoding"
	basic "github.com/named-data/ndnd/std/engine/basic"
	"github.com/named-data/ndnd/std/engine/dummy"
	"github.com/named-data/ndnd/std/ndn"
	spec "github.com/named-data/ndnd/std/ndn/spec_2022"
	"github.com/named-data/ndnd/std/object"
	sec "github.com/named-data/ndnd/std/security"
	"pgregory.net/rapid"

	"verif/harness/internal/evid"
)

// Store differential (C15): the same history of Produce / Remove operations is applied to a
// MemoryStore and to a BoltStore (through two object.Clients) and to the reference model;
// after every operation Get(exact) of every packet name ever published (and some never
// published) and Get(prefix) of every interesting prefix are compared:
//
//	exact:  both stores return the packet Produce built for that name iff it is in the reference
//	        (published and not removed), byte-identical in both stores;
//	prefix: both stores return nothing iff the reference holds no packet under the prefix;
//	        otherwise each returns a packet under the prefix whose version is the highest one
//	        under the prefix (ties - the segments and the metadata of one version - are free);
//	        where that packet is unique both stores must return the same bytes.

type SOp struct {
	K     string `json:"k"` // pub | rm
	O     int    `json:"o,omitempty"`
	Ver   uint64 `json:"ver,omitempty"`
	Zero  bool   `json:"zero,omitempty"` // pub: publish as version 0 ("immutable" in the API's words)
	Len   int    `json:"len,omitempty"`
	Cut   []int  `json:"cut,omitempty"`
	Slack int    `json:"slack,omitempty"`
	W     string `json:"w,omitempty"`
	X     int    `json:"x,omitempty"`
	S     int    `json:"s,omitempty"`
}

type SCase struct {
	Ops []SOp `json:"ops"`
}

type storeUnderTest struct {
	label string
	st    ndn.Store
	cl    *object.Client
}

func newProducer(st ndn.Store) *object.Client {
	tm := dummy.NewTimer()
	passAll := func(enc.Name, enc.Wire, ndn.Signature) bool { return true }
	eng := basic.NewEngine(dummy.NewDummyFace(), tm, sec.NewSha256IntSigner(tm), passAll)
	return object.NewClient(eng, st)
}

func execStores(c SCase) (res evid.Result) {
	quiet()
	defer func() {
		if r := recover(); r != nil {
			res.Err = fmt.Errorf("panic: %v", r)
		}
	}()
	dir, err := os.MkdirTemp(tempRoot(), "verif-c15s-")
	if err != nil {
		return evid.Result{Err: fmt.Errorf("harness: %v", err)}
	}
	defer os.RemoveAll(dir)
	bs, err := object.NewBoltStore(filepath.Join(dir, "store.db"))
	if err != nil {
		return evid.Result{Err: fmt.Errorf("harness: bolt store: %v", err)}
	}
	defer bs.Close()
	ms := object.NewMemoryStore()
	suts := []storeUnderTest{{"MemoryStore", ms, newProducer(ms)}, {"BoltStore", bs, newProducer(bs)}}
	m := newModel()
	cls := map[string]bool{}
	cnt := map[string]int{}
	nontriv := false

	for step, op := range c.Ops {
		switch op.K {
		case "pub":
			if op.O < 0 || op.O >= len(objNames) || op.Len <= 0 || (op.Ver == 0 && !op.Zero) {
				continue
			}
			dupVer := false
			for _, v := range m.vers[op.O] {
				dupVer = dupVer || v.version == op.Ver
			}
			if dupVer {
				continue
			}
			content := contentOf(uint32(op.O*1000+len(m.vers[op.O])+1), op.Len)
			for _, s := range suts {
				ver := op.Ver
				got, err := s.cl.Produce(object.ProduceArgs{Name: withSlack(m.objs[op.O], op.Slack), Content: cutBuffers(content, op.Cut), Version: &ver})
				if err != nil {
					return evid.Result{Err: fmt.Errorf("step %d: %s: Produce(%s v=%d, %d bytes) failed: %v", step, s.label, objNames[op.O], op.Ver, op.Len, err)}
				}
				if want := verName(m.objs[op.O], op.Ver); !sameName(got, want) {
					return evid.Result{Err: fmt.Errorf("step %d: %s: Produce(%s v=%d) returned the name %s", step, s.label, objNames[op.O], op.Ver, got)}
				}
			}
			v := m.publish(op.O, op.Ver, content)
			if err := m.adoptExtra(v, ms, bs); err != nil {
				return evid.Result{Err: fmt.Errorf("step %d: %v", step, err)}
			}
			if m.pk[segName(m.objs[op.O], op.Ver, v.nseg).String()] != nil {
				cnt["versions with an empty extra segment after FinalBlockId (adopted by the reference)"]++
			}
		case "rm":
			if op.O < 0 || op.O >= len(objNames) {
				continue
			}
			name, prefix, ok := rmTarget(m, op.O, op.W, op.X, op.S)
			if !ok {
				continue
			}
			for _, s := range suts {
				if err := s.st.Remove(name, prefix); err != nil {
					return evid.Result{Err: fmt.Errorf("step %d: %s: Remove(%s, %v) failed: %v", step, s.label, name, prefix, err)}
				}
			}
			if m.remove(name, prefix) > 0 {
				cls["removal-that-removes-packets"] = true
			}
		default:
			continue
		}
		if err := compareStores(step, m, suts, cls, cnt, &nontriv); err != nil {
			return evid.Result{Err: err, Counts: cnt}
		}
	}
	r := evid.Result{NonTrivial: nontriv, Counts: cnt}
	for k := range cls {
		r.Classes = append(r.Classes, k)
	}
	sort.Strings(r.Classes)
	return r
}

func rmTarget(m *model, obj int, what string, x, seg int) (name enc.Name, prefix, ok bool) {
	o := m.objs[obj]
	var v *mver
	if vs := m.vers[obj]; len(vs) > 0 {
		v = vs[((x%len(vs))+len(vs))%len(vs)]
	}
	switch what {
	case "obj":
		return o, true, true
	case "metas":
		return append(withSlack(o, 1), metaKeyword), true, true
	case "seg", "meta", "ver", "none":
		if v == nil {
			return nil, false, false
		}
		switch what {
		case "seg":
			return segName(o, v.version, max(0, seg)%v.nseg), false, true
		case "meta":
			return metaName(o, v.version), false, true
		case "ver":
			return verName(o, v.version), true, true
		}
		return verName(o, v.version), false, true
	}
	return nil, false, false
}

func compareStores(step int, m *model, suts []storeUnderTest, cls map[string]bool, cnt map[string]int, nontriv *bool) error {
	// exact queries
	keys := make([]string, 0, len(m.all))
	for k := range m.all {
		keys = append(keys, k)
	}
	sort.Strings(keys)
	for _, k := range keys {
		p := m.all[k]
		var first []byte
		for i, s := range suts {
			w, err := s.st.Get(p.name, false)
			if err != nil {
				return fmt.Errorf("step %d: %s: Get(%s, exact) failed: %v", step, s.label, p.name, err)
			}
			if _, present := m.pk[k]; !present {
				if w != nil {
					return fmt.Errorf("step %d: %s: Get(%s, exact) still returns a packet after it was removed", step, s.label, p.name)
				}
				continue
			}
			if w == nil {
				return fmt.Errorf("step %d: %s: Get(%s, exact) returns nothing; the packet was published and not removed", step, s.label, p.name)
			}
			if err := m.checkData(w, p); err != nil {
				return fmt.Errorf("step %d: %s: Get(%s, exact): %v", step, s.label, p.name, err)
			}
			if i == 0 {
				first = w
			} else if !bytes.Equal(first, w) {
				return fmt.Errorf("step %d: Get(%s, exact): the two stores return different bytes", step, p.name)
			}
		}
	}
	// a name that was never published
	for _, s := range suts {
		if w, _ := s.st.Get(mkName("/t/never/v=1/seg=0"), false); w != nil {
			return fmt.Errorf("step %d: %s: Get of a never-published name returns a packet", step, s.label)
		}
	}
	// prefix queries
	var prefixes []enc.Name
	prefixes = append(prefixes, enc.Name{}, mkName("/t"), mkName("/t/never"))
	for i, o := range m.objs {
		prefixes = append(prefixes, o, append(withSlack(o, 1), metaKeyword))
		for _, v := range m.vers[i] {
			prefixes = append(prefixes, verName(o, v.version), segName(o, v.version, 0), metaName(o, v.version)[:len(o)+2])
		}
	}
	for _, pf := range prefixes {
		best, cands := m.newestUnder(pf)
		// does key order disagree with version order under this prefix?
		multiVer := false
		for _, p := range m.pk {
			if hasPrefix(p.name, pf) && p.v.version != best {
				multiVer = true
			}
		}
		var first []byte
		for i, s := range suts {
			w, err := s.st.Get(pf, true)
			if err != nil {
				return fmt.Errorf("step %d: %s: Get(%s, prefix) failed: %v", step, s.label, pf, err)
			}
			if len(cands) == 0 {
				if w != nil {
					return fmt.Errorf("step %d: %s: Get(%s, prefix) returns a packet although nothing under that prefix is stored", step, s.label, pf)
				}
				continue
			}
			if w == nil && best == 0 {
				// only version-0 ("immutable") packets under the prefix: neither store's prefix
				// query discovers those (they are meant to be asked for by their full name);
				// left free -- exact Gets and removals of such packets are judged like any other
				cls["prefix-query-over-version-0-only:nothing-returned"] = true
				continue
			}
			if w == nil {
				return fmt.Errorf("step %d: %s: Get(%s, prefix) returns nothing; %d packets of version %d are stored under it", step, s.label, pf, len(cands), best)
			}
			d, _, err := spec.Spec{}.ReadData(enc.NewBufferReader(w))
			if err != nil {
				return fmt.Errorf("step %d: %s: Get(%s, prefix) returns bytes that are no Data: %v", step, s.label, pf, err)
			}
			if !hasPrefix(d.Name(), pf) {
				return fmt.Errorf("step %d: %s: Get(%s, prefix) returns %s, which is not under the prefix", step, s.label, pf, d.Name())
			}
			p := m.pk[d.Name().String()]
			if p == nil {
				return fmt.Errorf("step %d: %s: Get(%s, prefix) returns %s, which is not in the store according to the reference (removed or never published)", step, s.label, pf, d.Name())
			}
			if p.v.version != best {
				return fmt.Errorf("step %d: %s: Get(%s, prefix) returns %s of version %d; the newest version stored under that prefix is %d", step, s.label, pf, d.Name(), p.v.version, best)
			}
			if err := m.checkData(w, p); err != nil {
				return fmt.Errorf("step %d: %s: Get(%s, prefix): %v", step, s.label, pf, err)
			}
			if len(cands) == 1 {
				if i == 0 {
					first = w
				} else if first != nil && !bytes.Equal(first, w) {
					return fmt.Errorf("step %d: Get(%s, prefix): the stores return different bytes for the unique newest packet", step, pf)
				}
			}
		}
		if multiVer && len(cands) > 0 {
			cls["prefix-query-over->=2-versions"] = true
			*nontriv = true
			// is the newest version NOT the last one in the byte order of the encoded names?
			var lastKey []byte
			var lastVer uint64
			for _, p := range m.pk {
				if hasPrefix(p.name, pf) {
					if k := p.name.Bytes(); lastKey == nil || bytes.Compare(k, lastKey) > 0 {
						lastKey, lastVer = k, p.v.version
					}
				}
			}
			if lastVer != best {
				cls["prefix-query-where-name-order-differs-from-version-order"] = true
			}
		}
	}
	return nil
}

// ---------------------------------------------------------------------------- generator

func genStores(t *rapid.T) SCase {
	var c SCase
	objs := make([]*genObj, len(objNames))
	for i := range objs {
		objs[i] = &genObj{}
	}
	n := rapid.IntRange(1, 14).Draw(t, "nops")
	for i := 0; i < n; i++ {
		o := rapid.SampledFrom([]int{0, 0, 1, 1, 2}).Draw(t, "obj")
		if rapid.IntRange(0, 9).Draw(t, "kind") < 6 || len(objs[o].vers) == 0 {
			if len(objs[o].vers) >= 4 {
				continue
			}
			ln := rapid.SampledFrom([]int{1, 7999, 8000, 8001, 16000, 16001, 24001}).Draw(t, "len")
			op := SOp{K: "pub", O: o, Len: ln, Cut: genCut(t, ln, "s"),
				Slack: rapid.SampledFrom([]int{0, 0, 0, 1, 3, 4}).Draw(t, "slack")}
			hasZero := false
			for _, x := range objs[o].vers {
				hasZero = hasZero || x == 0
			}
			if !hasZero && rapid.IntRange(0, 7).Draw(t, "zeroVersion") == 0 {
				// version 0: Produce documents it ("0 for immutable"); removal by prefix must still
				// remove it (seeded defect C15-r4-2: a fast path in BoltStore.Remove that asks the
				// prefix query first, which never returns version-0 packets)
				op.Zero = true
				objs[o].vers = append(objs[o].vers, 0)
				objs[o].lens = append(objs[o].lens, ln)
				c.Ops = append(c.Ops, op)
				continue
			}
			for tries := 0; tries < 5 && op.Ver == 0; tries++ {
				v := rapid.SampledFrom(versionPool).Draw(t, "ver")
				dup := false
				for _, x := range objs[o].vers {
					dup = dup || x == v
				}
				if !dup {
					op.Ver = v
				}
			}
			if op.Ver == 0 {
				continue
			}
			objs[o].vers = append(objs[o].vers, op.Ver)
			objs[o].lens = append(objs[o].lens, ln)
			c.Ops = append(c.Ops, op)
		} else {
			r := genRm(t, o, objs[o], "rm")
			c.Ops = append(c.Ops, SOp{K: "rm", O: o, W: r.W, X: r.X, S: r.S})
		}
	}
	return c
}

const ruleC15Stores = "histories of <= 14 Produce / Remove operations (3 objects with nested names, <= 4 explicit versions each from {1,2,3,254..257,65535..65537,2^32-1,2^32,2^63+5}, 1..4 segments, removals of a segment / a metadata packet / a version / all metadata / an object) applied to a MemoryStore and a BoltStore through object.Client.Produce; after every operation exact Get of every name ever published and prefix Get of the root, /t, every object, its metadata prefix, every version prefix are compared with the reference (newest version under the prefix; ties free) and between the stores. Non-trivial: >= 1 prefix query over packets of >= 2 different versions"

func TestC15Stores(t *testing.T) {
	singleP(t)
	rec := evid.New("C15", "TestC15Stores", ruleC15Stores)
	evid.Check(t, rec, genStores, execStores)
}

func TestC15StoresReplay(t *testing.T) {
	singleP(t)
	evid.Replay(t, "TestC15Stores", execStores)
}

func TestC15StoresRegress(t *testing.T) {
	singleP(t)
	evid.Regress(t, "C15", "TestC15Stores", execStores)
}
