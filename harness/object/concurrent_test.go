package object

import (
	"bytes"
	"fmt"
	"runtime"
	"sync"
	"testing"
	"time"

	enc "github.com/named-data/ndnd/std/encoding"
	basic "github.com/named-data/ndnd/std/engine/basic"
	"github.com/named-data/ndnd/std/ndn"
	"github.com/named-data/ndnd/std/object"
	sec "github.com/named-data/ndnd/std/security"
	"pgregory.net/rapid"

	"verif/harness/internal/evid"
)

// TestC15ConcurrentConsume: an application consumes several objects at once through ONE
// client -- Consume is called from several goroutines while the client's own goroutine is busy
// fetching (the burst of segment Interests after the first segment of a large object arrives
// is queued by that goroutine into the channel it reads itself). Real goroutines and timers,
// a loss-free asynchronous link to a producer client, race detector on. Every consumption must
// complete exactly once with the published content, byte for byte, within a generous deadline.
// (Added after seeded defect C15-r4-1 -- the client's outgoing pipeline sized by the fetch
// window, so that the client goroutine blocks on its own channel -- was missed: the relay
// units run one logical step at a time.)

type pipeFace struct {
	mu      sync.Mutex
	running bool
	onPkt   func(enc.ParseReader) error
	peer    *pipeFace
	in      chan []byte
	done    chan struct{}
}

func newPipePair() (*pipeFace, *pipeFace) {
	a := &pipeFace{in: make(chan []byte, 1<<16), done: make(chan struct{})}
	b := &pipeFace{in: make(chan []byte, 1<<16), done: make(chan struct{})}
	a.peer, b.peer = b, a
	return a, b
}

func (f *pipeFace) Open() error {
	f.mu.Lock()
	f.running = true
	f.mu.Unlock()
	go func() {
		for {
			select {
			case b := <-f.in:
				if cb := f.onPkt; cb != nil {
					_ = cb(enc.NewBufferReader(b))
				}
			case <-f.done:
				return
			}
		}
	}()
	return nil
}
func (f *pipeFace) Close() error {
	f.mu.Lock()
	defer f.mu.Unlock()
	if f.running {
		f.running = false
		close(f.done)
	}
	return nil
}
func (f *pipeFace) IsRunning() bool {
	f.mu.Lock()
	defer f.mu.Unlock()
	return f.running
}
func (f *pipeFace) IsLocal() bool { return true }
func (f *pipeFace) SetCallback(onPkt func(enc.ParseReader) error, onErr func(error) error) {
	f.onPkt = onPkt
}
func (f *pipeFace) Send(pkt enc.Wire) error {
	b := append([]byte{}, pkt.Join()...)
	select {
	case f.peer.in <- b:
	default: // never in practice (64k slots): a full link would be a loss, which this unit does not inject
		return fmt.Errorf("harness link full")
	}
	return nil
}

type CcCase struct {
	Segs    []int   `json:"segs"` // published objects, in segments (content = segs*8000-17 bytes)
	Plan    [][]int `json:"plan"` // per application goroutine: indices of the objects it consumes, in order
	Procs   int     `json:"procs"`
	Stagger int     `json:"stagger"` // microseconds between an application goroutine's calls
}

func genCcCase(t *rapid.T) CcCase {
	c := CcCase{Procs: rapid.SampledFrom([]int{1, 2, 4, 8}).Draw(t, "procs"), Stagger: rapid.SampledFrom([]int{0, 0, 20, 200}).Draw(t, "stagger")}
	n := rapid.IntRange(2, 6).Draw(t, "objects")
	for i := 0; i < n; i++ {
		c.Segs = append(c.Segs, rapid.SampledFrom([]int{1, 1, 2, 9, 10, 11, 12, 20, 35}).Draw(t, "segs"))
	}
	g := rapid.IntRange(1, 5).Draw(t, "goroutines")
	for i := 0; i < g; i++ {
		k := rapid.IntRange(1, 6).Draw(t, "calls")
		var p []int
		for j := 0; j < k; j++ {
			p = append(p, rapid.IntRange(0, n-1).Draw(t, "obj"))
		}
		c.Plan = append(c.Plan, p)
	}
	return c
}

func execCc(c CcCase) (res evid.Result) {
	old := runtime.GOMAXPROCS(c.Procs)
	defer runtime.GOMAXPROCS(old)
	quiet()
	cf, pf := newPipePair()
	passAll := func(enc.Name, enc.Wire, ndn.Signature) bool { return true }
	mk := func(f *pipeFace) *basic.Engine {
		tm := basic.NewTimer()
		return basic.NewEngine(f, tm, sec.NewSha256IntSigner(tm), passAll)
	}
	ce, pe := mk(cf), mk(pf)
	if err := ce.Start(); err != nil {
		res.Err = fmt.Errorf("harness: %v", err)
		return res
	}
	// a client whose goroutine is stuck never takes the stop signal: stop everything from a
	// goroutine and give up after a while (the stuck goroutines are then leaked; the case is
	// reported as a violation anyway)
	var stops []func()
	defer func() {
		done := make(chan struct{})
		go func() {
			for i := len(stops) - 1; i >= 0; i-- {
				stops[i]()
			}
			close(done)
		}()
		select {
		case <-done:
		case <-time.After(3 * time.Second):
		}
	}()
	stops = append(stops, func() { ce.Stop() })
	if err := pe.Start(); err != nil {
		res.Err = fmt.Errorf("harness: %v", err)
		return res
	}
	stops = append(stops, func() { pe.Stop() })
	prod := object.NewClient(pe, object.NewMemoryStore())
	cons := object.NewClient(ce, object.NewMemoryStore())
	if err := prod.Start(); err != nil {
		res.Err = fmt.Errorf("harness: %v", err)
		return res
	}
	stops = append(stops, prod.Stop)
	if err := cons.Start(); err != nil {
		res.Err = fmt.Errorf("harness: %v", err)
		return res
	}
	stops = append(stops, cons.Stop)

	contents := make([][]byte, len(c.Segs))
	names := make([]enc.Name, len(c.Segs))
	for i, s := range c.Segs {
		contents[i] = contentOf(uint32(100+i), s*8000-17)
		names[i] = mkName(fmt.Sprintf("/cc/obj%d", i))
		if _, err := prod.Produce(object.ProduceArgs{Name: names[i], Content: enc.Wire{contents[i]}}); err != nil {
			res.Err = fmt.Errorf("Produce of object %d (%d segments) failed: %v", i, s, err)
			return res
		}
	}
	type outcome struct {
		completions int
		err         error
		content     []byte
	}
	var mu sync.Mutex
	var all []*outcome
	var objOf []int
	var wg sync.WaitGroup
	total := 0
	for _, p := range c.Plan {
		total += len(p)
	}
	finished := make(chan struct{}, total+8)
	for _, plan := range c.Plan {
		wg.Add(1)
		go func(plan []int) {
			defer wg.Done()
			for _, oi := range plan {
				o := &outcome{}
				mu.Lock()
				all = append(all, o)
				objOf = append(objOf, oi)
				mu.Unlock()
				cons.Consume(names[oi], func(st *object.ConsumeState) bool {
					if st.IsComplete() {
						mu.Lock()
						o.completions++
						o.err = st.Error()
						if o.err == nil {
							o.content = append(o.content, st.Content()...)
						}
						mu.Unlock()
						finished <- struct{}{}
					} else {
						mu.Lock()
						o.content = append(o.content, st.Content()...)
						mu.Unlock()
					}
					return true
				})
				if c.Stagger > 0 {
					time.Sleep(time.Duration(c.Stagger) * time.Microsecond)
				}
			}
		}(plan)
	}
	wg.Wait()
	deadline := time.After(15 * time.Second)
	for got := 0; got < total; {
		select {
		case <-finished:
			got++
		case <-deadline:
			mu.Lock()
			missing := 0
			for _, o := range all {
				if o.completions == 0 {
					missing++
				}
			}
			mu.Unlock()
			res.Err = fmt.Errorf("DEADLOCK: %d of %d concurrent consumptions through one client never reported completion within 15 s on a loss-free link (objects of %v segments)", missing, total, c.Segs)
			return res
		}
	}
	time.Sleep(20 * time.Millisecond) // a second completion of the same consumption would arrive now
	mu.Lock()
	defer mu.Unlock()
	big := false
	for i, o := range all {
		oi := objOf[i]
		switch {
		case o.completions != 1:
			res.Err = fmt.Errorf("consumption #%d (object %d) reported completion %d times", i, oi, o.completions)
			return res
		case o.err != nil:
			res.Err = fmt.Errorf("consumption #%d (object %d, %d segments) failed on a loss-free link: %v", i, oi, c.Segs[oi], o.err)
			return res
		case !bytes.Equal(o.content, contents[oi]):
			res.Err = fmt.Errorf("consumption #%d (object %d, %d segments): content differs (%d bytes vs %d published, first difference at %d)", i, oi, c.Segs[oi], len(o.content), len(contents[oi]), firstDiff(o.content, contents[oi]))
			return res
		}
		if c.Segs[oi] > 10 {
			big = true
		}
	}
	res.NonTrivial = total >= 2 && big
	if big {
		res.Classes = append(res.Classes, "object-larger-than-the-fetch-window")
	}
	if len(c.Plan) > 1 {
		res.Classes = append(res.Classes, "several-application-goroutines")
	}
	return res
}

const ruleCc = "2..6 objects of 1..35 segments published by a producer client; 1..5 application goroutines call Consume on ONE consumer client 1..6 times each (real goroutines and timers, a loss-free asynchronous in-memory link, GOMAXPROCS 1..8, race detector on); every consumption must report completion exactly once, without error, with the published bytes, within 15 s (a case normally takes a few milliseconds). Non-trivial: >= 2 consumptions and one of an object larger than the fetch window (10 segments); distinct by case hash"

func TestC15ConcurrentConsume(t *testing.T) {
	rec := evid.New("C15", "TestC15ConcurrentConsume", ruleCc)
	evid.Check(t, rec, genCcCase, execCc)
}

func TestC15ConcurrentConsumeReplay(t *testing.T) {
	evid.Replay(t, "TestC15ConcurrentConsume", execCc)
}
