#!/usr/bin/env python3
"""Sensitivity test of the C15 check: plant each mutant in the scratch worktree, run the quick
tier, revert. Usage: mutants.py <worktree> [name ...]. Never run against /repo.
Prints one table row per mutant: name | exit status | units that reported the violation."""
import json, os, re, subprocess, sys

VERIF = os.path.abspath(os.path.join(os.path.dirname(__file__), "..", ".."))
PROP = "C15"
PRODUCE = "std/object/client_produce.go"
CONSUME = "std/object/client_consume.go"
SEG = "std/object/client_consume_seg.go"
EXPR = "std/object/client_expressr.go"
MEM = "std/object/store_memory.go"
BOLT = "std/object/store_bolt.go"

# (name, file, old, new)
MUTANTS = [
    ("lastSeg=(size-1)/8000 -> size/8000", PRODUCE,
     "lastSeg := uint64((contentSize - 1) / pSegmentSize)", "lastSeg := uint64(contentSize / pSegmentSize)"),
    ("segment-boundary < -> <=", PRODUCE,
     "for len(content) > 0 && segContentSize < pSegmentSize {\n\t\t\t// append wire from content to segContent till segment is full\n\t\t\tsizeLeft := min(pSegmentSize-segContentSize, len(content[0]))",
     "for len(content) > 0 && segContentSize <= pSegmentSize {\n\t\t\t// append wire from content to segContent till segment is full\n\t\t\tsizeLeft := min(pSegmentSize+1-segContentSize, len(content[0]))"),
    ("metadata-announces-wrong-FinalBlockId", PRODUCE,
     "FinalBlockID: finalBlockId.Bytes(),", "FinalBlockID: enc.NewSegmentComponent(lastSeg + 1).Bytes(),"),
    ("metadata-stored-under-version+1", PRODUCE,
     "\t\t\tenc.NewVersionComponent(version),\n\t\t\tenc.NewSegmentComponent(0),", "\t\t\tenc.NewVersionComponent(version + 1),\n\t\t\tenc.NewSegmentComponent(0),"),
    ("producer-answers-exact-only", PRODUCE,
     "c.store.Get(args.Interest.Name(), args.Interest.CanBePrefix())", "c.store.Get(args.Interest.Name(), false)"),
    ("window wnd[1]==segNum -> <=", SEG,
     "if state.wnd[1] == segNum {", "if state.wnd[1] <= segNum {"),
    ("content-stored-in-arrival-order", SEG,
     "state.content[segNum] = args.Data.Content().Join()\n", "state.content[segNum] = args.Data.Content().Join()\n\tif state.content[state.wnd[1]] == nil {\n\t\tstate.content[state.wnd[1]], state.content[segNum] = state.content[segNum], nil\n\t}\n"),
    ("segCnt=FinalBlockId+1 -> +0", SEG,
     "state.segCnt = int(fbId.NumberVal()) + 1", "state.segCnt = int(fbId.NumberVal()) + 0"),
    ("all-interests-out >= -> >", SEG,
     "if state.segCnt > 0 && state.wnd[2] >= state.segCnt {", "if state.segCnt > 0 && state.wnd[2] > state.segCnt {"),
    ("completion-when-wnd[1]==segCnt-1", SEG,
     "if state.wnd[1] == state.segCnt {", "if state.wnd[1] >= state.segCnt-1 {"),
    ("callback-again-on-data-after-completion", SEG,
     "\tif state.complete {\n\t\treturn\n\t}\n\n\tif args.Result == ndn.InterestResultError {", "\tif state.complete {\n\t\tstate.callback(state)\n\t\treturn\n\t}\n\n\tif args.Result == ndn.InterestResultError {"),
    ("finalizeError-without-complete-guard", CONSUME,
     "func (a *ConsumeState) finalizeError(err error) {\n\tif !a.complete {", "func (a *ConsumeState) finalizeError(err error) {\n\tif true {"),
    ("error-on-segment-does-not-finalize (complete guard dropped in handleData)", SEG,
     "\tif state.complete {\n\t\treturn\n\t}\n\n\tif args.Result == ndn.InterestResultError {", "\tif args.Result == ndn.InterestResultError {"),
    ("Content()-does-not-advance (equivalent: the buffers are freed, the old range joins to nothing)", CONSUME,
     "\ta.wnd[0] = a.wnd[1]\n", "\n"),
    ("Content()-cumulative (neither frees nor advances)", CONSUME,
     "\tfor i := a.wnd[0]; i < a.wnd[1]; i++ {\n\t\ta.content[i] = nil // gc\n\t}\n\n\ta.wnd[0] = a.wnd[1]\n", "\n"),
    ("Content()-skips-first-buffer", CONSUME,
     "buf := a.content[a.wnd[0]:a.wnd[1]].Join()", "buf := a.content[min(a.wnd[0]+1, a.wnd[1]):a.wnd[1]].Join()"),
    ("retries-not-decremented", EXPR,
     "\t\t\targs.Retries--\n", "\n"),
    ("retry-budget-2-for-segments", SEG, "Retries: 3,", "Retries: 2,"),
    ("retry-budget-2-for-metadata", CONSUME, "Retries: 3,", "Retries: 2,"),
    ("give-up-one-retry-early", EXPR, "if args.Retries == 0 {", "if args.Retries <= 1 {"),
    ("timeout-reported-without-retry", EXPR,
     "if res.Result == ndn.InterestResultTimeout {", "if res.Result == ndn.InterestResultTimeout && args.Retries < 0 {"),
    ("findNewest > -> <", MEM, "if cl.version > known.version {", "if cl.version < known.version || known.wire == nil {"),
    ("findNewest-first-child", MEM, "if cl.version > known.version {", "if known.wire == nil && cl.wire != nil {"),
    ("memory-remove-keeps-wire (equivalent for leaf packets: the parent prunes the node)", MEM,
     "\tif len(name) == 0 {\n\t\tn.wire = nil\n\t\tn.version = 0\n", "\tif len(name) == 0 {\n"),
    ("memory-remove-exact-is-noop", MEM,
     "\tif len(name) == 0 {\n\t\tn.wire = nil\n\t\tn.version = 0\n", "\tif len(name) == 0 {\n\t\tif !prefix {\n\t\t\treturn false\n\t\t}\n\t\tn.wire = nil\n\t\tn.version = 0\n"),
    ("memory-remove-prefix-ignores-flag (always subtree)", MEM,
     "\t\tif prefix {\n\t\t\tn.children = nil // prune subtree", "\t\tif true {\n\t\t\tn.children = nil // prune subtree"),
    ("memory-commit-drops-transaction", MEM,
     "\ts.root.merge(s.tx)\n", "\n"),
    ("bolt-remove-prefix-only-first-key", BOLT,
     "\t\t\t\tif err = bucket.Delete(k); err != nil {\n\t\t\t\t\treturn err\n\t\t\t\t}\n", "\t\t\t\tif err = bucket.Delete(k); err != nil {\n\t\t\t\t\treturn err\n\t\t\t\t}\n\t\t\t\tbreak\n"),
    ("bolt-remove-exact-is-noop", BOLT,
     "\t\t} else {\n\t\t\treturn bucket.Delete(key)\n", "\t\t} else {\n\t\t\treturn nil\n"),
    ("bolt-version-compare > -> >=", BOLT, "if ver > maxVer {\n\t\t\t\t\tmaxVer = ver", "if ver >= maxVer+1 && ver != 256 {\n\t\t\t\t\tmaxVer = ver"),
    ("revert-fix bolt maxVer", BOLT, "\t\t\t\t\tmaxVer = ver\n", "\n"),
    ("revert-fix Produce name aliasing", PRODUCE,
     "objName := args.Name[:len(args.Name):len(args.Name)]", "objName := args.Name"),
    ("revert-fix segment name aliasing", SEG,
     "Name: append(state.fetchName[:len(state.fetchName):len(state.fetchName)],", "Name: append(state.fetchName,"),
    ("revert-fix fetcher spin", SEG,
     "for tries := len(s.streams); ; tries-- {\n\t\tif tries <= 0 {\n\t\t\treturn // we've gone full circle\n\t\t}\n\n\t\tstate = s.next()\n\t\tif state == nil {\n\t\t\treturn // nothing to do here\n\t\t}\n",
     "var first *ConsumeState = nil\n\tfor {\n\t\tstate = s.next()\n\t\tif state == nil {\n\t\t\treturn // nothing to do here\n\t\t}\n\t\tif first == nil {\n\t\t\tfirst = state\n\t\t} else if state == first {\n\t\t\treturn\n\t\t}\n"),
]


def main():
    wt = os.path.abspath(sys.argv[1])
    assert wt != "/repo"
    only = sys.argv[2:]
    env = dict(os.environ, VERIF_REPO=wt)
    rows = []
    for name, f, old, new in MUTANTS:
        if only and not any(o in name for o in only):
            continue
        p = os.path.join(wt, f)
        src = open(p).read()
        if src.count(old) != 1:
            rows.append((name, "NOT-PLANTED (pattern occurs %d times)" % src.count(old), ""))
            continue
        open(p, "w").write(src.replace(old, new))
        try:
            r = subprocess.run([os.path.join(VERIF, "check"), PROP, "--tier", "quick"], env=env, cwd=VERIF,
                               stdout=subprocess.PIPE, stderr=subprocess.STDOUT, text=True)
            units = set()
            for m in re.finditer(r"VIOLATION property=\S+ replay=(\S+)", r.stdout):
                try:
                    units.add(json.load(open(m.group(1)))["unit"])
                    os.remove(m.group(1))
                except Exception:
                    pass
            if "BUILD-FAILED" in r.stdout:
                verdict = "BUILD-FAILED"
            else:
                verdict = {0: "NOT caught", 1: "caught", 2: "inconclusive"}.get(r.returncode, str(r.returncode))
            rows.append((name, verdict, ", ".join(sorted(units))))
        finally:
            open(p, "w").write(src)
        print("| %s | %s | %s |" % rows[-1], flush=True)
    subprocess.run(["git", "-C", wt, "status", "--short"])


if __name__ == "__main__":
    main()
