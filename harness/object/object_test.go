// Package object decides C15: content published with std/object as a versioned, segmented
// object is retrieved byte-for-byte by a consumer that asks for the object name; the
// consumer's callback reports completion exactly once - with the complete content or with
// an error; segments that arrive out of order or only after retransmission neither
// corrupt, duplicate nor reorder content; the newest version is obtained with the in-memory
// and the on-disk store; packets removed from a store are no longer served.
//
// Two real basic.Engines with object.Clients (producer: MemoryStore or BoltStore in a temp
// dir) are joined by a harness relay inside a testing/synctest bubble. The case is a plain
// list of operations: publish a version, remove packets from the producer's store, start a
// consumption, and the relay schedule (deliver / drop / duplicate the i-th packet in flight,
// let virtual time pass), optionally with one packet name that never gets through.
package object

import (
	"bytes"
	"errors"
	"fmt"
	"os"
	"path/filepath"
	"runtime"
	"sort"
	"sync"
	"testing"
	"testing/synctest"
	"time"

	enc "github.com/named-data/ndnd/std/encoding"
	basic "github.com/named-data/ndnd/std/engine/basic"
	"github.com/named-data/ndnd/std/log"
	"github.com/named-data/ndnd/std/ndn"
	rdr "github.com/named-data/ndnd/std/ndn/rdr_2024"
	spec "github.com/named-data/ndnd/std/ndn/spec_2022"
	"github.com/named-data/ndnd/std/object"
	sec "github.com/named-data/ndnd/std/security"
	"pgregory.net/rapid"

	"verif/harness/internal/evid"
)

// From the property statement / its anchors (not read from the code at run time):
const (
	segSize     = 8000 // "segmenting at 8000 bytes" (client_produce.go)
	retryBudget = 3    // retransmissions of one Interest before the consumer may give up (client_consume*.go)
)

var objNames = []string{"/t/doc", "/t/doc/sub", "/t/img"}

// ---------------------------------------------------------------------------- case

// Op is one step of a case.
//
//	pub  publish a version of object O: Ver (0 = derived from the clock), Len bytes cut into buffers at Cut,
//	     the name slice handed to Produce has Slack spare capacity
//	rm   Remove from the producer's store: W = seg (segment S of the X-th published version of O, exact),
//	     meta (its metadata packet, exact), ver (prefix O/v=..), metas (prefix O/32=metadata), obj (prefix O),
//	     none (exact removal of the prefix name O/v=.., which names no packet)
//	get  start consuming object O (at most once per object); X > 0: ask for the versioned name of the
//	     (X-1)-th published version instead of the object name; R: call Content() at every R-th progress
//	     callback (0: only at completion); Slack as above
//	dl / dr / dup  deliver / drop / deliver-a-copy-of the I-th packet in flight (modulo the number in flight)
//	adv  let D microseconds of virtual time pass
//	wait deliver everything in order (except the hole) until every consumption started so far has completed
type Op struct {
	K     string `json:"k"`
	O     int    `json:"o,omitempty"`
	Ver   uint64 `json:"ver,omitempty"`
	Len   int    `json:"len,omitempty"`
	Cut   []int  `json:"cut,omitempty"`
	Slack int    `json:"slack,omitempty"`
	W     string `json:"w,omitempty"`
	X     int    `json:"x,omitempty"`
	S     int    `json:"s,omitempty"`
	R     int    `json:"r,omitempty"`
	I     int    `json:"i,omitempty"`
	D     int64  `json:"d,omitempty"`
}

// Hole names one kind of packet that never gets through, during the schedule and afterwards:
// the metadata of object O (Seg < 0) or segment Seg of any version of O; Data: the Interest
// is delivered but the Data is lost (otherwise the Interest is lost).
type Hole struct {
	O    int  `json:"o"`
	Seg  int  `json:"seg"`
	Data bool `json:"data,omitempty"`
}

type Case struct {
	Store string `json:"store"` // mem | bolt
	Ops   []Op   `json:"ops"`
	Hole  *Hole  `json:"hole,omitempty"`
}

// ---------------------------------------------------------------------------- names, content

func mkName(s string) enc.Name {
	n, err := enc.NameFromStr(s)
	if err != nil {
		panic(err)
	}
	return n
}

func sameComp(a, b enc.Component) bool { return a.Typ == b.Typ && bytes.Equal(a.Val, b.Val) }

func hasPrefix(n, p enc.Name) bool {
	if len(p) > len(n) {
		return false
	}
	for i := range p {
		if !sameComp(n[i], p[i]) {
			return false
		}
	}
	return true
}

func sameName(a, b enc.Name) bool { return len(a) == len(b) && hasPrefix(a, b) }

func withSlack(n enc.Name, slack int) enc.Name {
	out := make(enc.Name, len(n), len(n)+slack)
	copy(out, n)
	return out
}

var metaKeyword = enc.NewStringComponent(enc.TypeKeywordNameComponent, "metadata")

func verName(obj enc.Name, v uint64) enc.Name {
	return append(withSlack(obj, 1), enc.NewVersionComponent(v))
}

func segName(obj enc.Name, v uint64, seg int) enc.Name {
	return append(withSlack(obj, 2), enc.NewVersionComponent(v), enc.NewSegmentComponent(uint64(seg)))
}

func metaName(obj enc.Name, v uint64) enc.Name {
	return append(withSlack(obj, 3), metaKeyword, enc.NewVersionComponent(v), enc.NewSegmentComponent(0))
}

// contentOf is a deterministic byte stream without short periods (a swapped, repeated or
// missing segment changes the result).
func contentOf(seed uint32, n int) []byte {
	b := make([]byte, n)
	x := seed*2654435761 + 0x9e3779b9
	if x == 0 {
		x = 1
	}
	for i := range b {
		x ^= x << 13
		x ^= x >> 17
		x ^= x << 5
		b[i] = byte(x >> 9)
	}
	return b
}

// cutBuffers splits content at the cut points (sorted, clamped; equal neighbours give empty buffers).
func cutBuffers(content []byte, cut []int) enc.Wire {
	cs := append([]int{}, cut...)
	for i := range cs {
		cs[i] = max(0, min(cs[i], len(content)))
	}
	sort.Ints(cs)
	var w enc.Wire
	prev := 0
	for _, c := range cs {
		w = append(w, append([]byte{}, content[prev:c]...))
		prev = c
	}
	w = append(w, append([]byte{}, content[prev:]...))
	return w
}

// ---------------------------------------------------------------------------- reference model of the producer's store

type mver struct {
	obj     int
	idx     int // k-th published version of the object
	version uint64
	content []byte
	nseg    int
}

type mpkt struct {
	name  enc.Name
	v     *mver
	meta  bool
	seg   int
	extra bool // empty segment written after the last one (see adoptExtra)
}

type model struct {
	objs []enc.Name
	pk   map[string]*mpkt
	vers [][]*mver
	all  map[string]*mpkt // every packet ever published (also removed ones), for queries
}

func newModel() *model {
	m := &model{pk: map[string]*mpkt{}, all: map[string]*mpkt{}, vers: make([][]*mver, len(objNames))}
	for _, s := range objNames {
		m.objs = append(m.objs, mkName(s))
	}
	return m
}

func (m *model) publish(obj int, version uint64, content []byte) *mver {
	v := &mver{obj: obj, idx: len(m.vers[obj]), version: version, content: content, nseg: (len(content) + segSize - 1) / segSize}
	m.vers[obj] = append(m.vers[obj], v)
	for s := 0; s < v.nseg; s++ {
		p := &mpkt{name: segName(m.objs[obj], version, s), v: v, seg: s}
		m.pk[p.name.String()], m.all[p.name.String()] = p, p
	}
	p := &mpkt{name: metaName(m.objs[obj], version), v: v, meta: true}
	m.pk[p.name.String()], m.all[p.name.String()] = p, p
	return v
}

func (m *model) remove(name enc.Name, prefix bool) (removed int) {
	for k, p := range m.pk {
		if sameName(p.name, name) || (prefix && hasPrefix(p.name, name)) {
			delete(m.pk, k)
			removed++
		}
	}
	return
}

// adoptExtra: Produce writes an additional, empty segment <nseg> after FinalBlockId when the
// content ends with an empty buffer exactly at a segment boundary. No consumer ever asks for
// it (FinalBlockId is right) and the statement does not speak about it, so the reference
// neither requires nor forbids it: it looks whether the store holds it and, if so, adopts it
// as one more packet of that version (it takes part in removals and prefix queries).
func (m *model) adoptExtra(v *mver, stores ...ndn.Store) error {
	name := segName(m.objs[v.obj], v.version, v.nseg)
	present := 0
	for _, st := range stores {
		w, err := st.Get(name, false)
		if err != nil {
			return err
		}
		if w != nil {
			present++
		}
	}
	if present != 0 && present != len(stores) {
		return fmt.Errorf("after Produce(%s v=%d) only %d of %d stores hold %s", objNames[v.obj], v.version, present, len(stores), name)
	}
	if present > 0 {
		p := &mpkt{name: name, v: v, seg: v.nseg, extra: true}
		m.pk[name.String()], m.all[name.String()] = p, p
	}
	return nil
}

func (p *mpkt) segContent() []byte {
	if p.extra {
		return nil
	}
	return p.v.content[p.seg*segSize : min(len(p.v.content), (p.seg+1)*segSize)]
}

// newestUnder returns the highest version among the packets under prefix and those packets.
func (m *model) newestUnder(prefix enc.Name) (uint64, []*mpkt) {
	var best uint64
	var c []*mpkt
	for _, p := range m.pk {
		if !hasPrefix(p.name, prefix) {
			continue
		}
		if c == nil || p.v.version > best {
			best, c = p.v.version, []*mpkt{p}
		} else if p.v.version == best {
			c = append(c, p)
		}
	}
	return best, c
}

// objOf attributes a packet name to an object: the longest object name that is followed by
// a version or the metadata keyword.
func (m *model) objOf(n enc.Name) int {
	best := -1
	for i, o := range m.objs {
		if len(n) > len(o) && hasPrefix(n, o) {
			t := n[len(o)]
			if t.Typ == enc.TypeVersionNameComponent || sameComp(t, metaKeyword) {
				if best < 0 || len(o) > len(m.objs[best]) {
					best = i
				}
			}
		}
	}
	return best
}

// checkData verifies that wire is the Data packet p as Produce must have built it.
func (m *model) checkData(wire []byte, p *mpkt) error {
	d, _, err := spec.Spec{}.ReadData(enc.NewBufferReader(wire))
	if err != nil {
		return fmt.Errorf("not a Data packet: %v", err)
	}
	if !sameName(d.Name(), p.name) {
		return fmt.Errorf("Data is named %s, want %s", d.Name(), p.name)
	}
	last := enc.NewSegmentComponent(uint64(p.v.nseg - 1))
	if fb := d.FinalBlockID(); fb == nil || !sameComp(*fb, last) {
		return fmt.Errorf("Data %s: FinalBlockId %v, want %v", p.name, fb, last)
	}
	if p.meta {
		md, err := rdr.ParseMetaData(enc.NewWireReader(d.Content()), false)
		if err != nil {
			return fmt.Errorf("metadata %s does not parse: %v", p.name, err)
		}
		if want := verName(m.objs[p.v.obj], p.v.version); !sameName(md.Name, want) {
			return fmt.Errorf("metadata %s names %s, want %s", p.name, md.Name, want)
		}
		if !bytes.Equal(md.FinalBlockID, last.Bytes()) {
			return fmt.Errorf("metadata %s has FinalBlockId %x, want %x", p.name, md.FinalBlockID, last.Bytes())
		}
		return nil
	}
	if !bytes.Equal(d.Content().Join(), p.segContent()) {
		return fmt.Errorf("Data %s carries %d bytes that are not bytes [%d,%d) of the published content", p.name, len(d.Content().Join()), p.seg*segSize, p.seg*segSize+len(p.segContent()))
	}
	return nil
}

// ---------------------------------------------------------------------------- relay face

type relayFace struct {
	mu      sync.Mutex
	running bool
	down    bool // the connection is lost: not running any more, every Send fails
	onPkt   func(enc.ParseReader) error
	onErr   func(error) error
	out     [][]byte
}

func (f *relayFace) Open() error {
	f.mu.Lock()
	defer f.mu.Unlock()
	f.running = true
	return nil
}
func (f *relayFace) Close() error {
	f.mu.Lock()
	defer f.mu.Unlock()
	f.running = false
	return nil
}
func (f *relayFace) IsRunning() bool {
	f.mu.Lock()
	defer f.mu.Unlock()
	return f.running
}
func (f *relayFace) IsLocal() bool { return true }
func (f *relayFace) SetCallback(onPkt func(enc.ParseReader) error, onErr func(error) error) {
	f.onPkt, f.onErr = onPkt, onErr
}
func (f *relayFace) Send(pkt enc.Wire) error {
	b := pkt.Join()
	b = append([]byte{}, b...)
	f.mu.Lock()
	defer f.mu.Unlock()
	if f.down {
		return errors.New("verif: the connection is lost")
	}
	f.out = append(f.out, b)
	return nil
}
func (f *relayFace) take() [][]byte {
	f.mu.Lock()
	defer f.mu.Unlock()
	o := f.out
	f.out = nil
	return o
}

// ---------------------------------------------------------------------------- harness state

type flight struct {
	toProducer bool
	buf        []byte
	name       enc.Name
	interest   bool
	cbp        bool
	seen       bool // (Data) already attributed to the Interest that caused it
}

type req struct {
	name    enc.Name
	cbp     bool
	tx      int
	gotData bool
}

type getState struct {
	obj   int
	byVer *mver
	read  int
	// faceLost: the consumer's connection was lost before this consumption completed: it can only
	// end with an error (and must end: exactly one completion)
	faceLost bool

	mu          sync.Mutex
	calls       int
	completions int
	afterDone   int
	err         error
	got         []byte

	metaVer  *mver
	reqs     map[string]*req
	maxSeg   int
	ooo      bool
	dropped  bool
	nacked   bool // some Interest of this consumption was answered with a Nack (final for the client)
	retrans  bool
	lateData bool
}

func (g *getState) done() bool {
	g.mu.Lock()
	defer g.mu.Unlock()
	return g.completions > 0
}

func (g *getState) failed() bool {
	g.mu.Lock()
	defer g.mu.Unlock()
	return g.completions > 0 && g.err != nil
}

type harness struct {
	m        *model
	cf, pf   *relayFace
	cons     *object.Client
	prod     *object.Client
	store    ndn.Store
	fl       []*flight
	consDown bool // the consumer's connection is lost (op cdown)
	gets     map[int]*getState
	hole     *Hole
	cls      map[string]bool
	cnt      map[string]int
	nontriv  bool
	startAt  time.Time
	nonces   map[string]time.Time // (name, nonce) of the consumer's Interests -> when last seen
}

func (h *harness) holed(f *flight) bool {
	if h.hole == nil || f.interest == h.hole.Data {
		return false
	}
	if h.m.objOf(f.name) != h.hole.O {
		return false
	}
	o := h.m.objs[h.hole.O]
	if h.hole.Seg < 0 {
		return sameComp(f.name[len(o)], metaKeyword)
	}
	last := f.name[len(f.name)-1]
	return f.name[len(o)].Typ == enc.TypeVersionNameComponent && len(f.name) == len(o)+2 &&
		sameComp(last, enc.NewSegmentComponent(uint64(h.hole.Seg)))
}

// collect moves what the engines have sent into the list of packets in flight.
func (h *harness) collect() error {
	for _, side := range []struct {
		f    *relayFace
		toPr bool
	}{{h.cf, true}, {h.pf, false}} {
		batch := side.f.take()
		// packets sent at one virtual instant by different goroutines (time-outs firing together):
		// their order is up to the scheduler; sort the batch so that a case replays identically
		sort.SliceStable(batch, func(i, j int) bool { return bytes.Compare(batch[i], batch[j]) < 0 })
		for _, b := range batch {
			p, _, err := spec.ReadPacket(enc.NewBufferReader(b))
			if err != nil {
				return fmt.Errorf("an engine sent bytes that do not parse as a packet: %v", err)
			}
			f := &flight{toProducer: side.toPr, buf: b}
			switch {
			case p.Interest != nil:
				f.interest, f.name, f.cbp = true, p.Interest.NameV.Clone(), p.Interest.CanBePrefixV
			case p.Data != nil:
				f.name = p.Data.NameV.Clone()
			default:
				return fmt.Errorf("an engine sent an unexpected LpPacket")
			}
			if f.interest != side.toPr {
				return fmt.Errorf("unexpected packet direction: interest=%v from consumer=%v (%s)", f.interest, side.toPr, f.name)
			}
			if f.interest && p.Interest.NonceV != nil {
				// what any forwarder between the two does (C02): an Interest that repeats name
				// and nonce of one seen in the last few seconds (pending, or recorded as dead) is
				// a loop and goes nowhere. A retransmission has to carry a new nonce; one that
				// does not is not an attempt the producer can ever see, and is not counted as one.
				nk := fmt.Sprintf("%s|%08x", f.name, *p.Interest.NonceV)
				if last, ok := h.nonces[nk]; ok && time.Since(last) <= 6*time.Second {
					h.nonces[nk] = time.Now()
					h.cnt["interests repeating name and nonce of an earlier one: suppressed as a loop by the network"]++
					continue
				}
				h.nonces[nk] = time.Now()
			}
			if f.interest {
				if g := h.gets[h.m.objOf(f.name)]; g != nil {
					key := fmt.Sprintf("%s|%v", f.name, f.cbp)
					r := g.reqs[key]
					if r == nil {
						r = &req{name: f.name, cbp: f.cbp}
						g.reqs[key] = r
					}
					r.tx++
					if r.tx > 1 {
						g.retrans = true
					}
				}
			}
			h.fl = append(h.fl, f)
		}
	}
	return nil
}

// deliver hands packet i in flight to its destination (or loses it if it is the hole).
func (h *harness) deliver(i int, keep bool) error {
	f := h.fl[i]
	if !keep {
		h.fl = append(h.fl[:i:i], h.fl[i+1:]...)
	}
	if h.holed(f) {
		h.cnt["packets lost in the hole"]++
		h.noteDrop(f)
		return nil
	}
	if f.toProducer {
		return h.toProducer(f)
	}
	return h.toConsumer(f)
}

func (h *harness) noteDrop(f *flight) {
	if g := h.gets[h.m.objOf(f.name)]; g != nil && !g.done() {
		g.dropped = true
	}
}

// toProducer delivers an Interest and checks the producer's answer against the reference store.
func (h *harness) toProducer(f *flight) error {
	if pre := h.pf.take(); len(pre) != 0 {
		return fmt.Errorf("harness: producer face not drained")
	}
	var want *mpkt
	if f.cbp {
		_, c := h.m.newestUnder(f.name)
		if len(c) > 1 {
			return fmt.Errorf("harness: ambiguous prefix Interest %s", f.name)
		}
		if len(c) == 1 {
			want = c[0]
		}
	} else {
		want = h.m.pk[f.name.String()]
	}
	for _, x := range h.fl {
		x.seen = true
	}
	if err := h.pf.onPkt(enc.NewBufferReader(append([]byte{}, f.buf...))); err != nil {
		return fmt.Errorf("producer engine failed on Interest %s: %v", f.name, err)
	}
	synctest.Wait()
	if err := h.collect(); err != nil {
		return err
	}
	// the answers are the Data now at the tail of the in-flight list
	var ans []*flight
	for _, x := range h.fl {
		if !x.toProducer && !x.seen {
			ans = append(ans, x)
		}
	}
	if want == nil {
		if len(ans) != 0 {
			return fmt.Errorf("producer answered Interest %s (CanBePrefix=%v) with %s although its store holds no such packet (never published, or removed)", f.name, f.cbp, ans[0].name)
		}
		h.cls["interest-for-absent-packet-unanswered"] = true
		return nil
	}
	if len(ans) != 1 {
		return fmt.Errorf("producer answered Interest %s (CanBePrefix=%v) with %d packets; its store holds %s", f.name, f.cbp, len(ans), want.name)
	}
	if err := h.m.checkData(ans[0].buf, want); err != nil {
		if f.cbp {
			return fmt.Errorf("producer answered the discovery Interest %s wrongly (newest version in its store: v=%d): %v", f.name, want.v.version, err)
		}
		return fmt.Errorf("producer answered Interest %s wrongly: %v", f.name, err)
	}
	return nil
}

// toConsumer delivers a Data to the consumer and does the bookkeeping of the reference.
func (h *harness) toConsumer(f *flight) error {
	if g := h.gets[h.m.objOf(f.name)]; g != nil && !g.done() {
		o := h.m.objs[g.obj]
		isMeta := sameComp(f.name[len(o)], metaKeyword)
		sat := false
		for _, r := range g.reqs {
			if sameName(r.name, f.name) || (r.cbp && hasPrefix(f.name, r.name)) {
				if !r.gotData {
					sat = true
				}
				r.gotData = true
			}
		}
		if !sat {
			g.lateData = true // duplicate or unsolicited
		}
		if isMeta && g.metaVer == nil && g.byVer == nil && sat {
			if p := h.m.all[f.name.String()]; p != nil {
				g.metaVer = p.v
			}
		}
		if !isMeta {
			s := int(f.name[len(f.name)-1].NumberVal())
			if s < g.maxSeg {
				g.ooo = true
			}
			g.maxSeg = max(g.maxSeg, s)
		}
	}
	if h.consDown {
		return nil
	}
	if err := h.cf.onPkt(enc.NewBufferReader(append([]byte{}, f.buf...))); err != nil {
		return fmt.Errorf("consumer engine failed on Data %s: %v", f.name, err)
	}
	synctest.Wait()
	return h.collect()
}

// ---------------------------------------------------------------------------- execution

// tempRoot: bolt databases go to a memory-backed directory when there is one (every bolt
// transaction ends with an fsync; on a disk that costs more than everything else in a case),
// else to the default temp dir. Always created with os.MkdirTemp and removed afterwards.
func tempRoot() string {
	if os.Getenv("VERIF_TMPDIR") != "" {
		return os.Getenv("VERIF_TMPDIR")
	}
	if st, err := os.Stat("/dev/shm"); err == nil && st.IsDir() {
		if f, err := os.CreateTemp("/dev/shm", "verif-probe-"); err == nil {
			f.Close()
			os.Remove(f.Name())
			return "/dev/shm"
		}
	}
	return ""
}

var quietOnce sync.Once

func quiet() {
	quietOnce.Do(func() {
		log.SetHandler(log.HandlerFunc(func(*log.Entry) error { return nil }))
		log.SetLevel(log.FatalLevel)
	})
}

const watchdog = 60 * time.Second // real time; two orders of magnitude above the slowest legitimate case

func execC15(t *testing.T) func(Case) evid.Result {
	return func(c Case) (res evid.Result) {
		quiet()
		// A goroutine of the code under test that spins (never blocks) stops virtual time for
		// ever; the bubble can then not be left. Crash containment: die, the driver re-runs the
		// in-flight case in a fresh process and reports it if the death reproduces.
		wd := time.AfterFunc(watchdog, func() {
			fmt.Printf("--- FAIL: watchdog: the case did not finish within %v of real time: a goroutine of the code under test spins or blocks outside virtual time\n", watchdog)
			buf := make([]byte, 1<<20)
			buf = buf[:runtime.Stack(buf, true)]
			for _, g := range bytes.Split(buf, []byte("\n\n")) {
				if bytes.Contains(g, []byte("std/object.")) || bytes.Contains(g, []byte("engine/basic.")) {
					fmt.Printf("%s\n\n", g)
				}
			}
			os.Exit(3)
		})
		defer wd.Stop()
		synctest.Test(t, func(*testing.T) {
			res = runC15(c)
		})
		return res
	}
}

func (h *harness) result(err error) evid.Result {
	r := evid.Result{Err: err, Counts: h.cnt, NonTrivial: h.nontriv}
	for k := range h.cls {
		r.Classes = append(r.Classes, k)
	}
	sort.Strings(r.Classes)
	return r
}

func runC15(c Case) (res evid.Result) {
	h := &harness{m: newModel(), cf: &relayFace{}, pf: &relayFace{}, gets: map[int]*getState{}, nonces: map[string]time.Time{}, hole: c.Hole,
		cls: map[string]bool{}, cnt: map[string]int{}, startAt: time.Now()}
	passAll := func(enc.Name, enc.Wire, ndn.Signature) bool { return true }
	mkEngine := func(f *relayFace) *basic.Engine {
		tm := basic.NewTimer()
		return basic.NewEngine(f, tm, sec.NewSha256IntSigner(tm), passAll)
	}
	// producer store
	h.cls["store-"+c.Store] = true
	var cleanup []func()
	defer func() {
		for i := len(cleanup) - 1; i >= 0; i-- {
			cleanup[i]()
		}
	}()
	switch c.Store {
	case "bolt":
		dir, err := os.MkdirTemp(tempRoot(), "verif-c15-")
		if err != nil {
			return evid.Result{Err: fmt.Errorf("harness: %v", err)}
		}
		cleanup = append(cleanup, func() { os.RemoveAll(dir) })
		bs, err := object.NewBoltStore(filepath.Join(dir, "store.db"))
		if err != nil {
			return evid.Result{Err: fmt.Errorf("harness: bolt store: %v", err)}
		}
		cleanup = append(cleanup, func() { bs.Close() })
		h.store = bs
	default:
		h.store = object.NewMemoryStore()
	}
	ce, pe := mkEngine(h.cf), mkEngine(h.pf)
	if err := ce.Start(); err != nil {
		return evid.Result{Err: fmt.Errorf("harness: %v", err)}
	}
	if err := pe.Start(); err != nil {
		return evid.Result{Err: fmt.Errorf("harness: %v", err)}
	}
	h.cons = object.NewClient(ce, object.NewMemoryStore())
	h.prod = object.NewClient(pe, h.store)
	if err := h.cons.Start(); err != nil {
		return evid.Result{Err: fmt.Errorf("harness: %v", err)}
	}
	if err := h.prod.Start(); err != nil {
		return evid.Result{Err: fmt.Errorf("harness: %v", err)}
	}
	stopped := false
	stop := func() {
		if !stopped {
			stopped = true
			h.cons.Stop()
			h.prod.Stop()
			ce.Stop()
			pe.Stop()
		}
	}
	cleanup = append(cleanup, stop)

	for step, op := range c.Ops {
		if err := h.step(step, op); err != nil {
			return h.result(err)
		}
	}
	if err := h.drain(); err != nil {
		return h.result(err)
	}
	if err := h.verdict(); err != nil {
		return h.result(err)
	}
	return h.result(nil)
}

func (h *harness) step(step int, op Op) error {
	switch op.K {
	case "pub":
		if op.O < 0 || op.O >= len(objNames) || op.Len <= 0 {
			return nil
		}
		content := contentOf(uint32(op.O*1000+len(h.m.vers[op.O])+1), op.Len)
		version := op.Ver
		args := object.ProduceArgs{Name: withSlack(h.m.objs[op.O], op.Slack), Content: cutBuffers(content, op.Cut)}
		if op.Ver != 0 {
			for _, v := range h.m.vers[op.O] {
				if v.version == op.Ver {
					return nil // re-publishing an existing version: the statement is silent
				}
			}
			args.Version = &version
		} else {
			time.Sleep(time.Microsecond) // clock-derived versions of one object are distinct
			version = uint64(time.Now().UnixNano())
			h.cls["version-from-clock"] = true
		}
		if op.Slack > 0 {
			h.cls["name-slice-with-spare-capacity"] = true
		}
		got, err := h.prod.Produce(args)
		if err != nil {
			return fmt.Errorf("step %d: Produce(%s, %d bytes in %d buffers) failed: %v", step, objNames[op.O], op.Len, len(op.Cut)+1, err)
		}
		if want := verName(h.m.objs[op.O], version); !sameName(got, want) {
			return fmt.Errorf("step %d: Produce(%s, version %d) returned the name %s, want %s", step, objNames[op.O], version, got, want)
		}
		if len(h.gets) > 0 {
			h.cls["version-published-while-consuming"] = true
		}
		if err := h.m.adoptExtra(h.m.publish(op.O, version, content), h.store); err != nil {
			return fmt.Errorf("step %d: %v", step, err)
		}
		if len(h.m.vers[op.O]) >= 2 {
			h.cls[">=2-versions"] = true
		}
		synctest.Wait()
		return nil

	case "rm":
		if op.O < 0 || op.O >= len(objNames) {
			return nil
		}
		name, prefix, ok := rmTarget(h.m, op.O, op.W, op.X, op.S)
		if !ok {
			return nil
		}
		if err := h.store.Remove(name, prefix); err != nil {
			return fmt.Errorf("step %d: Remove(%s, %v) failed: %v", step, name, prefix, err)
		}
		if h.m.remove(name, prefix) > 0 {
			h.cls["packets-removed-from-store"] = true
		}
		return nil

	case "get":
		if op.O < 0 || op.O >= len(objNames) || h.gets[op.O] != nil {
			return nil
		}
		g := &getState{obj: op.O, read: op.R, reqs: map[string]*req{}, maxSeg: -1}
		name := h.m.objs[op.O]
		if op.X > 0 {
			vs := h.m.vers[op.O]
			if len(vs) == 0 {
				return nil
			}
			g.byVer = vs[(op.X-1)%len(vs)]
			name = verName(name, g.byVer.version)
			h.cls["get-by-versioned-name"] = true
		}
		for _, o := range h.gets {
			if o.done() {
				h.cls["get-after-an-earlier-get-completed"] = true
				if o.failed() {
					h.cls["get-after-an-earlier-get-failed"] = true
				}
			} else {
				h.cls["two-gets-in-progress"] = true
			}
		}
		g.faceLost = h.consDown
		h.gets[op.O] = g
		h.cons.Consume(withSlack(name, op.Slack), func(st *object.ConsumeState) bool {
			g.mu.Lock()
			defer g.mu.Unlock()
			g.calls++
			if g.completions > 0 {
				g.afterDone++
			}
			if st.IsComplete() {
				g.completions++
				g.err = st.Error()
				g.got = append(g.got, st.Content()...)
			} else if g.read > 0 && g.calls%g.read == 0 {
				g.got = append(g.got, st.Content()...)
			}
			return true
		})
		synctest.Wait()
		return h.collect()

	case "dl", "dr", "dup", "nk":
		// nothing in flight: let virtual time pass until a retransmission shows up (bounded)
		for waited := 0; len(h.fl) == 0 && waited < 24 && !h.allDone(); waited++ {
			time.Sleep(250 * time.Millisecond)
			synctest.Wait()
			if err := h.collect(); err != nil {
				return err
			}
		}
		if len(h.fl) == 0 {
			h.cnt["schedule steps without a packet in flight"]++
			return nil
		}
		i := ((op.I % len(h.fl)) + len(h.fl)) % len(h.fl)
		switch op.K {
		case "dr":
			h.noteDrop(h.fl[i])
			h.fl = append(h.fl[:i:i], h.fl[i+1:]...)
			return nil
		case "nk":
			// the network answers an Interest with a Nack (no route): for the consumer one
			// transmission that brought no Data, known at once instead of after the lifetime --
			// so a fetch can fail while the Interests of other segments are still in flight
			// (seeded C15-r6-2: Data arriving after that completed the fetch a second time)
			f := h.fl[i]
			if !f.toProducer || !f.interest {
				return h.deliver(i, false)
			}
			h.noteDrop(f)
			if g := h.gets[h.m.objOf(f.name)]; g != nil && !g.done() {
				g.nacked = true
			}
			h.fl = append(h.fl[:i:i], h.fl[i+1:]...)
			h.cls["interest-answered-with-a-nack"] = true
			lp := &spec.LpPacket{Nack: &spec.NetworkNack{Reason: spec.NackReasonNoRoute}, Fragment: enc.Wire{append([]byte{}, f.buf...)}}
			pkt := &spec.Packet{LpPacket: lp}
			e := spec.PacketEncoder{}
			e.Init(pkt)
			if h.consDown {
				return nil
			}
			if err := h.cf.onPkt(enc.NewBufferReader(e.Encode(pkt).Join())); err != nil {
				return fmt.Errorf("consumer engine failed on a Nack for %s: %v", f.name, err)
			}
			synctest.Wait()
			return h.collect()
		case "dup":
			h.cls["duplicated-packet"] = true
			return h.deliver(i, true)
		}
		return h.deliver(i, false)

	case "cdown":
		// the consumer loses its connection: nothing arrives any more, nothing can be sent; every
		// consumption still under way must nevertheless complete, exactly once (with an error)
		h.cf.mu.Lock()
		h.cf.down, h.cf.running = true, false
		h.cf.mu.Unlock()
		h.consDown = true
		for _, g := range h.gets {
			if !g.done() {
				g.faceLost = true
			}
		}
		h.fl = nil
		h.cls["consumer-lost-its-connection-mid-fetch"] = true
		return nil

	case "adv":
		if op.D <= 0 {
			return nil
		}
		time.Sleep(time.Duration(op.D) * time.Microsecond)
		synctest.Wait()
		return h.collect()

	case "wait":
		// loss-free (except for the hole) until every consumption started so far has completed
		return h.drainUntil(0)
	}
	return fmt.Errorf("harness: unknown op %q", op.K)
}

func (h *harness) allDone() bool {
	for _, g := range h.gets {
		if !g.done() {
			return false
		}
	}
	return true
}

// drain: from now on the relay is loss-free (except for the hole) and in order; virtual time
// runs until every consumption has completed, and then long enough for every retransmission
// timer to have expired, so that a second completion would be seen.
func (h *harness) drain() error { return h.drainUntil(40 * time.Second) }

func (h *harness) drainUntil(settle time.Duration) error {
	const horizon = 600 * time.Second
	start := time.Now()
	var doneAt time.Time
	for {
		for len(h.fl) > 0 {
			if err := h.deliver(0, false); err != nil {
				return err
			}
		}
		if h.allDone() {
			if doneAt.IsZero() {
				doneAt = time.Now()
			}
			if time.Since(doneAt) >= settle {
				return nil
			}
		} else if time.Since(start) > horizon {
			return nil // verdict reports the missing completion
		}
		time.Sleep(250 * time.Millisecond)
		synctest.Wait()
		if err := h.collect(); err != nil {
			return err
		}
	}
}

func (h *harness) verdict() error {
	keys := make([]int, 0, len(h.gets))
	for k := range h.gets {
		keys = append(keys, k)
	}
	sort.Ints(keys)
	for _, k := range keys {
		g := h.gets[k]
		g.mu.Lock()
		calls, completions, after, gerr, got := g.calls, g.completions, g.afterDone, g.err, g.got
		g.mu.Unlock()
		what := fmt.Sprintf("consumption of %s", objNames[g.obj])
		if g.byVer != nil {
			what += fmt.Sprintf(" (asked for v=%d)", g.byVer.version)
		}
		if completions == 0 {
			return fmt.Errorf("%s: no completion (neither content nor error) was ever reported; %d progress callbacks, %d bytes delivered, %v of virtual time", what, calls, len(got), time.Since(h.startAt))
		}
		if completions != 1 || after != 0 {
			return fmt.Errorf("%s: completion reported %d times (%d callbacks after the first completion); exactly once is required", what, completions, after)
		}
		exp := g.byVer
		if exp == nil {
			exp = g.metaVer
		}
		// which requested names never got their Data?
		var starved []*req
		for _, r := range g.reqs {
			if !r.gotData {
				starved = append(starved, r)
			}
		}
		sort.Slice(starved, func(i, j int) bool { return starved[i].name.String() < starved[j].name.String() })
		if gerr == nil {
			h.cls["completed-with-content"] = true
			if exp == nil {
				return fmt.Errorf("%s: completed without error although no metadata packet was ever delivered to the consumer", what)
			}
			if !bytes.Equal(got, exp.content) {
				return fmt.Errorf("%s: completed without error with %d bytes that differ from the %d bytes published as v=%d (first difference at offset %d)", what, len(got), len(exp.content), exp.version, firstDiff(got, exp.content))
			}
			if exp.nseg > 10 {
				h.cls["object-larger-than-the-fetch-window"] = true
			}
			if vs := h.m.vers[g.obj]; len(vs) >= 2 {
				newest := vs[0]
				for _, v := range vs {
					if v.version > newest.version {
						newest = v
					}
				}
				if exp != newest {
					h.cls["consumed-a-version-that-is-not-the-highest-ever-published (newer one removed or published later)"] = true
				}
			}
		} else {
			h.cls["completed-with-error"] = true
			justified := false
			if g.faceLost {
				justified = true
				h.cls["failed-after-the-connection-was-lost"] = true
			}
			if g.nacked {
				// a Nack is a final answer for the client: failing the consumption is legitimate
				justified = true
				h.cls["failed-after-a-nack"] = true
			}
			for _, r := range starved {
				if r.tx >= retryBudget+1 {
					justified = true
				}
			}
			if !justified {
				// A name that was transmitted budget+1 times and whose Data did reach the consumer:
				// the Data may have arrived while no transmission was pending (after a time-out and
				// before the next transmission -- a client may back off in between: legitimate
				// variation C15-r3-3), in which case it is unsolicited and every transmission was in
				// effect lost. The harness does not see the engine's pending table, so such a failure
				// is accepted (and counted).
				for _, r := range g.reqs {
					if r.gotData && r.tx >= retryBudget+1 {
						justified = true
						h.cls["failed-after-budget+1-transmissions-of-a-name-whose-data-arrived-at-some-point"] = true
					}
				}
			}
			if !justified {
				return fmt.Errorf("%s: completed with error %q although no requested packet was lost beyond the retry budget (every Interest name the consumer sent %d times got its Data, or was sent fewer times); starved names: %s", what, gerr, retryBudget+1, reqList(starved))
			}
			if exp != nil && !bytes.HasPrefix(exp.content, got) {
				return fmt.Errorf("%s: failed (%v), and the %d bytes handed out before are not a prefix of the content of v=%d (first difference at offset %d)", what, gerr, len(got), exp.version, firstDiff(got, exp.content))
			}
			if exp == nil && len(got) != 0 {
				return fmt.Errorf("%s: failed (%v) before any metadata arrived, yet %d content bytes were handed out", what, gerr, len(got))
			}
		}
		if exp != nil && exp.nseg >= 2 && (g.ooo || g.dropped) {
			h.nontriv = true
		}
		if len(h.m.vers[g.obj]) >= 2 {
			h.nontriv = true
		}
		if g.ooo {
			h.cls["segment-delivered-out-of-order"] = true
		}
		if g.dropped {
			h.cls["packet-of-the-object-dropped"] = true
		}
		if g.retrans {
			h.cls["interest-retransmitted"] = true
		}
		if g.lateData {
			h.cls["duplicate-or-late-data-delivered"] = true
		}
		if g.read > 0 {
			h.cls["content-read-during-progress"] = true
		}
	}
	return nil
}

func reqList(rs []*req) string {
	s := ""
	for _, r := range rs {
		s += fmt.Sprintf("%s(sent %d times) ", r.name, r.tx)
	}
	if s == "" {
		return "none"
	}
	return s
}

func firstDiff(a, b []byte) int {
	n := min(len(a), len(b))
	for i := 0; i < n; i++ {
		if a[i] != b[i] {
			return i
		}
	}
	return n
}

// ---------------------------------------------------------------------------- generator

var versionPool = []uint64{1, 2, 3, 254, 255, 256, 257, 65535, 65536, 65537, 1<<32 - 1, 1 << 32, 1<<63 + 5}

var advPool = []int64{1000, 100000, 500000, 999000, 1000000, 1010000, 1011000, 3990000, 4000000, 4010000, 4011000, 5000000}

func genLen(t *rapid.T, label string) int {
	maxK := 5
	if evid.Thorough() {
		maxK = 13
	}
	switch rapid.IntRange(0, 9).Draw(t, label+"class") {
	case 0:
		return rapid.SampledFrom([]int{1, 2, 100}).Draw(t, label+"small")
	case 1:
		return rapid.SampledFrom([]int{7999, 8000, 8001}).Draw(t, label+"one")
	case 2, 3:
		return rapid.SampledFrom([]int{15999, 16000, 16001}).Draw(t, label+"two")
	case 4, 5:
		// beyond the fetch window of 10 segments
		k := rapid.IntRange(10, 13).Draw(t, label+"kbig")
		return k*segSize + rapid.IntRange(-1, 1).Draw(t, label+"dbig")
	}
	k := rapid.IntRange(3, maxK).Draw(t, label+"k")
	return k*segSize + rapid.IntRange(-1, 1).Draw(t, label+"d")
}

func genCut(t *rapid.T, n int, label string) []int {
	nb := rapid.IntRange(0, 5).Draw(t, label+"ncut")
	cut := make([]int, 0, nb)
	for i := 0; i < nb; i++ {
		switch rapid.IntRange(0, 5).Draw(t, label+"cutclass") {
		case 0:
			cut = append(cut, rapid.SampledFrom([]int{0, 1, n - 1, n}).Draw(t, label+"edge"))
		case 1, 2:
			k := rapid.IntRange(1, 13).Draw(t, label+"cutk")
			cut = append(cut, k*segSize+rapid.IntRange(-1, 1).Draw(t, label+"cutd"))
		case 3:
			if len(cut) > 0 {
				cut = append(cut, cut[len(cut)-1]) // empty buffer
				continue
			}
			fallthrough
		default:
			cut = append(cut, rapid.IntRange(0, n).Draw(t, label+"cutany"))
		}
	}
	for i := range cut {
		cut[i] = max(0, min(cut[i], n))
	}
	sort.Ints(cut)
	return cut
}

type genObj struct {
	vers []uint64 // 0 = clock
	lens []int
}

func genPub(t *rapid.T, o int, st *genObj, label string) Op {
	op := Op{K: "pub", O: o, Len: genLen(t, label)}
	op.Cut = genCut(t, op.Len, label)
	if rapid.IntRange(0, 3).Draw(t, label+"clock") == 0 {
		op.Ver = 0
	} else {
		op.Ver = rapid.SampledFrom(versionPool).Draw(t, label+"ver")
		for _, v := range st.vers {
			if v == op.Ver {
				op.Ver = 0
			}
		}
	}
	op.Slack = rapid.SampledFrom([]int{0, 0, 0, 0, 1, 2, 3, 4}).Draw(t, label+"slack")
	st.vers = append(st.vers, op.Ver)
	st.lens = append(st.lens, op.Len)
	return op
}

func genRm(t *rapid.T, o int, st *genObj, label string) Op {
	op := Op{K: "rm", O: o, W: rapid.SampledFrom([]string{"seg", "seg", "seg", "meta", "meta", "ver", "metas", "obj", "none"}).Draw(t, label+"what")}
	if len(st.vers) > 0 {
		// mostly the newest version (the one a consumer will go for)
		op.X = rapid.SampledFrom([]int{len(st.vers) - 1, len(st.vers) - 1, 0, rapid.IntRange(0, len(st.vers)-1).Draw(t, label+"x")}).Draw(t, label+"xsel")
		nseg := (st.lens[op.X] + segSize - 1) / segSize
		op.S = rapid.IntRange(0, nseg-1).Draw(t, label+"seg")
	}
	return op
}

func genGet(t *rapid.T, o int, st *genObj, label string) Op {
	op := Op{K: "get", O: o, R: rapid.SampledFrom([]int{0, 1, 1, 2, 3}).Draw(t, label+"read")}
	if len(st.vers) > 0 && rapid.IntRange(0, 7).Draw(t, label+"byver") == 0 {
		op.X = 1 + rapid.IntRange(0, len(st.vers)-1).Draw(t, label+"verx")
	}
	op.Slack = rapid.SampledFrom([]int{0, 0, 0, 0, 1, 2, 4}).Draw(t, label+"slack")
	return op
}

func genCase(t *rapid.T) Case {
	c := Case{Store: rapid.SampledFrom([]string{"mem", "bolt"}).Draw(t, "store")}
	nobj := rapid.SampledFrom([]int{1, 1, 1, 2, 2, 3}).Draw(t, "nobj")
	objs := make([]*genObj, len(objNames))
	for i := range objs {
		objs[i] = &genObj{}
	}
	// versions published before anything is consumed
	for o := 0; o < nobj; o++ {
		nv := rapid.SampledFrom([]int{1, 1, 2, 2, 3, 4}).Draw(t, "nver")
		if o > 0 {
			nv = rapid.SampledFrom([]int{0, 1, 1, 1, 2}).Draw(t, "nver2")
		}
		for i := 0; i < nv; i++ {
			c.Ops = append(c.Ops, genPub(t, o, objs[o], "pub"))
		}
	}
	if rapid.IntRange(0, 9).Draw(t, "prerm") < 2 {
		o := rapid.IntRange(0, nobj-1).Draw(t, "prermobj")
		c.Ops = append(c.Ops, genRm(t, o, objs[o], "prerm"))
	}
	gotten := map[int]bool{0: true}
	c.Ops = append(c.Ops, genGet(t, 0, objs[0], "get0"))
	nsteps := rapid.IntRange(0, 60).Draw(t, "nsteps")
	kinds := []string{"dl", "dl", "dl", "dl", "dl", "dl", "dl", "dl", "dl", "dl", "dl", "dl", "dl", "dl", "dl", "dl", "dl", "dl",
		"dr", "dr", "dr", "dr", "dr", "nk", "nk", "nk", "dup", "dup", "adv", "adv", "adv", "adv", "adv", "pub", "rm", "get", "get"}
	// one case in eight: somewhere on the way the consumer loses its connection for good
	cdownAt := -1
	if nsteps > 0 && rapid.IntRange(0, 7).Draw(t, "cdown") == 0 {
		cdownAt = rapid.IntRange(0, nsteps-1).Draw(t, "cdownAt")
	}
	for i := 0; i < nsteps; i++ {
		if i == cdownAt {
			c.Ops = append(c.Ops, Op{K: "cdown"})
		}
		switch k := rapid.SampledFrom(kinds).Draw(t, "kind"); k {
		case "dl", "dr", "dup", "nk":
			c.Ops = append(c.Ops, Op{K: k, I: rapid.IntRange(0, 11).Draw(t, "idx")})
		case "adv":
			c.Ops = append(c.Ops, Op{K: "adv", D: rapid.SampledFrom(advPool).Draw(t, "d")})
		case "pub":
			o := rapid.IntRange(0, nobj-1).Draw(t, "pubobj")
			if len(objs[o].vers) < 4 {
				c.Ops = append(c.Ops, genPub(t, o, objs[o], "mid"))
			}
		case "rm":
			o := rapid.IntRange(0, nobj-1).Draw(t, "rmobj")
			c.Ops = append(c.Ops, genRm(t, o, objs[o], "midrm"))
		case "get":
			o := rapid.IntRange(0, nobj-1).Draw(t, "getobj")
			if !gotten[o] {
				gotten[o] = true
				c.Ops = append(c.Ops, genGet(t, o, objs[o], "get1"))
			}
		}
	}
	// a second consumption after the first one is over (the same client serves both)
	for o := 1; o < nobj; o++ {
		if !gotten[o] && rapid.Bool().Draw(t, "lateget") {
			c.Ops = append(c.Ops, Op{K: "wait"}, genGet(t, o, objs[o], "get2"))
			for i, n := 0, rapid.IntRange(0, 12).Draw(t, "latesteps"); i < n; i++ {
				c.Ops = append(c.Ops, Op{K: rapid.SampledFrom([]string{"dl", "dl", "dl", "dr"}).Draw(t, "latekind"), I: rapid.IntRange(0, 11).Draw(t, "lateidx")})
			}
		}
	}
	if rapid.IntRange(0, 9).Draw(t, "hole") < 2 {
		h := &Hole{O: 0, Seg: -1, Data: rapid.Bool().Draw(t, "holedata")}
		if rapid.IntRange(0, 3).Draw(t, "holemeta") > 0 && len(objs[0].lens) > 0 {
			nseg := (objs[0].lens[len(objs[0].lens)-1] + segSize - 1) / segSize
			h.Seg = rapid.IntRange(0, nseg-1).Draw(t, "holeseg")
		}
		c.Hole = h
	}
	return c
}

// ---------------------------------------------------------------------------- units

const ruleC15 = "generated cases: 1..3 objects (names nested) with 1..4 versions each (explicit versions around 255/256, 65535/65536, 2^32, or clock-derived), content lengths 1, 2, 7999..8001, 15999..16001, k*8000+-1 (k <= 13, beyond the fetch window of 10), cut into 1..6 buffers incl. empty ones, producer store MemoryStore or BoltStore (temp dir); removals of single segments / metadata / versions / whole objects; one or two consumptions (object name, sometimes a versioned name); a relay schedule of <= 60 steps (deliver / drop / duplicate the i-th packet in flight, advance virtual time around the 1 s and 4 s lifetimes), optionally one packet name that never gets through; then a loss-free drain. Checked: Produce's return value; every answer of the producer against a reference store (newest version for discovery, nothing for absent packets); exactly one completion per consumption; content == published bytes of the discovered version; an error only if some requested name was sent retryBudget+1 times without Data; bytes handed out before an error are a prefix. Non-trivial: consumed object of >= 2 segments with an out-of-order delivery or a drop, or >= 2 versions published"

// singleP runs the unit on one P: the cases are sequential by construction (the harness waits
// for quiescence after every action), a second P only adds scheduler contention (Produce
// forces a garbage collection per call) and non-determinism in the order of simultaneous timers.
func singleP(t *testing.T) {
	old := runtime.GOMAXPROCS(1)
	t.Cleanup(func() { runtime.GOMAXPROCS(old) })
}

func TestC15Object(t *testing.T) {
	singleP(t)
	rec := evid.New("C15", "TestC15Object", ruleC15)
	evid.Check(t, rec, genCase, execC15(t))
}

func TestC15ObjectReplay(t *testing.T) {
	singleP(t)
	evid.Replay(t, "TestC15Object", execC15(t))
}

func TestC15ObjectRegress(t *testing.T) {
	singleP(t)
	evid.Regress(t, "C15", "TestC15Object", execC15(t))
}
