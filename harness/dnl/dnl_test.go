// Package dnl: the dead-nonce list at table level, against an exact reference under virtual
// time. It serves two clauses: C02 ("a nonce recorded as dead is not forwarded" -- a record
// must be found for its whole configured lifetime) and C08 ("dead-nonce records disappear
// after their configured lifetime" -- and the structure drains). The traffic-level units
// (harness/fwsim) reach the list only with a handful of records per history; the reaper
// works in batches of 100 per 100 ms tick, so its interesting region (bursts of several
// hundred records, re-recording around the moment of expiry) needs a unit of its own.
package dnl

import (
	"fmt"
	"sort"
	"testing"
	"testing/synctest"
	"time"

	"github.com/named-data/ndnd/fw/core"
	"github.com/named-data/ndnd/fw/table"
	enc "github.com/named-data/ndnd/std/encoding"
	"github.com/named-data/ndnd/std/log"
	"pgregory.net/rapid"

	"verif/harness/internal/evid"
)

func init() { log.SetLevel(log.FatalLevel) }

type Op struct {
	K     string `json:"k"`           // ins | find | adv
	Name  int    `json:"n,omitempty"` // index into names
	Nonce uint32 `json:"c,omitempty"` // ins: first nonce; find: the nonce
	Count int    `json:"m,omitempty"` // ins: number of records (consecutive nonces)
	D     int64  `json:"d,omitempty"` // adv: milliseconds
	Busy  bool   `json:"b,omitempty"` // adv: the thread was busy, ticks were dropped: the reaper runs once, at the end
}

type Case struct {
	LifeMs int64 `json:"life"`
	Ops    []Op  `json:"ops"`
}

var names = []string{"/", "/a", "/a/b", "/b", "/a/32=b", "/localhost/x"}

func genCase(t *rapid.T) Case {
	c := Case{LifeMs: rapid.SampledFrom([]int64{100, 250, 1000, 6000}).Draw(t, "life")}
	n := rapid.IntRange(1, 40).Draw(t, "nops")
	if rapid.IntRange(0, 99).Draw(t, "flood") == 0 {
		n = rapid.IntRange(1, 6).Draw(t, "floodOps")
		// one (short) history in a hundred begins with a flood: more records alive at once than any bound an
		// implementation may put on the list (the property knows no bound: a record stays for its
		// lifetime and goes after it; seeded C08-r9-2 capped the list at 65536 and leaked what it pushed out)
		c.Ops = append(c.Ops, Op{K: "ins", Name: 1, Nonce: 7000, Count: rapid.SampledFrom([]int{1025, 5000, 65537, 70000}).Draw(t, "floodCount")})
	}
	for i := 0; i < n; i++ {
		switch k := rapid.IntRange(0, 9).Draw(t, "kind"); {
		case k < 4:
			op := Op{K: "ins", Name: rapid.IntRange(0, len(names)-1).Draw(t, "name"), Count: 1}
			op.Nonce = uint32(rapid.SampledFrom([]int{0, 0, 0, 1, 2, 3, 1000, 1001, 5000, 1<<32 - 1}).Draw(t, "nonce"))
			if rapid.Bool().Draw(t, "name0") {
				op.Name = 0
			}
			switch rapid.IntRange(0, 5).Draw(t, "burst") {
			case 0:
				op.Count = rapid.SampledFrom([]int{99, 100, 101, 199, 200, 201, 250}).Draw(t, "big")
			case 1:
				op.Count = rapid.IntRange(2, 330).Draw(t, "count")
			}
			c.Ops = append(c.Ops, op)
		case k < 6:
			f := Op{K: "find", Name: rapid.IntRange(0, len(names)-1).Draw(t, "name"),
				Nonce: uint32(rapid.SampledFrom([]int{0, 0, 0, 1, 2, 3, 99, 100, 101, 1000, 1001, 1100, 5000, 5100, 1<<32 - 1}).Draw(t, "nonce"))}
			if rapid.Bool().Draw(t, "name0") {
				f.Name = 0
			}
			c.Ops = append(c.Ops, f)
		default:
			var d int64
			switch rapid.IntRange(0, 5).Draw(t, "advkind") {
			case 0:
				d = rapid.Int64Range(1, 99).Draw(t, "short")
			case 1:
				d = c.LifeMs + rapid.Int64Range(-101, 101).Draw(t, "aroundLife")
			case 2:
				d = c.LifeMs/2 + rapid.Int64Range(-50, 50).Draw(t, "half")
			case 3:
				d = 100 * rapid.Int64Range(1, 5).Draw(t, "ticks")
			default:
				d = rapid.Int64Range(1, 2*c.LifeMs).Draw(t, "any")
			}
			if d < 1 {
				d = 1
			}
			c.Ops = append(c.Ops, Op{K: "adv", D: d, Busy: rapid.IntRange(0, 4).Draw(t, "busy") == 0})
		}
	}
	return c
}

// ---- reference ----
//
// Written from the two clauses only. How soon after its lifetime a record is reaped, in what
// batches, and whether recording a pair again renews a live record's lifetime are left free:
// per pair the reference keeps the time until which the pair MUST be found (its lifetime
// from the recording that created the record in force) and the time until which it MAY be
// found (the lifetime from the latest recording); after that the record is "lapsed" and may
// linger until the quiescent period is over, when nothing at all may remain.

type key struct {
	name  int
	nonce uint32
}

type rec struct {
	must int64 // found for sure while now <= must
	may  int64 // may legitimately be found while now <= may; afterwards lapsed, awaiting the reaper
	// gone: a look-up has reported the lapsed record absent. It may still occupy memory (an
	// implementation may ignore lapsed records in Find and reap them later: legitimate
	// variation C02-r2-1), so it still counts towards the upper bound of the list size, but
	// it must not be found again unless it is recorded again.
	gone bool
}

func setup(lifeMs int64) {
	cfg := core.DefaultConfig()
	cfg.Tables.DeadNonceList.Lifetime = int(lifeMs)
	core.LoadConfig(cfg, "")
	table.Configure()
}

func run(c Case) (res evid.Result) {
	setup(c.LifeMs)
	d := table.NewDeadNonceList()
	defer d.Ticker.Stop()
	nm := make([]enc.Name, len(names))
	for i, s := range names {
		nm[i], _ = enc.NameFromStr(s)
	}
	var now int64
	recs := map[key]*rec{} // pairs that may be held; absent = surely not held
	fail := func(i int, f string, a ...any) evid.Result {
		res.Err = fmt.Errorf("op #%d at +%dms (lifetime %dms): %s", i, now, c.LifeMs, fmt.Sprintf(f, a...))
		return res
	}
	cls := map[string]bool{}
	defer func() {
		for k := range cls {
			res.Classes = append(res.Classes, k)
		}
		sort.Strings(res.Classes)
	}()
	total, lapsedSeen := 0, 0
	counts := func() (live, lapsed int) {
		for _, r := range recs {
			if now <= r.must {
				live++
			} else {
				lapsed++
			}
		}
		return
	}
	tick := func() {
		if len(recs) <= 2000 { // (a statistic only; not worth a pass over 70000 records per tick)
			if _, lapsed := counts(); lapsed > 100 {
				cls["more-lapsed-records-than-one-reaper-batch"] = true
			}
		}
		d.RemoveExpiredEntries()
	}
	sleep := func(ms int64) {
		time.Sleep(time.Duration(ms) * time.Millisecond)
		now += ms
	}
	for i, op := range c.Ops {
		switch op.K {
		case "ins":
			for j := 0; j < op.Count; j++ {
				k := key{op.Name, op.Nonce + uint32(j)}
				got := d.Insert(nm[k.name], k.nonce)
				r, had := recs[k]
				total++
				switch {
				case !had:
					if got {
						return fail(i, "Insert(%s, nonce %d) reports the pair as already recorded, but it never was, or its record was seen to be gone", names[k.name], k.nonce)
					}
					recs[k] = &rec{must: now + c.LifeMs, may: now + c.LifeMs}
				case now <= r.must:
					if !got {
						return fail(i, "Insert(%s, nonce %d) reports the pair as new, but it was recorded as dead %dms ago and must still be held (C02)", names[k.name], k.nonce, now-(r.must-c.LifeMs))
					}
					r.may = now + c.LifeMs
					cls["re-recorded-while-live"] = true
				default: // lapsed: still there, or gone
					if got {
						r.may, r.gone = now+c.LifeMs, false
						cls["re-recorded-while-lapsed:old-record-still-held"] = true
					} else {
						r.must, r.may, r.gone = now+c.LifeMs, now+c.LifeMs, false
						cls["re-recorded-while-lapsed:new-record"] = true
					}
				}
			}
		case "find":
			k := key{op.Name, op.Nonce}
			got := d.Find(nm[k.name], k.nonce)
			r, had := recs[k]
			switch {
			case !had && got:
				return fail(i, "(%s, nonce %d) is reported dead, but the pair was never recorded, or its record was seen to be gone", names[k.name], k.nonce)
			case had && now <= r.must && !got:
				return fail(i, "the nonce %d of %s was recorded as dead %dms ago and is no longer found: an Interest repeating it would be forwarded (C02)", k.nonce, names[k.name], now-(r.must-c.LifeMs))
			case had && now <= r.must:
				cls["live-record-found"] = true
			case had && r.gone && got:
				return fail(i, "the lapsed record (%s, nonce %d) was reported absent before and is found again although it was not recorded again", names[k.name], k.nonce)
			case had && !got:
				r.gone = true
				cls["lapsed-record-seen-gone"] = true
			case had:
				cls["lapsed-record-still-found"] = true
			}
		case "adv":
			if op.Busy {
				sleep(op.D)
				tick()
				cls["ticks-dropped"] = true
			} else {
				// the thread's ticker fires every 100 ms
				left := op.D
				for left > 0 {
					step := 100 - now%100
					if step > left {
						step = left
					}
					sleep(step)
					left -= step
					if now%100 == 0 {
						tick()
					}
				}
			}
			if _, lapsed := counts(); lapsed > 0 {
				lapsedSeen++
			}
		}
		live, lapsed := counts()
		if l, _ := d.VerifLen(); l < live || l > live+lapsed {
			return fail(i, "the list holds %d records; %d are within their lifetime and %d more have lapsed and may await the reaper", l, live, lapsed)
		}
	}
	// quiescence: after every lifetime, and a generous number of reaper passes (the reaper
	// as shipped needs one per 100 lapsed records), nothing may remain
	var last int64
	for _, r := range recs {
		if r.may > last {
			last = r.may
		}
	}
	if last > now {
		sleep(last - now)
	}
	sleep(1)
	passes := 2*(total/100) + 5
	for n := passes; n > 0; n-- {
		sleep(100)
		tick()
	}
	if l, q := d.VerifLen(); l != 0 || q != 0 {
		return fail(len(c.Ops), "every lifetime lapsed %dms and %d reaper passes ago, and the list still holds %d records (expiry queue %d) (C08)", 100*passes, passes, l, q)
	}
	res.NonTrivial = total >= 2 && lapsedSeen > 0
	return res
}

func exec(t *testing.T) func(Case) evid.Result {
	return func(c Case) (res evid.Result) {
		synctest.Test(t, func(*testing.T) {
			defer func() {
				if r := recover(); r != nil {
					res.Err = fmt.Errorf("panic: %v", r)
				}
			}()
			res = run(c)
		})
		return res
	}
}

const rule = "histories of up to 40 operations on a real table.DeadNonceList under virtual time: record 1..330 (name, nonce) pairs at once (bursts around the reaper's batch of 100; one short history in a hundred begins with a flood of 1025..70000 records), look a pair up, let 1 ms..2 lifetimes pass with the reaper called at every 100 ms tick as the forwarding thread does (or, the thread being busy, once at the end); lifetimes 100/250/1000/6000 ms. Reference written from the two clauses: a pair must be found (and Insert must report it present) for its lifetime from the recording that created the record in force (C02); a pair never recorded, or seen to be gone, must not be found; how soon a lapsed record is reaped, in what batches, and whether re-recording renews a lifetime are left free; the list size must lie between the live records and live + lapsed; after every lifetime plus a generous number of reaper passes the list and its expiry queue must be empty (C08). Non-trivial: >= 2 records made and >= 1 record lapsed while the history ran; distinct by case hash"

func TestC08DeadNonce(t *testing.T) {
	rec := evid.New("C08", "TestC08DeadNonce", rule)
	evid.Check(t, rec, genCase, exec(t))
}
func TestC08DeadNonceReplay(t *testing.T) { evid.Replay(t, "TestC08DeadNonce", exec(t)) }

func TestC02DeadNonce(t *testing.T) {
	rec := evid.New("C02", "TestC02DeadNonce", rule)
	evid.Check(t, rec, genCase, exec(t))
}
func TestC02DeadNonceReplay(t *testing.T) { evid.Replay(t, "TestC02DeadNonce", exec(t)) }
