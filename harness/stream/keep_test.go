package stream

import (
	"bytes"
	"fmt"
	"io"
	"net"
	"testing"
	"time"

	enc "github.com/named-data/ndnd/std/encoding"
	basic_engine "github.com/named-data/ndnd/std/engine/basic"
	"github.com/named-data/ndnd/std/engine/dummy"
	engface "github.com/named-data/ndnd/std/engine/face"
	"github.com/named-data/ndnd/std/ndn"
	spec "github.com/named-data/ndnd/std/ndn/spec_2022"
	sec "github.com/named-data/ndnd/std/security"
	"github.com/named-data/ndnd/std/utils"
	"pgregory.net/rapid"

	"verif/harness/internal/evid"
)

// TestC11AppEngine: "delivered to the receiver" on the application side means delivered to
// the application: the engine hands the handler / the express callback objects (Interest,
// Data, raw wire, content) that the application keeps -- an Interest handler that answers
// later, the object client that joins segment contents when the last one is in. The unit
// puts the real basic engine on the real StreamFace, feeds a generated stream of Interests
// (for a handler) and Data (for expressed Interests) in generated read sizes, lets the
// callbacks keep what they were given without copying, and compares it all with what was
// sent only after the whole stream has been read: every packet once, in stream order,
// name, raw bytes and content intact. Whether the face or the engine does the copying is
// left free -- the unit only looks at what the application holds.
// (Added after seeded defect C11-r5-2, one receive buffer re-used for every block, was
// missed: TestC11App compares inside the callback.)

type KeepPkt struct {
	Data bool `json:"d,omitempty"` // Data for an expressed Interest; otherwise an Interest for the handler
	Pad  int  `json:"pad"`         // size of the padding name component
	Size int  `json:"sz"`          // Data: content size
}

type KeepCase struct {
	Pkts  []KeepPkt `json:"pkts"`
	Reads []int     `json:"reads"` // sizes of the reads served by the connection (cycled; <=0: as much as asked for)
}

func genKeepCase(t *rapid.T) KeepCase {
	var c KeepCase
	n := rapid.IntRange(2, 14).Draw(t, "n")
	for i := 0; i < n; i++ {
		p := KeepPkt{Data: rapid.Bool().Draw(t, "data")}
		p.Pad = rapid.SampledFrom([]int{0, 1, 5, 5, 40, 200, 250, 251}).Draw(t, "pad")
		if p.Data {
			p.Size = rapid.SampledFrom([]int{0, 1, 10, 10, 100, 247, 1000, 4000, 7900}).Draw(t, "size")
		}
		c.Pkts = append(c.Pkts, p)
	}
	c.Reads = rapid.SliceOfN(rapid.SampledFrom([]int{1, 2, 3, 7, 50, 100, 1000, 4096, 8800, -1}), 1, 4).Draw(t, "reads")
	return c
}

// gateConn serves a fixed byte stream in scripted read sizes once the gate is open, then EOF.
type gateConn struct {
	scriptConn
	gate  chan struct{}
	data  []byte
	off   int
	reads []int
	k     int
}

func (c *gateConn) Read(p []byte) (int, error) {
	<-c.gate
	if c.off >= len(c.data) {
		return 0, io.EOF
	}
	n := c.reads[c.k%len(c.reads)]
	c.k++
	if n <= 0 || n > len(p) {
		n = len(p)
	}
	if n > len(c.data)-c.off {
		n = len(c.data) - c.off
	}
	copy(p, c.data[c.off:c.off+n])
	c.off += n
	return n, nil
}
func (c *gateConn) Write(p []byte) (int, error) { return len(p), nil }
func (c *gateConn) Close() error                { return nil }

// lateFace: the engine wants to open its face itself; the stream face of the harness is
// already on its connection, so Open only starts its read loop.
type lateFace struct {
	*engface.StreamFace
	opened bool
	done   chan struct{}
}

func (f *lateFace) IsRunning() bool { return f.opened && f.StreamFace.IsRunning() }
func (f *lateFace) Open() error {
	f.opened = true
	go func() { f.StreamFace.Run(); close(f.done) }()
	return nil
}

var _ net.Conn = (*gateConn)(nil)

func execKeep(c KeepCase) (res evid.Result) {
	conn := &gateConn{gate: make(chan struct{}), reads: c.Reads}
	lf := &lateFace{StreamFace: engface.VerifNewStreamFaceOnConn(conn, true), done: make(chan struct{})}
	timer := dummy.NewTimer()
	eng := basic_engine.NewEngine(lf, timer, sec.NewSha256IntSigner(timer), func(enc.Name, enc.Wire, ndn.Signature) bool { return true })
	if err := eng.Start(); err != nil {
		res.Err = fmt.Errorf("harness: engine does not start: %v", err)
		return
	}

	type keptI struct {
		name enc.Name
		raw  enc.Wire
	}
	type keptD struct {
		calls   int
		result  ndn.InterestResult
		name    enc.Name
		raw     enc.Wire
		content enc.Wire
	}
	var gotI []keptI
	gotD := map[int]*keptD{}
	hp, _ := enc.NameFromStr("/h")
	if err := eng.AttachHandler(hp, func(a ndn.InterestHandlerArgs) {
		gotI = append(gotI, keptI{name: a.Interest.Name(), raw: a.RawInterest})
	}); err != nil {
		res.Err = fmt.Errorf("harness: AttachHandler: %v", err)
		return
	}

	type sentT struct {
		name    string
		wire    []byte
		content []byte
	}
	var sentI, sentD []sentT
	sentDIdx := map[int]int{}
	life := 4 * time.Second
	maxSoFar, shrinks := 0, 0
	for i, p := range c.Pkts {
		root := "h"
		if p.Data {
			root = "d"
		}
		name, _ := enc.NameFromStr(fmt.Sprintf("/%s/%d", root, i))
		if p.Pad > 0 {
			name = append(name, enc.NewBytesComponent(enc.TypeGenericNameComponent, bytes.Repeat([]byte{byte('a' + i%26)}, p.Pad)))
		}
		var wire []byte
		if p.Data {
			content := bytes.Repeat([]byte{byte(i + 1)}, p.Size)
			for k := range content {
				content[k] ^= byte(k * 7)
			}
			d, err := spec.Spec{}.MakeData(name, &ndn.DataConfig{ContentType: utils.IdPtr(ndn.ContentTypeBlob)}, enc.Wire{content}, sec.NewSha256Signer())
			if err != nil {
				res.Err = fmt.Errorf("harness: MakeData: %v", err)
				return
			}
			wire = append([]byte{}, d.Wire.Join()...)
			it, err := spec.Spec{}.MakeInterest(name, &ndn.InterestConfig{Lifetime: &life, Nonce: utils.IdPtr(uint64(i + 1))}, nil, nil)
			if err != nil {
				res.Err = fmt.Errorf("harness: MakeInterest: %v", err)
				return
			}
			k := &keptD{}
			gotD[i] = k
			if err := eng.Express(it, func(a ndn.ExpressCallbackArgs) {
				k.calls++
				k.result = a.Result
				if a.Data != nil {
					k.name, k.raw, k.content = a.Data.Name(), a.RawData, a.Data.Content()
				}
			}); err != nil {
				res.Err = fmt.Errorf("harness: Express: %v", err)
				return
			}
			sentDIdx[i] = len(sentD)
			sentD = append(sentD, sentT{name.String(), wire, content})
		} else {
			it, err := spec.Spec{}.MakeInterest(name, &ndn.InterestConfig{Lifetime: &life, Nonce: utils.IdPtr(uint64(i + 1))}, nil, nil)
			if err != nil {
				res.Err = fmt.Errorf("harness: MakeInterest: %v", err)
				return
			}
			wire = append([]byte{}, it.Wire.Join()...)
			sentI = append(sentI, sentT{name: name.String(), wire: wire})
		}
		if len(wire) <= maxSoFar {
			shrinks++
		} else {
			maxSoFar = len(wire)
		}
		conn.data = append(conn.data, wire...)
	}
	pristine := append([]byte{}, conn.data...)

	close(conn.gate)
	select {
	case <-lf.done:
	case <-time.After(60 * time.Second):
		res.Err = fmt.Errorf("StreamFace.Run still busy 60 s after the %d-byte stream was offered (read %d bytes)", len(conn.data), conn.off)
		return
	}
	if !bytes.Equal(pristine, conn.data) {
		res.Err = fmt.Errorf("harness: the served stream was modified")
		return
	}

	// ---- what the application holds, after everything has been read
	if len(gotI) != len(sentI) {
		res.Err = fmt.Errorf("the handler was given %d Interests, the stream carried %d", len(gotI), len(sentI))
		return
	}
	for k, s := range sentI {
		g := gotI[k]
		if g.name.String() != s.name {
			res.Err = fmt.Errorf("Interest %d of %d kept by the handler: its name now reads %s, it was sent as %s", k, len(sentI), g.name.String(), s.name)
			return
		}
		if !bytes.Equal(g.raw.Join(), s.wire) {
			res.Err = fmt.Errorf("Interest %d (%s) kept by the handler: its raw packet (%d bytes) no longer equals the %d bytes sent", k, s.name, len(g.raw.Join()), len(s.wire))
			return
		}
	}
	for i, k := range gotD {
		s := sentD[sentDIdx[i]]
		switch {
		case k.calls != 1:
			res.Err = fmt.Errorf("express callback for %s called %d times", s.name, k.calls)
		case k.result != ndn.InterestResultData:
			res.Err = fmt.Errorf("express callback for %s: result %v, the Data was on the stream", s.name, k.result)
		case k.name.String() != s.name:
			res.Err = fmt.Errorf("Data kept by the callback for %s: its name now reads %s", s.name, k.name.String())
		case !bytes.Equal(k.content.Join(), s.content):
			res.Err = fmt.Errorf("Data %s kept by the callback: content (%d bytes) no longer equals the %d bytes sent", s.name, len(k.content.Join()), len(s.content))
		case !bytes.Equal(k.raw.Join(), s.wire):
			res.Err = fmt.Errorf("Data %s kept by the callback: raw packet no longer equals the bytes sent", s.name)
		}
		if res.Err != nil {
			return
		}
	}
	res.NonTrivial = len(c.Pkts) >= 3 && shrinks > 0
	if shrinks > 0 {
		res.Classes = append(res.Classes, "later-block-not-larger-than-an-earlier-one")
	}
	if len(sentI) > 0 && len(sentD) > 0 {
		res.Classes = append(res.Classes, "interests-and-data-mixed")
	}
	small := false
	for _, r := range c.Reads {
		if r > 0 && r < 50 {
			small = true
		}
	}
	if small {
		res.Classes = append(res.Classes, "reads-smaller-than-a-packet")
	}
	return res
}

const ruleKeep = "2..14 packets on one stream -- Interests under a prefix with an attached handler and Data answering Interests the engine expressed, name padding 0..251 bytes, content 0..7900 bytes -- read by the real StreamFace in scripted read sizes (1 byte .. whole) under the real basic engine; the handler and the express callbacks keep the objects they are given (Interest, raw wire, Data, content) without copying, and only after the whole stream has been read are they compared with what was sent: each packet once, Interests in stream order, name, raw bytes and content intact. Non-trivial: >= 3 packets and a later packet not larger than an earlier one"

func TestC11AppEngine(t *testing.T) {
	rec := evid.New("C11", "TestC11AppEngine", ruleKeep)
	evid.Check(t, rec, genKeepCase, execKeep)
}
func TestC11AppEngineReplay(t *testing.T) { evid.Replay(t, "TestC11AppEngine", execKeep) }
