package stream

import (
	"bytes"
	"fmt"
	"net"
	"os"
	"path/filepath"
	"sync"
	"testing"
	"time"

	enc "github.com/named-data/ndnd/std/encoding"
	engface "github.com/named-data/ndnd/std/engine/face"
	"pgregory.net/rapid"

	"verif/harness/internal/evid"
	"verif/harness/internal/tlvwalk"
)

// C11, the application-side stream face across Close and Open. An application closes its face
// and opens it again (the forwarder restarted, the application reconnects) -- possibly while
// the reader of the first connection is still inside the packet callback. The face may refuse
// the Open until the old reader has left (the harness retries); once it has accepted it, every
// block the forwarder writes on the new connection must be handed over exactly once, in order,
// byte-identical. (The coverage survey showed no unit ever called Open or Close; seeded
// C11-r6-2 let the old reader mark the re-opened face as stopped.)
// Real unix sockets, real time; waits end on events and are bounded by a generous watchdog.

type ReopenConn struct {
	Sizes []int `json:"sizes"` // value sizes of the blocks the peer writes on this connection
	// Hold: the callback of this block (index into Sizes, -1 none) does not return until the
	// application has called Close and made its first attempt to Open again
	Hold int `json:"hold"`
	// PeerEnds (only without Hold): it is the peer that ends this connection (a forwarder that
	// restarts), not the application's Close; the reader leaves by itself and the application opens the
	// face again for the next connection
	PeerEnds bool `json:"peerends,omitempty"`
}

type ReopenCase struct {
	Conns []ReopenConn `json:"conns"`
}

func genReopen(t *rapid.T) ReopenCase {
	var c ReopenCase
	n := rapid.IntRange(2, 4).Draw(t, "connections")
	for i := 0; i < n; i++ {
		rc := ReopenConn{Hold: -1}
		for k := rapid.IntRange(1, 5).Draw(t, "blocks"); k > 0; k-- {
			rc.Sizes = append(rc.Sizes, rapid.SampledFrom([]int{0, 1, 40, 250, 251, 1000, 8000}).Draw(t, "size"))
		}
		if i < n-1 && rapid.IntRange(0, 2).Draw(t, "held") != 0 {
			rc.Hold = rapid.IntRange(0, len(rc.Sizes)-1).Draw(t, "hold")
		} else if i < n-1 && rapid.Bool().Draw(t, "peerEnds") {
			rc.PeerEnds = true
		}
		c.Conns = append(c.Conns, rc)
	}
	return c
}

const reopenWatchdog = 10 * time.Second

func execReopen(c ReopenCase) (res evid.Result) {
	dir, err := os.MkdirTemp("", "reopen")
	if err != nil {
		return evid.Result{Classes: []string{"no-temp-dir"}}
	}
	defer os.RemoveAll(dir)
	path := filepath.Join(dir, "s.sock")
	l, err := net.ListenUnix("unix", &net.UnixAddr{Name: path, Net: "unix"})
	if err != nil {
		return evid.Result{Classes: []string{"no-sockets-here"}}
	}
	defer l.Close()

	var mu sync.Mutex
	var got [][]byte
	var gate chan struct{} // non-nil: the callback of the block with holdTag waits on it
	var holdTag byte
	held := make(chan struct{}, 8)
	f := engface.NewStreamFace("unix", path, true)
	f.SetCallback(func(r enc.ParseReader) error {
		b := r.Range(0, r.Length()).Join()
		mu.Lock()
		got = append(got, append([]byte{}, b...))
		g := gate
		tag := holdTag
		mu.Unlock()
		if g != nil && len(b) >= 3 && b[len(b)-1] == tag {
			held <- struct{}{}
			<-g
		}
		return nil
	}, func(err error) error { return err })

	tag := byte(0)
	mkBlock := func(size int) []byte {
		tag++
		v := bytes.Repeat([]byte{0x5a}, size+1)
		v[len(v)-1] = tag // the last byte tells the blocks apart (and names the one to hold)
		return tlvwalk.EncodeTLV(0x64, v)
	}
	wait := func(cond func() bool) bool {
		for end := time.Now().Add(reopenWatchdog); time.Now().Before(end); time.Sleep(200 * time.Microsecond) {
			if cond() {
				return true
			}
		}
		return cond()
	}
	classes := map[string]bool{}
	var peer *net.UnixConn
	defer func() {
		if peer != nil {
			peer.Close()
		}
		// The reader leaves by itself once its peer is gone. Calling Close while it is leaving would
		// race with it inside the face (Close tests the connection and then uses it, the leaving
		// reader clears it in between: a nil dereference, seen once in a thorough run on a machine
		// with a load average above 100) -- a race between the application's Close and the
		// connection's own end, which is outside the stated property and not what this unit is about.
		// Close is called only on a face whose reader shows no sign of leaving.
		if !wait(func() bool { return !f.IsRunning() }) {
			f.Close()
		}
	}()
	for ci, rc := range c.Conns {
		// the application opens the face (again); a refusal while the old reader is still about is fine
		var oerr error
		opened := wait(func() bool { oerr = f.Open(); return oerr == nil })
		if !opened {
			return evid.Result{Err: fmt.Errorf("connection %d: the face could not be opened (again) within %v: %v", ci, reopenWatchdog, oerr)}
		}
		l.SetDeadline(time.Now().Add(reopenWatchdog))
		conn, err := l.AcceptUnix()
		if err != nil {
			return evid.Result{Err: fmt.Errorf("harness: accept %d: %v", ci, err)}
		}
		if peer != nil {
			peer.Close()
		}
		peer = conn
		mu.Lock()
		got = nil
		gate = nil
		var g chan struct{}
		if rc.Hold >= 0 {
			g = make(chan struct{})
			gate = g
		}
		mu.Unlock()
		var want [][]byte
		for bi, sz := range rc.Sizes {
			b := mkBlock(sz)
			if bi == rc.Hold {
				mu.Lock()
				holdTag = b[len(b)-1]
				mu.Unlock()
			}
			want = append(want, b)
		}
		upto := len(want)
		if rc.Hold >= 0 {
			upto = rc.Hold + 1
		}
		for _, b := range want {
			if _, err := conn.Write(b); err != nil {
				return evid.Result{Err: fmt.Errorf("harness: write on connection %d: %v", ci, err)}
			}
		}
		if rc.Hold >= 0 {
			select {
			case <-held:
			case <-time.After(reopenWatchdog):
				return evid.Result{Err: fmt.Errorf("connection %d: block %d of %d written on it never reached the callback", ci, rc.Hold, len(want))}
			}
		}
		if !wait(func() bool { mu.Lock(); defer mu.Unlock(); return len(got) >= upto }) {
			mu.Lock()
			n := len(got)
			mu.Unlock()
			if g != nil {
				close(g)
			}
			return evid.Result{Err: fmt.Errorf("connection %d (opened %s): the peer wrote %d blocks, %d were handed to the application within %v", ci, map[bool]string{true: "after a Close", false: "first"}[ci > 0], upto, n, reopenWatchdog)}
		}
		mu.Lock()
		for i := 0; i < upto; i++ {
			if !bytes.Equal(got[i], want[i]) {
				mu.Unlock()
				if g != nil {
					close(g)
				}
				return evid.Result{Err: fmt.Errorf("connection %d: block %d handed to the application differs from the block written", ci, i)}
			}
		}
		mu.Unlock()
		if ci == len(c.Conns)-1 {
			break
		}
		if rc.PeerEnds && g == nil && peer != nil {
			peer.Close()
			peer = nil
			if wait(func() bool { return !f.IsRunning() }) {
				classes["the-peer-ended-the-connection-and-the-face-was-opened-again"] = true
				continue
			}
			// (a face that does not notice the end of its connection is not this unit's business:
			// go on as if the application had decided to close it)
		}
		// the application closes the face -- with the reader possibly still inside the callback --
		// and tries at once to open it again
		if err := f.Close(); err != nil {
			if g != nil {
				close(g)
			}
			return evid.Result{Err: fmt.Errorf("connection %d: Close of a running face: %v", ci, err)}
		}
		if g != nil {
			classes["closed-and-reopened-while-the-reader-was-inside-the-callback"] = true
			if err := f.Open(); err == nil {
				// accepted although the old reader is still there: allowed, the loop's Open then
				// finds the face running -- take this as the opening of the next connection
				classes["open-accepted-while-the-old-reader-was-still-running"] = true
				close(g)
				l.SetDeadline(time.Now().Add(reopenWatchdog))
				// hand over to the next iteration without a second Open: emulate by closing
				// again once the old reader has left (it must not take the new connection down)
				nc, aerr := l.AcceptUnix()
				if aerr != nil {
					return evid.Result{Err: fmt.Errorf("harness: accept after early Open: %v", aerr)}
				}
				time.Sleep(5 * time.Millisecond) // let the old reader return and do whatever it does at its end
				probe := mkBlock(7)
				mu.Lock()
				got = nil
				gate = nil
				mu.Unlock()
				if _, werr := nc.Write(probe); werr != nil {
					nc.Close()
					return evid.Result{Err: fmt.Errorf("harness: write after early Open: %v", werr)}
				}
				ok := wait(func() bool { mu.Lock(); defer mu.Unlock(); return len(got) >= 1 })
				if !ok {
					nc.Close()
					return evid.Result{Err: fmt.Errorf("connection %d: the face accepted Open while the reader of the closed connection was still running; a block then written on the new connection was never handed over", ci+1)}
				}
				_ = f.Close()
				nc.Close()
			} else {
				close(g)
			}
		} else {
			classes["closed-and-reopened"] = true
		}
	}
	res.NonTrivial = classes["closed-and-reopened-while-the-reader-was-inside-the-callback"]
	for k := range classes {
		res.Classes = append(res.Classes, k)
	}
	return res
}

const reopenRule = "the application-side stream face over a real unix socket: 2..4 times Open, 1..5 blocks written by the peer (2..8000 bytes), Close -- in two cases of three while the reader is held inside the packet callback -- and Open again at once (retried while the face refuses) - or the peer ends the connection and the application opens the face again once its reader has left; every block written on a connection the face accepted must be handed over once, in order, byte-identical. Non-trivial: some Close/Open with the reader inside the callback; distinct by case hash"

func TestC11AppReopen(t *testing.T) {
	rec := evid.New("C11", "TestC11AppReopen", reopenRule)
	evid.Check(t, rec, genReopen, execReopen)
}
func TestC11AppReopenReplay(t *testing.T) { evid.Replay(t, "TestC11AppReopen", execReopen) }
