// Package stream decides C11: stream framing delivers each TLV exactly once for any
// chunking of the stream. The forwarder side (fw/face/stream-transport.go readTlvStream)
// is driven by a scripted io.Reader; the application side (std/engine/face StreamFace.Run)
// by the same script behind a net.Conn. Streams are far longer than the 32-packet
// (281 600-byte) receive buffer.
package stream

import (
	"bytes"
	"errors"
	"fmt"
	"io"
	"net"
	"sort"
	"testing"
	"time"

	"github.com/named-data/ndnd/fw/defn"
	fwface "github.com/named-data/ndnd/fw/face"
	enc "github.com/named-data/ndnd/std/encoding"
	appface "github.com/named-data/ndnd/std/engine/face"
	"pgregory.net/rapid"

	"verif/harness/internal/evid"
	"verif/harness/internal/tlvwalk"
)

// ---------------------------------------------------------------------------- case

// Blk is a run of Rep well-formed TLV blocks with the same type and value length (the
// value bytes differ from block to block).
type Blk struct {
	T   uint64 `json:"t"`           // type number (1-, 3- or 5-byte form)
	L   int    `json:"l"`           // value length
	Rep int    `json:"r,omitempty"` // number of repetitions (0 = 1)
	// LF / TF > 0: the length / type field is written in that many bytes (3 or 5) although a
	// shorter form exists. The repository's own TLV reader (enc.ReadTLNum, used by the framer
	// and by every packet parser) accepts such numbers, and the property's quantifier lists
	// "1/3/5-byte length forms" for blocks of at most 8800 bytes, whose shortest length form is
	// 1 or 3 bytes.
	LF int `json:"lf,omitempty"`
	TF int `json:"tf,omitempty"`
}

// Step: Rep consecutive Read calls that return N bytes each (N == 0: a zero-length read
// with nil error; N < 0: as much as the caller offers).
type Step struct {
	N   int `json:"n"`
	Rep int `json:"r,omitempty"`
}

type Case struct {
	Blocks []Blk  `json:"blocks"`
	Steps  []Step `json:"steps"`            // cycled
	Cuts   []int  `json:"cuts,omitempty"`   // stream offsets at which a read is forced to end
	Trunc  int    `json:"trunc,omitempty"`  // bytes missing at the end of the stream (EOF inside a block)
	IgnErr int    `json:"ignerr,omitempty"` // every IgnErr-th read fails with an error that ignoreError accepts (0 = never)
	// IgnData: the reads that fail with the ignorable error also deliver bytes (an io.Reader may return
	// n > 0 together with an error, and the caller has to use those bytes first). Not done for the read
	// that would serve the last bytes of the stream: what a reader owes for bytes it is given with its
	// very last result before EOF is left open.
	IgnData bool `json:"igndata,omitempty"`
	// SendFail > 0 (application-side face only): while the face hands over its SendFail-th block, the
	// application tries to send something (an engine replies from inside this callback) and the write
	// fails -- the peer has stopped reading, say. What the peer sent before is still to be handed over.
	SendFail int  `json:"sendfail,omitempty"`
	Seed     byte `json:"seed,omitempty"`
}

const recvBufSize = defn.MaxNDNPacketSize * 32

// ---------------------------------------------------------------------------- stream

type layout struct {
	data    []byte
	starts  []int // start offset of every block, plus len(data) of the untruncated stream
	hdr     []int // header (type+length) size of every block
	longHdr bool  // some block's type or length is not in its shortest form
}

func build(c Case) layout {
	var lo layout
	x := uint32(c.Seed)*2654435761 + 99991
	for _, b := range c.Blocks {
		rep := b.Rep
		if rep < 1 {
			rep = 1
		}
		for r := 0; r < rep; r++ {
			lo.starts = append(lo.starts, len(lo.data))
			if b.TF > tlvwalk.VarNumSize(b.T) {
				lo.data = tlvwalk.AppendVarNumSized(lo.data, b.T, b.TF)
			} else {
				lo.data = tlvwalk.AppendVarNum(lo.data, b.T)
			}
			if b.LF > tlvwalk.VarNumSize(uint64(b.L)) {
				lo.data = tlvwalk.AppendVarNumSized(lo.data, uint64(b.L), b.LF)
				lo.longHdr = true
			} else {
				lo.data = tlvwalk.AppendVarNum(lo.data, uint64(b.L))
			}
			if b.TF > tlvwalk.VarNumSize(b.T) {
				lo.longHdr = true
			}
			lo.hdr = append(lo.hdr, len(lo.data)-lo.starts[len(lo.starts)-1])
			for i := 0; i < b.L; i++ {
				if i&3 == 0 {
					x = x*1664525 + 1013904223
				}
				lo.data = append(lo.data, byte(x>>(8*uint(i&3))))
			}
		}
	}
	lo.starts = append(lo.starts, len(lo.data))
	return lo
}

var errIgnorable = errors.New("verif: transient error (ignorable)")
var errEmptyBuffer = errors.New("verif: the reader was offered an empty buffer 1000 times")

// script is the io.Reader: it serves stream[:end] in the chunks the case prescribes and
// measures, for the non-triviality rule, where reads end.
type script struct {
	lo         *layout
	end        int
	off        int
	steps      []Step
	si         int // current step
	sr         int // reads done in current step
	cuts       []int
	ci         int
	ign        int
	ignData    bool
	failWrites bool
	nread      int
	empty      int

	blk             int // index of the block containing off
	endsInHeader    int
	multiBlock      int
	zeroReads       int
	ignored         int
	ignoredWithData int
	reads           int
}

func (s *script) next() int {
	if len(s.steps) == 0 {
		return -1
	}
	st := s.steps[s.si%len(s.steps)]
	rep := st.Rep
	if rep < 1 {
		rep = 1
	}
	s.sr++
	if s.sr >= rep {
		s.sr = 0
		s.si++
	}
	return st.N
}

func (s *script) Read(p []byte) (int, error) {
	if s.off >= s.end {
		return 0, io.EOF
	}
	if len(p) == 0 {
		s.empty++
		if s.empty >= 1000 {
			return 0, errEmptyBuffer
		}
		return 0, nil
	}
	s.nread++
	withErr := false
	if s.ign > 0 && s.nread%s.ign == 0 {
		if !s.ignData {
			s.ignored++
			return 0, errIgnorable
		}
		withErr = true
	}
	n := s.next()
	if n == 0 {
		if withErr {
			s.ignored++
			return 0, errIgnorable
		}
		s.zeroReads++
		return 0, nil
	}
	if n < 0 || n > len(p) {
		n = len(p)
	}
	if n > s.end-s.off {
		n = s.end - s.off
	}
	for s.ci < len(s.cuts) && s.cuts[s.ci] <= s.off {
		s.ci++
	}
	if s.ci < len(s.cuts) && s.off+n > s.cuts[s.ci] {
		n = s.cuts[s.ci] - s.off
	}
	copy(p, s.lo.data[s.off:s.off+n])
	b := s.off + n
	s.off = b
	s.reads++
	// which blocks does [a,b) touch?  (s.blk = index of the block containing a)
	nb := len(s.lo.hdr)
	first := s.blk
	for s.blk+1 < nb && s.lo.starts[s.blk+1] <= b-1 {
		s.blk++
	}
	if s.blk > first {
		s.multiBlock++
	}
	// advance to the block containing b; does the read end strictly inside its header?
	for s.blk+1 < nb && s.lo.starts[s.blk+1] <= b {
		s.blk++
	}
	if b < s.end && b > s.lo.starts[s.blk] && b < s.lo.starts[s.blk]+s.lo.hdr[s.blk] {
		s.endsInHeader++
	}
	if withErr && b < s.end {
		s.ignored++
		s.ignoredWithData++
		return n, errIgnorable
	}
	return n, nil
}

func newScript(c Case, lo *layout) *script {
	end := len(lo.data) - c.Trunc
	if end < 0 {
		end = 0
	}
	cuts := append([]int{}, c.Cuts...)
	sort.Ints(cuts)
	return &script{lo: lo, end: end, steps: c.Steps, cuts: cuts, ign: c.IgnErr, ignData: c.IgnData}
}

// scriptConn puts the script behind a net.Conn (for StreamFace).
type scriptConn struct{ s *script }

func (c scriptConn) Read(p []byte) (int, error) {
	n, err := c.s.Read(p)
	if err == errIgnorable { // the application face has no notion of ignorable errors
		return n, nil
	}
	return n, err
}
func (c scriptConn) Write(p []byte) (int, error) {
	if c.s.failWrites {
		return 0, errors.New("verif: write: broken pipe")
	}
	return len(p), nil
}
func (c scriptConn) Close() error                     { return nil }
func (c scriptConn) LocalAddr() net.Addr              { return &net.UnixAddr{Name: "verif", Net: "unix"} }
func (c scriptConn) RemoteAddr() net.Addr             { return &net.UnixAddr{Name: "verif", Net: "unix"} }
func (c scriptConn) SetDeadline(time.Time) error      { return nil }
func (c scriptConn) SetReadDeadline(time.Time) error  { return nil }
func (c scriptConn) SetWriteDeadline(time.Time) error { return nil }

// ---------------------------------------------------------------------------- oracle

// sinkT compares every delivered frame with the block that is due, immediately (the
// frame aliases the receive buffer and is only valid during the callback).
type sinkT struct {
	// normalised: the receiver re-encodes type and length (the application-side StreamFace
	// parses them and builds a fresh header): a block whose header was not in shortest form is
	// then delivered with the shortest one -- the same TLV block, value byte-identical
	normalised bool
	lo         *layout
	n          int
	err        error
	whole      int // number of blocks completely inside the served part of the stream
}

func (k *sinkT) frame(b []byte) {
	if k.err != nil {
		return
	}
	if k.n >= k.whole {
		k.err = fmt.Errorf("frame %d (%d bytes) delivered, but the stream holds only %d complete blocks", k.n, len(b), k.whole)
		return
	}
	want := k.lo.data[k.lo.starts[k.n]:k.lo.starts[k.n+1]]
	if k.normalised && !bytes.Equal(b, want) {
		if t, err := tlvwalk.Parse(want, 0); err == nil {
			short := tlvwalk.AppendVarNum(tlvwalk.AppendVarNum(nil, t.Type), t.Len)
			want = append(short, want[t.ValOff:]...)
		}
	}
	if !bytes.Equal(b, want) {
		off := 0
		for off < len(b) && off < len(want) && b[off] == want[off] {
			off++
		}
		k.err = fmt.Errorf("frame %d differs from block %d (stream offset %d): got %d bytes, want %d bytes, first difference at byte %d",
			k.n, k.n, k.lo.starts[k.n], len(b), len(want), off)
		return
	}
	k.n++
}

func wholeBlocks(lo *layout, end int) int {
	n := 0
	for n+1 < len(lo.starts) && lo.starts[n+1] <= end {
		n++
	}
	return n
}

// watch runs f on its own goroutine; a run that does not finish within the watchdog
// (two orders of magnitude above the slowest legitimate case) is reported as spinning.
func watch(what string, f func() error) error {
	done := make(chan error, 1)
	go func() {
		defer func() {
			if r := recover(); r != nil {
				done <- fmt.Errorf("%s: panic: %v", what, r)
			}
		}()
		done <- f()
	}()
	select {
	case err := <-done:
		return err
	case <-time.After(120 * time.Second):
		return fmt.Errorf("%s: did not return within 120 s (spins or blocks)", what)
	}
}

func classes(c Case, lo *layout, s *script) (cls []string, nontrivial bool) {
	if len(lo.data) > recvBufSize {
		cls = append(cls, "stream>receive-buffer")
	}
	if len(lo.data) > 4*recvBufSize {
		cls = append(cls, "stream>4x-receive-buffer")
	}
	if s.endsInHeader > 0 {
		cls = append(cls, "read-ends-inside-type/length")
	}
	if s.multiBlock > 0 {
		cls = append(cls, "read-spans>=2-blocks")
	}
	if s.zeroReads > 0 {
		cls = append(cls, "zero-length-reads")
	}
	if s.ignored > 0 {
		cls = append(cls, "ignored-error-reads")
	}
	if s.ignoredWithData > 0 {
		cls = append(cls, "ignored-error-reads-that-deliver-bytes")
	}
	if c.Trunc > 0 {
		cls = append(cls, "eof-inside-block")
	}
	if lo.longHdr {
		cls = append(cls, "type-or-length-not-in-shortest-form")
	}
	if s.reads > 0 && s.off/s.reads <= 2 {
		cls = append(cls, "mostly-tiny-reads")
	}
	for _, b := range c.Blocks {
		switch tlvwalk.VarNumSize(b.T) {
		case 3:
			cls = append(cls, "type:3-byte")
		case 5:
			cls = append(cls, "type:5-byte")
		}
		tot := tlvwalk.VarNumSize(b.T) + tlvwalk.VarNumSize(uint64(b.L)) + b.L
		if tot == defn.MaxNDNPacketSize {
			cls = append(cls, "block:8800")
		}
		if tot == 2 {
			cls = append(cls, "block:2")
		}
		if b.L >= 253 && b.L <= 256 {
			cls = append(cls, "length:253..256")
		}
	}
	sort.Strings(cls)
	cls = uniq(cls)
	nontrivial = len(lo.data) > recvBufSize && s.endsInHeader > 0 && s.multiBlock > 0
	return
}

func uniq(s []string) []string {
	out := s[:0]
	for i, x := range s {
		if i == 0 || x != s[i-1] {
			out = append(out, x)
		}
	}
	return out
}

// ---------------------------------------------------------------------------- exec

func execFw(c Case) (res evid.Result) {
	lo := build(c)
	s := newScript(c, &lo)
	sink := &sinkT{lo: &lo, whole: wholeBlocks(&lo, s.end)}
	var ret error
	err := watch("readTlvStream", func() error {
		ret = fwface.VerifReadTlvStream(s, sink.frame, func(e error) bool { return e == errIgnorable })
		return nil
	})
	res.Classes, res.NonTrivial = classes(c, &lo, s)
	switch {
	case err != nil:
		res.Err = err
	case sink.err != nil:
		res.Err = sink.err
	case errors.Is(ret, errEmptyBuffer):
		res.Err = fmt.Errorf("readTlvStream kept offering an empty buffer (receive buffer full, stream offset %d): it would spin on a real connection", s.off)
	case sink.n != sink.whole:
		res.Err = fmt.Errorf("%d frames delivered, the stream holds %d complete blocks (returned %v after %d of %d bytes)", sink.n, sink.whole, ret, s.off, s.end)
	case s.off != s.end:
		res.Err = fmt.Errorf("readTlvStream returned %v after reading %d of %d bytes", ret, s.off, s.end)
	case c.Trunc == 0 && ret != nil:
		res.Err = fmt.Errorf("EOF at a block boundary, but readTlvStream returned %v", ret)
	}
	return res
}

func execApp(c Case) (res evid.Result) {
	lo := build(c)
	s := newScript(c, &lo)
	sink := &sinkT{lo: &lo, whole: wholeBlocks(&lo, s.end), normalised: true}
	f := appface.VerifNewStreamFaceOnConn(scriptConn{s}, true)
	var gotErr error
	s.failWrites = c.SendFail > 0
	handed, sendFailed := 0, false
	f.SetCallback(func(r enc.ParseReader) error {
		sink.frame(r.Range(0, r.Length()).Join())
		handed++
		if handed == c.SendFail {
			if err := f.Send(enc.Wire{[]byte{0x05, 0x03, 0x01, 0x02, 0x03}}); err != nil {
				sendFailed = true
			}
		}
		return nil
	}, func(err error) error {
		gotErr = err
		return err // stop the loop, as the engine does on a fatal face error
	})
	err := watch("StreamFace.Run", func() error { f.Run(); return nil })
	res.Classes, res.NonTrivial = classes(c, &lo, s)
	if sendFailed {
		res.Classes = append(res.Classes, "a-send-failed-while-blocks-were-still-to-be-handed-over")
	}
	switch {
	case err != nil:
		res.Err = err
	case sink.err != nil:
		res.Err = sink.err
	case sink.n != sink.whole:
		res.Err = fmt.Errorf("%d packets delivered, the stream holds %d complete blocks (face error %v after %d of %d bytes)", sink.n, sink.whole, gotErr, s.off, s.end)
	case s.off != s.end:
		res.Err = fmt.Errorf("StreamFace.Run stopped (%v) after reading %d of %d bytes", gotErr, s.off, s.end)
	}
	return res
}

// ---------------------------------------------------------------------------- generator

func genBlk(t *rapid.T, budget int) Blk {
	var b Blk
	b.T = rapid.SampledFrom([]uint64{5, 6, 100, 1, 252, 5, 6, 100, 253, 800, 65535, 65536, 70000, 1<<32 - 1}).Draw(t, "type")
	hdrMax := tlvwalk.VarNumSize(b.T) + 3
	maxL := defn.MaxNDNPacketSize - hdrMax
	switch rapid.IntRange(0, 9).Draw(t, "lenKind") {
	case 0:
		b.L = rapid.IntRange(0, 3).Draw(t, "len")
		b.Rep = rapid.IntRange(1, 400).Draw(t, "rep")
	case 1:
		b.L = rapid.IntRange(248, 260).Draw(t, "len")
		b.Rep = rapid.IntRange(1, 40).Draw(t, "rep")
	case 2, 3:
		// total size 8790..8800
		tot := rapid.IntRange(8790, 8800).Draw(t, "total")
		b.L = tot - hdrMax
		b.Rep = rapid.IntRange(1, 12).Draw(t, "rep")
	case 4:
		b.L = rapid.IntRange(0, 120).Draw(t, "len")
		b.Rep = rapid.IntRange(1, 100).Draw(t, "rep")
	default:
		b.L = rapid.IntRange(0, maxL).Draw(t, "len")
		b.Rep = rapid.IntRange(1, 8).Draw(t, "rep")
	}
	if b.L > maxL {
		b.L = maxL
	}
	// now and then a header that is not in shortest form
	if rapid.IntRange(0, 4).Draw(t, "longLen") == 0 {
		b.LF = rapid.SampledFrom([]int{3, 5, 5}).Draw(t, "lenForm")
	}
	if rapid.IntRange(0, 9).Draw(t, "longType") == 0 {
		b.TF = rapid.SampledFrom([]int{3, 5}).Draw(t, "typeForm")
	}
	if over := blkSize(b) - defn.MaxNDNPacketSize; over > 0 {
		b.L -= over
		if over := blkSize(b) - defn.MaxNDNPacketSize; over > 0 { // the length field got shorter
			b.L -= over
		}
	}
	return b
}

func blkSize(b Blk) int {
	ts, ls := tlvwalk.VarNumSize(b.T), tlvwalk.VarNumSize(uint64(b.L))
	if b.TF > ts {
		ts = b.TF
	}
	if b.LF > ls {
		ls = b.LF
	}
	return ts + ls + b.L
}

// genAligned: every read returns exactly one whole block (or k whole blocks), with a block size
// that divides the receive buffer, so that the write offset reaches the end of the buffer
// exactly on a block boundary -- the one situation in which nothing is ever left to move to the
// front. (Added after a seeded defect that only skipped the offset reset on that path was
// missed by the random chunkings of the quick tier.)
func genAligned(t *rapid.T) Case {
	var c Case
	c.Seed = rapid.Byte().Draw(t, "seed")
	size := rapid.SampledFrom([]int{100, 100, 1408, 2816, 8800, 400, 3200, 4400, 50, 2}).Draw(t, "alignedSize")
	// type 5 (1 byte); length in 1 or 3 bytes
	l := size - 2
	if l >= 253 {
		l = size - 4
	}
	n := (recvBufSize+size-1)/size + rapid.IntRange(1, 40).Draw(t, "extraBlocks")
	if rapid.Bool().Draw(t, "twice") {
		n += recvBufSize / size
	}
	c.Blocks = []Blk{{T: 5, L: l, Rep: n}}
	k := rapid.SampledFrom([]int{1, 1, 1, 2, 4}).Draw(t, "blocksPerRead")
	if size*k > recvBufSize {
		k = 1
	}
	c.Steps = []Step{{N: size * k, Rep: 1}}
	return c
}

func genCase(t *rapid.T) Case {
	if rapid.IntRange(0, 7).Draw(t, "aligned") == 0 {
		return genAligned(t)
	}
	var c Case
	c.Seed = rapid.Byte().Draw(t, "seed")
	lo, hi := 300_000, 600_000
	if evid.Thorough() {
		lo, hi = 300_000, 3_000_000
	}
	target := rapid.IntRange(lo, hi).Draw(t, "target")
	if rapid.IntRange(0, 19).Draw(t, "short") == 0 {
		target = rapid.IntRange(2, 30_000).Draw(t, "shortTarget") // a few streams that fit the buffer
	}
	total := 0
	var starts []int // block starts (for cut generation), hdr sizes
	var hdrs []int
	for total < target {
		b := genBlk(t, target-total)
		c.Blocks = append(c.Blocks, b)
		for r := 0; r < b.Rep; r++ {
			if len(starts) < 200_000 {
				starts = append(starts, total)
				hdrs = append(hdrs, blkSize(b)-b.L)
			}
			total += blkSize(b)
		}
	}
	// read script
	ns := rapid.IntRange(1, 8).Draw(t, "nSteps")
	if rapid.IntRange(0, 9).Draw(t, "tinyOnly") == 0 {
		// the whole stream in reads of 1..5 bytes
		ns = 0
		for i := rapid.IntRange(1, 3).Draw(t, "nTiny"); i > 0; i-- {
			c.Steps = append(c.Steps, Step{N: rapid.IntRange(1, 5).Draw(t, "n"), Rep: rapid.IntRange(1, 50).Draw(t, "rep")})
		}
	}
	for i := 0; i < ns; i++ {
		var st Step
		switch rapid.IntRange(0, 9).Draw(t, "stepKind") {
		case 0:
			st.N = rapid.SampledFrom([]int{1, 2, 3, 4, 5, 9}).Draw(t, "n")
			st.Rep = rapid.IntRange(1, 30_000).Draw(t, "rep")
		case 1:
			st.N = 0
			st.Rep = rapid.IntRange(1, 3).Draw(t, "rep")
		case 2:
			st.N = rapid.IntRange(10, 300).Draw(t, "n")
			st.Rep = rapid.IntRange(1, 3000).Draw(t, "rep")
		case 3, 4:
			st.N = rapid.IntRange(300, 9000).Draw(t, "n") // about one block
			st.Rep = rapid.IntRange(1, 200).Draw(t, "rep")
		case 5, 6:
			st.N = rapid.IntRange(9000, 100_000).Draw(t, "n") // several blocks
			st.Rep = rapid.IntRange(1, 40).Draw(t, "rep")
		case 7:
			st.N = rapid.SampledFrom([]int{8799, 8800, 8801, 17600, recvBufSize - 8800, recvBufSize - 1, recvBufSize}).Draw(t, "n")
			st.Rep = rapid.IntRange(1, 10).Draw(t, "rep")
		default:
			st.N = -1 // as much as offered
			st.Rep = rapid.IntRange(1, 10).Draw(t, "rep")
		}
		c.Steps = append(c.Steps, st)
	}
	allZero := true
	for _, st := range c.Steps {
		if st.N != 0 {
			allZero = false
		}
	}
	if allZero {
		c.Steps = append(c.Steps, Step{N: -1, Rep: 1})
	}
	// forced cut points inside type / length fields (and at a few block boundaries)
	nc := rapid.IntRange(0, 40).Draw(t, "nCuts")
	for i := 0; i < nc && len(starts) > 0; i++ {
		k := rapid.IntRange(0, len(starts)-1).Draw(t, "cutBlock")
		d := rapid.IntRange(0, hdrs[k]-1).Draw(t, "cutInHeader")
		if starts[k]+d > 0 {
			c.Cuts = append(c.Cuts, starts[k]+d)
		}
	}
	if rapid.IntRange(0, 3).Draw(t, "trunc") == 0 {
		last := c.Blocks[len(c.Blocks)-1]
		c.Trunc = rapid.IntRange(1, blkSize(last)+blkSize(c.Blocks[0])).Draw(t, "truncBytes")
		if c.Trunc > total {
			c.Trunc = total
		}
	}
	if rapid.IntRange(0, 5).Draw(t, "ignErr") == 0 {
		c.IgnErr = rapid.IntRange(2, 50).Draw(t, "ignEvery")
		c.IgnData = rapid.Bool().Draw(t, "ignData")
	}
	if rapid.IntRange(0, 3).Draw(t, "sendFail") == 0 {
		c.SendFail = rapid.IntRange(1, 6).Draw(t, "sendFailAt")
	}
	return c
}

const ruleC11 = "a stream of well-formed TLV blocks (type in 1/3/5-byte form, total block size 2..8800, biased to 2..5, 250..262 and 8790..8800; 0.3-0.6 MB quick, up to 3 MB thorough, 5% short streams) served through a scripted Read sequence (runs of 1/2/3/4/5/9-byte reads, small, about one block, several blocks, 8799/8800/8801/buffer-size, as much as offered, zero-length reads, forced read ends inside type/length fields, optional EOF inside a block, optional ignorable errors - with or without bytes delivered by the same read). Non-trivial: stream longer than the 281 600-byte receive buffer AND >=1 read ending inside a type/length field AND >=1 read spanning >=2 blocks"

func TestC11Fw(t *testing.T) {
	rec := evid.New("C11", "TestC11Fw", "forwarder side readTlvStream: "+ruleC11)
	evid.Check(t, rec, genCase, execFw)
}
func TestC11FwReplay(t *testing.T)  { evid.Replay(t, "TestC11Fw", execFw) }
func TestC11FwRegress(t *testing.T) { evid.Regress(t, "C11", "TestC11Fw", execFw) }

func TestC11App(t *testing.T) {
	rec := evid.New("C11", "TestC11App", "application side StreamFace.Run over a net.Conn: "+ruleC11)
	evid.Check(t, rec, genCase, execApp)
}
func TestC11AppReplay(t *testing.T)  { evid.Replay(t, "TestC11App", execApp) }
func TestC11AppRegress(t *testing.T) { evid.Regress(t, "C11", "TestC11App", execApp) }
