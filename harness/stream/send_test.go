package stream

import (
	"encoding/binary"
	"fmt"
	"net"
	"runtime"
	"sync"
	"testing"
	"time"

	enc "github.com/named-data/ndnd/std/encoding"
	engface "github.com/named-data/ndnd/std/engine/face"
	"pgregory.net/rapid"

	"verif/harness/internal/evid"
	"verif/harness/internal/tlvwalk"
)

// TestC11AppSend: the sending half of the application-side stream face. "Sent over a stream
// face" includes StreamFace.Send, which several goroutines of an application call at once
// (the engine's Express and Reply run on the callers' goroutines) with wires of several
// buffers (header, name, content, signature as the encoders produce them): every block must
// reach the stream whole -- the buffers of two packets must never interleave.
// (Added after seeded defect C11-r3-1, a send mutex narrowed to one buffer, was missed.)

type SendCase struct {
	G     [][][]int `json:"g"`     // per goroutine, per wire: sizes of the value pieces; the first buffer also holds T and L
	Yield int       `json:"yield"` // the connection yields the processor after every n-th write (0: never)
	Procs int       `json:"procs"`
}

func genSendCase(t *rapid.T) SendCase {
	c := SendCase{Yield: rapid.SampledFrom([]int{0, 1, 1, 2, 3}).Draw(t, "yield"), Procs: rapid.SampledFrom([]int{1, 2, 4, 8}).Draw(t, "procs")}
	ng := rapid.IntRange(1, 6).Draw(t, "goroutines")
	for g := 0; g < ng; g++ {
		nw := rapid.IntRange(1, 40).Draw(t, "wires")
		var ws [][]int
		for w := 0; w < nw; w++ {
			nb := rapid.SampledFrom([]int{1, 2, 2, 3, 4}).Draw(t, "buffers")
			var bs []int
			for b := 0; b < nb; b++ {
				bs = append(bs, rapid.SampledFrom([]int{0, 1, 8, 8, 40, 300, 2000}).Draw(t, "size"))
			}
			ws = append(ws, bs)
		}
		c.G = append(c.G, ws)
	}
	return c
}

// recConn records every Write (one entry per call, in the order the calls were served).
type recConn struct {
	mu     sync.Mutex
	writes [][]byte
	n      int
	yield  int
}

func (c *recConn) Write(b []byte) (int, error) {
	c.mu.Lock()
	c.writes = append(c.writes, append([]byte{}, b...))
	c.n++
	y := c.yield > 0 && c.n%c.yield == 0
	c.mu.Unlock()
	if y {
		runtime.Gosched() // a real socket write is a scheduling point too
	}
	return len(b), nil
}
func (c *recConn) Read(b []byte) (int, error)         { select {} }
func (c *recConn) Close() error                       { return nil }
func (c *recConn) LocalAddr() net.Addr                { return &net.UnixAddr{Name: "l", Net: "unix"} }
func (c *recConn) RemoteAddr() net.Addr               { return &net.UnixAddr{Name: "r", Net: "unix"} }
func (c *recConn) SetDeadline(t time.Time) error      { return nil }
func (c *recConn) SetReadDeadline(t time.Time) error  { return nil }
func (c *recConn) SetWriteDeadline(t time.Time) error { return nil }

// mkWire builds block number seq of goroutine g: type 6, value = g, seq, then filler; split
// into buffers as the case says.
func mkWire(g, seq int, pieces []int) (enc.Wire, []byte) {
	total := 8
	for _, p := range pieces {
		total += p
	}
	val := make([]byte, total)
	binary.BigEndian.PutUint32(val[0:], uint32(g))
	binary.BigEndian.PutUint32(val[4:], uint32(seq))
	for i := 8; i < total; i++ {
		val[i] = byte(g*31 + seq*7 + i)
	}
	hdr := tlvwalk.AppendVarNum([]byte{6}, uint64(total))
	whole := append(append([]byte{}, hdr...), val...)
	var w enc.Wire
	off := 0
	for i, p := range pieces {
		n := p
		if i == 0 {
			n += 8
		}
		buf := append([]byte{}, val[off:off+n]...)
		if i == 0 {
			buf = append(append([]byte{}, hdr...), buf...)
		}
		w = append(w, buf)
		off += n
	}
	return w, whole
}

func execSend(c SendCase) (res evid.Result) {
	old := runtime.GOMAXPROCS(c.Procs)
	defer runtime.GOMAXPROCS(old)
	conn := &recConn{yield: c.Yield}
	f := engface.VerifNewStreamFaceOnConn(conn, true)
	type sent struct{ whole []byte }
	want := make([][]sent, len(c.G))
	wires := make([][]enc.Wire, len(c.G))
	multi := false
	for g, ws := range c.G {
		for s, pieces := range ws {
			w, whole := mkWire(g, s, pieces)
			wires[g] = append(wires[g], w)
			want[g] = append(want[g], sent{whole})
			if len(w) > 1 {
				multi = true
			}
		}
	}
	start := make(chan struct{})
	var wg sync.WaitGroup
	errs := make([]error, len(c.G))
	for g := range c.G {
		wg.Add(1)
		go func(g int) {
			defer wg.Done()
			defer func() {
				if r := recover(); r != nil {
					errs[g] = fmt.Errorf("panic in Send: %v", r)
				}
			}()
			<-start
			for _, w := range wires[g] {
				if err := f.Send(w); err != nil {
					errs[g] = fmt.Errorf("Send failed on a running face: %v", err)
					return
				}
			}
		}(g)
	}
	close(start)
	wg.Wait()
	for _, e := range errs {
		if e != nil {
			res.Err = e
			return res
		}
	}
	// the stream as the peer sees it
	var stream []byte
	for _, w := range conn.writes {
		stream = append(stream, w...)
	}
	next := make([]int, len(c.G))
	switches := 0
	lastG := -1
	for off, k := 0, 0; off < len(stream); k++ {
		tlv, perr := tlvwalk.Parse(stream, off)
		if perr != nil || tlv.Type != 6 || tlv.End-tlv.ValOff < 8 {
			res.Err = fmt.Errorf("block #%d at stream offset %d is not one of the blocks that were sent (%v; %d bytes left): the buffers of two packets were interleaved", k, off, perr, len(stream)-off)
			return res
		}
		tl, ll := tlv.TypeSize, tlv.LenSize
		blk := tlv.Bytes(stream)
		g := int(binary.BigEndian.Uint32(blk[tl+ll:]))
		s := int(binary.BigEndian.Uint32(blk[tl+ll+4:]))
		if g < 0 || g >= len(c.G) || s != next[g] || string(want[g][s].whole) != string(blk) {
			res.Err = fmt.Errorf("block #%d at stream offset %d (claims sender %d, number %d; sender's next is %d) is not byte-identical to the block that was sent: split, merged, reordered or corrupted", k, off, g, s, func() int {
				if g >= 0 && g < len(next) {
					return next[g]
				}
				return -1
			}())
			return res
		}
		next[g]++
		if lastG >= 0 && lastG != g {
			switches++
		}
		lastG = g
		off += len(blk)
	}
	for g := range c.G {
		if next[g] != len(c.G[g]) {
			res.Err = fmt.Errorf("sender %d sent %d blocks, %d arrived", g, len(c.G[g]), next[g])
			return res
		}
	}
	res.NonTrivial = len(c.G) >= 2 && multi && switches >= 2
	if switches >= 2 {
		res.Classes = append(res.Classes, "senders-alternated")
	}
	if multi {
		res.Classes = append(res.Classes, "multi-buffer-wires")
	}
	return res
}

const ruleSend = "1..6 goroutines released together, each sending 1..40 blocks through StreamFace.Send as wires of 1..4 buffers (the first holding type and length) over a recording connection that yields the processor after every n-th write, GOMAXPROCS 1..8; the recorded stream must split into exactly the blocks sent, byte-identical, each sender's in order, none missing. Non-trivial: >= 2 senders, >= 1 multi-buffer wire, and the senders alternated on the stream at least twice; distinct by case hash"

func TestC11AppSend(t *testing.T) {
	rec := evid.New("C11", "TestC11AppSend", ruleSend)
	evid.Check(t, rec, genSendCase, execSend)
}

func TestC11AppSendReplay(t *testing.T) { evid.Replay(t, "TestC11AppSend", execSend) }
