// Package modelscan discovers the TLV models produced by the repository's code generator
// (std/cmd/gondn_tlv_gen) and gives the checks a uniform, typed handle on each of them.
//
// Two halves:
//
//   - Scan (this file) parses every zz_generated.go under the repository *at check time*
//     (go/parser, nothing is executed) and lists the models it finds: a model is a name X for
//     which the file declares both `type XEncoder struct` and `type XParsingContext struct`.
//     For each model the scan also extracts what the checks need to know about it and cannot
//     get by reflection: the TLV type numbers its parse loop recognises, whether the loop is
//     the `ordered` variant, whether public Parse/Encode wrappers exist.
//
//   - registry_gen.go (written by cmd/mkregistry from the same scan) holds the static
//     references (constructors, Encoder.Init/Encode, ParsingContext.Init/Parse) that Go needs at
//     compile time. Because the test binary is compiled before it runs, the compiled registry
//     can lag behind the tree; Reconcile compares it with a fresh scan so that the checks can
//     report "discovered vs covered" and refuse to call a shrunken coverage a success.
package modelscan

import (
	"bufio"
	"fmt"
	"go/ast"
	"go/parser"
	"go/token"
	"os"
	"path/filepath"
	"regexp"
	"sort"
	"strconv"
	"strings"
)

// GeneratedFileName is the file name the generator writes.
const GeneratedFileName = "zz_generated.go"

// RepoDir is the checkout the harness was pointed at (VERIF_REPO, default /repo). The driver
// builds the test binary against the same directory.
func RepoDir() string {
	if d := os.Getenv("VERIF_REPO"); d != "" {
		abs, err := filepath.Abs(d)
		if err == nil {
			return abs
		}
		return d
	}
	return "/repo"
}

// Info is what the source scan knows about one generated model.
type Info struct {
	ImportPath string   `json:"pkg"`   // Go import path of the package
	Dir        string   `json:"dir"`   // directory relative to the repository root
	PkgName    string   `json:"pname"` // package clause
	Name       string   `json:"name"`  // model (struct) name
	Types      []uint64 `json:"types"` // type numbers recognised by the parse switch (incl. map value types)
	MapVals    []uint64 `json:"mapv,omitempty"`
	Ordered    bool     `json:"ordered,omitempty"`
	NoCopy     bool     `json:"nocopy,omitempty"` // encoder has a wirePlan
	PubParse   bool     `json:"pubparse,omitempty"`
	PubEncode  bool     `json:"pubencode,omitempty"`
	// Fields are the annotated (`//+field:…`) fields of the definition struct, in order; nil
	// when the definition could not be found next to the generated file.
	Fields []Field `json:"fields,omitempty"`
	// Options is the `+tlv-model:` option list of the definition (private, nocopy, ordered, dict).
	Options string `json:"opts,omitempty"`
	// Unreachable is non-empty when the harness (an external package) cannot refer to the
	// model: unexported name, internal/ directory, package main, _test package.
	Unreachable string `json:"unreachable,omitempty"`
}

// Field is one annotated field of a model definition.
type Field struct {
	Name string `json:"n"`
	Type uint64 `json:"t"`    // TLV type number from the `tlv:"…"` tag (0: none)
	Spec string `json:"spec"` // text after `+field:` (kind and arguments)
}

// Kind is the field class of the annotation (natural, fixedUint, time, binary, string, wire,
// name, bool, procedureArgument, offsetMarker, rangeMarker, sequence, struct, signature,
// interestName, map).
func (f Field) Kind() string {
	if i := strings.Index(f.Spec, ":"); i >= 0 {
		return f.Spec[:i]
	}
	return f.Spec
}

// FieldByName finds an annotated field.
func (i Info) FieldByName(n string) (Field, bool) {
	for _, f := range i.Fields {
		if f.Name == n {
			return f, true
		}
	}
	return Field{}, false
}

// Key identifies a model across scan and registry.
func (i Info) Key() string { return i.ImportPath + "." + i.Name }

// GeneratedDir is a directory carrying a `//go:generate gondn_tlv_gen` directive.
type GeneratedDir struct {
	Dir       string   // relative to the repository root
	Args      []string // arguments after the command name in the directive
	Directive string   // file holding the directive, relative to the repository root
}

// ScanResult is everything one pass over the tree found.
type ScanResult struct {
	Repo      string
	Module    string
	Files     []string // zz_generated.go files, relative
	Models    []Info   // sorted by Key
	GenDirs   []GeneratedDir
	Anomalies []string // things that look like half a model (Encoder without ParsingContext, …)
}

func modulePath(repo string) (string, error) {
	f, err := os.Open(filepath.Join(repo, "go.mod"))
	if err != nil {
		return "", err
	}
	defer f.Close()
	sc := bufio.NewScanner(f)
	for sc.Scan() {
		line := strings.TrimSpace(sc.Text())
		if strings.HasPrefix(line, "module ") {
			return strings.Trim(strings.TrimSpace(strings.TrimPrefix(line, "module ")), `"`), nil
		}
	}
	return "", fmt.Errorf("no module line in %s/go.mod", repo)
}

func skipDir(name string) bool {
	return name == ".git" || name == "node_modules" || name == "vendor" || name == "testdata" || strings.HasPrefix(name, "_")
}

// Scan walks repo and parses every generated file and every go:generate directive.
func Scan(repo string) (*ScanResult, error) {
	mod, err := modulePath(repo)
	if err != nil {
		return nil, err
	}
	res := &ScanResult{Repo: repo, Module: mod}
	err = filepath.WalkDir(repo, func(p string, d os.DirEntry, err error) error {
		if err != nil {
			return err
		}
		if d.IsDir() {
			if p != repo && skipDir(d.Name()) {
				return filepath.SkipDir
			}
			return nil
		}
		if !strings.HasSuffix(d.Name(), ".go") {
			return nil
		}
		rel, _ := filepath.Rel(repo, p)
		if d.Name() == GeneratedFileName {
			res.Files = append(res.Files, rel)
			ms, an, err := scanGenerated(repo, mod, rel)
			if err != nil {
				return err
			}
			res.Models = append(res.Models, ms...)
			res.Anomalies = append(res.Anomalies, an...)
			return nil
		}
		if gd, ok := scanDirective(p); ok {
			gd.Dir = filepath.Dir(rel)
			gd.Directive = rel
			res.GenDirs = append(res.GenDirs, gd)
		}
		return nil
	})
	if err != nil {
		return nil, err
	}
	sort.Strings(res.Files)
	sort.Slice(res.Models, func(i, j int) bool { return res.Models[i].Key() < res.Models[j].Key() })
	sort.Slice(res.GenDirs, func(i, j int) bool { return res.GenDirs[i].Dir < res.GenDirs[j].Dir })
	return res, nil
}

// scanDirective looks for `//go:generate gondn_tlv_gen …` in the leading part of a file.
func scanDirective(path string) (GeneratedDir, bool) {
	f, err := os.Open(path)
	if err != nil {
		return GeneratedDir{}, false
	}
	defer f.Close()
	sc := bufio.NewScanner(f)
	sc.Buffer(make([]byte, 1<<20), 1<<20)
	for sc.Scan() {
		line := sc.Text()
		if !strings.HasPrefix(line, "//go:generate ") {
			continue
		}
		fs := strings.Fields(strings.TrimPrefix(line, "//go:generate "))
		if len(fs) > 0 && filepath.Base(fs[0]) == "gondn_tlv_gen" {
			return GeneratedDir{Args: fs[1:]}, true
		}
	}
	return GeneratedDir{}, false
}

func scanGenerated(repo, mod, rel string) (models []Info, anomalies []string, err error) {
	fset := token.NewFileSet()
	f, err := parser.ParseFile(fset, filepath.Join(repo, rel), nil, parser.SkipObjectResolution)
	if err != nil {
		return nil, nil, fmt.Errorf("parse %s: %w", rel, err)
	}
	dir := filepath.Dir(rel)
	imp := mod
	if dir != "." {
		imp = mod + "/" + filepath.ToSlash(dir)
	}
	encoders := map[string]*ast.StructType{}
	contexts := map[string]bool{}
	var order []string
	parseFns := map[string]*ast.FuncDecl{} // model -> ParsingContext.Parse
	pubParse := map[string]bool{}
	pubEncode := map[string]bool{}
	for _, d := range f.Decls {
		switch d := d.(type) {
		case *ast.GenDecl:
			if d.Tok != token.TYPE {
				continue
			}
			for _, s := range d.Specs {
				ts := s.(*ast.TypeSpec)
				st, ok := ts.Type.(*ast.StructType)
				if !ok {
					continue
				}
				n := ts.Name.Name
				if strings.HasSuffix(n, "Encoder") && len(n) > len("Encoder") {
					m := strings.TrimSuffix(n, "Encoder")
					encoders[m] = st
					order = append(order, m)
				} else if strings.HasSuffix(n, "ParsingContext") && len(n) > len("ParsingContext") {
					contexts[strings.TrimSuffix(n, "ParsingContext")] = true
				}
			}
		case *ast.FuncDecl:
			if d.Recv == nil {
				if strings.HasPrefix(d.Name.Name, "Parse") {
					pubParse[strings.TrimPrefix(d.Name.Name, "Parse")] = true
				}
				continue
			}
			rt := recvTypeName(d)
			switch {
			case d.Name.Name == "Parse" && strings.HasSuffix(rt, "ParsingContext"):
				parseFns[strings.TrimSuffix(rt, "ParsingContext")] = d
			case d.Name.Name == "Encode" && !strings.HasSuffix(rt, "Encoder"):
				pubEncode[rt] = true
			}
		}
	}
	for _, m := range order {
		if !contexts[m] {
			anomalies = append(anomalies, fmt.Sprintf("%s: %sEncoder has no %sParsingContext", rel, m, m))
			continue
		}
		fn := parseFns[m]
		if fn == nil {
			anomalies = append(anomalies, fmt.Sprintf("%s: %sParsingContext has no Parse method", rel, m))
			continue
		}
		in := Info{ImportPath: imp, Dir: filepath.ToSlash(dir), PkgName: f.Name.Name, Name: m,
			PubParse: pubParse[m], PubEncode: pubEncode[m]}
		for _, fl := range encoders[m].Fields.List {
			for _, nm := range fl.Names {
				if nm.Name == "wirePlan" {
					in.NoCopy = true
				}
			}
		}
		in.Types, in.MapVals, in.Ordered = parseLoopFacts(fn)
		switch {
		case !ast.IsExported(m):
			in.Unreachable = "unexported model type"
		case f.Name.Name == "main":
			in.Unreachable = "package main"
		case strings.HasSuffix(f.Name.Name, "_test"):
			in.Unreachable = "external test package"
		case hasInternalElem(dir):
			in.Unreachable = "internal/ package"
		}
		models = append(models, in)
	}
	defs := scanDefinitions(filepath.Join(repo, dir), f.Name.Name)
	for i := range models {
		if d, ok := defs[models[i].Name]; ok {
			models[i].Fields, models[i].Options = d.fields, d.options
		} else {
			anomalies = append(anomalies, fmt.Sprintf("%s: no definition struct found for model %s", rel, models[i].Name))
		}
	}
	for m := range contexts {
		if _, ok := encoders[m]; !ok {
			anomalies = append(anomalies, fmt.Sprintf("%s: %sParsingContext has no %sEncoder", rel, m, m))
		}
	}
	sort.Strings(anomalies)
	return models, anomalies, nil
}

func hasInternalElem(dir string) bool {
	for _, e := range strings.Split(filepath.ToSlash(dir), "/") {
		if e == "internal" {
			return true
		}
	}
	return false
}

func recvTypeName(d *ast.FuncDecl) string {
	if d.Recv == nil || len(d.Recv.List) == 0 {
		return ""
	}
	t := d.Recv.List[0].Type
	if s, ok := t.(*ast.StarExpr); ok {
		t = s.X
	}
	if id, ok := t.(*ast.Ident); ok {
		return id.Name
	}
	return ""
}

func litUint(e ast.Expr) (uint64, bool) {
	bl, ok := e.(*ast.BasicLit)
	if !ok || bl.Kind != token.INT {
		return 0, false
	}
	v, err := strconv.ParseUint(bl.Value, 0, 64)
	return v, err == nil
}

// parseLoopFacts reads the generated parse loop: the `switch typ` case labels are the type
// numbers the model recognises at its own level; `typ != N` comparisons are the value types
// of map fields; the ordered variant wraps the switch in `for handled := false; …; progress++`.
// mentionsTyp: the switch is over the element type, however the tag is spelled (typ, uint32(typ), ...).
func mentionsTyp(e ast.Expr) bool {
	found := false
	if e == nil {
		return false
	}
	ast.Inspect(e, func(n ast.Node) bool {
		if id, ok := n.(*ast.Ident); ok && id.Name == "typ" {
			found = true
		}
		return !found
	})
	return found
}

func parseLoopFacts(fn *ast.FuncDecl) (types, mapVals []uint64, ordered bool) {
	seen := map[uint64]bool{}
	ast.Inspect(fn.Body, func(n ast.Node) bool {
		switch n := n.(type) {
		case *ast.SwitchStmt:
			if mentionsTyp(n.Tag) {
				for _, c := range n.Body.List {
					for _, e := range c.(*ast.CaseClause).List {
						if v, ok := litUint(e); ok && !seen[v] {
							seen[v] = true
							types = append(types, v)
						}
					}
				}
			}
		case *ast.BinaryExpr:
			if id, ok := n.X.(*ast.Ident); ok && id.Name == "typ" && (n.Op == token.NEQ || n.Op == token.EQL) {
				if v, ok := litUint(n.Y); ok {
					mapVals = append(mapVals, v)
					if !seen[v] {
						seen[v] = true
						types = append(types, v)
					}
				}
			}
		case *ast.ForStmt:
			if inc, ok := n.Post.(*ast.IncDecStmt); ok {
				if id, ok := inc.X.(*ast.Ident); ok && id.Name == "progress" {
					ordered = true
				}
			}
		}
		return true
	})
	sort.Slice(types, func(i, j int) bool { return types[i] < types[j] })
	return
}

type definition struct {
	fields  []Field
	options string
}

var tagRe = regexp.MustCompile(`tlv:"([0-9a-fA-FxX]+)"`)

func docValue(doc *ast.CommentGroup, indicator string) string {
	if doc == nil {
		return ""
	}
	for _, c := range doc.List {
		for _, prefix := range []string{"//+" + indicator + ":", "// +" + indicator + ":"} {
			if strings.HasPrefix(c.Text, prefix) {
				return strings.TrimSpace(c.Text[len(prefix):])
			}
		}
	}
	return ""
}

// scanDefinitions reads the hand-written struct definitions of a package directory (every
// .go file of the package except the generated one) the way the generator's front end does:
// a struct type declaration whose fields carry `//+field:` comments.
func scanDefinitions(dir, pkgName string) map[string]definition {
	out := map[string]definition{}
	ents, err := os.ReadDir(dir)
	if err != nil {
		return out
	}
	fset := token.NewFileSet()
	for _, e := range ents {
		if e.IsDir() || !strings.HasSuffix(e.Name(), ".go") || e.Name() == GeneratedFileName {
			continue
		}
		f, err := parser.ParseFile(fset, filepath.Join(dir, e.Name()), nil, parser.ParseComments|parser.SkipObjectResolution)
		if err != nil || f.Name.Name != pkgName {
			continue
		}
		for _, d := range f.Decls {
			gd, ok := d.(*ast.GenDecl)
			if !ok || gd.Tok != token.TYPE || len(gd.Specs) == 0 {
				continue
			}
			ts, ok := gd.Specs[0].(*ast.TypeSpec)
			if !ok {
				continue
			}
			st, ok := ts.Type.(*ast.StructType)
			if !ok || st.Fields == nil {
				continue
			}
			def := definition{options: docValue(gd.Doc, "tlv-model")}
			for _, fl := range st.Fields.List {
				if len(fl.Names) == 0 {
					continue
				}
				spec := docValue(fl.Doc, "field")
				if spec == "" {
					continue
				}
				fd := Field{Name: fl.Names[0].Name, Spec: spec}
				if fl.Tag != nil {
					if m := tagRe.FindStringSubmatch(fl.Tag.Value); len(m) > 1 {
						fd.Type, _ = strconv.ParseUint(m[1], 0, 64)
					}
				}
				def.fields = append(def.fields, fd)
			}
			if len(def.fields) > 0 {
				out[ts.Name.Name] = def
			}
		}
	}
	return out
}
