// Package tlvwalk is an independent, minimal TLV walker and encoder written from the NDN
// packet format specification (https://docs.named-data.net/NDN-packet-spec/current/tlv.html),
// used by the checks as the reference for "is this byte string a well-formed TLV".
//
// It NEVER imports github.com/named-data/ndnd/std/encoding (or any other package of the
// repository under test): everything here is derived from the specification only.
//
// The format (section "Variable Size Encoding for Type and Length"):
//
//	TLV        = TYPE LENGTH VALUE          (VALUE is exactly LENGTH bytes)
//	VAR-NUMBER = one byte b < 253                      -> the number b
//	           | 0xFD followed by 2 bytes big endian    -> numbers 253 .. 65535
//	           | 0xFE followed by 4 bytes big endian    -> numbers 65536 .. 2^32-1
//	           | 0xFF followed by 8 bytes big endian    -> numbers 2^32 .. 2^64-1
//	TYPE, LENGTH are VAR-NUMBERs and MUST use the shortest of the four forms.
//	TYPE is in 1 .. 2^32-1 (0 is reserved/invalid).
//	A TYPE <= 31, or an odd TYPE, is "critical"; other types may be ignored if unknown.
//	NonNegativeInteger values are 1, 2, 4 or 8 bytes big endian.
//
// API overview (stable; other check packages depend on it):
//
//	ReadVarNum / VarNumSize / AppendVarNum / AppendVarNumSized     var-numbers
//	AppendTLV / EncodeTLV / AppendNNI / EncodeNNI / ParseNNI        encoding
//	Parse(buf, off)            one TLV header at an offset (non-shortest forms are
//	                           reported in the flags, not as an error)
//	ParseOne(buf)              buf must be exactly one TLV (nothing trailing)
//	Children(buf, start, end)  the TLVs that tile buf[start:end] exactly
//	Tree(buf, isContainer)     recursive parse of exactly one TLV into Nodes
//	Forest(buf, isContainer)   same for a sequence of TLVs that tiles buf
//	Check(buf, isContainer)    full well-formedness: shortest forms, exact nesting,
//	                           nothing trailing, type != 0
//	Fields(buf, isContainer)   every TYPE and LENGTH field position, recursively
//	(*Node).Walk / Find / FindAll / Child
//	Containers(types...) / NDNContainer                             predicates
package tlvwalk

import (
	"encoding/binary"
	"errors"
	"fmt"
)

// ---------------------------------------------------------------------------- var-numbers

// Errors returned by the parser. ErrTruncated*: the buffer ends inside a header or a
// value. ErrNotShortest / ErrTrailing / ErrZeroType are only returned by the strict
// functions (Check, Tree with strict predicate use, ParseOne for trailing bytes).
var (
	ErrTruncatedHeader = errors.New("tlvwalk: buffer ends inside a TLV type or length field")
	ErrTruncatedValue  = errors.New("tlvwalk: TLV length runs past the end of the enclosing range")
	ErrNotShortest     = errors.New("tlvwalk: type or length var-number is not in shortest form")
	ErrTrailing        = errors.New("tlvwalk: bytes trail after the TLV")
	ErrZeroType        = errors.New("tlvwalk: TLV type 0 is invalid")
	ErrEmpty           = errors.New("tlvwalk: empty input")
	ErrBadNNI          = errors.New("tlvwalk: non-negative integer value is not 1, 2, 4 or 8 bytes")
)

// VarNumSize returns the size (1, 3, 5 or 9) of the shortest var-number form of v.
func VarNumSize(v uint64) int {
	switch {
	case v < 253:
		return 1
	case v <= 0xffff:
		return 3
	case v <= 0xffffffff:
		return 5
	default:
		return 9
	}
}

// AppendVarNum appends v in shortest form.
func AppendVarNum(dst []byte, v uint64) []byte {
	return AppendVarNumSized(dst, v, VarNumSize(v))
}

// AppendVarNumSized appends v using the form that is size (1, 3, 5 or 9) bytes long, even
// if that is not the shortest one (for building deliberately non-canonical inputs). It
// panics if v does not fit the form or size is not one of the four sizes.
func AppendVarNumSized(dst []byte, v uint64, size int) []byte {
	switch size {
	case 1:
		if v >= 253 {
			panic("tlvwalk: value does not fit a 1-byte var-number")
		}
		return append(dst, byte(v))
	case 3:
		if v > 0xffff {
			panic("tlvwalk: value does not fit a 3-byte var-number")
		}
		return append(dst, 0xfd, byte(v>>8), byte(v))
	case 5:
		if v > 0xffffffff {
			panic("tlvwalk: value does not fit a 5-byte var-number")
		}
		return append(dst, 0xfe, byte(v>>24), byte(v>>16), byte(v>>8), byte(v))
	case 9:
		var b [8]byte
		binary.BigEndian.PutUint64(b[:], v)
		return append(append(dst, 0xff), b[:]...)
	}
	panic("tlvwalk: var-number size must be 1, 3, 5 or 9")
}

// ReadVarNum reads one var-number at buf[off:]. n is its size; shortest reports whether it
// is the shortest form of v. err is ErrTruncatedHeader if buf ends inside it.
func ReadVarNum(buf []byte, off int) (v uint64, n int, shortest bool, err error) {
	if off < 0 || off >= len(buf) {
		return 0, 0, false, ErrTruncatedHeader
	}
	b := buf[off]
	switch {
	case b < 253:
		return uint64(b), 1, true, nil
	case b == 0xfd:
		n = 3
	case b == 0xfe:
		n = 5
	default:
		n = 9
	}
	if off+n > len(buf) {
		return 0, 0, false, ErrTruncatedHeader
	}
	for _, x := range buf[off+1 : off+n] {
		v = v<<8 | uint64(x)
	}
	return v, n, VarNumSize(v) == n, nil
}

// ---------------------------------------------------------------------------- encoding

// AppendTLV appends TYPE LENGTH VALUE (shortest forms) where VALUE is the concatenation
// of the given pieces.
func AppendTLV(dst []byte, typ uint64, value ...[]byte) []byte {
	l := 0
	for _, v := range value {
		l += len(v)
	}
	dst = AppendVarNum(dst, typ)
	dst = AppendVarNum(dst, uint64(l))
	for _, v := range value {
		dst = append(dst, v...)
	}
	return dst
}

// EncodeTLV returns a fresh TYPE LENGTH VALUE.
func EncodeTLV(typ uint64, value ...[]byte) []byte {
	return AppendTLV(nil, typ, value...)
}

// EncodeNNI returns the shortest NonNegativeInteger encoding (1, 2, 4 or 8 bytes) of v.
func EncodeNNI(v uint64) []byte {
	switch {
	case v <= 0xff:
		return []byte{byte(v)}
	case v <= 0xffff:
		return []byte{byte(v >> 8), byte(v)}
	case v <= 0xffffffff:
		return []byte{byte(v >> 24), byte(v >> 16), byte(v >> 8), byte(v)}
	default:
		var b [8]byte
		binary.BigEndian.PutUint64(b[:], v)
		return b[:]
	}
}

// AppendNNI appends a TLV whose value is the shortest NonNegativeInteger encoding of v.
func AppendNNI(dst []byte, typ uint64, v uint64) []byte {
	return AppendTLV(dst, typ, EncodeNNI(v))
}

// ParseNNI decodes a NonNegativeInteger value (1, 2, 4 or 8 bytes). shortest reports
// whether the shortest of the four sizes was used.
func ParseNNI(val []byte) (v uint64, shortest bool, err error) {
	switch len(val) {
	case 1, 2, 4, 8:
	default:
		return 0, false, ErrBadNNI
	}
	for _, x := range val {
		v = v<<8 | uint64(x)
	}
	return v, len(EncodeNNI(v)) == len(val), nil
}

// IsCritical reports whether an unknown element of this type must cause a decoding error
// (type <= 31 or odd) according to the evolvability rule of the specification.
func IsCritical(typ uint64) bool { return typ <= 31 || typ&1 == 1 }

// ---------------------------------------------------------------------------- one TLV

// TLV describes one element found in a buffer. All offsets are absolute in that buffer.
type TLV struct {
	Off      int    // offset of the first byte of the TYPE field
	Type     uint64 // type number
	Len      uint64 // announced length of the value
	TypeSize int    // size of the TYPE field (1, 3, 5, 9)
	LenSize  int    // size of the LENGTH field (1, 3, 5, 9)
	TypeMin  bool   // TYPE is in shortest form
	LenMin   bool   // LENGTH is in shortest form
	ValOff   int    // offset of the first value byte = Off + TypeSize + LenSize
	End      int    // offset just past the value = ValOff + Len
}

// HdrSize is the size of TYPE plus LENGTH.
func (t TLV) HdrSize() int { return t.TypeSize + t.LenSize }

// Size is the size of the whole element.
func (t TLV) Size() int { return t.End - t.Off }

// LenOff is the offset of the first byte of the LENGTH field.
func (t TLV) LenOff() int { return t.Off + t.TypeSize }

// Shortest reports whether both TYPE and LENGTH use the shortest form.
func (t TLV) Shortest() bool { return t.TypeMin && t.LenMin }

// Value returns the value bytes (a sub-slice of buf).
func (t TLV) Value(buf []byte) []byte { return buf[t.ValOff:t.End] }

// Bytes returns the whole element (a sub-slice of buf).
func (t TLV) Bytes(buf []byte) []byte { return buf[t.Off:t.End] }

// Parse parses one TLV whose TYPE starts at buf[off]; the element must end at or before
// len(buf). Non-shortest var-numbers are accepted and reported through TypeMin/LenMin.
func Parse(buf []byte, off int) (TLV, error) { return ParseIn(buf, off, len(buf)) }

// ParseIn is Parse with an explicit limit: the element must end at or before limit
// (limit <= len(buf)).
func ParseIn(buf []byte, off, limit int) (TLV, error) {
	if limit > len(buf) {
		limit = len(buf)
	}
	if off < 0 || off >= limit {
		return TLV{}, ErrTruncatedHeader
	}
	view := buf[:limit]
	t := TLV{Off: off}
	var err error
	if t.Type, t.TypeSize, t.TypeMin, err = ReadVarNum(view, off); err != nil {
		return TLV{}, err
	}
	if t.Len, t.LenSize, t.LenMin, err = ReadVarNum(view, off+t.TypeSize); err != nil {
		return TLV{}, err
	}
	t.ValOff = off + t.TypeSize + t.LenSize
	if t.Len > uint64(limit-t.ValOff) {
		return TLV{}, ErrTruncatedValue
	}
	t.End = t.ValOff + int(t.Len)
	return t, nil
}

// ParseOne requires buf to be exactly one TLV: ErrTrailing if bytes follow it.
func ParseOne(buf []byte) (TLV, error) {
	if len(buf) == 0 {
		return TLV{}, ErrEmpty
	}
	t, err := Parse(buf, 0)
	if err != nil {
		return TLV{}, err
	}
	if t.End != len(buf) {
		return t, ErrTrailing
	}
	return t, nil
}

// Children parses the sequence of TLVs that must tile buf[start:end] exactly (each
// element's length exact, the last one ending at end). An empty range has no children.
func Children(buf []byte, start, end int) ([]TLV, error) {
	var out []TLV
	for off := start; off < end; {
		t, err := ParseIn(buf, off, end)
		if err != nil {
			return out, fmt.Errorf("at offset %d: %w", off, err)
		}
		out = append(out, t)
		off = t.End
	}
	return out, nil
}

// ---------------------------------------------------------------------------- trees

// IsContainer decides whether the value of an element is itself a sequence of TLVs. path
// holds the types from the outermost element down to and including the element asked
// about (len(path) >= 1), so that context-dependent decisions are possible (type 7 is a
// Name almost everywhere, but the children of a Name -- the components -- never nest).
type IsContainer func(path []uint64) bool

// Containers returns a context-free predicate: an element is a container iff its type is
// one of types.
func Containers(types ...uint64) IsContainer {
	set := make(map[uint64]bool, len(types))
	for _, t := range types {
		set[t] = true
	}
	return func(path []uint64) bool { return set[path[len(path)-1]] }
}

// NDN type numbers used by NDNContainer (NDN packet specification 0.3 and NDNLPv2).
const (
	TInterest            = 0x05
	TData                = 0x06
	TName                = 0x07
	TGenericComponent    = 0x08
	TImplicitDigest      = 0x01
	TParamsDigest        = 0x02
	TCanBePrefix         = 0x21
	TMustBeFresh         = 0x12
	TForwardingHint      = 0x1e
	TNonce               = 0x0a
	TInterestLifetime    = 0x0c
	THopLimit            = 0x22
	TAppParameters       = 0x24
	TInterestSigInfo     = 0x2c
	TInterestSigValue    = 0x2e
	TMetaInfo            = 0x14
	TContent             = 0x15
	TSignatureInfo       = 0x16
	TSignatureValue      = 0x17
	TContentType         = 0x18
	TFreshnessPeriod     = 0x19
	TFinalBlockId        = 0x1a
	TSignatureType       = 0x1b
	TKeyLocator          = 0x1c
	TKeyDigest           = 0x1d
	TSignatureNonce      = 0x26
	TSignatureTime       = 0x28
	TSignatureSeqNum     = 0x2a
	TValidityPeriod      = 0xfd
	TNotBefore           = 0xfe
	TNotAfter            = 0xff
	TAdditionalDescr     = 0x0102
	TDescriptionEntry    = 0x0200
	TDescriptionKey      = 0x0201
	TDescriptionValue    = 0x0202
	TLpPacket            = 0x64
	TLpFragment          = 0x50
	TLpSequence          = 0x51
	TLpFragIndex         = 0x52
	TLpFragCount         = 0x53
	TLpPitToken          = 0x62
	TLpNack              = 0x0320
	TLpNackReason        = 0x0321
	TLpIncomingFaceId    = 0x032c
	TLpNextHopFaceId     = 0x0330
	TLpCachePolicy       = 0x0334
	TLpCachePolicyType   = 0x0335
	TLpCongestionMark    = 0x0340
	TLpAck               = 0x0344
	TLpTxSequence        = 0x0348
	TLpNonDiscovery      = 0x034c
	TLpPrefixAnnouncemnt = 0x0350
)

// NDNContainer is the container predicate of NDN network-layer packets and NDNLPv2
// frames: Interest, Data, Name (but not name components), ForwardingHint, MetaInfo,
// FinalBlockId (holds one component), both SignatureInfo elements, KeyLocator,
// ValidityPeriod, AdditionalDescription and its entries, LpPacket, Nack, CachePolicy.
// ApplicationParameters, Content, signature values and the LpPacket Fragment are opaque.
func NDNContainer(path []uint64) bool {
	n := len(path)
	if n >= 2 {
		switch path[n-2] {
		case TName, TFinalBlockId:
			return false // name components never nest
		}
	}
	switch path[n-1] {
	case TInterest, TData, TName, TForwardingHint, TMetaInfo, TFinalBlockId, TSignatureInfo,
		TInterestSigInfo, TKeyLocator, TValidityPeriod, TAdditionalDescr, TDescriptionEntry,
		TLpPacket, TLpNack, TLpCachePolicy:
		return true
	}
	return false
}

// Node is one element of a parsed tree.
type Node struct {
	TLV
	Depth     int      // 0 for the outermost element
	Path      []uint64 // types from the outermost element down to this one
	Container bool     // the predicate said its value is a TLV sequence
	Children  []*Node  // only for containers
}

// Tree parses buf as exactly one TLV (nothing trailing) and recursively every element the
// predicate declares a container; nested lengths must be exact. Non-shortest var-numbers do
// NOT make Tree fail (inspect them through TLV.Shortest or use Check).
func Tree(buf []byte, isContainer IsContainer) (*Node, error) {
	t, err := ParseOne(buf)
	if err != nil {
		return nil, err
	}
	return build(buf, t, nil, isContainer)
}

// Forest parses buf as a sequence of TLVs that tiles it exactly, each one as in Tree.
func Forest(buf []byte, isContainer IsContainer) ([]*Node, error) {
	tl, err := Children(buf, 0, len(buf))
	if err != nil {
		return nil, err
	}
	out := make([]*Node, 0, len(tl))
	for _, t := range tl {
		n, err := build(buf, t, nil, isContainer)
		if err != nil {
			return out, err
		}
		out = append(out, n)
	}
	return out, nil
}

func build(buf []byte, t TLV, parent []uint64, isContainer IsContainer) (*Node, error) {
	path := make([]uint64, len(parent)+1)
	copy(path, parent)
	path[len(parent)] = t.Type
	n := &Node{TLV: t, Depth: len(parent), Path: path}
	if isContainer != nil && isContainer(path) {
		n.Container = true
		kids, err := Children(buf, t.ValOff, t.End)
		if err != nil {
			return nil, fmt.Errorf("inside element type %#x at offset %d: %w", t.Type, t.Off, err)
		}
		for _, k := range kids {
			c, err := build(buf, k, path, isContainer)
			if err != nil {
				return nil, err
			}
			n.Children = append(n.Children, c)
		}
	}
	return n, nil
}

// Walk calls f for n and all its descendants in document (pre-)order; f returning false
// prunes the descent below that node.
func (n *Node) Walk(f func(*Node) bool) {
	if !f(n) {
		return
	}
	for _, c := range n.Children {
		c.Walk(f)
	}
}

// Child returns the first direct child with the given type, or nil.
func (n *Node) Child(typ uint64) *Node {
	for _, c := range n.Children {
		if c.Type == typ {
			return c
		}
	}
	return nil
}

// Find returns the first descendant-or-self (document order) with the given type, or nil.
func (n *Node) Find(typ uint64) *Node {
	var out *Node
	n.Walk(func(x *Node) bool {
		if out != nil {
			return false
		}
		if x.Type == typ {
			out = x
			return false
		}
		return true
	})
	return out
}

// FindAll returns all descendants-or-self with the given type in document order.
func (n *Node) FindAll(typ uint64) []*Node {
	var out []*Node
	n.Walk(func(x *Node) bool {
		if x.Type == typ {
			out = append(out, x)
		}
		return true
	})
	return out
}

// Flatten returns n and all descendants in document order.
func (n *Node) Flatten() []*Node {
	var out []*Node
	n.Walk(func(x *Node) bool { out = append(out, x); return true })
	return out
}

// Check is the full well-formedness test of the specification for exactly one TLV: every
// TYPE and LENGTH (recursively, where the predicate says container) is in shortest form,
// no type is 0, every nested length is exact, and nothing trails. It returns the tree.
func Check(buf []byte, isContainer IsContainer) (*Node, error) {
	root, err := Tree(buf, isContainer)
	if err != nil {
		return nil, err
	}
	var bad error
	root.Walk(func(x *Node) bool {
		if bad != nil {
			return false
		}
		switch {
		case x.Type == 0:
			bad = fmt.Errorf("element at offset %d: %w", x.Off, ErrZeroType)
		case !x.TypeMin:
			bad = fmt.Errorf("type field at offset %d (type %#x, %d bytes): %w", x.Off, x.Type, x.TypeSize, ErrNotShortest)
		case !x.LenMin:
			bad = fmt.Errorf("length field at offset %d (type %#x, length %d, %d bytes): %w", x.LenOff(), x.Type, x.Len, x.LenSize, ErrNotShortest)
		}
		return true
	})
	if bad != nil {
		return root, bad
	}
	return root, nil
}

// ---------------------------------------------------------------------------- header fields

// FieldKind distinguishes TYPE from LENGTH fields.
type FieldKind int

const (
	TypeField FieldKind = iota
	LengthField
)

func (k FieldKind) String() string {
	if k == TypeField {
		return "type"
	}
	return "length"
}

// Field is the position of one TYPE or LENGTH field.
type Field struct {
	Kind  FieldKind
	Off   int    // offset of the first byte of the field
	Size  int    // 1, 3, 5 or 9
	Value uint64 // the number it holds
	Type  uint64 // type of the element the field belongs to
	Depth int    // nesting depth of that element (0 = outermost)
	Elem  int    // index of that element in document order
}

// Fields lists every TYPE and LENGTH field of the TLV sequence in buf, recursively below
// every element the predicate declares a container, in document order (type field, then
// length field, then the children's). buf must be tiled exactly by TLVs.
func Fields(buf []byte, isContainer IsContainer) ([]Field, error) {
	roots, err := Forest(buf, isContainer)
	if err != nil {
		return nil, err
	}
	return FieldsOf(roots...), nil
}

// FieldsOf is Fields over already parsed trees.
func FieldsOf(roots ...*Node) []Field {
	var out []Field
	elem := 0
	for _, r := range roots {
		r.Walk(func(x *Node) bool {
			out = append(out,
				Field{Kind: TypeField, Off: x.Off, Size: x.TypeSize, Value: x.Type, Type: x.Type, Depth: x.Depth, Elem: elem},
				Field{Kind: LengthField, Off: x.LenOff(), Size: x.LenSize, Value: x.Len, Type: x.Type, Depth: x.Depth, Elem: elem})
			elem++
			return true
		})
	}
	return out
}

// HeaderInteriorOffsets returns, sorted and without duplicates, every offset o such that
// cutting the buffer between byte o-1 and byte o splits some TYPE LENGTH header (i.e. o
// lies strictly inside a header: after its first byte and before its value starts).
func HeaderInteriorOffsets(roots ...*Node) []int {
	seen := map[int]bool{}
	var out []int
	for _, r := range roots {
		r.Walk(func(x *Node) bool {
			for o := x.Off + 1; o < x.ValOff; o++ {
				if !seen[o] {
					seen[o] = true
					out = append(out, o)
				}
			}
			return true
		})
	}
	// document order is already ascending for distinct headers, but nested headers may
	// interleave with duplicates removed; sort to be safe
	for i := 1; i < len(out); i++ {
		for j := i; j > 0 && out[j] < out[j-1]; j-- {
			out[j], out[j-1] = out[j-1], out[j]
		}
	}
	return out
}
