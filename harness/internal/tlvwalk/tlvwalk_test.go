package tlvwalk

import (
	"bytes"
	"errors"
	"testing"

	"pgregory.net/rapid"
)

// Self-tests of the reference walker against byte vectors taken from the NDN packet
// specification's rules (not from the repository under test).

func TestVarNumVectors(t *testing.T) {
	vec := []struct {
		v   uint64
		enc []byte
	}{
		{0, []byte{0}}, {252, []byte{252}}, {253, []byte{0xfd, 0, 253}}, {255, []byte{0xfd, 0, 255}},
		{256, []byte{0xfd, 1, 0}}, {65535, []byte{0xfd, 0xff, 0xff}}, {65536, []byte{0xfe, 0, 1, 0, 0}},
		{1<<32 - 1, []byte{0xfe, 0xff, 0xff, 0xff, 0xff}}, {1 << 32, []byte{0xff, 0, 0, 0, 1, 0, 0, 0, 0}},
		{1<<64 - 1, []byte{0xff, 0xff, 0xff, 0xff, 0xff, 0xff, 0xff, 0xff, 0xff}},
	}
	for _, x := range vec {
		if got := AppendVarNum(nil, x.v); !bytes.Equal(got, x.enc) {
			t.Fatalf("AppendVarNum(%d) = %x, want %x", x.v, got, x.enc)
		}
		v, n, short, err := ReadVarNum(x.enc, 0)
		if err != nil || v != x.v || n != len(x.enc) || !short {
			t.Fatalf("ReadVarNum(%x) = %d %d %v %v", x.enc, v, n, short, err)
		}
	}
	// non-shortest forms are read but flagged
	v, n, short, err := ReadVarNum([]byte{0xfd, 0, 5}, 0)
	if err != nil || v != 5 || n != 3 || short {
		t.Fatalf("non-shortest: %d %d %v %v", v, n, short, err)
	}
	if _, _, _, err := ReadVarNum([]byte{0xfe, 0, 1}, 0); !errors.Is(err, ErrTruncatedHeader) {
		t.Fatalf("truncated: %v", err)
	}
}

func TestCheckVectors(t *testing.T) {
	// Interest /a with nonce: 05 0b 07 03 08 01 61 0a 04 00 00 00 01
	pkt := []byte{0x05, 0x0b, 0x07, 0x03, 0x08, 0x01, 0x61, 0x0a, 0x04, 0, 0, 0, 1}
	root, err := Check(pkt, NDNContainer)
	if err != nil {
		t.Fatal(err)
	}
	if root.Type != TInterest || len(root.Children) != 2 || root.Children[0].Children[0].Type != 8 {
		t.Fatalf("bad tree")
	}
	if root.Children[0].Children[0].Container {
		t.Fatalf("a component must not be a container")
	}
	f := FieldsOf(root)
	if len(f) != 8 || f[2].Off != 2 || f[3].Off != 3 || f[3].Value != 3 || f[7].Kind != LengthField {
		t.Fatalf("fields: %+v", f)
	}
	if _, err := Check(append(append([]byte{}, pkt...), 0), NDNContainer); !errors.Is(err, ErrTrailing) {
		t.Fatalf("trailing: %v", err)
	}
	bad := append([]byte{}, pkt...)
	bad[3] = 4 // name claims 4 bytes: its last component then runs into the nonce
	if _, err := Check(bad, NDNContainer); err == nil {
		t.Fatalf("inexact nested length accepted")
	}
	long := []byte{0x05, 0xfd, 0x00, 0x02, 0x21, 0x00}
	if _, err := Check(long, NDNContainer); !errors.Is(err, ErrNotShortest) {
		t.Fatalf("non-shortest length: %v", err)
	}
	if _, err := Tree(long, NDNContainer); err != nil {
		t.Fatalf("Tree must tolerate non-shortest forms: %v", err)
	}
	if hi := HeaderInteriorOffsets(root); len(hi) != 4 || hi[0] != 1 || hi[1] != 3 || hi[2] != 5 || hi[3] != 8 {
		t.Fatalf("header interiors: %v", hi)
	}
}

// Random trees: encode with AppendTLV, Check must accept and return the same shape.
type rnode struct {
	typ  uint64
	val  []byte
	kids []*rnode
}

func genTree(t *rapid.T, depth int) *rnode {
	n := &rnode{}
	if depth < 3 && rapid.Bool().Draw(t, "cont") {
		n.typ = rapid.SampledFrom([]uint64{100, 300, 70000}).Draw(t, "ctyp")
		k := rapid.IntRange(0, 3).Draw(t, "nk")
		for i := 0; i < k; i++ {
			n.kids = append(n.kids, genTree(t, depth+1))
		}
		return n
	}
	n.typ = rapid.SampledFrom([]uint64{1, 8, 252, 253, 65535, 65536, 1 << 33}).Draw(t, "typ")
	l := rapid.SampledFrom([]int{0, 1, 252, 253, 300}).Draw(t, "len")
	n.val = bytes.Repeat([]byte{byte(l)}, l)
	return n
}

func (n *rnode) enc() []byte {
	if n.kids == nil && n.typ != 100 && n.typ != 300 && n.typ != 70000 {
		return EncodeTLV(n.typ, n.val)
	}
	var parts [][]byte
	for _, k := range n.kids {
		parts = append(parts, k.enc())
	}
	return EncodeTLV(n.typ, parts...)
}

func same(n *rnode, x *Node, buf []byte) bool {
	if n.typ != x.Type {
		return false
	}
	if n.typ == 100 || n.typ == 300 || n.typ == 70000 {
		if len(n.kids) != len(x.Children) {
			return false
		}
		for i := range n.kids {
			if !same(n.kids[i], x.Children[i], buf) {
				return false
			}
		}
		return true
	}
	return bytes.Equal(n.val, x.Value(buf))
}

func TestRandomTrees(t *testing.T) {
	pred := Containers(100, 300, 70000)
	rapid.Check(t, func(rt *rapid.T) {
		tr := genTree(rt, 0)
		b := tr.enc()
		root, err := Check(b, pred)
		if err != nil {
			rt.Fatalf("%v", err)
		}
		if !same(tr, root, b) {
			rt.Fatalf("shape differs")
		}
		// any proper truncation must fail
		if len(b) > 1 {
			cut := rapid.IntRange(1, len(b)-1).Draw(rt, "cut")
			if _, err := Check(b[:cut], pred); err == nil {
				rt.Fatalf("truncated buffer accepted")
			}
		}
	})
}
