package modelreg

import (
	"bytes"
	"fmt"
	"math"
	"reflect"
	"sort"
	"sync"
	"time"

	enc "github.com/named-data/ndnd/std/encoding"
	"pgregory.net/rapid"
)

// Node is the plain-data (JSON) form of a model value. Its shape follows the Go type of the
// model by reflection:
//
//	struct            K = one node per struct field (by index; non-TLV fields: Z)
//	pointer           Z (nil) or the pointee's node
//	bool              U = 0/1
//	uintN             U
//	time.Duration     U = whole milliseconds
//	string            bytes
//	[]byte            Z (nil) or bytes
//	enc.Name          Z (nil) or K = components {U: type, bytes}
//	enc.Wire          Z (nil) or K = buffers {bytes}
//	[]T (sequence)    Z (nil) or K = elements
//	map[K]V           Z (nil) or K = key, value, key, value, … (sorted by key)
//
// "bytes" = B followed by N bytes of a deterministic filler, so that 65 536-byte values are cheap
// to draw, to shrink and to store.
type Node struct {
	Z bool   `json:"z,omitempty"`
	U uint64 `json:"u,omitempty"`
	B []byte `json:"b,omitempty"`
	N int    `json:"n,omitempty"`
	K []Node `json:"k,omitempty"`
}

func (n Node) bytes() []byte {
	out := make([]byte, len(n.B)+n.N)
	copy(out, n.B)
	seed := byte(0x5a)
	if len(n.B) > 0 {
		seed = n.B[0]
	}
	for i := len(n.B); i < len(out); i++ {
		out[i] = seed + byte(i*7)
	}
	return out
}

func (n Node) size() int { return len(n.B) + n.N }

var (
	typeName     = reflect.TypeOf(enc.Name{})
	typeWire     = reflect.TypeOf(enc.Wire{})
	typeDuration = reflect.TypeOf(time.Duration(0))
	typeBytes    = reflect.TypeOf([]byte(nil))
	typeBuffer   = reflect.TypeOf(enc.Buffer(nil))
)

var (
	bigOnce sync.Once
	bigOK   bool
)

// MaxMillis is the largest whole-millisecond duration a time field can carry.
const MaxMillis = uint64(math.MaxInt64 / int64(time.Millisecond))

// BigComponentsOK reports whether the tree under test encodes name components whose value is
// >= 253 bytes with a well-formed header. (On the original tree Component.EncodingLength /
// EncodeInto use the natural-number encoder for the length: a C03 finding, repaired by the C03
// owner. While it is present, generated names keep their components below 253 bytes and the
// number of clamped draws is counted; afterwards the region is searched automatically.)
func BigComponentsOK() bool {
	bigOnce.Do(func() {
		defer func() { _ = recover() }()
		c := enc.Component{Typ: 8, Val: make([]byte, 253)}
		b := c.Bytes()
		es, ok, min := Elements(b, 0, len(b))
		bigOK = ok && min && len(es) == 1 && es[0].Len == 253
	})
	return bigOK
}

// GenOpts tunes the generator.
type GenOpts struct {
	Thorough bool // adds the 65535/65536 sizes
	MaxDepth int  // nesting depth of struct fields (default 4)
	Dense    bool // struct pointers are (almost) always set and struct sequences non-empty
}

// Stats is what the generator/builder measured about one value (feeds the non-triviality rule
// and the class histogram).
type Stats struct {
	TopSet      int  // annotated top-level fields that are set (non-nil / non-default presence)
	Nested      bool // some set struct field
	Seq         bool // some non-empty sequence
	Map         bool // some non-empty map
	Big         bool // some length >= 253
	MultiBuf    bool // a wire with >= 2 buffers
	EmptySlice  bool // an empty non-nil sequence/map (decodes as nil: documented normalisation)
	ClampedComp int  // component lengths clamped below 253 because of the C03 defect
	MapMulti    bool // a map with >= 2 keys (encoding order is Go's map order)
	// StrippedDigest counts trailing digest components removed from generated Interest names
	StrippedDigest int
}

type gen struct {
	t     *rapid.T
	st    *State
	opts  GenOpts
	stats *Stats
}

// Gen draws a value of model m.
func Gen(t *rapid.T, st *State, m *Model, opts GenOpts) Node {
	if opts.MaxDepth == 0 {
		opts.MaxDepth = 4
	}
	g := &gen{t: t, st: st, opts: opts, stats: &Stats{}}
	return g.structNode(m.Type(), &m.Info, 0)
}

var lenChoices = []int{0, 0, 1, 1, 1, 2, 3, 4, 7, 8, 31, 32, 252, 253, 254, 255, 256, 300}
var lenChoicesThorough = []int{0, 1, 1, 2, 3, 8, 32, 252, 253, 254, 255, 256, 300, 65535, 65536, 65537}

// Uniform draws an index in [0, n) without rapid's bias towards small values (rapid's integer
// and SampledFrom generators favour the first entries; boundary tables and the model list must
// be hit evenly). It still goes through rapid (bits drawn with rapid.Bool), so cases replay and
// shrink as usual.
func Uniform(t *rapid.T, n int, label string) int {
	if n <= 1 {
		return 0
	}
	bitsN := 3
	for 1<<uint(bitsN-3) < n {
		bitsN++
	}
	v := 0
	for _, b := range rapid.SliceOfN(rapid.Bool(), bitsN, bitsN).Draw(t, label) {
		v <<= 1
		if b {
			v |= 1
		}
	}
	return v % n
}

func pick[T any](t *rapid.T, xs []T, label string) T { return xs[Uniform(t, len(xs), label)] }

func (g *gen) length(label string) int {
	if g.opts.Thorough {
		return pick(g.t, lenChoicesThorough, label)
	}
	return pick(g.t, lenChoices, label)
}

func (g *gen) byteNode(label string, n int) Node {
	k := n
	if k > 6 {
		k = 6
	}
	b := rapid.SliceOfN(rapid.Byte(), k, k).Draw(g.t, label)
	return Node{B: b, N: n - k}
}

var natChoices = []uint64{0, 1, 2, 252, 253, 254, 255, 256, 257, 65535, 65536, 65537, 1<<32 - 1, 1 << 32, 1<<32 + 1,
	1<<47 + 5, 1<<63 - 1, 1 << 63, math.MaxUint64 - 1, math.MaxUint64}

func (g *gen) nat(label string, bits int) uint64 {
	var v uint64
	if rapid.IntRange(0, 3).Draw(g.t, label+"?") == 0 {
		v = rapid.Uint64().Draw(g.t, label)
	} else {
		v = pick(g.t, natChoices, label)
	}
	if bits < 64 {
		// keep boundary values meaningful for narrow fields: saturate instead of wrapping
		max := uint64(1)<<uint(bits) - 1
		if v > max {
			if v%3 == 0 {
				v = max
			} else {
				v &= max
			}
		}
	}
	return v
}

var compTypes = []uint64{8, 8, 8, 8, 1, 2, 3, 32, 50, 52, 54, 56, 58, 252, 253, 254, 65535, 65536}

func (g *gen) name(label string, interest bool) Node {
	n := pick(g.t, []int{0, 1, 1, 2, 2, 3, 4, 8}, label+"#")
	// names made (mostly) of empty components have the most components per encoded byte: a
	// decoder that sizes its component slice from the encoded length is tested there
	// (added after seeded defect C13-r3-1 was caught by the thorough tier only)
	shape := pick(g.t, []int{0, 0, 0, 0, 0, 0, 1, 2}, label+"shape")
	if shape != 0 {
		n = pick(g.t, []int{3, 4, 5, 8, 16, 40}, label+"#e")
	}
	out := Node{K: make([]Node, 0, n)}
	for i := 0; i < n; i++ {
		typ := pick(g.t, compTypes, "ctyp")
		l := pick(g.t, []int{0, 1, 1, 1, 2, 3, 3, 8, 8, 31, 32, 252, 253, 300}, "clen")
		switch shape {
		case 1:
			l = 0
		case 2:
			l = pick(g.t, []int{0, 0, 0, 1}, "clen-e")
		}
		if l >= 253 && !BigComponentsOK() {
			l = 252
			g.stats.ClampedComp++
		}
		if l >= 253 {
			g.stats.Big = true
		}
		c := g.byteNode("cval", l)
		c.U = typ
		out.K = append(out.K, c)
	}
	if interest {
		// the trailing ParametersSha256Digest component of an Interest name is an output of
		// the encoder (Init removes it and, with needDigest, appends a fresh one), not part
		// of the input value
		for len(out.K) > 0 && out.K[len(out.K)-1].U == 2 {
			out.K = out.K[:len(out.K)-1]
			g.stats.StrippedDigest++
		}
	}
	return out
}

func (g *gen) wire(label string, nonEmpty bool) Node {
	n := rapid.IntRange(0, 3).Draw(g.t, label+"#")
	if nonEmpty && n == 0 {
		n = 1
	}
	out := Node{K: make([]Node, 0, n)}
	total := 0
	for i := 0; i < n; i++ {
		l := g.length("wlen")
		if nonEmpty && i == n-1 && total+l == 0 {
			l = 1
		}
		total += l
		out.K = append(out.K, g.byteNode("wbuf", l))
	}
	if n >= 2 {
		g.stats.MultiBuf = true
	}
	if total >= 253 {
		g.stats.Big = true
	}
	return out
}

func (g *gen) structNode(t reflect.Type, info *Info, depth int) Node {
	out := Node{K: make([]Node, t.NumField())}
	for i := 0; i < t.NumField(); i++ {
		sf := t.Field(i)
		if !sf.IsExported() {
			out.K[i] = Node{Z: true}
			continue
		}
		var fi *Field
		if info != nil && info.Fields != nil {
			f, ok := info.FieldByName(sf.Name)
			if !ok {
				out.K[i] = Node{Z: true} // not a TLV field
				continue
			}
			fi = &f
		}
		n := g.field(sf.Name, sf.Type, fi, depth, false)
		out.K[i] = n
		if depth == 0 && isPresent(sf.Type, n) {
			g.stats.TopSet++
		}
	}
	return out
}

// isPresent: does the field contribute bytes / is it "set".
func isPresent(t reflect.Type, n Node) bool {
	switch t.Kind() {
	case reflect.Bool:
		return n.U != 0
	case reflect.Pointer, reflect.Slice, reflect.Map:
		return !n.Z
	}
	return true
}

func (g *gen) field(label string, ft reflect.Type, fi *Field, depth int, force bool) Node {
	kind := ""
	if fi != nil {
		kind = fi.Kind()
	}
	nilable := func() bool {
		if force {
			return false
		}
		return rapid.IntRange(0, 3).Draw(g.t, label+"nil") == 0
	}
	switch {
	case ft == typeName:
		if nilable() {
			return Node{Z: true}
		}
		return g.name(label, kind == "interestName")
	case ft == typeWire:
		if nilable() {
			return Node{Z: true}
		}
		return g.wire(label, kind == "signature")
	case ft == typeDuration:
		v := g.nat(label, 64)
		if v > MaxMillis {
			if v%2 == 0 {
				v = MaxMillis
			} else {
				v %= MaxMillis + 1
			}
		}
		n := Node{U: v}
		// a duration need not be a whole number of milliseconds: the encoding keeps the
		// milliseconds only, but it must still produce exactly the bytes it announced (seeded
		// defect C13-r4-1: the encoder rounded up where the length calculation truncated)
		if v < MaxMillis && pick(g.t, []int{0, 0, 0, 1}, label+"frac?") == 1 {
			n.N = pick(g.t, []int{1, 1000, 300000, 999999}, label+"frac")
		}
		return n
	}
	switch ft.Kind() {
	case reflect.Bool:
		if rapid.Bool().Draw(g.t, label) {
			return Node{U: 1}
		}
		return Node{}
	case reflect.Uint8, reflect.Uint16, reflect.Uint32, reflect.Uint64, reflect.Uint:
		return Node{U: g.nat(label, ft.Bits())}
	case reflect.String:
		l := g.length(label + "len")
		if l >= 253 {
			g.stats.Big = true
		}
		return g.byteNode(label, l)
	case reflect.Pointer:
		et := ft.Elem()
		dense := g.opts.Dense && depth == 0 && et.Kind() == reflect.Struct && g.st.ByType(et) != nil
		if !dense && nilable() {
			return Node{Z: true}
		}
		if et.Kind() == reflect.Struct && et != typeDuration {
			if depth >= g.opts.MaxDepth {
				if force {
					return g.structNode(et, g.infoOf(et), depth+1)
				}
				return Node{Z: true}
			}
			g.stats.Nested = true
			return g.structNode(et, g.infoOf(et), depth+1)
		}
		return g.field(label, et, fi, depth, true)
	case reflect.Slice:
		if ft.Elem().Kind() == reflect.Uint8 {
			if nilable() {
				return Node{Z: true}
			}
			l := g.length(label + "len")
			if l >= 253 {
				g.stats.Big = true
			}
			return g.byteNode(label, l)
		}
		if nilable() {
			return Node{Z: true}
		}
		n := rapid.IntRange(0, 4).Draw(g.t, label+"#")
		if depth >= 2 && n > 2 {
			n = 2
		}
		if n == 0 && g.opts.Dense && depth == 0 && g.st.ByType(ft.Elem()) != nil {
			n = 1
		}
		out := Node{K: make([]Node, 0, n)}
		for i := 0; i < n; i++ {
			out.K = append(out.K, g.field(label+"[]", ft.Elem(), nil, depth+1, true))
		}
		if n > 0 {
			g.stats.Seq = true
		} else {
			g.stats.EmptySlice = true
		}
		return out
	case reflect.Map:
		if nilable() {
			return Node{Z: true}
		}
		n := rapid.IntRange(0, 3).Draw(g.t, label+"#")
		type kv struct{ k, v Node }
		var kvs []kv
		seen := map[string]bool{}
		for i := 0; i < n; i++ {
			var k Node
			if ft.Key().Kind() == reflect.String {
				k = g.byteNode(label+"k", pick(g.t, []int{0, 1, 1, 2, 3, 3, 8, 252, 253}, "klen"))
			} else {
				k = Node{U: g.nat(label+"k", ft.Key().Bits())}
			}
			id := fmt.Sprintf("%d/%x", k.U, k.bytes())
			if seen[id] {
				continue
			}
			seen[id] = true
			kvs = append(kvs, kv{k, g.field(label+"v", ft.Elem(), nil, depth+1, true)})
		}
		sort.Slice(kvs, func(i, j int) bool {
			if kvs[i].k.U != kvs[j].k.U {
				return kvs[i].k.U < kvs[j].k.U
			}
			return bytes.Compare(kvs[i].k.bytes(), kvs[j].k.bytes()) < 0
		})
		out := Node{K: make([]Node, 0, 2*len(kvs))}
		for _, e := range kvs {
			out.K = append(out.K, e.k, e.v)
		}
		switch {
		case len(kvs) >= 2:
			g.stats.Map, g.stats.MapMulti = true, true
		case len(kvs) == 1:
			g.stats.Map = true
		default:
			g.stats.EmptySlice = true
		}
		return out
	case reflect.Struct:
		// value struct that is not a model field we know (e.g. enc.PlaceHolder): nothing to draw
		return Node{Z: true}
	}
	return Node{Z: true}
}

func (g *gen) infoOf(t reflect.Type) *Info {
	if m := g.st.ByType(t); m != nil {
		return &m.Info
	}
	return nil
}

// GenStats returns what the last Gen call measured. (Gen and GenWithStats are split so that
// callers that only need the node stay simple.)
func GenWithStats(t *rapid.T, st *State, m *Model, opts GenOpts) (Node, Stats) {
	if opts.MaxDepth == 0 {
		opts.MaxDepth = 4
	}
	g := &gen{t: t, st: st, opts: opts, stats: &Stats{}}
	n := g.structNode(m.Type(), &m.Info, 0)
	return n, *g.stats
}

// Build materialises node as a fresh *Model value. It fails (error, never panic) when the node
// does not fit the type, e.g. a replay file written for another version of the model.
func Build(m *Model, n Node) (v any, err error) {
	defer func() {
		if r := recover(); r != nil {
			err = fmt.Errorf("node does not fit model %s: %v", m.Info.Key(), r)
		}
	}()
	v = m.New()
	if err := fill(reflect.ValueOf(v).Elem(), n); err != nil {
		return nil, err
	}
	return v, nil
}

func fill(dst reflect.Value, n Node) error {
	t := dst.Type()
	switch {
	case t == typeName:
		if n.Z {
			return nil
		}
		name := make(enc.Name, len(n.K))
		for i, c := range n.K {
			name[i] = enc.Component{Typ: enc.TLNum(c.U), Val: c.bytes()}
		}
		dst.Set(reflect.ValueOf(name))
		return nil
	case t == typeWire:
		if n.Z {
			return nil
		}
		w := make(enc.Wire, len(n.K))
		for i, b := range n.K {
			w[i] = b.bytes()
		}
		dst.Set(reflect.ValueOf(w))
		return nil
	case t == typeDuration:
		dst.SetInt(int64(time.Duration(n.U)*time.Millisecond) + int64(n.N))
		return nil
	}
	switch t.Kind() {
	case reflect.Bool:
		dst.SetBool(n.U != 0)
	case reflect.Uint8, reflect.Uint16, reflect.Uint32, reflect.Uint64, reflect.Uint:
		dst.SetUint(n.U)
	case reflect.String:
		dst.SetString(string(n.bytes()))
	case reflect.Pointer:
		if n.Z {
			return nil
		}
		p := reflect.New(t.Elem())
		if err := fill(p.Elem(), n); err != nil {
			return err
		}
		dst.Set(p)
	case reflect.Slice:
		if n.Z {
			return nil
		}
		if t.Elem().Kind() == reflect.Uint8 {
			dst.SetBytes(n.bytes())
			return nil
		}
		s := reflect.MakeSlice(t, len(n.K), len(n.K))
		for i := range n.K {
			if err := fill(s.Index(i), n.K[i]); err != nil {
				return err
			}
		}
		dst.Set(s)
	case reflect.Map:
		if n.Z {
			return nil
		}
		mp := reflect.MakeMapWithSize(t, len(n.K)/2)
		for i := 0; i+1 < len(n.K); i += 2 {
			k := reflect.New(t.Key()).Elem()
			if err := fill(k, n.K[i]); err != nil {
				return err
			}
			v := reflect.New(t.Elem()).Elem()
			if err := fill(v, n.K[i+1]); err != nil {
				return err
			}
			mp.SetMapIndex(k, v)
		}
		dst.Set(mp)
	case reflect.Struct:
		if n.Z && len(n.K) == 0 {
			return nil
		}
		if len(n.K) != t.NumField() {
			return fmt.Errorf("struct %s has %d fields, node has %d", t, t.NumField(), len(n.K))
		}
		for i := 0; i < t.NumField(); i++ {
			if !t.Field(i).IsExported() {
				continue
			}
			if err := fill(dst.Field(i), n.K[i]); err != nil {
				return fmt.Errorf("%s.%s: %w", t.Name(), t.Field(i).Name, err)
			}
		}
	default:
		return fmt.Errorf("unsupported kind %s", t.Kind())
	}
	return nil
}
