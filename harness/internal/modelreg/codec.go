package modelreg

import (
	"bytes"
	"fmt"
	"reflect"
	"strings"
	"time"

	enc "github.com/named-data/ndnd/std/encoding"
)

// Encoded is the result of running a model's generated encoder over a value.
type Encoded struct {
	Wire     enc.Wire
	Bytes    []byte // Wire.Join()
	Announce uint64 // encoder.length after Init
	Plan     []uint64
	HasPlan  bool
	SigSlots int // signature slots that were reserved (estLen > 0) and filled by the harness
	// SigCleared counts signature values the harness removed from the value because their
	// reserved slot cannot be addressed exactly (nested model that is not first in its parent).
	SigCleared int
	Digests    int // interestName fields encoded with needDigest
}

// EncOpts are the encoder inputs that are not part of the value.
type EncOpts struct {
	// NeedDigest sets <Name>_needDigest on every interestName field: Init then replaces the
	// name's trailing ParametersSha256Digest component by a 32-byte placeholder that the
	// caller is expected to fill (the harness leaves the zeros: the digest is checked by
	// spec.go, not by the generated model).
	NeedDigest bool
	// ReInit binds the encoder object to the value twice before encoding (Init is exported; an
	// application that keeps an encoder around and initialises it again for the next value - or for the
	// same one - must get the lengths of the value it is bound to, not a running total).
	ReInit bool
}

// sigInput is one signature field found in a value.
type sigInput struct {
	path  []string // encoder field path: ["<Struct>_encoder"] "<Sig>" (suffix _estLen / _wireIdx is added)
	value []byte
}

// emitsBytes: does field i of v (an annotated TLV field) put bytes on the wire?
func emitsBytes(fv reflect.Value, kind string) bool {
	switch kind {
	case "offsetMarker", "rangeMarker", "procedureArgument":
		return false
	}
	switch fv.Kind() {
	case reflect.Bool:
		return fv.Bool()
	case reflect.Pointer, reflect.Map:
		return !fv.IsNil() && (fv.Kind() != reflect.Map || fv.Len() > 0)
	case reflect.Slice:
		if fv.Type() == typeName || fv.Type() == typeWire || fv.Type().Elem().Kind() == reflect.Uint8 {
			return !fv.IsNil()
		}
		return fv.Len() > 0
	case reflect.Struct:
		return false // enc.PlaceHolder
	}
	return true
}

// collectSigs lists the signature fields that carry bytes and whose reserved wire slot the
// harness can address *exactly*; the others are cleared in the value (cleared is counted).
//
// The generated encoder does not take the signature from the value: the caller announces its
// size in <Field>_estLen before Init and stores the bytes into the reserved (nil) buffer
// wire[<Field>_wireIdx] after Encode (this is what Spec.MakeData / MakeInterest and the
// gen_signature tests do). For a model nested through a `struct:…:nocopy` field the inner
// index is relative to the outer buffer the inner model started in; like the repository's own
// callers ("since PacketEncoder only adds a TL, …_wireIdx is still valid") the harness uses it
// only when nothing precedes the nested model in the outer encoding, where the offset is 0.
func (s *State) collectSigs(m *Model, v reflect.Value, prefix []string, exact bool, out *[]sigInput, cleared *int, digests *[][]string) {
	t := v.Type()
	first := true // no earlier field of this value emitted bytes
	for i := 0; i < t.NumField(); i++ {
		sf := t.Field(i)
		if !sf.IsExported() {
			continue
		}
		fi, ok := m.Info.FieldByName(sf.Name)
		if !ok {
			continue
		}
		fv := v.Field(i)
		switch fi.Kind() {
		case "interestName":
			*digests = append(*digests, append(append([]string{}, prefix...), sf.Name))
		case "signature":
			if fv.IsNil() {
				continue
			}
			b := fv.Interface().(enc.Wire).Join()
			if len(b) == 0 || !exact {
				// estLen 0 = "the signature is not encoded" (signature.go); an empty or
				// unaddressable signature is therefore normalised to nil
				fv.Set(reflect.Zero(fv.Type()))
				if len(b) > 0 {
					*cleared++
				}
				continue
			}
			p := append(append([]string{}, prefix...), sf.Name)
			*out = append(*out, sigInput{path: p, value: append([]byte{}, b...)})
		case "struct":
			if fv.Kind() == reflect.Pointer && !fv.IsNil() {
				if sub := s.ByType(fv.Type()); sub != nil {
					p := append(append([]string{}, prefix...), sf.Name+"_encoder")
					nocopy := strings.HasSuffix(fi.Spec, ":nocopy")
					s.collectSigs(sub, fv.Elem(), p, exact && first && nocopy && len(prefix) == 0, out, cleared, digests)
				}
			}
		}
		if emitsBytes(fv, fi.Kind()) {
			first = false
		}
	}
}

func fieldPath(ev reflect.Value, path []string, suffix string) reflect.Value {
	f := ev
	for i, p := range path {
		if i == len(path)-1 {
			p += suffix
		}
		f = f.FieldByName(p)
		if !f.IsValid() {
			return f
		}
	}
	return f
}

// EncodeValue runs NewEncoder / (signature inputs) / Init / Encode and fills signature slots.
// Init may modify v (interestName fields rewrite the name's digest component) and the harness
// clears signatures it cannot place: callers compare decoded values with v *after* this call.
func (s *State) EncodeValue(m *Model, v any, opts EncOpts) (res Encoded, encoder any, err error) {
	defer func() {
		if r := recover(); r != nil {
			err = fmt.Errorf("encoder of %s panicked: %v", m.Info.Key(), r)
		}
	}()
	encoder = m.NewEncoder()
	var sigs []sigInput
	var digests [][]string
	s.collectSigs(m, reflect.ValueOf(v).Elem(), nil, true, &sigs, &res.SigCleared, &digests)
	ev := reflect.ValueOf(encoder).Elem()
	if opts.NeedDigest {
		for _, p := range digests {
			f := fieldPath(ev, p, "_needDigest")
			if !f.IsValid() || !f.CanSet() {
				return res, encoder, fmt.Errorf("harness: encoder of %s has no settable field %s_needDigest", m.Info.Key(), strings.Join(p, "."))
			}
			f.SetBool(true)
			res.Digests++
		}
	}
	for _, sg := range sigs {
		f := fieldPath(ev, sg.path, "_estLen")
		if !f.IsValid() || !f.CanSet() {
			return res, encoder, fmt.Errorf("harness: encoder of %s has no settable field %s_estLen", m.Info.Key(), strings.Join(sg.path, "."))
		}
		f.SetUint(uint64(len(sg.value)))
	}
	m.Init(encoder, v)
	if opts.ReInit {
		m.Init(encoder, v)
	}
	res.Announce = ev.FieldByName("length").Uint()
	if wp := ev.FieldByName("wirePlan"); wp.IsValid() {
		res.HasPlan = true
		for i := 0; i < wp.Len(); i++ {
			res.Plan = append(res.Plan, wp.Index(i).Uint())
		}
	}
	w := m.Encode(encoder, v)
	for _, sg := range sigs {
		f := fieldPath(ev, sg.path, "_wireIdx")
		if !f.IsValid() {
			return res, encoder, fmt.Errorf("harness: encoder of %s has no field %s_wireIdx", m.Info.Key(), strings.Join(sg.path, "."))
		}
		idx := int(f.Int())
		if idx < 0 || idx >= len(w) {
			return res, encoder, fmt.Errorf("encoder of %s: %s_wireIdx = %d with a wire of %d buffers although %d signature bytes were announced", m.Info.Key(), strings.Join(sg.path, "."), idx, len(w), len(sg.value))
		}
		if len(w[idx]) != 0 {
			return res, encoder, fmt.Errorf("encoder of %s: reserved signature slot wire[%d] already holds %d bytes", m.Info.Key(), idx, len(w[idx]))
		}
		w[idx] = sg.value
		res.SigSlots++
	}
	res.Wire = w
	res.Bytes = append([]byte{}, w.Join()...)
	return res, encoder, nil
}

// CheckAnnounced compares produced sizes with the announced ones.
func (r Encoded) CheckAnnounced() error {
	if uint64(len(r.Bytes)) != r.Announce {
		return fmt.Errorf("encoder announced length %d but produced %d bytes", r.Announce, len(r.Bytes))
	}
	if r.HasPlan {
		if len(r.Plan) != len(r.Wire) {
			return fmt.Errorf("wirePlan has %d entries, produced wire has %d buffers", len(r.Plan), len(r.Wire))
		}
		for i, p := range r.Plan {
			// zero entries are slots filled by reference (wire buffers, signatures)
			if p > 0 && uint64(len(r.Wire[i])) != p {
				return fmt.Errorf("wirePlan[%d] announces %d bytes, buffer has %d", i, p, len(r.Wire[i]))
			}
		}
	}
	return nil
}

// MapKeyTypes returns key type -> value type for the map fields of a model.
func (m *Model) MapKeyTypes() map[uint64]uint64 {
	var out map[uint64]uint64
	for _, f := range m.Info.Fields {
		if f.Kind() != "map" {
			continue
		}
		// map:<keyGoType>:<keyClass>:<valType>:<valGoType>:<valClass>…
		parts := strings.Split(f.Spec, ":")
		if len(parts) < 4 {
			continue
		}
		var vt uint64
		if _, err := fmt.Sscanf(parts[3], "0x%x", &vt); err != nil {
			if _, err := fmt.Sscanf(parts[3], "%d", &vt); err != nil {
				continue
			}
		}
		if out == nil {
			out = map[uint64]uint64{}
		}
		out[f.Type] = vt
	}
	return out
}

// HasMap reports whether the model or a model nested in it has a map field.
func (s *State) HasMap(m *Model) bool {
	return s.hasMap(m.Type(), 0)
}

func (s *State) hasMap(t reflect.Type, depth int) bool {
	if depth > 6 {
		return false
	}
	switch t.Kind() {
	case reflect.Map:
		return true
	case reflect.Pointer:
		return s.hasMap(t.Elem(), depth+1)
	case reflect.Slice:
		if t == typeName || t == typeWire || t.Elem().Kind() == reflect.Uint8 {
			return false
		}
		return s.hasMap(t.Elem(), depth+1)
	case reflect.Struct:
		for i := 0; i < t.NumField(); i++ {
			if t.Field(i).IsExported() && s.hasMap(t.Field(i).Type, depth+1) {
				return true
			}
		}
	}
	return false
}

// Diff compares two model values structurally and returns "" when they are equal modulo the
// normalisations the codec documents/implements:
//
//   - a sequence or map that is empty and one that is nil are the same (nothing is encoded for
//     either; the sequence/map skip process "should not assign nil");
//   - a wire is compared by its joined content (buffer boundaries are a property of the
//     reader: BufferReader returns one buffer, WireReader one per segment touched) but nil
//     (absent) and non-nil (present, possibly empty) are distinguished;
//   - a component value that is nil and one that is empty are the same;
//   - unexported fields (markers, procedure arguments) are not part of the value.
//
// []byte fields distinguish nil (absent) from empty (present with length 0), as the binary
// field does.
func Diff(a, b any) string {
	return diff(reflect.ValueOf(a), reflect.ValueOf(b), "")
}

func diff(a, b reflect.Value, path string) string {
	if a.Type() != b.Type() {
		return fmt.Sprintf("%s: types %s vs %s", path, a.Type(), b.Type())
	}
	t := a.Type()
	switch {
	case t == typeName:
		if a.IsNil() != b.IsNil() {
			return fmt.Sprintf("%s: name nil=%v vs nil=%v", path, a.IsNil(), b.IsNil())
		}
		na, nb := a.Interface().(enc.Name), b.Interface().(enc.Name)
		if len(na) != len(nb) {
			return fmt.Sprintf("%s: name has %d vs %d components", path, len(na), len(nb))
		}
		for i := range na {
			if na[i].Typ != nb[i].Typ || !bytes.Equal(na[i].Val, nb[i].Val) {
				return fmt.Sprintf("%s[%d]: component %d:%x vs %d:%x", path, i, na[i].Typ, clip(na[i].Val), nb[i].Typ, clip(nb[i].Val))
			}
		}
		return ""
	case t == typeWire:
		if a.IsNil() != b.IsNil() {
			return fmt.Sprintf("%s: wire nil=%v vs nil=%v", path, a.IsNil(), b.IsNil())
		}
		ja, jb := a.Interface().(enc.Wire).Join(), b.Interface().(enc.Wire).Join()
		if !bytes.Equal(ja, jb) {
			return fmt.Sprintf("%s: wire content differs (%d vs %d bytes): %x vs %x", path, len(ja), len(jb), clip(ja), clip(jb))
		}
		return ""
	}
	if t == typeDuration {
		// the encoding keeps whole milliseconds: a value with a sub-millisecond part comes back
		// as a neighbouring whole millisecond (which one is the encoder's choice)
		if d := a.Int() - b.Int(); d <= -int64(time.Millisecond) || d >= int64(time.Millisecond) {
			return fmt.Sprintf("%s: duration %d ns vs %d ns", path, a.Int(), b.Int())
		}
		return ""
	}
	switch t.Kind() {
	case reflect.Bool:
		if a.Bool() != b.Bool() {
			return fmt.Sprintf("%s: %v vs %v", path, a.Bool(), b.Bool())
		}
	case reflect.Uint8, reflect.Uint16, reflect.Uint32, reflect.Uint64, reflect.Uint:
		if a.Uint() != b.Uint() {
			return fmt.Sprintf("%s: %d vs %d", path, a.Uint(), b.Uint())
		}
	case reflect.Int64, reflect.Int:
		if a.Int() != b.Int() {
			return fmt.Sprintf("%s: %d vs %d", path, a.Int(), b.Int())
		}
	case reflect.String:
		if a.String() != b.String() {
			return fmt.Sprintf("%s: string %x vs %x", path, clip([]byte(a.String())), clip([]byte(b.String())))
		}
	case reflect.Pointer:
		if a.IsNil() != b.IsNil() {
			return fmt.Sprintf("%s: pointer nil=%v vs nil=%v", path, a.IsNil(), b.IsNil())
		}
		if !a.IsNil() {
			return diff(a.Elem(), b.Elem(), path)
		}
	case reflect.Slice:
		if t.Elem().Kind() == reflect.Uint8 {
			if a.IsNil() != b.IsNil() {
				return fmt.Sprintf("%s: bytes nil=%v vs nil=%v", path, a.IsNil(), b.IsNil())
			}
			if !bytes.Equal(a.Bytes(), b.Bytes()) {
				return fmt.Sprintf("%s: bytes (%d vs %d): %x vs %x", path, a.Len(), b.Len(), clip(a.Bytes()), clip(b.Bytes()))
			}
			return ""
		}
		if a.Len() != b.Len() {
			return fmt.Sprintf("%s: sequence has %d vs %d elements", path, a.Len(), b.Len())
		}
		for i := 0; i < a.Len(); i++ {
			if d := diff(a.Index(i), b.Index(i), fmt.Sprintf("%s[%d]", path, i)); d != "" {
				return d
			}
		}
	case reflect.Map:
		if a.Len() != b.Len() {
			return fmt.Sprintf("%s: map has %d vs %d keys", path, a.Len(), b.Len())
		}
		it := a.MapRange()
		for it.Next() {
			bv := b.MapIndex(it.Key())
			if !bv.IsValid() {
				return fmt.Sprintf("%s: key %v missing", path, it.Key())
			}
			if d := diff(it.Value(), bv, fmt.Sprintf("%s[%v]", path, it.Key())); d != "" {
				return d
			}
		}
	case reflect.Struct:
		for i := 0; i < t.NumField(); i++ {
			if !t.Field(i).IsExported() {
				continue
			}
			if d := diff(a.Field(i), b.Field(i), path+"."+t.Field(i).Name); d != "" {
				return d
			}
		}
	default:
		return fmt.Sprintf("%s: unsupported kind %s", path, t.Kind())
	}
	return ""
}

func clip(b []byte) []byte {
	if len(b) > 24 {
		return b[:24]
	}
	return b
}
