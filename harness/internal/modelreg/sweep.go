package modelreg

import (
	"math"
	"reflect"
)

// Sweep enumerates, deterministically, boundary values of model m: the minimal value (nothing
// optional set), a value with every field set, and for every annotated field every boundary
// variant of its type with all other fields minimal (one nested level for struct fields). It
// complements the random generator: every field of every model meets every boundary in the
// quick tier regardless of the seed.
func Sweep(st *State, m *Model, thorough bool) []Node {
	sw := &sweeper{st: st, thorough: thorough}
	t := m.Type()
	base := sw.minimalStruct(t, &m.Info)
	out := []Node{base, sw.fullStruct(t, &m.Info, 0)}
	for i := 0; i < t.NumField(); i++ {
		sf := t.Field(i)
		if !sf.IsExported() {
			continue
		}
		fi, ok := m.Info.FieldByName(sf.Name)
		if !ok && m.Info.Fields != nil {
			continue
		}
		for _, v := range sw.variants(sf.Type, fi.Kind(), 0) {
			n := cloneNode(base)
			n.K[i] = v
			out = append(out, n)
		}
	}
	return out
}

type sweeper struct {
	st       *State
	thorough bool
}

func cloneNode(n Node) Node {
	c := n
	if n.K != nil {
		c.K = make([]Node, len(n.K))
		for i := range n.K {
			c.K[i] = cloneNode(n.K[i])
		}
	}
	if n.B != nil {
		c.B = append([]byte{}, n.B...)
	}
	return c
}

func (sw *sweeper) info(t reflect.Type) *Info {
	if m := sw.st.ByType(t); m != nil {
		return &m.Info
	}
	return nil
}

func (sw *sweeper) annotated(info *Info, name string) (Field, bool) {
	if info == nil || info.Fields == nil {
		return Field{}, true
	}
	return info.FieldByName(name)
}

func (sw *sweeper) minimalStruct(t reflect.Type, info *Info) Node {
	out := Node{K: make([]Node, t.NumField())}
	for i := 0; i < t.NumField(); i++ {
		sf := t.Field(i)
		if _, ok := sw.annotated(info, sf.Name); !sf.IsExported() || !ok {
			out.K[i] = Node{Z: true}
			continue
		}
		out.K[i] = sw.minimal(sf.Type)
	}
	return out
}

func (sw *sweeper) minimal(t reflect.Type) Node {
	switch t.Kind() {
	case reflect.Pointer, reflect.Slice, reflect.Map, reflect.Struct:
		return Node{Z: true}
	}
	return Node{}
}

func (sw *sweeper) fullStruct(t reflect.Type, info *Info, depth int) Node {
	out := Node{K: make([]Node, t.NumField())}
	for i := 0; i < t.NumField(); i++ {
		sf := t.Field(i)
		fi, ok := sw.annotated(info, sf.Name)
		if !sf.IsExported() || !ok {
			out.K[i] = Node{Z: true}
			continue
		}
		out.K[i] = sw.full(sf.Type, fi.Kind(), depth)
	}
	return out
}

func fill2(n int, seed byte) Node {
	k := n
	if k > 2 {
		k = 2
	}
	b := make([]byte, k)
	for i := range b {
		b[i] = seed + byte(i)
	}
	return Node{B: b, N: n - k}
}

// full: a typical "set" value of the type.
func (sw *sweeper) full(t reflect.Type, kind string, depth int) Node {
	switch {
	case t == typeName:
		return Node{K: []Node{{U: 8, B: []byte("a")}, {U: 8, B: []byte("bc")}}}
	case t == typeWire:
		return Node{K: []Node{fill2(3, 0x11), fill2(2, 0x22)}}
	case t == typeDuration:
		return Node{U: 4000}
	}
	switch t.Kind() {
	case reflect.Bool:
		return Node{U: 1}
	case reflect.Uint8, reflect.Uint16, reflect.Uint32, reflect.Uint64, reflect.Uint:
		return Node{U: 7}
	case reflect.String:
		return fill2(3, 'x')
	case reflect.Pointer:
		et := t.Elem()
		if et.Kind() == reflect.Struct {
			if depth >= 3 {
				return Node{Z: true}
			}
			return sw.fullStruct(et, sw.info(et), depth+1)
		}
		return sw.full(et, kind, depth)
	case reflect.Slice:
		if t.Elem().Kind() == reflect.Uint8 {
			return fill2(4, 0x33)
		}
		if depth >= 3 {
			return Node{Z: true}
		}
		return Node{K: []Node{sw.fullElem(t.Elem(), depth+1), sw.fullElem(t.Elem(), depth+1)}}
	case reflect.Map:
		var k1, k2 Node
		if t.Key().Kind() == reflect.String {
			k1, k2 = Node{B: []byte("k1")}, Node{B: []byte("k2")}
		} else {
			k1, k2 = Node{U: 1}, Node{U: 2}
		}
		return Node{K: []Node{k1, sw.fullElem(t.Elem(), depth+1), k2, sw.fullElem(t.Elem(), depth+1)}}
	}
	return Node{Z: true}
}

// fullElem: like full, but never nil (sequence elements and map values cannot be absent).
func (sw *sweeper) fullElem(t reflect.Type, depth int) Node {
	n := sw.full(t, "", depth)
	if n.Z && t.Kind() == reflect.Pointer && t.Elem().Kind() == reflect.Struct {
		return sw.minimalStruct(t.Elem(), sw.info(t.Elem()))
	}
	if n.Z {
		return Node{}
	}
	return n
}

var sweepNats = []uint64{0, 1, 252, 253, 255, 256, 65535, 65536, 1<<32 - 1, 1 << 32, 1 << 47, 1<<63 - 1, 1 << 63, math.MaxUint64}

func (sw *sweeper) lens() []int {
	if sw.thorough {
		return []int{0, 1, 252, 253, 255, 256, 300, 65535, 65536}
	}
	return []int{0, 1, 252, 253, 300}
}

// variants: the boundary values of a field type.
func (sw *sweeper) variants(t reflect.Type, kind string, depth int) []Node {
	var out []Node
	switch {
	case t == typeName:
		out = append(out, Node{Z: true}, Node{K: []Node{}})
		clens := []int{0, 1, 252}
		if BigComponentsOK() {
			clens = append(clens, 253, 300)
		}
		for _, l := range clens {
			c := fill2(l, 0x41)
			c.U = 8
			out = append(out, Node{K: []Node{c}})
		}
		for _, typ := range []uint64{1, 2, 32, 252, 253, 65535, 65536} {
			if kind == "interestName" && typ == 2 {
				continue
			}
			out = append(out, Node{K: []Node{{U: 8, B: []byte("p")}, {U: typ, B: []byte{1, 2}}}})
		}
		long := Node{}
		for i := 0; i < 40; i++ {
			c := fill2(7, byte(i))
			c.U = 8
			long.K = append(long.K, c)
		}
		return append(out, long) // 40 x 9 = 360 bytes: name length >= 253 with small components
	case t == typeWire:
		if kind == "signature" {
			out = append(out, Node{Z: true})
			for _, l := range []int{1, 32, 252, 253, 300} {
				out = append(out, Node{K: []Node{fill2(l, 0x51)}})
			}
			return append(out, Node{K: []Node{fill2(10, 1), fill2(22, 2)}})
		}
		out = append(out, Node{Z: true}, Node{K: []Node{}}, Node{K: []Node{fill2(0, 0)}})
		for _, l := range sw.lens() {
			out = append(out, Node{K: []Node{fill2(l, 0x61)}})
		}
		return append(out, Node{K: []Node{fill2(1, 1), fill2(0, 0), fill2(2, 2)}}, Node{K: []Node{fill2(200, 1), fill2(53, 2)}})
	case t == typeDuration:
		for _, v := range sweepNats {
			if v <= MaxMillis {
				out = append(out, Node{U: v})
			}
		}
		return append(out, Node{U: MaxMillis})
	}
	switch t.Kind() {
	case reflect.Bool:
		return []Node{{}, {U: 1}}
	case reflect.Uint8, reflect.Uint16, reflect.Uint32, reflect.Uint64, reflect.Uint:
		max := uint64(math.MaxUint64)
		if t.Bits() < 64 {
			max = 1<<uint(t.Bits()) - 1
		}
		seen := map[uint64]bool{}
		for _, v := range append(append([]uint64{}, sweepNats...), max) {
			if v <= max && !seen[v] {
				seen[v] = true
				out = append(out, Node{U: v})
			}
		}
		return out
	case reflect.String:
		for _, l := range sw.lens() {
			out = append(out, fill2(l, 's'))
		}
		return out
	case reflect.Pointer:
		out = append(out, Node{Z: true})
		et := t.Elem()
		if et.Kind() == reflect.Struct {
			info := sw.info(et)
			min := sw.minimalStruct(et, info)
			out = append(out, min, sw.fullStruct(et, info, depth+1))
			if depth >= 1 {
				return out
			}
			for i := 0; i < et.NumField(); i++ {
				sf := et.Field(i)
				fi, ok := sw.annotated(info, sf.Name)
				if !sf.IsExported() || !ok {
					continue
				}
				for _, v := range sw.variants(sf.Type, fi.Kind(), depth+1) {
					n := cloneNode(min)
					n.K[i] = v
					out = append(out, n)
				}
			}
			return out
		}
		return append(out, sw.variants(et, kind, depth)...)
	case reflect.Slice:
		if t.Elem().Kind() == reflect.Uint8 {
			out = append(out, Node{Z: true})
			for _, l := range sw.lens() {
				out = append(out, fill2(l, 'b'))
			}
			return out
		}
		out = append(out, Node{Z: true}, Node{K: []Node{}})
		ev := sw.elemVariants(t.Elem(), depth)
		for _, v := range ev {
			out = append(out, Node{K: []Node{v}})
		}
		four := Node{}
		for i := 0; i < 4; i++ {
			four.K = append(four.K, ev[i%len(ev)])
		}
		return append(out, four)
	case reflect.Map:
		out = append(out, Node{Z: true}, Node{K: []Node{}})
		var keys []Node
		if t.Key().Kind() == reflect.String {
			for _, l := range []int{0, 1, 252, 253} {
				keys = append(keys, fill2(l, 'k'))
			}
		} else {
			for _, v := range []uint64{0, 255, 256, 65536, math.MaxUint64} {
				keys = append(keys, Node{U: v})
			}
		}
		ev := sw.elemVariants(t.Elem(), depth)
		for i, k := range keys {
			out = append(out, Node{K: []Node{k, ev[i%len(ev)]}})
		}
		for _, v := range ev {
			out = append(out, Node{K: []Node{keys[1], v}})
		}
		three := Node{}
		for i := 0; i < 3 && i < len(keys); i++ {
			three.K = append(three.K, keys[i], ev[i%len(ev)])
		}
		return append(out, three)
	}
	return []Node{{Z: true}}
}

// elemVariants: non-nil variants for sequence elements / map values.
func (sw *sweeper) elemVariants(t reflect.Type, depth int) []Node {
	var out []Node
	for _, v := range sw.variants(t, "", depth+1) {
		if v.Z {
			continue
		}
		out = append(out, v)
		if len(out) >= 8 {
			break
		}
	}
	if len(out) == 0 {
		out = append(out, sw.fullElem(t, depth+1))
	}
	return out
}
