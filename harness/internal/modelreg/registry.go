// Package modelreg gives the checks a uniform, typed handle on every TLV model produced by the
// repository's code generator. The model list comes from modelscan.Scan at check time; the
// static references Go needs at compile time live in registry_gen.go (written by
// internal/modelscan/cmd/mkregistry from the same scan). Because the test binary is compiled
// before it runs, the compiled registry can lag behind the tree: Reconcile compares it with
// the fresh scan so that the checks report "discovered vs covered" and refuse to call a
// shrunken coverage a success.
package modelreg

import (
	"fmt"
	"reflect"
	"sort"
	"sync"

	enc "github.com/named-data/ndnd/std/encoding"

	"verif/harness/internal/modelscan"
)

// Info and ScanResult are the scan's view of a model / of the tree (see modelscan).
type (
	Info       = modelscan.Info
	Field      = modelscan.Field
	ScanResult = modelscan.ScanResult
)

// RepoDir is the checkout under test (VERIF_REPO, default /repo).
func RepoDir() string { return modelscan.RepoDir() }

// GeneratedFileName is the file name the generator writes.
const GeneratedFileName = modelscan.GeneratedFileName

// Entry is the compiled handle on one generated model (static references; produced by
// cmd/mkregistry into registry_gen.go).
type Entry struct {
	ImportPath string
	Name       string
	// New returns a pointer to a zero model value (*pkg.Model).
	New func() any
	// NewEncoder returns *pkg.ModelEncoder (zero; inputs such as <Sig>_estLen may be set on
	// it before Init, exactly as the repository's own callers do).
	NewEncoder func() any
	// Init = encoder.Init(value); Encode = encoder.Encode(value).
	Init   func(encoder, value any)
	Encode func(encoder, value any) enc.Wire
	// NewContext returns *pkg.ModelParsingContext after Init().
	NewContext func() any
	// Parse = context.Parse(reader, ignoreCritical). The returned value is *pkg.Model (nil on error).
	Parse func(context any, r enc.ParseReader, ignoreCritical bool) (any, error)
	// PubParse is pkg.ParseModel (nil for models generated with the `private` option);
	// PubEncode is value.Encode().
	PubParse  func(r enc.ParseReader, ignoreCritical bool) (any, error)
	PubEncode func(value any) enc.Wire
}

// Key identifies the model across scan and registry.
func (e *Entry) Key() string { return e.ImportPath + "." + e.Name }

// Type returns the struct type of the model.
func (e *Entry) Type() reflect.Type { return reflect.TypeOf(e.New()).Elem() }

// ParseOnce runs a fresh, initialised parsing context over r.
func (e *Entry) ParseOnce(r enc.ParseReader, ignoreCritical bool) (v any, ctx any, err error) {
	ctx = e.NewContext()
	v, err = e.Parse(ctx, r, ignoreCritical)
	return
}

// Model joins the compiled entry with what the check-time scan found.
type Model struct {
	*Entry
	Info Info
}

// State is the reconciled view used by all checks of one test process.
type State struct {
	Scan *ScanResult
	// Models: discovered by the scan AND present in the compiled registry, sorted by key.
	Models []*Model
	// Missing: discovered, reachable, but not in the compiled registry (registry out of date:
	// coverage would silently shrink -> the discovery unit reports "inconclusive").
	Missing []Info
	// Unreachable: discovered but not addressable from an external package.
	Unreachable []Info
	// Stale: in the compiled registry but not discovered by the scan any more. (Normally
	// the harness would not even compile in this case.)
	Stale  []string
	byType map[reflect.Type]*Model
	byKey  map[string]*Model
}

var (
	stateOnce sync.Once
	state     *State
	stateErr  error
)

// Load scans RepoDir() once per process and reconciles the result with the compiled registry.
func Load() (*State, error) {
	stateOnce.Do(func() {
		sr, err := modelscan.Scan(RepoDir())
		if err != nil {
			stateErr = fmt.Errorf("scanning %s: %w", RepoDir(), err)
			return
		}
		state = Reconcile(sr, Generated)
	})
	return state, stateErr
}

// Reconcile joins a scan with a registry.
func Reconcile(sr *ScanResult, reg []Entry) *State {
	st := &State{Scan: sr, byType: map[reflect.Type]*Model{}, byKey: map[string]*Model{}}
	entries := map[string]*Entry{}
	for i := range reg {
		entries[reg[i].Key()] = &reg[i]
	}
	found := map[string]bool{}
	for _, in := range sr.Models {
		found[in.Key()] = true
		if in.Unreachable != "" {
			st.Unreachable = append(st.Unreachable, in)
			continue
		}
		e := entries[in.Key()]
		if e == nil {
			st.Missing = append(st.Missing, in)
			continue
		}
		m := &Model{Entry: e, Info: in}
		st.Models = append(st.Models, m)
		st.byType[e.Type()] = m
		st.byKey[in.Key()] = m
	}
	for k := range entries {
		if !found[k] {
			st.Stale = append(st.Stale, k)
		}
	}
	sort.Strings(st.Stale)
	return st
}

// ByKey finds a covered model by "import/path.Name".
func (s *State) ByKey(k string) *Model { return s.byKey[k] }

// ByType finds the covered model whose struct type is t (used for nested struct fields).
func (s *State) ByType(t reflect.Type) *Model {
	for t.Kind() == reflect.Pointer {
		t = t.Elem()
	}
	return s.byType[t]
}

// Keys lists the covered model keys in order.
func (s *State) Keys() []string {
	out := make([]string, len(s.Models))
	for i, m := range s.Models {
		out[i] = m.Info.Key()
	}
	return out
}
