package modelreg

import (
	"encoding/binary"
	"sort"
)

// A small TLV walker/encoder written from the NDN packet format specification
// (VAR-NUMBER: 1 byte < 253; 253 + 2 bytes; 254 + 4 bytes; 255 + 8 bytes). It never calls
// std/encoding. (internal/tlvwalk is the shared one; this private copy exists because the two
// were written at the same time.)

// Elem is one TLV element found in a buffer.
type Elem struct {
	Typ  uint64
	Len  uint64
	Off  int // offset of the first type byte
	TLen int // bytes of the type number
	LLen int // bytes of the length number
}

// Hdr is the header size.
func (e Elem) Hdr() int { return e.TLen + e.LLen }

// ValOff is the offset of the value.
func (e Elem) ValOff() int { return e.Off + e.TLen + e.LLen }

// End is the offset just past the value.
func (e Elem) End() int { return e.ValOff() + int(e.Len) }

// ReadVarNum decodes a VAR-NUMBER at b[off:]; n == 0 when the buffer is too short.
func ReadVarNum(b []byte, off int) (v uint64, n int) {
	if off >= len(b) {
		return 0, 0
	}
	switch x := b[off]; {
	case x < 253:
		return uint64(x), 1
	case x == 253:
		if off+3 > len(b) {
			return 0, 0
		}
		return uint64(binary.BigEndian.Uint16(b[off+1:])), 3
	case x == 254:
		if off+5 > len(b) {
			return 0, 0
		}
		return uint64(binary.BigEndian.Uint32(b[off+1:])), 5
	default:
		if off+9 > len(b) {
			return 0, 0
		}
		return binary.BigEndian.Uint64(b[off+1:]), 9
	}
}

// VarNumLen is the size of the shortest encoding of v.
func VarNumLen(v uint64) int {
	switch {
	case v < 253:
		return 1
	case v <= 0xffff:
		return 3
	case v <= 0xffffffff:
		return 5
	}
	return 9
}

// AppendVarNum appends the shortest encoding of v.
func AppendVarNum(dst []byte, v uint64) []byte {
	return AppendVarNumWidth(dst, v, VarNumLen(v))
}

// AppendVarNumWidth appends v in the given width (1, 3, 5 or 9 bytes), truncating v to what
// the width can hold (used to build deliberately non-minimal or wrong headers).
func AppendVarNumWidth(dst []byte, v uint64, width int) []byte {
	switch width {
	case 1:
		return append(dst, byte(v))
	case 3:
		return append(dst, 253, byte(v>>8), byte(v))
	case 5:
		return append(dst, 254, byte(v>>24), byte(v>>16), byte(v>>8), byte(v))
	default:
		return append(dst, 255, byte(v>>56), byte(v>>48), byte(v>>40), byte(v>>32), byte(v>>24), byte(v>>16), byte(v>>8), byte(v))
	}
}

// TLV builds one element with shortest-form header.
func TLV(typ uint64, val []byte) []byte {
	out := make([]byte, 0, VarNumLen(typ)+VarNumLen(uint64(len(val)))+len(val))
	out = AppendVarNum(out, typ)
	out = AppendVarNum(out, uint64(len(val)))
	return append(out, val...)
}

// ReadElem decodes the element header at b[off:]; ok is false when the header is truncated.
// The value may extend beyond the buffer (check End() against len(b)).
func ReadElem(b []byte, off int) (e Elem, ok bool) {
	t, tn := ReadVarNum(b, off)
	if tn == 0 {
		return e, false
	}
	l, ln := ReadVarNum(b, off+tn)
	if ln == 0 {
		return e, false
	}
	return Elem{Typ: t, Len: l, Off: off, TLen: tn, LLen: ln}, true
}

// Elements splits b[from:to] into consecutive elements. ok is true when they tile the range
// exactly; minimal is true when in addition every header uses the shortest form.
func Elements(b []byte, from, to int) (es []Elem, ok, minimal bool) {
	minimal = true
	off := from
	for off < to {
		e, good := ReadElem(b[:to], off)
		if !good || e.Len > uint64(to-e.ValOff()) {
			return es, false, false
		}
		if e.TLen != VarNumLen(e.Typ) || e.LLen != VarNumLen(e.Len) {
			minimal = false
		}
		es = append(es, e)
		off = e.End()
	}
	return es, true, minimal
}

// CanonMapOrder sorts, inside b, every contiguous run of (key, value) element pairs whose key
// type is in keyToVal, so that two encodings that differ only in Go's map iteration order
// compare equal. Anything it cannot split is returned unchanged.
func CanonMapOrder(b []byte, keyToVal map[uint64]uint64) []byte {
	if len(keyToVal) == 0 {
		return b
	}
	es, ok, _ := Elements(b, 0, len(b))
	if !ok {
		return b
	}
	out := make([]byte, 0, len(b))
	i := 0
	for i < len(es) {
		vt, isKey := keyToVal[es[i].Typ]
		if !isKey {
			out = append(out, b[es[i].Off:es[i].End()]...)
			i++
			continue
		}
		kt := es[i].Typ
		var units [][]byte
		for i+1 < len(es) && es[i].Typ == kt && es[i+1].Typ == vt {
			units = append(units, b[es[i].Off:es[i+1].End()])
			i += 2
		}
		if len(units) == 0 { // key without value: leave as is
			out = append(out, b[es[i].Off:es[i].End()]...)
			i++
			continue
		}
		sort.Slice(units, func(a, c int) bool { return string(units[a]) < string(units[c]) })
		for _, u := range units {
			out = append(out, u...)
		}
	}
	return out
}
