package modelreg

import (
	"path/filepath"
	"runtime/debug"
	"sort"
	"strings"

	enc "github.com/named-data/ndnd/std/encoding"
)

// Segment cuts b into a wire at the given offsets (sorted, deduplicated, clipped).
func Segment(b []byte, cuts []int) enc.Wire {
	cs := append([]int{}, cuts...)
	sort.Ints(cs)
	w := enc.Wire{}
	prev := 0
	for _, c := range cs {
		if c <= prev || c >= len(b) {
			continue
		}
		w = append(w, b[prev:c])
		prev = c
	}
	w = append(w, b[prev:])
	return w
}

// HeaderInteriors lists offsets strictly inside TLV headers (and at value starts) of the top
// level and one nested level: the places where a segment boundary is most likely to confuse a
// reader.
func HeaderInteriors(b []byte) []int {
	var out []int
	es, ok, _ := Elements(b, 0, len(b))
	if !ok {
		return nil
	}
	add := func(e Elem) {
		for o := e.Off + 1; o < e.ValOff(); o++ {
			out = append(out, o)
		}
		out = append(out, e.ValOff())
	}
	for _, e := range es {
		add(e)
		if sub, ok, _ := Elements(b, e.ValOff(), e.End()); ok {
			for _, s := range sub {
				add(s)
			}
		}
	}
	return out
}

// CutsFor turns abstract cut choices into offsets of b: values < 0 select a header-interior
// offset (index -v-1 modulo their number; if there is none, a plain offset), values >= 0 are
// per-mille of len(b).
func CutsFor(b []byte, choices []int) []int {
	if len(b) == 0 {
		return nil
	}
	hi := HeaderInteriors(b)
	var out []int
	for _, c := range choices {
		if c < 0 {
			if len(hi) == 0 {
				out = append(out, (-c)%len(b))
				continue
			}
			out = append(out, hi[(-c-1)%len(hi)])
		} else {
			out = append(out, c%1000*len(b)/1000)
		}
	}
	return out
}

// PanicSite names the innermost frames of the code under test on the current (panicking)
// stack; call it from the deferred function that recovered.
func PanicSite() string {
	lines := strings.Split(string(debug.Stack()), "\n")
	var out []string
	for i := 0; i+1 < len(lines); i++ {
		l := strings.TrimSpace(lines[i+1])
		if strings.Contains(lines[i], "github.com/named-data/ndnd/") && strings.Contains(l, ".go:") {
			if k := strings.Index(l, " +0x"); k >= 0 {
				l = l[:k]
			}
			out = append(out, filepath.Base(filepath.Dir(l))+"/"+filepath.Base(l))
			if len(out) == 3 {
				break
			}
		}
	}
	return strings.Join(out, " < ")
}
