package lpwire

import (
	"bytes"
	"testing"

	enc "github.com/named-data/ndnd/std/encoding"
	spec "github.com/named-data/ndnd/std/ndn/spec_2022"
)

// Self-test of the helper: every size in [min, 8800] is producible, has the exact size and
// is accepted by the repository's packet reader (this is a sanity check of the harness's
// inputs, not an oracle).
func TestMakeSizes(t *testing.T) {
	miss := 0
	for size := 1; size <= 8800; size++ {
		d, ok := MakeData("a", size, 7)
		if ok {
			if len(d) != size {
				t.Fatalf("data size %d got %d", size, len(d))
			}
			p, _, err := spec.ReadPacket(enc.NewBufferReader(d))
			if err != nil || p.Data == nil {
				t.Fatalf("data size %d rejected: %v", size, err)
			}
		} else if size >= 6 && size != 255 && size != 256 { // no TLV with a 1-byte type is 255 or 256 bytes long
			t.Fatalf("data size %d unreachable", size)
		} else {
			miss++
		}
		i, ok := MakeInterest("a", size, 7)
		if ok {
			if len(i) != size {
				t.Fatalf("interest size %d got %d", size, len(i))
			}
			p, _, err := spec.ReadPacket(enc.NewBufferReader(i))
			if err != nil || p.Interest == nil {
				t.Fatalf("interest size %d rejected: %v", size, err)
			}
		} else if size >= 6 && size != 255 && size != 256 {
			t.Fatalf("interest size %d unreachable", size)
		}
	}
	t.Logf("min data %d, min interest %d", MinData("a"), MinInterest("a"))
}

func TestLpRoundTrip(t *testing.T) {
	p := LP{Seq: U64(5), FragIndex: U64(1), FragCount: U64(300), PitToken: []byte{1, 2, 3, 4, 5, 6},
		IncomingFaceId: U64(70000), CongestionMark: U64(1), Fragment: bytes.Repeat([]byte{9}, 300)}
	w := p.Encode()
	if len(w) != p.Size(300) {
		t.Fatalf("size %d vs %d", len(w), p.Size(300))
	}
	q, err := Parse(w)
	if err != nil {
		t.Fatal(err)
	}
	if *q.Seq != 5 || *q.FragIndex != 1 || *q.FragCount != 300 || !bytes.Equal(q.PitToken, p.PitToken) ||
		*q.IncomingFaceId != 70000 || *q.CongestionMark != 1 || !bytes.Equal(q.Fragment, p.Fragment) {
		t.Fatalf("round trip mismatch %+v", q)
	}
	// the repository's decoder agrees on a well-formed frame
	r, _, err := spec.ReadPacket(enc.NewBufferReader(w))
	if err != nil || r.LpPacket == nil || *r.LpPacket.FragCount != 300 || !bytes.Equal(r.LpPacket.Fragment.Join(), p.Fragment) {
		t.Fatalf("repository decoder disagrees: %v", err)
	}
}
