// Package lpwire is the harness's own encoder/decoder of NDNLPv2 link-layer frames and a
// builder of minimal valid Interest / Data packets of an exact wire size. It is written
// from the NDNLPv2 specification (https://redmine.named-data.net/projects/nfd/wiki/NDNLPv2)
// and the NDN packet format on top of internal/tlvwalk and never calls the repository's
// encoder or decoder, so that it can serve as the reference in the C10 / C04 oracles.
//
//	LpPacket  = 100 LENGTH *LpHeaderField [Fragment]
//	Fragment  = 80 LENGTH *OCTET
//	Sequence  = 81 LENGTH 8OCTET (fixed width)       FragIndex = 82 NNI     FragCount = 83 NNI
//	PitToken  = 98 LENGTH 1*32OCTET                  IncomingFaceId = 812 NNI
//	NextHopFaceId = 816 NNI                          CongestionMark = 832 NNI
package lpwire

import (
	"encoding/binary"
	"errors"
	"fmt"

	"verif/harness/internal/tlvwalk"
)

const (
	TLpPacket       = 100
	TFragment       = 80
	TSequence       = 81
	TFragIndex      = 82
	TFragCount      = 83
	TPitToken       = 98
	TNack           = 800
	TIncomingFaceId = 812
	TNextHopFaceId  = 816
	TCachePolicy    = 820
	TCongestionMark = 832
	TAck            = 836
	TTxSequence     = 840
	TNonDiscovery   = 844

	TInterest = 5
	TData     = 6
	TName     = 7
	TGeneric  = 8
)

// LP is a decoded / to-be-encoded LpPacket. Pointer == nil / Has* == false: field absent.
type LP struct {
	Seq            *uint64 `json:"seq,omitempty"`
	FragIndex      *uint64 `json:"fi,omitempty"`
	FragCount      *uint64 `json:"fc,omitempty"`
	PitToken       []byte  `json:"tok,omitempty"`
	HasPitToken    bool    `json:"htok,omitempty"`
	IncomingFaceId *uint64 `json:"inface,omitempty"`
	NextHopFaceId  *uint64 `json:"nexthop,omitempty"`
	CongestionMark *uint64 `json:"cm,omitempty"`
	Fragment       []byte  `json:"frag,omitempty"`
	HasFragment    bool    `json:"hfrag,omitempty"`
	// Other header fields seen by Parse (types), in order of appearance.
	Other []uint64 `json:"other,omitempty"`
}

func U64(v uint64) *uint64 { return &v }

// header returns the concatenated header fields (everything but the Fragment).
func (p LP) header() []byte {
	var v []byte
	if p.Seq != nil {
		var b [8]byte
		binary.BigEndian.PutUint64(b[:], *p.Seq)
		v = tlvwalk.AppendTLV(v, TSequence, b[:])
	}
	if p.FragIndex != nil {
		v = tlvwalk.AppendNNI(v, TFragIndex, *p.FragIndex)
	}
	if p.FragCount != nil {
		v = tlvwalk.AppendNNI(v, TFragCount, *p.FragCount)
	}
	if p.HasPitToken || len(p.PitToken) > 0 {
		v = tlvwalk.AppendTLV(v, TPitToken, p.PitToken)
	}
	if p.IncomingFaceId != nil {
		v = tlvwalk.AppendNNI(v, TIncomingFaceId, *p.IncomingFaceId)
	}
	if p.NextHopFaceId != nil {
		v = tlvwalk.AppendNNI(v, TNextHopFaceId, *p.NextHopFaceId)
	}
	if p.CongestionMark != nil {
		v = tlvwalk.AppendNNI(v, TCongestionMark, *p.CongestionMark)
	}
	return v
}

// Encode encodes the LpPacket: header fields in the order of the NDNLPv2 specification
// (increasing type), Fragment last, every number in shortest form.
func (p LP) Encode() []byte {
	v := p.header()
	if p.HasFragment || len(p.Fragment) > 0 {
		v = tlvwalk.AppendTLV(v, TFragment, p.Fragment)
	}
	return tlvwalk.EncodeTLV(TLpPacket, v)
}

// Size is the size of the frame that carries the header fields of p and a Fragment of
// fragLen bytes (p.Fragment is ignored), computed without building the frame.
func (p LP) Size(fragLen int) int {
	inner := len(p.header()) + tlvwalk.VarNumSize(TFragment) + tlvwalk.VarNumSize(uint64(fragLen)) + fragLen
	return tlvwalk.VarNumSize(TLpPacket) + tlvwalk.VarNumSize(uint64(inner)) + inner
}

var (
	ErrNotLp     = errors.New("lpwire: not an LpPacket")
	ErrMalformed = errors.New("lpwire: malformed LpPacket")
)

// Parse decodes a frame that must be exactly one well-formed LpPacket: shortest forms,
// children tiling the value exactly, no duplicated known field, known fields of the right
// shape, Fragment (if any) last.
func Parse(frame []byte) (LP, error) {
	var p LP
	t, err := tlvwalk.ParseOne(frame)
	if err != nil {
		return p, fmt.Errorf("%w: %v", ErrMalformed, err)
	}
	if t.Type != TLpPacket {
		return p, ErrNotLp
	}
	if !t.Shortest() {
		return p, fmt.Errorf("%w: outer header not in shortest form", ErrMalformed)
	}
	kids, err := tlvwalk.Children(frame, t.ValOff, t.End)
	if err != nil {
		return p, fmt.Errorf("%w: %v", ErrMalformed, err)
	}
	seen := map[uint64]bool{}
	nni := func(k tlvwalk.TLV) (*uint64, error) {
		v, _, err := tlvwalk.ParseNNI(k.Value(frame))
		if err != nil {
			return nil, fmt.Errorf("%w: field %d: %v", ErrMalformed, k.Type, err)
		}
		return &v, nil
	}
	for i, k := range kids {
		if !k.Shortest() {
			return p, fmt.Errorf("%w: field %d not in shortest form", ErrMalformed, k.Type)
		}
		if seen[k.Type] {
			return p, fmt.Errorf("%w: field %d repeated", ErrMalformed, k.Type)
		}
		seen[k.Type] = true
		if p.HasFragment {
			return p, fmt.Errorf("%w: field %d after Fragment", ErrMalformed, k.Type)
		}
		switch k.Type {
		case TSequence:
			if k.Len != 8 {
				return p, fmt.Errorf("%w: Sequence of %d bytes", ErrMalformed, k.Len)
			}
			p.Seq = U64(binary.BigEndian.Uint64(k.Value(frame)))
		case TFragIndex:
			if p.FragIndex, err = nni(k); err != nil {
				return p, err
			}
		case TFragCount:
			if p.FragCount, err = nni(k); err != nil {
				return p, err
			}
		case TPitToken:
			p.HasPitToken = true
			p.PitToken = append([]byte{}, k.Value(frame)...)
		case TIncomingFaceId:
			if p.IncomingFaceId, err = nni(k); err != nil {
				return p, err
			}
		case TNextHopFaceId:
			if p.NextHopFaceId, err = nni(k); err != nil {
				return p, err
			}
		case TCongestionMark:
			if p.CongestionMark, err = nni(k); err != nil {
				return p, err
			}
		case TFragment:
			p.HasFragment = true
			p.Fragment = append([]byte{}, k.Value(frame)...)
			_ = i
		default:
			p.Other = append(p.Other, k.Type)
		}
	}
	return p, nil
}

// ---------------------------------------------------------------------------- packets

// nameWire encodes /<label>/<pad bytes of 'p'>  (the second component only if pad >= 0).
func nameWire(label string, pad int) []byte {
	v := tlvwalk.EncodeTLV(TGeneric, []byte(label))
	if pad >= 0 {
		b := make([]byte, pad)
		for i := range b {
			b[i] = 'p'
		}
		v = tlvwalk.AppendTLV(v, TGeneric, b)
	}
	return tlvwalk.EncodeTLV(TName, v)
}

func fill(n int, seed byte) []byte {
	b := make([]byte, n)
	x := uint32(seed)*2654435761 + 12345
	for i := range b {
		x = x*1664525 + 1013904223
		b[i] = byte(x >> 24)
	}
	return b
}

// dataWire: Data = Name [Content] SignatureInfo(DigestSha256) SignatureValue(empty).
func dataWire(label string, pad int, content int, seed byte) []byte {
	v := nameWire(label, pad)
	if content >= 0 {
		v = tlvwalk.AppendTLV(v, 0x15, fill(content, seed))
	}
	v = tlvwalk.AppendTLV(v, 0x16, tlvwalk.EncodeTLV(0x1b, []byte{0}))
	v = tlvwalk.AppendTLV(v, 0x17, nil)
	return tlvwalk.EncodeTLV(TData, v)
}

// interestWire: Interest = Name Nonce [InterestLifetime of life bytes]; size is steered
// through the padding name component and the width of the lifetime.
func interestWire(label string, pad int, life int, seed byte) []byte {
	v := nameWire(label, pad)
	v = tlvwalk.AppendTLV(v, 0x0a, []byte{seed, 0x11, 0x22, 0x33})
	if life > 0 {
		lt := make([]byte, life)
		lt[life-1] = 0xa0
		if life > 1 {
			lt[life-2] = 0x0f
		}
		v = tlvwalk.AppendTLV(v, 0x0c, lt)
	}
	return tlvwalk.EncodeTLV(TInterest, v)
}

// tiny builds the smallest packets the repository's reader accepts: only a Name, either
// empty (4 bytes) or with one component of size-6 bytes. No packet of 1, 2, 3 or 5 bytes
// exists.
func tiny(typ byte, size int, label string) ([]byte, bool) {
	if size == 4 {
		return []byte{typ, 2, TName, 0}, true
	}
	if size < 6 || size > 200 {
		return nil, false
	}
	n := size - 6
	w := []byte{typ, byte(n + 4), TName, byte(n + 2), TGeneric, byte(n)}
	for i := 0; i < n; i++ {
		if i < len(label) {
			w = append(w, label[i])
		} else {
			w = append(w, 'a'+byte(i%26))
		}
	}
	return w, true
}

// MinData / MinInterest are the smallest sizes MakeData / MakeInterest can produce for a
// one-letter label.
func MinData(label string) int     { return len(dataWire(label, -1, -1, 0)) }
func MinInterest(label string) int { return len(interestWire(label, -1, 0, 0)) }

// MakeData returns a valid Data packet /<label>[/ppp…] whose wire is exactly size bytes
// (ok=false if this size cannot be produced, which happens only below MinData and for a
// few sizes next to it). The content bytes depend on seed.
func MakeData(label string, size int, seed byte) ([]byte, bool) {
	if size < MinData(label)+8 {
		if w, ok := tiny(TData, size, label); ok {
			return w, true
		}
	}
	// two knobs (name padding, content length) so that the 253 / 65536 length-of-length
	// steps can always be compensated
	for _, pad := range []int{-1, 0, 1, 2, 3, 4, 5, 6} {
		for _, withContent := range []bool{false, true} {
			if !withContent {
				if w := dataWire(label, pad, -1, seed); len(w) == size {
					return w, true
				}
				continue
			}
			base := len(dataWire(label, pad, 0, seed))
			if base > size {
				continue
			}
			for c := size - base; c >= 0 && c >= size-base-8; c-- {
				if w := dataWire(label, pad, c, seed); len(w) == size {
					return w, true
				}
			}
		}
	}
	return nil, false
}

// MakeInterest returns a valid Interest /<label>[/ppp…] whose wire is exactly size bytes.
func MakeInterest(label string, size int, seed byte) ([]byte, bool) {
	if size < MinInterest(label)+8 {
		if w, ok := tiny(TInterest, size, label); ok {
			return w, true
		}
	}
	for _, life := range []int{2, 0, 1, 4} {
		if w := interestWire(label, -1, life, seed); len(w) == size {
			return w, true
		}
		base := len(interestWire(label, 0, life, seed))
		if base > size {
			continue
		}
		for p := size - base; p >= 0 && p >= size-base-8; p-- {
			if w := interestWire(label, p, life, seed); len(w) == size {
				return w, true
			}
		}
	}
	return nil, false
}
