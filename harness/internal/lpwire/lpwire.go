// Package lpwire is the harness's own encoder/decoder of NDNLPv2 link-layer frames and a
// builder of minimal valid Interest / Data packets of an exact wire size. It is written
// from the NDNLPv2 specification (https://redmine.named-data.net/projects/nfd/wiki/NDNLPv2)
// and the NDN packet format on top of internal/tlvwalk and never calls the repository's
// encoder or decoder, so that it can serve as the reference in the C10 / C04 oracles.
//
//	LpPacket  = 100 LENGTH *LpHeaderField [Fragment]
//	Fragment  = 80 LENGTH *OCTET
//	Sequence  = 81 LENGTH 8OCTET (fixed width)       FragIndex = 82 NNI     FragCount = 83 NNI
//	PitToken  = 98 LENGTH 1*32OCTET                  IncomingFaceId = 812 NNI
//	NextHopFaceId = 816 NNI                          CongestionMark = 832 NNI
package lpwire

import (
	"encoding/binary"
	"errors"
	"fmt"

	"verif/harness/internal/tlvwalk"
)

const (
	TLpPacket       = 100
	TFragment       = 80
	TSequence       = 81
	TFragIndex      = 82
	TFragCount      = 83
	TPitToken       = 98
	TNack           = 800
	TIncomingFaceId = 812
	TNextHopFaceId  = 816
	TCachePolicy    = 820
	TCongestionMark = 832
	TAck            = 836
	TTxSequence     = 840
	TNonDiscovery   = 844

	TInterest = 5
	TData     = 6
	TName     = 7
	TGeneric  = 8
)

// LP is a decoded / to-be-encoded LpPacket. Pointer == nil / Has* == false: field absent.
type LP struct {
	Seq            *uint64 `json:"seq,omitempty"`
	FragIndex      *uint64 `json:"fi,omitempty"`
	FragCount      *uint64 `json:"fc,omitempty"`
	PitToken       []byte  `json:"tok,omitempty"`
	HasPitToken    bool    `json:"htok,omitempty"`
	IncomingFaceId *uint64 `json:"inface,omitempty"`
	NextHopFaceId  *uint64 `json:"nexthop,omitempty"`
	CongestionMark *uint64 `json:"cm,omitempty"`
	Fragment       []byte  `json:"frag,omitempty"`
	HasFragment    bool    `json:"hfrag,omitempty"`
	// Other header fields seen by Parse (types), in order of appearance.
	Other []uint64 `json:"other,omitempty"`
	// ExtraHdr: raw bytes (already encoded TLVs, or anything) that Encode places after the
	// known header fields and before the Fragment. Not filled in by Parse.
	ExtraHdr []byte `json:"xh,omitempty"`
}

func U64(v uint64) *uint64 { return &v }

// header returns the concatenated header fields (everything but the Fragment).
func (p LP) header() []byte {
	var v []byte
	if p.Seq != nil {
		var b [8]byte
		binary.BigEndian.PutUint64(b[:], *p.Seq)
		v = tlvwalk.AppendTLV(v, TSequence, b[:])
	}
	if p.FragIndex != nil {
		v = tlvwalk.AppendNNI(v, TFragIndex, *p.FragIndex)
	}
	if p.FragCount != nil {
		v = tlvwalk.AppendNNI(v, TFragCount, *p.FragCount)
	}
	if p.HasPitToken || len(p.PitToken) > 0 {
		v = tlvwalk.AppendTLV(v, TPitToken, p.PitToken)
	}
	if p.IncomingFaceId != nil {
		v = tlvwalk.AppendNNI(v, TIncomingFaceId, *p.IncomingFaceId)
	}
	if p.NextHopFaceId != nil {
		v = tlvwalk.AppendNNI(v, TNextHopFaceId, *p.NextHopFaceId)
	}
	if p.CongestionMark != nil {
		v = tlvwalk.AppendNNI(v, TCongestionMark, *p.CongestionMark)
	}
	v = append(v, p.ExtraHdr...)
	return v
}

// Encode encodes the LpPacket: header fields in the order of the NDNLPv2 specification
// (increasing type), Fragment last, every number in shortest form.
func (p LP) Encode() []byte {
	v := p.header()
	if p.HasFragment || len(p.Fragment) > 0 {
		v = tlvwalk.AppendTLV(v, TFragment, p.Fragment)
	}
	return tlvwalk.EncodeTLV(TLpPacket, v)
}

// Size is the size of the frame that carries the header fields of p and a Fragment of
// fragLen bytes (p.Fragment is ignored), computed without building the frame.
func (p LP) Size(fragLen int) int {
	inner := len(p.header()) + tlvwalk.VarNumSize(TFragment) + tlvwalk.VarNumSize(uint64(fragLen)) + fragLen
	return tlvwalk.VarNumSize(TLpPacket) + tlvwalk.VarNumSize(uint64(inner)) + inner
}

var (
	ErrNotLp     = errors.New("lpwire: not an LpPacket")
	ErrMalformed = errors.New("lpwire: malformed LpPacket")
)

// Parse decodes a frame that must be exactly one well-formed LpPacket: shortest forms,
// children tiling the value exactly, no duplicated known field, known fields of the right
// shape, Fragment (if any) last.
func Parse(frame []byte) (LP, error) {
	var p LP
	t, err := tlvwalk.ParseOne(frame)
	if err != nil {
		return p, fmt.Errorf("%w: %v", ErrMalformed, err)
	}
	if t.Type != TLpPacket {
		return p, ErrNotLp
	}
	if !t.Shortest() {
		return p, fmt.Errorf("%w: outer header not in shortest form", ErrMalformed)
	}
	kids, err := tlvwalk.Children(frame, t.ValOff, t.End)
	if err != nil {
		return p, fmt.Errorf("%w: %v", ErrMalformed, err)
	}
	seen := map[uint64]bool{}
	nni := func(k tlvwalk.TLV) (*uint64, error) {
		v, _, err := tlvwalk.ParseNNI(k.Value(frame))
		if err != nil {
			return nil, fmt.Errorf("%w: field %d: %v", ErrMalformed, k.Type, err)
		}
		return &v, nil
	}
	for i, k := range kids {
		if !k.Shortest() {
			return p, fmt.Errorf("%w: field %d not in shortest form", ErrMalformed, k.Type)
		}
		if seen[k.Type] {
			return p, fmt.Errorf("%w: field %d repeated", ErrMalformed, k.Type)
		}
		seen[k.Type] = true
		if p.HasFragment {
			return p, fmt.Errorf("%w: field %d after Fragment", ErrMalformed, k.Type)
		}
		switch k.Type {
		case TSequence:
			if k.Len != 8 {
				return p, fmt.Errorf("%w: Sequence of %d bytes", ErrMalformed, k.Len)
			}
			p.Seq = U64(binary.BigEndian.Uint64(k.Value(frame)))
		case TFragIndex:
			if p.FragIndex, err = nni(k); err != nil {
				return p, err
			}
		case TFragCount:
			if p.FragCount, err = nni(k); err != nil {
				return p, err
			}
		case TPitToken:
			p.HasPitToken = true
			p.PitToken = append([]byte{}, k.Value(frame)...)
		case TIncomingFaceId:
			if p.IncomingFaceId, err = nni(k); err != nil {
				return p, err
			}
		case TNextHopFaceId:
			if p.NextHopFaceId, err = nni(k); err != nil {
				return p, err
			}
		case TCongestionMark:
			if p.CongestionMark, err = nni(k); err != nil {
				return p, err
			}
		case TFragment:
			p.HasFragment = true
			p.Fragment = append([]byte{}, k.Value(frame)...)
			_ = i
		default:
			p.Other = append(p.Other, k.Type)
		}
	}
	return p, nil
}

// ---------------------------------------------------------------------------- packets

func tlvSize(typ uint64, valueLen int) int {
	return tlvwalk.VarNumSize(typ) + tlvwalk.VarNumSize(uint64(valueLen)) + valueLen
}

// nameSize / nameWire: /<label>/<pad bytes of 'p'>  (the second component only if pad >= 0).
func nameSize(label string, pad int) int {
	v := tlvSize(TGeneric, len(label))
	if pad >= 0 {
		v += tlvSize(TGeneric, pad)
	}
	return tlvSize(TName, v)
}

func nameWire(dst []byte, label string, pad int) []byte {
	v := tlvSize(TGeneric, len(label))
	if pad >= 0 {
		v += tlvSize(TGeneric, pad)
	}
	dst = tlvwalk.AppendVarNum(dst, TName)
	dst = tlvwalk.AppendVarNum(dst, uint64(v))
	dst = tlvwalk.AppendTLV(dst, TGeneric, []byte(label))
	if pad >= 0 {
		dst = tlvwalk.AppendVarNum(dst, TGeneric)
		dst = tlvwalk.AppendVarNum(dst, uint64(pad))
		for i := 0; i < pad; i++ {
			dst = append(dst, 'p')
		}
	}
	return dst
}

func appendFill(dst []byte, n int, seed byte) []byte {
	x := uint32(seed)*2654435761 + 12345
	for i := 0; i < n; i++ {
		if i&3 == 0 {
			x = x*1664525 + 1013904223
		}
		dst = append(dst, byte(x>>(8*uint(i&3))))
	}
	return dst
}

var sigTail = []byte{0x16, 0x03, 0x1b, 0x01, 0x00, 0x17, 0x00} // SignatureInfo(DigestSha256) SignatureValue(empty)

// Data = Name [Content] SignatureInfo SignatureValue.
func dataInner(label string, pad int, content int) int {
	v := nameSize(label, pad) + len(sigTail)
	if content >= 0 {
		v += tlvSize(0x15, content)
	}
	return v
}

func dataWire(label string, pad int, content int, seed byte) []byte {
	inner := dataInner(label, pad, content)
	w := make([]byte, 0, tlvSize(TData, inner))
	w = tlvwalk.AppendVarNum(w, TData)
	w = tlvwalk.AppendVarNum(w, uint64(inner))
	w = nameWire(w, label, pad)
	if content >= 0 {
		w = tlvwalk.AppendVarNum(w, 0x15)
		w = tlvwalk.AppendVarNum(w, uint64(content))
		w = appendFill(w, content, seed)
	}
	return append(w, sigTail...)
}

// Interest = Name Nonce [InterestLifetime of life bytes]; size is steered through the
// padding name component and the width of the lifetime.
func interestInner(label string, pad int, life int) int {
	v := nameSize(label, pad) + 6
	if life > 0 {
		v += 2 + life
	}
	return v
}

func interestWire(label string, pad int, life int, seed byte) []byte {
	inner := interestInner(label, pad, life)
	w := make([]byte, 0, tlvSize(TInterest, inner))
	w = tlvwalk.AppendVarNum(w, TInterest)
	w = tlvwalk.AppendVarNum(w, uint64(inner))
	w = nameWire(w, label, pad)
	w = append(w, 0x0a, 0x04, seed, 0x11, 0x22, 0x33)
	if life > 0 {
		w = append(w, 0x0c, byte(life))
		for i := 0; i < life; i++ {
			switch i {
			case life - 1:
				w = append(w, 0xa0)
			case life - 2:
				w = append(w, 0x0f)
			default:
				w = append(w, 0)
			}
		}
	}
	return w
}

// tiny builds the smallest packets the repository's reader accepts: only a Name, either
// empty (4 bytes) or with one component of size-6 bytes. No packet of 1, 2, 3 or 5 bytes
// exists.
func tiny(typ byte, size int, label string) ([]byte, bool) {
	if size == 4 {
		return []byte{typ, 2, TName, 0}, true
	}
	if size < 6 || size > 200 {
		return nil, false
	}
	n := size - 6
	w := []byte{typ, byte(n + 4), TName, byte(n + 2), TGeneric, byte(n)}
	for i := 0; i < n; i++ {
		if i < len(label) {
			w = append(w, label[i])
		} else {
			w = append(w, 'a'+byte(i%26))
		}
	}
	return w, true
}

// MinData / MinInterest are the smallest sizes of the regular (non-tiny) forms.
func MinData(label string) int     { return tlvSize(TData, dataInner(label, -1, -1)) }
func MinInterest(label string) int { return tlvSize(TInterest, interestInner(label, -1, 0)) }

// MakeData returns a valid Data packet /<label>[/ppp…] whose wire is exactly size bytes
// (ok=false if no packet of this size exists: 1-3, 5, 255, 256). The content bytes depend
// on seed.
func MakeData(label string, size int, seed byte) ([]byte, bool) {
	if size < MinData(label)+8 {
		if w, ok := tiny(TData, size, label); ok {
			return w, true
		}
	}
	// two knobs (name padding, content length) so that the 253 / 65536 length-of-length
	// steps can always be compensated
	for _, pad := range []int{-1, 0, 1, 2, 3, 4, 5, 6} {
		if tlvSize(TData, dataInner(label, pad, -1)) == size {
			return dataWire(label, pad, -1, seed), true
		}
		base := tlvSize(TData, dataInner(label, pad, 0))
		if base > size {
			continue
		}
		for c := size - base; c >= 0 && c >= size-base-8; c-- {
			if tlvSize(TData, dataInner(label, pad, c)) == size {
				return dataWire(label, pad, c, seed), true
			}
		}
	}
	return nil, false
}

// MakeInterest returns a valid Interest /<label>[/ppp…] whose wire is exactly size bytes.
func MakeInterest(label string, size int, seed byte) ([]byte, bool) {
	if size < MinInterest(label)+8 {
		if w, ok := tiny(TInterest, size, label); ok {
			return w, true
		}
	}
	for _, life := range []int{2, 0, 1, 4} {
		if tlvSize(TInterest, interestInner(label, -1, life)) == size {
			return interestWire(label, -1, life, seed), true
		}
		base := tlvSize(TInterest, interestInner(label, 0, life))
		if base > size {
			continue
		}
		for p := size - base; p >= 0 && p >= size-base-8; p-- {
			if tlvSize(TInterest, interestInner(label, p, life)) == size {
				return interestWire(label, p, life, seed), true
			}
		}
	}
	return nil, false
}

// ParseFrame decodes a link-layer frame: a well-formed LpPacket, or -- equivalently under
// NDNLPv2 -- a bare network packet (one well-formed Interest or Data TLV spanning the whole
// frame), which is returned as an LpPacket without header fields carrying that packet.
func ParseFrame(frame []byte) (LP, error) {
	p, err := Parse(frame)
	if !errors.Is(err, ErrNotLp) {
		return p, err
	}
	t, perr := tlvwalk.ParseOne(frame)
	if perr != nil || (t.Type != TInterest && t.Type != TData) || !t.Shortest() {
		return p, err
	}
	return LP{Fragment: frame, HasFragment: true}, nil
}
