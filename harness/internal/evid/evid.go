// Package evid is the glue between a rapid property and the /verif/check driver:
// it counts cases, classifies them, keeps the hash set of distinct non-trivial cases,
// writes the in-flight case (crash attribution), the shrunk failing case (replay file)
// and the per-process statistics file that the driver merges into evidence/<id>.json.
//
// Contract with the driver (environment):
//
//	VERIF_OUT    directory for stats-<unit>-<shard>.json, hashes-<unit>-<shard>.bin,
//	             fail-<unit>-<shard>.json, inflight-<unit>-<shard>.json
//	VERIF_SHARD  shard number (default 0)
//	VERIF_TIER   quick | thorough
//	VERIF_REPLAY path of a replay file (only for Test*Replay)
package evid

import (
	"crypto/sha256"
	"encoding/binary"
	"encoding/json"
	"fmt"
	"os"
	"path/filepath"
	"sort"
	"strconv"
	"sync"
	"testing"

	"pgregory.net/rapid"
)

// Result is what executing one case produced.
type Result struct {
	// Err != nil: the property is violated by this case.
	Err error
	// NonTrivial: the case is non-trivial by the rule of the property.
	NonTrivial bool
	// Classes the case belongs to (for the class histogram).
	Classes []string
	// Counters added to the histogram with a weight (e.g. number of excluded draws).
	Counts map[string]int
}

const maxSamples = 6
const maxHashes = 6_000_000

// Recorder accumulates per-process statistics of one unit (one Test function).
type Recorder struct {
	mu       sync.Mutex
	Property string
	Unit     string
	Rule     string
	// ReplayUnit names the unit whose Replay test can re-execute the cases of this recorder
	// (differs from Unit for Regress units); written into in-flight and fail files.
	ReplayUnit string
	outDir     string
	shard      int
	evals      int
	nontriv    int
	hashes     map[uint64]struct{}
	hashOver   int
	classes    map[string]int
	samples    []json.RawMessage
	failures   int
	lastFail   string
	notes      []string
	exhaustiv  bool
}

// New creates a recorder. unit is the name of the Test function.
func New(property, unit, rule string) *Recorder {
	r := &Recorder{Property: property, Unit: unit, Rule: rule,
		hashes: map[uint64]struct{}{}, classes: map[string]int{}}
	r.outDir = os.Getenv("VERIF_OUT")
	if s := os.Getenv("VERIF_SHARD"); s != "" {
		r.shard, _ = strconv.Atoi(s)
	}
	return r
}

// Tier returns "quick" or "thorough".
func Tier() string {
	if os.Getenv("VERIF_TIER") == "thorough" {
		return "thorough"
	}
	return "quick"
}

// Thorough reports whether the thorough tier is running.
func Thorough() bool { return Tier() == "thorough" }

func (r *Recorder) path(kind, ext string) string {
	if r.outDir == "" {
		return ""
	}
	return filepath.Join(r.outDir, fmt.Sprintf("%s-%s-%d.%s", kind, r.Unit, r.shard, ext))
}

func canon(c any) []byte {
	b, err := json.Marshal(c)
	if err != nil {
		panic(fmt.Sprintf("evid: case not serialisable: %v", err))
	}
	return b
}

// Inflight records the case about to be executed, so that the driver can attribute a
// process death to it.
func (r *Recorder) Inflight(c any) {
	p := r.path("inflight", "json")
	if p == "" {
		return
	}
	_ = os.WriteFile(p, wrap(r, c, "process died while executing this case"), 0o644)
}

func (r *Recorder) replayUnit() string {
	if r.ReplayUnit != "" {
		return r.ReplayUnit
	}
	return r.Unit
}

func wrap(r *Recorder, c any, msg string) []byte {
	b, _ := json.MarshalIndent(map[string]any{
		"property": r.Property, "unit": r.replayUnit(), "message": msg, "case": json.RawMessage(canon(c)),
	}, "", " ")
	return b
}

// Record counts one executed case.
func (r *Recorder) Record(c any, res Result) {
	r.mu.Lock()
	defer r.mu.Unlock()
	r.evals++
	for _, cl := range res.Classes {
		r.classes[cl]++
	}
	for k, v := range res.Counts {
		r.classes[k] += v
	}
	if res.NonTrivial {
		r.nontriv++
		b := canon(c)
		if len(r.hashes) < maxHashes {
			h := sha256.Sum256(b)
			r.hashes[binary.LittleEndian.Uint64(h[:8])] = struct{}{}
		} else {
			r.hashOver++
		}
		if len(r.samples) < maxSamples && len(b) < 20000 {
			r.samples = append(r.samples, json.RawMessage(b))
		}
	}
	if res.Err != nil {
		r.failures++
		r.lastFail = res.Err.Error()
		if p := r.path("fail", "json"); p != "" {
			_ = os.WriteFile(p, wrap(r, c, res.Err.Error()), 0o644)
		}
	}
}

// Note adds a free-text note to the statistics.
func (r *Recorder) Note(s string) {
	r.mu.Lock()
	r.notes = append(r.notes, s)
	r.mu.Unlock()
}

// SetExhaustive marks the unit as having enumerated a finite space completely.
func (r *Recorder) SetExhaustive() { r.exhaustiv = true }

// Count adds to a class counter directly.
func (r *Recorder) Count(class string, n int) {
	r.mu.Lock()
	r.classes[class] += n
	r.mu.Unlock()
}

// Flush writes the statistics and hash files.
func (r *Recorder) Flush() {
	r.mu.Lock()
	defer r.mu.Unlock()
	if p := r.path("inflight", "json"); p != "" {
		_ = os.Remove(p)
	}
	p := r.path("stats", "json")
	if p == "" {
		return
	}
	hs := make([]uint64, 0, len(r.hashes))
	for h := range r.hashes {
		hs = append(hs, h)
	}
	sort.Slice(hs, func(i, j int) bool { return hs[i] < hs[j] })
	buf := make([]byte, 8*len(hs))
	for i, h := range hs {
		binary.LittleEndian.PutUint64(buf[8*i:], h)
	}
	_ = os.WriteFile(r.path("hashes", "bin"), buf, 0o644)
	st := map[string]any{
		"property": r.Property, "unit": r.Unit, "shard": r.shard, "rule": r.Rule,
		"evaluations": r.evals, "nontrivial": r.nontriv, "distinct_nontrivial": len(hs),
		"hash_overflow": r.hashOver, "classes": r.classes, "samples": r.samples,
		"failures": r.failures, "last_failure": r.lastFail, "notes": r.notes,
		"exhaustive": r.exhaustiv,
	}
	b, _ := json.MarshalIndent(st, "", " ")
	_ = os.WriteFile(p, b, 0o644)
}

// Check runs a rapid property: gen draws a plain-data case, exec executes it against the
// code under test and judges it.
func Check[C any](t *testing.T, r *Recorder, gen func(*rapid.T) C, exec func(C) Result) {
	t.Helper()
	defer r.Flush()
	rapid.Check(t, func(rt *rapid.T) {
		c := gen(rt)
		r.Inflight(c)
		res := exec(c)
		r.Record(c, res)
		if res.Err != nil {
			rt.Fatalf("%v\ncase: %s", res.Err, canon(c))
		}
	})
}

// Each runs exec over explicitly enumerated cases (finite sweeps, regression lists).
func Each[C any](t *testing.T, r *Recorder, cases []C, exec func(C) Result) {
	t.Helper()
	defer r.Flush()
	for _, c := range cases {
		r.Inflight(c)
		res := exec(c)
		r.Record(c, res)
		if res.Err != nil {
			t.Fatalf("%v\ncase: %s", res.Err, canon(c))
		}
	}
}

// ReplayFile is the on-disk form of a failing case.
type ReplayFile struct {
	Property string          `json:"property"`
	Unit     string          `json:"unit"`
	Message  string          `json:"message"`
	Case     json.RawMessage `json:"case"`
}

// Replay re-executes the case stored in $VERIF_REPLAY, bypassing rapid. It is a no-op
// (skip) when the variable is unset or names a case of another unit.
func Replay[C any](t *testing.T, unit string, exec func(C) Result) {
	t.Helper()
	p := os.Getenv("VERIF_REPLAY")
	if p == "" {
		t.Skip("VERIF_REPLAY not set")
	}
	b, err := os.ReadFile(p)
	if err != nil {
		t.Fatalf("replay: %v", err)
	}
	var rf ReplayFile
	if err := json.Unmarshal(b, &rf); err != nil {
		t.Fatalf("replay: %v", err)
	}
	if rf.Unit != unit {
		t.Skipf("replay file is for unit %s", rf.Unit)
	}
	var c C
	if err := json.Unmarshal(rf.Case, &c); err != nil {
		t.Fatalf("replay: bad case: %v", err)
	}
	reps := 1
	if s := os.Getenv("VERIF_REPLAY_REPS"); s != "" {
		reps, _ = strconv.Atoi(s)
	}
	for i := 0; i < reps; i++ {
		res := exec(c)
		if res.Err != nil {
			fmt.Printf("REPLAY-FAIL unit=%s: %v\n", unit, res.Err)
			t.Fatalf("replayed case violates the property: %v", res.Err)
		}
	}
	fmt.Printf("REPLAY-PASS unit=%s\n", unit)
}

// LoadCases reads every replay file under dir (relative to /verif/regress) that belongs
// to unit; used by Test*Regress to re-run the minimal reproductions of fixed defects.
func LoadCases[C any](t *testing.T, dir, unit string) (cases []C, names []string) {
	ents, err := os.ReadDir(dir)
	if err != nil {
		return nil, nil
	}
	for _, e := range ents {
		if e.IsDir() || filepath.Ext(e.Name()) != ".json" {
			continue
		}
		b, err := os.ReadFile(filepath.Join(dir, e.Name()))
		if err != nil {
			continue
		}
		var rf ReplayFile
		if json.Unmarshal(b, &rf) != nil || rf.Unit != unit {
			continue
		}
		var c C
		if err := json.Unmarshal(rf.Case, &c); err != nil {
			t.Fatalf("regress %s: bad case: %v", e.Name(), err)
		}
		cases = append(cases, c)
		names = append(names, filepath.Join(dir, e.Name()))
	}
	return
}

// VerifDir returns the /verif root (parent of the harness module), found from the
// working directory of the test binary (go test runs in the package directory).
func VerifDir() string {
	if d := os.Getenv("VERIF_DIR"); d != "" {
		return d
	}
	wd, _ := os.Getwd()
	for d := wd; d != "/"; d = filepath.Dir(d) {
		if _, err := os.Stat(filepath.Join(d, "properties.jsonl")); err == nil {
			return d
		}
	}
	return "/verif"
}

// Regress re-runs, as plain cases bypassing rapid, the committed minimal reproductions
// under /verif/regress/<property>/ that belong to unit (fixed defects must stay fixed).
func Regress[C any](t *testing.T, property, unit string, exec func(C) Result) {
	t.Helper()
	r := New(property, unit+"Regress", "committed minimal reproductions of repaired defects (regress/"+property+"/), re-run as plain cases")
	r.ReplayUnit = unit
	defer r.Flush()
	cases, names := LoadCases[C](t, filepath.Join(VerifDir(), "regress", property), unit)
	for i, c := range cases {
		r.Inflight(c)
		res := exec(c)
		res.NonTrivial = true
		r.Record(c, res)
		if res.Err != nil {
			t.Fatalf("regression case %s fails again: %v", names[i], res.Err)
		}
	}
}
