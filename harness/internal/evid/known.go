package evid

import (
	"encoding/json"
	"fmt"
	"os"
	"path/filepath"
	"sync"
)

// Finding is one entry of /verif/known_findings.json.
type Finding struct {
	Property string `json:"property"`
	ID       string `json:"id"`     // stable slug naming the input shape / call site / history
	Status   string `json:"status"` // "known" or "fixed"
	Commit   string `json:"commit,omitempty"`
	What     string `json:"what"`
}

var (
	knownOnce sync.Once
	known     map[string]Finding
)

func loadKnown() {
	known = map[string]Finding{}
	files := []string{filepath.Join(VerifDir(), "known_findings.json")}
	// per-package fragments (harness/<pkg>/known_findings.fragment.json), consolidated into the
	// main file when a package is integrated
	more, _ := filepath.Glob(filepath.Join(VerifDir(), "harness", "*", "known_findings.fragment.json"))
	files = append(files, more...)
	for _, fn := range files {
		b, err := os.ReadFile(fn)
		if err != nil {
			continue
		}
		var f struct {
			Findings []Finding `json:"findings"`
		}
		if json.Unmarshal(b, &f) != nil {
			continue
		}
		for _, x := range f.Findings {
			known[x.Property+"/"+x.ID] = x
		}
	}
}

// Known reports whether property/id is listed as a known (unrepaired) finding. Only then
// may a generator exclude the corresponding region; a "fixed" entry suppresses nothing.
func Known(property, id string) bool {
	knownOnce.Do(loadKnown)
	f, ok := known[property+"/"+id]
	return ok && f.Status == "known"
}

// ReportKnown prints the KNOWN-FINDING line for a listed finding that the regression
// case has just re-confirmed on the current tree.
func ReportKnown(property, id string) {
	knownOnce.Do(loadKnown)
	f := known[property+"/"+id]
	fmt.Printf("KNOWN-FINDING: property=%s %s: %s\n", property, id, f.What)
}
