// Package cs decides C07 at table level: the Content Store answers only with matching,
// fresh-enough Data, within capacity (fw/table PitCsTree + CsLRU), under virtual time.
package cs

import (
	"bytes"
	"fmt"
	"sort"
	"strings"
	"testing"
	"testing/synctest"
	"time"

	"github.com/named-data/ndnd/fw/core"
	"github.com/named-data/ndnd/fw/table"
	enc "github.com/named-data/ndnd/std/encoding"
	"github.com/named-data/ndnd/std/log"
	"github.com/named-data/ndnd/std/ndn"
	spec "github.com/named-data/ndnd/std/ndn/spec_2022"
	sec "github.com/named-data/ndnd/std/security"
	"pgregory.net/rapid"

	"verif/harness/internal/evid"
)

func init() { log.SetLevel(log.FatalLevel) }

type Op struct {
	Kind  string `json:"k"`            // ins | find | cap | adv
	Name  string `json:"n,omitempty"`  // ins, find
	Fresh int64  `json:"fr,omitempty"` // ins: freshness in ms, -1 = no FreshnessPeriod field
	Var   int    `json:"v,omitempty"`  // ins: content variant
	CBP   bool   `json:"cbp,omitempty"`
	MBF   bool   `json:"mbf,omitempty"`
	Cap   int    `json:"cap,omitempty"`
	D     int64  `json:"d,omitempty"` // adv: nanoseconds
}

type Case struct {
	Cap0 int  `json:"cap0"`
	Ops  []Op `json:"ops"`
}

// ------------------------------------------------------------------ names

func comps(s string) []string {
	if s == "/" || s == "" {
		return nil
	}
	return strings.Split(strings.TrimPrefix(s, "/"), "/")
}

func join(c []string) string {
	if len(c) == 0 {
		return "/"
	}
	return "/" + strings.Join(c, "/")
}

func isPrefix(p, n string) bool {
	pc, nc := comps(p), comps(n)
	if len(pc) > len(nc) {
		return false
	}
	for i := range pc {
		if pc[i] != nc[i] {
			return false
		}
	}
	return true
}

func mkName(s string) enc.Name {
	n, err := enc.NameFromStr(s)
	if err != nil {
		panic(err)
	}
	return n
}

var alphabet = []string{"a", "b", "c"}

func genName(t *rapid.T, label string, minDepth int) string {
	d := rapid.IntRange(minDepth, 4).Draw(t, label+"depth")
	c := make([]string, d)
	for i := range c {
		c[i] = alphabet[rapid.SampledFrom([]int{0, 0, 0, 1, 1, 2}).Draw(t, label+"c")]
	}
	return join(c)
}

// ------------------------------------------------------------------ generator

type rawOp struct {
	Kind     string
	Lit      string
	How, Ref int
	Fresh    int64
	Var      int
	CBP, MBF bool
	Cap      int
	D        int64
	Edge     int
}

func genRaw(t *rapid.T) rawOp {
	return rawOp{
		Kind:  rapid.SampledFrom([]string{"ins", "ins", "ins", "find", "find", "find", "cap", "adv", "adv"}).Draw(t, "kind"),
		Lit:   genName(t, "n", 0),
		How:   rapid.IntRange(0, 9).Draw(t, "how"),
		Ref:   rapid.IntRange(0, 1000).Draw(t, "ref"),
		Fresh: rapid.SampledFrom([]int64{-1, 0, 10, 10, 1000, 1000}).Draw(t, "fresh"),
		Var:   rapid.IntRange(0, 3).Draw(t, "var"),
		CBP:   rapid.SampledFrom([]bool{false, false, true}).Draw(t, "cbp"),
		MBF:   rapid.SampledFrom([]bool{true, true, false}).Draw(t, "mbf"),
		Cap:   rapid.IntRange(0, 6).Draw(t, "cap"),
		D:     rapid.SampledFrom([]int64{1, 1e6, 5e6, 10e6, 500e6, 1e9, 3e9}).Draw(t, "d"),
		Edge:  rapid.IntRange(0, 5).Draw(t, "edge"),
	}
}

func genCase(t *rapid.T) Case {
	c := Case{Cap0: rapid.IntRange(0, 6).Draw(t, "cap0")}
	raws := rapid.SliceOfN(rapid.Custom(genRaw), 1, 60).Draw(t, "ops")
	if len(raws) > 8 && c.Cap0 > 3 {
		c.Cap0 -= 3 // small capacities make evictions frequent
	}
	var inserted []string
	var now int64
	staleAt := map[string]int64{}
	for _, r := range raws {
		switch r.Kind {
		case "ins":
			n := r.Lit
			if len(inserted) > 0 && r.How < 4 {
				n = inserted[r.Ref%len(inserted)] // refresh
			} else if len(inserted) > 0 && r.How < 6 {
				// extend an inserted name so that prefix lookups have several candidates
				b := comps(inserted[r.Ref%len(inserted)])
				if len(b) < 4 {
					n = join(append(append([]string{}, b...), alphabet[r.Var%3]))
				}
			}
			if n == "/" {
				n = "/a"
			}
			inserted = append(inserted, n)
			f := r.Fresh
			if f < 0 {
				staleAt[n] = now
			} else {
				staleAt[n] = now + f*1e6
			}
			c.Ops = append(c.Ops, Op{Kind: "ins", Name: n, Fresh: f, Var: r.Var})
		case "find":
			n := r.Lit
			if len(inserted) > 0 && r.How < 7 {
				n = inserted[len(inserted)-1-(r.Ref%len(inserted))%4%len(inserted)] // mostly recent names
			} else if len(inserted) > 0 && r.How < 9 {
				b := comps(inserted[r.Ref%len(inserted)])
				if len(b) > 0 {
					n = join(b[:r.Ref%len(b)])
				}
			}
			c.Ops = append(c.Ops, Op{Kind: "find", Name: n, CBP: r.CBP, MBF: r.MBF})
		case "cap":
			c.Ops = append(c.Ops, Op{Kind: "cap", Cap: r.Cap})
		case "adv":
			d := r.D
			// place the advance on one side of a stale-at instant of an inserted name
			if len(inserted) > 0 && r.Edge < 4 {
				if st := staleAt[inserted[r.Ref%len(inserted)]]; st > now {
					switch r.Edge {
					case 0:
						d = st - now - 1
					case 1:
						d = st - now
					case 2:
						d = st - now + 1
					}
				}
			}
			if d <= 0 {
				d = 1
			}
			now += d
			c.Ops = append(c.Ops, Op{Kind: "adv", D: d})
		}
	}
	return c
}

// ------------------------------------------------------------------ reference model

type entry struct {
	wire    []byte
	staleAt time.Time
}

// The reference holds exactly the packets the store must hold: a lowered capacity may be
// enforced eagerly or lazily, and the reference adopts which of the two it observes.
type model struct {
	cap   int
	order []string // least recently used first
	ent   map[string]*entry
	ever  map[string]bool
}

func (m *model) touch(n string) {
	for i, x := range m.order {
		if x == n {
			m.order = append(m.order[:i], m.order[i+1:]...)
			break
		}
	}
	m.order = append(m.order, n)
}

func (m *model) drop(n string) {
	for i, x := range m.order {
		if x == n {
			m.order = append(m.order[:i], m.order[i+1:]...)
			break
		}
	}
	delete(m.ent, n)
}

// ------------------------------------------------------------------ execution

var signer = sec.NewSha256Signer()

func makeData(name string, fresh int64, variant int) (*spec.Data, []byte) {
	cfg := &ndn.DataConfig{}
	if fresh >= 0 {
		d := time.Duration(fresh) * time.Millisecond
		cfg.Freshness = &d
	}
	content := enc.Wire{[]byte(fmt.Sprintf("content-%s-%d", name, variant))}
	ed, err := spec.Spec{}.MakeData(mkName(name), cfg, content, signer)
	if err != nil {
		panic(err)
	}
	wire := ed.Wire.Join()
	p, _, err := spec.ReadPacket(enc.NewBufferReader(wire))
	if err != nil || p.Data == nil {
		panic(fmt.Sprintf("harness: cannot parse own Data: %v", err))
	}
	return p.Data, wire
}

type outcome struct {
	evictions, staleRefusals, hitsAfterRefresh, eagerEvictions int
}

var epoch time.Time

// evictedAreGone: every name ever inserted that the reference no longer holds must not be
// served (probing absent names does not disturb recency).
func evictedAreGone(pcs *table.PitCsTree, m *model, step int) error {
	names := make([]string, 0, len(m.ever))
	for n := range m.ever {
		names = append(names, n)
	}
	sort.Strings(names)
	for _, n := range names {
		if _, ok := m.ent[n]; ok {
			continue
		}
		if e := pcs.FindMatchingDataFromCS(&spec.Interest{NameV: mkName(n)}); e != nil {
			return fmt.Errorf("step %d: %s should have been evicted (least recently used) but is still served; cached by recency: %v", step, n, m.order)
		}
	}
	return nil
}

func run(c Case) (out outcome, err error) {
	cfg := core.DefaultConfig()
	cfg.Tables.ContentStore.Capacity = uint16(c.Cap0)
	core.LoadConfig(cfg, "")
	table.Configure()
	core.ShouldQuit = false
	pcs := table.NewPitCS(func(table.PitEntry) {})
	// the table expects its owner to service the update timer
	done := make(chan struct{})
	stop := make(chan struct{})
	go func() {
		defer close(done)
		for {
			select {
			case <-pcs.UpdateTimer():
				pcs.Update()
			case <-stop:
				return
			}
		}
	}()
	defer func() {
		// Update() re-arms its timer unless core.ShouldQuit is set; after one more second
		// of virtual time no timer is pending any more and the servicing goroutine can go
		core.ShouldQuit = true
		time.Sleep(time.Second)
		synctest.Wait()
		close(stop)
		<-done
		core.ShouldQuit = false
	}()

	m := &model{cap: c.Cap0, ent: map[string]*entry{}, ever: map[string]bool{}}
	refreshed := map[string]bool{}
	consistent := func(step int) error {
		st := table.VerifPitCsStatsOf(pcs)
		// (the LRU policy's index->element map is not inspected: it keeps entries of evicted
		// packets, a leak that no listed property speaks about)
		if pcs.CsSize() != st.CsEntries || st.CsEntries != st.CsMap || st.CsEntries != st.LruQueue {
			return fmt.Errorf("step %d: reported CsSize %d, entries reachable in the tree %d, index map %d, replacement queue %d", step, pcs.CsSize(), st.CsEntries, st.CsMap, st.LruQueue)
		}
		if pcs.CsSize() != len(m.order) {
			return fmt.Errorf("step %d: store reports %d packets, the reference holds %v", step, pcs.CsSize(), m.order)
		}
		return nil
	}
	for i, op := range c.Ops {
		switch op.Kind {
		case "adv":
			time.Sleep(time.Duration(op.D))
		case "cap":
			table.SetCsCapacity(op.Cap)
			m.cap = op.Cap
			// Eager or lazy enforcement of a lowered capacity are both allowed; observe which
			// happened: whatever was evicted now must be the least recently used entries.
			sz := pcs.CsSize()
			if sz > len(m.order) {
				return out, fmt.Errorf("step %d: store grew from %d to %d packets on a capacity change", i, len(m.order), sz)
			}
			if sz < len(m.order) {
				out.eagerEvictions++
			}
			for len(m.order) > sz {
				m.drop(m.order[0])
				out.evictions++
			}
			if err := evictedAreGone(pcs, m, i); err != nil {
				return out, err
			}
		case "ins":
			data, wire := makeData(op.Name, op.Fresh, op.Var)
			stale := time.Now()
			if op.Fresh >= 0 {
				stale = stale.Add(time.Duration(op.Fresh) * time.Millisecond)
			}
			_, existed := m.ent[op.Name]
			pcs.InsertData(data, wire)
			m.ent[op.Name] = &entry{wire: wire, staleAt: stale}
			m.touch(op.Name)
			m.ever[op.Name] = true
			if existed {
				refreshed[op.Name] = true
			} else {
				delete(refreshed, op.Name)
			}
			// When and how many packets are evicted is open as long as a new name leaves at most
			// the capacity: the store may also enforce a lowered capacity on a refresh, or evict
			// below the capacity (batching). Whatever went must be the least recently used.
			sz := pcs.CsSize()
			if !existed && sz > m.cap {
				return out, fmt.Errorf("step %d: after inserting new name %s the store holds %d packets, capacity is %d", i, op.Name, sz, m.cap)
			}
			if sz > len(m.order) {
				return out, fmt.Errorf("step %d: after inserting %s the store reports %d packets, only %v can be cached", i, op.Name, sz, m.order)
			}
			for len(m.order) > sz {
				m.drop(m.order[0])
				out.evictions++
			}
			if err := evictedAreGone(pcs, m, i); err != nil {
				return out, err
			}
		case "find":
			in := &spec.Interest{NameV: mkName(op.Name), CanBePrefixV: op.CBP, MustBeFreshV: op.MBF}
			e := pcs.FindMatchingDataFromCS(in)
			now := time.Now()
			if e == nil {
				if !op.CBP {
					if ent, ok := m.ent[op.Name]; ok {
						if !op.MBF || now.Before(ent.staleAt) {
							return out, fmt.Errorf("step %d: exact lookup of %s (MustBeFresh=%v) missed although it is cached, unevicted and fresh enough (stale at +%v, now +%v)", i, op.Name, op.MBF, ent.staleAt.Sub(epoch), now.Sub(epoch))
						}
						out.staleRefusals++
					}
				}
				break
			}
			d, w, cerr := e.Copy()
			if cerr != nil || d == nil {
				return out, fmt.Errorf("step %d: lookup %s returned an entry that does not decode: %v", i, op.Name, cerr)
			}
			got := d.NameV.String()
			ent, ok := m.ent[got]
			if !ok {
				return out, fmt.Errorf("step %d: lookup %s (cbp=%v mbf=%v) returned %s which is not cached (never inserted, or evicted)", i, op.Name, op.CBP, op.MBF, got)
			}
			if got != op.Name && !(op.CBP && isPrefix(op.Name, got)) {
				return out, fmt.Errorf("step %d: lookup %s (cbp=%v) returned %s which does not match", i, op.Name, op.CBP, got)
			}
			if op.MBF && !now.Before(ent.staleAt) {
				return out, fmt.Errorf("step %d: MustBeFresh lookup %s returned %s which went stale at +%v (now +%v)", i, op.Name, got, ent.staleAt.Sub(epoch), now.Sub(epoch))
			}
			if !bytes.Equal(w, ent.wire) {
				return out, fmt.Errorf("step %d: lookup %s returned bytes that differ from the most recent insertion under %s", i, op.Name, got)
			}
			if !op.CBP {
				// an exact-name hit refreshes recency
				m.touch(got)
				if refreshed[got] {
					out.hitsAfterRefresh++
				}
			}
		}
		if err := consistent(i); err != nil {
			return out, err
		}
	}
	return out, nil
}

func execC07(t *testing.T) func(Case) evid.Result {
	return func(c Case) (res evid.Result) {
		var out outcome
		var err error
		synctest.Test(t, func(*testing.T) {
			epoch = time.Now()
			defer func() {
				if r := recover(); r != nil {
					err = fmt.Errorf("panic: %v", r)
				}
			}()
			out, err = run(c)
		})
		res.Err = err
		res.NonTrivial = out.evictions > 0 && out.staleRefusals > 0 && out.hitsAfterRefresh > 0
		if out.evictions > 0 {
			res.Classes = append(res.Classes, "eviction")
		}
		if out.staleRefusals > 0 {
			res.Classes = append(res.Classes, "refused-only-because-stale")
		}
		if out.hitsAfterRefresh > 0 {
			res.Classes = append(res.Classes, "exact-hit-after-refresh")
		}
		if out.eagerEvictions > 0 {
			res.Classes = append(res.Classes, "capacity-lowered-evicts-eagerly")
		}
		return res
	}
}

const ruleC07 = "rapid histories (<=60 ops) on table.NewPitCS inside a synctest bubble: InsertData (new names, refreshes, extensions of cached names; freshness none/0/10ms/1s; 4 content variants), FindMatchingDataFromCS (exact/prefix x MustBeFresh), SetCsCapacity 0..6, virtual-time advances placed 1ns before/at/after stale-at instants; reference = name->(bytes, stale-at) + recency list. Non-trivial: history with >=1 eviction, >=1 exact lookup refused only because of staleness and >=1 exact hit after a refresh; distinct by case hash"

func TestC07Cs(t *testing.T) {
	rec := evid.New("C07", "TestC07Cs", ruleC07)
	evid.Check(t, rec, genCase, execC07(t))
}

func TestC07CsReplay(t *testing.T) { evid.Replay(t, "TestC07Cs", execC07(t)) }

func TestC07CsRegress(t *testing.T) { evid.Regress(t, "C07", "TestC07Cs", execC07(t)) }
