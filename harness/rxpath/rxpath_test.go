// Package rxpath decides the receive-path half of C04: no frame sequence and no byte
// stream can crash or exhaust the forwarder's receive path
//
//	readTlvStream -> NDNLPLinkService.handleIncomingFrame -> reassembly -> dispatch by
//	name hash / PIT token to the forwarding threads,
//
// and a frame that fails to decode changes no forwarder state other than counters.
// (The decoder half of C04 lives in harness/robust.)
package rxpath

import (
	"bytes"
	"encoding/binary"
	"fmt"
	"io"
	"runtime"
	"sort"
	"sync"
	"testing"
	"time"

	"github.com/named-data/ndnd/fw/core"
	"github.com/named-data/ndnd/fw/defn"
	"github.com/named-data/ndnd/fw/dispatch"
	"github.com/named-data/ndnd/fw/face"
	"github.com/named-data/ndnd/fw/fw"
	enc "github.com/named-data/ndnd/std/encoding"
	ndnlog "github.com/named-data/ndnd/std/log"
	spec "github.com/named-data/ndnd/std/ndn/spec_2022"
	"pgregory.net/rapid"

	"verif/harness/internal/evid"
	"verif/harness/internal/lpwire"
	"verif/harness/internal/tlvwalk"
)

// ---------------------------------------------------------------------------- case

type Case struct {
	Threads int      `json:"th"`                // number of forwarding threads (1..4)
	Local   bool     `json:"local,omitempty"`   // scope of the receiving face
	NoReasm bool     `json:"noreasm,omitempty"` // IsReassemblyEnabled = false
	// Toggled: before the frames arrive the face's options were changed at run time (faces/update does
	// that): reassembly switched off and on again (or on and off again when NoReasm), ending with the
	// options above
	Toggled bool `json:"toggled,omitempty"`
	Frames  [][]byte `json:"frames"`            // the frames, in arrival order
	Chunks  []int    `json:"chunks,omitempty"`  // stream unit: sizes of successive reads, cycled (<=0: as much as offered)
}

const recvBufSize = defn.MaxNDNPacketSize * 32

// allocation allowed per call on an input of n bytes (DESIGN.md, C04)
func allocBound(n int) uint64 { return 64*uint64(n) + 64<<10 }

// ---------------------------------------------------------------------------- set-up

var setupOnce sync.Once

func setup() {
	setupOnce.Do(func() {
		cfg := core.DefaultConfig()
		cfg.Core.LogLevel = "FATAL"
		core.LoadConfig(cfg, "")
		core.InitializeLogger("")
		ndnlog.SetHandler(ndnlog.HandlerFunc(func(*ndnlog.Entry) error { return nil }))
		face.Configure()
	})
}

type delivery struct {
	thread   int
	interest bool
	pkt      *defn.Pkt
}

// recThread records without allocating (the sink is pre-sized), so that the allocation
// measured around a call is the code's own.
type recThread struct {
	id   int
	sink *[]delivery
}

func (r *recThread) String() string        { return "rec-thread" }
func (r *recThread) GetNumPitEntries() int { return 0 }
func (r *recThread) GetNumCsEntries() int  { return 0 }
func (r *recThread) QueueData(p *defn.Pkt) {
	*r.sink = append(*r.sink, delivery{thread: r.id, pkt: p})
}
func (r *recThread) QueueInterest(p *defn.Pkt) {
	*r.sink = append(*r.sink, delivery{thread: r.id, interest: true, pkt: p})
}

type rig struct {
	ls   *face.NDNLPLinkService
	sink []delivery
}

func newRig(c Case, capacity int) *rig {
	setup()
	r := &rig{sink: make([]delivery, 0, capacity)}
	ths := make([]dispatch.FWThread, c.Threads)
	for i := range ths {
		ths[i] = &recThread{id: i, sink: &r.sink}
	}
	dispatch.InitializeFWThreads(ths)
	fw.Threads = make([]*fw.Thread, c.Threads) // only its length is used (name hash -> thread)
	face.VerifResetFaceTable()
	scope := defn.NonLocal
	if c.Local {
		scope = defn.Local
	}
	uri := defn.MakeNullFaceURI()
	tr := face.VerifMakeTransport(uri, uri, face.PersistencyPersistent, scope, defn.PointToPoint, defn.MaxNDNPacketSize)
	opts := face.MakeNDNLPLinkServiceOptions()
	opts.IsReassemblyEnabled = !c.NoReasm
	opts.IsConsumerControlledForwardingEnabled = true
	opts.IsLocalCachePolicyEnabled = true
	r.ls = face.MakeNDNLPLinkService(tr, opts)
	r.ls.SetFaceID(400)
	if c.Toggled {
		flipped := opts
		flipped.IsReassemblyEnabled = !opts.IsReassemblyEnabled
		r.ls.SetOptions(flipped)
		r.ls.SetOptions(opts)
	}
	return r
}

type state struct {
	entries, slots, bytes int
	faces                 int
	delivered             int
	threads               int
}

func (r *rig) state() state {
	e, s, b := r.ls.VerifPartialMessageStore()
	return state{e, s, b, face.VerifFaceTableLen(), len(r.sink), len(dispatch.FWDispatch)}
}

func totalAlloc() uint64 {
	var m runtime.MemStats
	runtime.ReadMemStats(&m)
	return m.TotalAlloc
}

// decodes reports whether the repository's own packet reader accepts the frame (used only
// to classify "a frame that fails to decode", never as the oracle of anything else).
func decodes(frame []byte) (ok bool) {
	defer func() {
		if recover() != nil {
			ok = false
		}
	}()
	cp := append([]byte{}, frame...)
	_, _, err := spec.ReadPacket(enc.NewBufferReader(cp))
	return err == nil
}

func hexHead(b []byte) string {
	if len(b) > 48 {
		return fmt.Sprintf("%x… (%d bytes)", b[:48], len(b))
	}
	return fmt.Sprintf("%x", b)
}

func describe(f []byte) string {
	lp, err := lpwire.Parse(f)
	if err != nil {
		return "[" + err.Error() + "] " + hexHead(f)
	}
	s := "LpPacket{"
	if lp.Seq != nil {
		s += fmt.Sprintf("Sequence=%d ", *lp.Seq)
	}
	if lp.FragIndex != nil {
		s += fmt.Sprintf("FragIndex=%d ", *lp.FragIndex)
	}
	if lp.FragCount != nil {
		s += fmt.Sprintf("FragCount=%d ", *lp.FragCount)
	}
	if lp.HasPitToken {
		s += fmt.Sprintf("PitToken=%x ", lp.PitToken)
	}
	if len(lp.Other) > 0 {
		s += fmt.Sprintf("other=%v ", lp.Other)
	}
	return s + fmt.Sprintf("Fragment=%d bytes} %s", len(lp.Fragment), hexHead(f))
}

// hostility classifies what is hostile about a frame (by the harness's own parser).
type tracker struct {
	threads int
	counts  map[uint64]uint64 // base sequence -> FragCount first seen
	cls     map[string]bool
	hostile int
}

func (t *tracker) see(f []byte) {
	top, err := tlvwalk.Parse(f, 0)
	if err != nil {
		t.cls["frame:outer-TLV-broken"] = true
		return
	}
	if top.End != len(f) {
		t.cls["frame:trailing-bytes"] = true
	}
	switch top.Type {
	case lpwire.TInterest, lpwire.TData:
		t.cls["frame:bare-packet"] = true
		return
	case lpwire.TLpPacket:
	default:
		t.cls["frame:other-type"] = true
		return
	}
	lp, err := lpwire.Parse(f[:top.End])
	if err != nil {
		t.cls["lp:malformed-inside"] = true
		t.hostile++
		return
	}
	if lp.HasPitToken {
		if len(lp.PitToken) == 6 {
			th := int(binary.BigEndian.Uint16(lp.PitToken))
			switch {
			case th < t.threads:
				t.cls["token:thread<n"] = true
			case th == t.threads:
				t.cls["token:thread=n"] = true
				t.hostile++
			default:
				t.cls["token:thread>n"] = true
				t.hostile++
			}
		} else {
			t.cls["token:not-6-bytes"] = true
		}
	}
	if !lp.HasFragment || len(lp.Fragment) == 0 {
		t.cls["lp:idle"] = true
		return
	}
	if lp.Seq == nil {
		if lp.FragIndex != nil || lp.FragCount != nil {
			t.cls["frag:fields-without-sequence"] = true
			t.hostile++
		}
		return
	}
	fi, fc := uint64(0), uint64(1)
	if lp.FragIndex != nil {
		fi = *lp.FragIndex
	} else {
		t.cls["frag:no-index"] = true
	}
	if lp.FragCount != nil {
		fc = *lp.FragCount
	} else {
		t.cls["frag:no-count"] = true
	}
	if fi == 0 && fc == 1 {
		return
	}
	base := *lp.Seq - fi
	switch {
	case fc == 0:
		t.cls["frag:count=0"] = true
		t.hostile++
	case fi >= fc:
		t.cls["frag:index>=count"] = true
		t.hostile++
	}
	switch {
	case fc >= 1<<32:
		t.cls["frag:count>=2^32"] = true
		t.hostile++
	case fc > 8800:
		t.cls["frag:count>8800"] = true
		t.hostile++
	case fc > 400:
		t.cls["frag:count>400"] = true
	}
	if *lp.Seq < fi {
		t.cls["frag:sequence-wraps"] = true
	}
	if prev, ok := t.counts[base]; ok {
		if prev != fc {
			t.cls["frag:count-changes"] = true
			t.hostile++
			if fi >= prev && fi < fc {
				t.cls["frag:count-grows-index-beyond-first-count"] = true
			}
		} else {
			t.cls["frag:follow-up-of-live-message"] = true
		}
	} else {
		t.counts[base] = fc
	}
}

// ---------------------------------------------------------------------------- exec: frames

func execFrames(c Case) (res evid.Result) {
	r := newRig(c, 4*len(c.Frames)+16)
	tr := &tracker{threads: c.Threads, counts: map[uint64]uint64{}, cls: map[string]bool{}}
	defer func() {
		for k := range tr.cls {
			res.Classes = append(res.Classes, k)
		}
		sort.Strings(res.Classes)
	}()
	for i, f := range c.Frames {
		tr.see(f)
		in := append([]byte{}, f...) // the transport's buffer; the link service must not keep it
		pre := r.state()
		var perr any
		a0 := totalAlloc()
		func() {
			defer func() { perr = recover() }()
			r.ls.VerifHandleIncomingFrame(in)
		}()
		a1 := totalAlloc()
		if perr != nil {
			res.Err = fmt.Errorf("frame %d: handleIncomingFrame panicked: %v\nframe: %s", i, perr, describe(f))
			return
		}
		post := r.state()
		// the input of this call: the frame, plus -- when it completes a message, which is
		// then joined and decoded as a whole -- the fragments received before
		given := len(f)
		if post.entries < pre.entries {
			given += pre.bytes - post.bytes
		}
		if d := a1 - a0; d > allocBound(given) {
			res.Err = fmt.Errorf("frame %d (%d bytes, completing %d bytes): handleIncomingFrame allocated %d bytes > 64*%d+65536\nframe: %s", i, len(f), given, d, given, describe(f))
			return
		}
		if !bytes.Equal(in, f) {
			res.Err = fmt.Errorf("frame %d: handleIncomingFrame modified the transport's buffer", i)
			return
		}
		if post.faces != pre.faces || post.threads != pre.threads {
			res.Err = fmt.Errorf("frame %d: face table / thread table changed (%+v -> %+v)", i, pre, post)
			return
		}
		delivered := post.delivered - pre.delivered
		if delivered > 0 {
			tr.cls["delivered"] = true
			if post.entries < pre.entries {
				tr.cls["delivered:reassembled"] = true
			}
		}
		if !decodes(f) {
			tr.cls["frame:fails-to-decode"] = true
			if delivered != 0 {
				res.Err = fmt.Errorf("frame %d fails to decode but %d packet(s) were delivered to forwarding threads\nframe: %s", i, delivered, describe(f))
				return
			}
			if post != pre {
				res.Err = fmt.Errorf("frame %d fails to decode but changed forwarder state: partial message store %d entries/%d slots/%d bytes -> %d/%d/%d\nframe: %s",
					i, pre.entries, pre.slots, pre.bytes, post.entries, post.slots, post.bytes, describe(f))
				return
			}
		} else if post.entries > pre.entries {
			tr.cls["stored-partial-message"] = true
		}
		// the store may grow by at most this frame
		if post.entries > pre.entries+1 || post.bytes > pre.bytes+len(f) {
			res.Err = fmt.Errorf("frame %d (%d bytes) grew the partial message store from %d entries/%d bytes to %d entries/%d bytes\nframe: %s",
				i, len(f), pre.entries, pre.bytes, post.entries, post.bytes, describe(f))
			return
		}
	}
	for _, d := range r.sink {
		if d.thread < 0 || d.thread >= c.Threads || d.pkt == nil || d.pkt.L3 == nil ||
			(d.interest && d.pkt.L3.Interest == nil) || (!d.interest && d.pkt.L3.Data == nil) {
			res.Err = fmt.Errorf("a forwarding thread was handed a packet without the decoded Interest/Data")
			return
		}
	}
	res.NonTrivial = tr.hostile > 0 && (tr.cls["delivered"] || tr.cls["stored-partial-message"])
	return
}

// ---------------------------------------------------------------------------- exec: stream

type chunkReader struct {
	data   []byte
	off    int
	chunks []int
	i      int
	empty  int
}

var errEmptyBuffer = fmt.Errorf("verif: the reader was offered an empty buffer 1000 times")

func (r *chunkReader) Read(p []byte) (int, error) {
	if r.off >= len(r.data) {
		return 0, io.EOF
	}
	if len(p) == 0 {
		r.empty++
		if r.empty >= 1000 {
			return 0, errEmptyBuffer
		}
		return 0, nil
	}
	n := -1
	if len(r.chunks) > 0 {
		n = r.chunks[r.i%len(r.chunks)]
		r.i++
	}
	if n <= 0 || n > len(p) {
		n = len(p)
	}
	if n > len(r.data)-r.off {
		n = len(r.data) - r.off
	}
	copy(p, r.data[r.off:r.off+n])
	r.off += n
	return n, nil
}

func execStream(c Case) (res evid.Result) {
	r := newRig(c, 4*len(c.Frames)+64)
	tr := &tracker{threads: c.Threads, counts: map[uint64]uint64{}, cls: map[string]bool{}}
	var stream []byte
	for _, f := range c.Frames {
		tr.see(f)
		stream = append(stream, f...)
		// hostile lengths in the position of a stream-level TLV header
		if top, err := tlvwalk.Parse(f, 0); err != nil {
			if _, n1, _, e1 := tlvwalk.ReadVarNum(f, 0); e1 == nil {
				if l, _, _, e2 := tlvwalk.ReadVarNum(f, n1); e2 == nil && l >= 1<<31 {
					tr.cls["stream:length>=2^31"] = true
					tr.hostile++
					if l >= 1<<63-16 {
						tr.cls["stream:length>=2^63-16"] = true
					}
				}
			}
		} else if top.Len > defn.MaxNDNPacketSize {
			tr.cls["stream:length>8800"] = true
		}
	}
	defer func() {
		for k := range tr.cls {
			res.Classes = append(res.Classes, k)
		}
		sort.Strings(res.Classes)
	}()
	rd := &chunkReader{data: stream, chunks: c.Chunks}
	handed, handedBytes := 0, 0
	var frameErr error
	type outcome struct {
		ret   error
		panic any
		alloc uint64
	}
	done := make(chan outcome, 1)
	go func() {
		var o outcome
		a0 := totalAlloc()
		func() {
			defer func() { o.panic = recover() }()
			o.ret = face.VerifReadTlvStream(rd, func(b []byte) {
				handed++
				handedBytes += len(b)
				if len(b) > len(stream) {
					frameErr = fmt.Errorf("onFrame got %d bytes from a stream of %d", len(b), len(stream))
				}
				r.ls.VerifHandleIncomingFrame(b)
			}, nil)
		}()
		o.alloc = totalAlloc() - a0
		done <- o
	}()
	var o outcome
	select {
	case o = <-done:
	case <-time.After(120 * time.Second):
		res.Err = fmt.Errorf("readTlvStream did not return within 120 s on a %d-byte stream (spins or blocks); reader at offset %d", len(stream), rd.off)
		return
	}
	if o.panic != nil {
		res.Err = fmt.Errorf("receive path panicked at stream offset <= %d of %d after %d frames: %v", rd.off, len(stream), handed, o.panic)
		return
	}
	if frameErr != nil {
		res.Err = frameErr
		return
	}
	if o.ret == errEmptyBuffer {
		res.Err = fmt.Errorf("readTlvStream kept offering an empty buffer at stream offset %d: it would spin on a real connection", rd.off)
		return
	}
	bound := uint64(recvBufSize) + allocBound(len(stream)) + uint64(handed)*(64<<10)
	if o.alloc > bound {
		res.Err = fmt.Errorf("receive path allocated %d bytes on a %d-byte stream (%d frames handed up); allowed: receive buffer %d + 64*%d + 64 KiB*(%d+1)",
			o.alloc, len(stream), handed, recvBufSize, len(stream), handed)
		return
	}
	if handedBytes > len(stream) {
		res.Err = fmt.Errorf("%d bytes handed to the link service from a stream of %d bytes", handedBytes, len(stream))
		return
	}
	if handed > 0 {
		tr.cls["stream:frames-handed-up"] = true
	}
	if o.ret != nil {
		tr.cls["stream:returned-error"] = true
	}
	if len(r.sink) > 0 {
		tr.cls["delivered"] = true
	}
	res.NonTrivial = tr.hostile > 0 && handed > 0
	return
}

// ---------------------------------------------------------------------------- generator

func u64p(v uint64) *uint64 { return &v }

type gmsg struct {
	base  uint64
	parts [][]byte
	sent  []bool
}

var hostileCounts = []uint64{0, 0, 1, 2, 3, 255, 256, 400, 401, 1000, 8800, 8801, 65535, 65536, 1_000_000, 1 << 24, 1 << 32, 1 << 40, 1 << 47, 1 << 62, 1 << 63, 1<<64 - 1}
var hostileLens = []uint64{0, 1, 252, 253, 0xffff, 0x10000, 1<<31 - 1, 1 << 31, 1<<32 - 1, 1 << 32, 1 << 47, 1<<63 - 16, 1<<63 - 1, 1 << 63, 1<<64 - 1}

func genToken(t *rapid.T, threads int) []byte {
	switch rapid.IntRange(0, 9).Draw(t, "tokKind") {
	case 0, 1:
		n := rapid.SampledFrom([]int{0, 1, 5, 7, 8, 32, 33, 64}).Draw(t, "tokLen")
		return rapid.SliceOfN(rapid.Byte(), n, n).Draw(t, "tok")
	default:
		th := rapid.SampledFrom([]int{0, threads - 1, threads - 1, threads, threads, threads + 1, 255, 256, 65535}).Draw(t, "tokThread")
		b := make([]byte, 6)
		binary.BigEndian.PutUint16(b, uint16(th))
		binary.BigEndian.PutUint32(b[2:], rapid.Uint32().Draw(t, "tokLow"))
		return b
	}
}

func genPacket(t *rapid.T, i int) []byte {
	label := []string{"a", "b", "c", "localhost"}[rapid.IntRange(0, 3).Draw(t, "label")]
	size := rapid.SampledFrom([]int{20, 30, 45, 60, 100, 250, 260, 400, 1200, 3000, 8800}).Draw(t, "pktSize")
	if rapid.Bool().Draw(t, "interest") {
		size += len(label)
		w, ok := lpwire.MakeInterest(label, size, byte(i))
		if ok {
			return w
		}
	}
	size += len(label)
	if size > 8800 {
		size = 8800
	}
	w, _ := lpwire.MakeData(label, size, byte(i))
	return w
}

func split(t *rapid.T, w []byte, k int) [][]byte {
	if k > len(w) {
		k = len(w)
	}
	cuts := map[int]bool{}
	for len(cuts) < k-1 {
		cuts[rapid.IntRange(1, len(w)-1).Draw(t, "cut")] = true
	}
	var cs []int
	for c := range cuts {
		cs = append(cs, c)
	}
	sort.Ints(cs)
	cs = append(cs, len(w))
	var parts [][]byte
	prev := 0
	for _, c := range cs {
		parts = append(parts, w[prev:c])
		prev = c
	}
	return parts
}

// mutate applies one structure-aware or byte-level mutation to a well-formed frame.
func mutate(t *rapid.T, f []byte) []byte {
	f = append([]byte{}, f...)
	switch rapid.IntRange(0, 6).Draw(t, "mutKind") {
	case 0, 1, 2: // replace one length field (any depth) by a hostile value
		root, err := tlvwalk.Tree(f, tlvwalk.NDNContainer)
		var nodes []*tlvwalk.Node
		if err == nil {
			nodes = root.Flatten()
			// also look inside the Fragment
			if fr := root.Child(lpwire.TFragment); fr != nil && fr.Len > 2 {
				if in, err := tlvwalk.Tree(f[fr.ValOff:fr.End], tlvwalk.NDNContainer); err == nil {
					for _, n := range in.Flatten() {
						c := *n
						c.Off += fr.ValOff
						c.ValOff += fr.ValOff
						c.End += fr.ValOff
						nodes = append(nodes, &c)
					}
				}
			}
		}
		if len(nodes) == 0 {
			return f
		}
		n := nodes[rapid.IntRange(0, len(nodes)-1).Draw(t, "mutNode")]
		var v uint64
		if rapid.Bool().Draw(t, "mutNear") {
			v = uint64(int64(n.Len) + int64(rapid.IntRange(-2, 2).Draw(t, "mutDelta")))
		} else {
			v = rapid.SampledFrom(hostileLens).Draw(t, "mutLen")
		}
		width := tlvwalk.VarNumSize(v)
		if rapid.IntRange(0, 3).Draw(t, "mutWide") == 0 {
			width = 9
		}
		var nb []byte
		nb = append(nb, f[:n.LenOff()]...)
		nb = tlvwalk.AppendVarNumSized(nb, v, width)
		nb = append(nb, f[n.ValOff:]...)
		return nb
	case 3: // truncate
		if len(f) < 2 {
			return f
		}
		return f[:rapid.IntRange(1, len(f)-1).Draw(t, "truncAt")]
	case 4: // flip a byte
		i := rapid.IntRange(0, len(f)-1).Draw(t, "flipAt")
		f[i] ^= byte(rapid.IntRange(1, 255).Draw(t, "flipMask"))
		return f
	case 5: // trailing bytes
		return append(f, rapid.SliceOfN(rapid.Byte(), 1, 12).Draw(t, "trail")...)
	default: // swap the type of one top-level header field
		top, err := tlvwalk.ParseOne(f)
		if err != nil {
			return f
		}
		kids, err := tlvwalk.Children(f, top.ValOff, top.End)
		if err != nil || len(kids) == 0 {
			return f
		}
		k := kids[rapid.IntRange(0, len(kids)-1).Draw(t, "swapField")]
		if k.TypeSize == 1 {
			f[k.Off] = rapid.SampledFrom([]byte{0x50, 0x51, 0x52, 0x53, 0x62, 0x05, 0x06, 0x07, 0x64, 0x00}).Draw(t, "swapTo")
		}
		return f
	}
}

// genManyPartials: far more messages under reassembly at once on one face than a handful -- the
// first fragments of 30..300 different messages (ascending, descending or scattered sequence
// numbers), then a fragment older than everything held, then second fragments that complete
// some of them. (Seeded C04-r6-2: a bound of 64 partial messages whose eviction removed the
// entry just created, so that the store was indexed through a nil slice.)
func genManyPartials(t *rapid.T) Case {
	c := Case{Threads: rapid.IntRange(1, 2).Draw(t, "threads")}
	p := genPacket(t, 0)
	if len(p) < 4 {
		p = append(p, 0, 0, 0, 0)
	}
	half := len(p) / 2
	n := rapid.SampledFrom([]int{30, 63, 64, 65, 66, 100, 130, 300}).Draw(t, "nPartial")
	start := rapid.SampledFrom([]uint64{100000, 1 << 40, 1<<63 + 7}).Draw(t, "seq0")
	order := rapid.IntRange(0, 2).Draw(t, "seqOrder")
	bases := make([]uint64, n)
	for i := range bases {
		switch order {
		case 0:
			bases[i] = start + uint64(3*i)
		case 1:
			bases[i] = start - uint64(3*i)
		default:
			bases[i] = start + uint64(3*((i*7919)%n))
		}
	}
	first := func(base uint64) []byte {
		return lpwire.LP{Seq: u64p(base), FragIndex: u64p(0), FragCount: u64p(2), Fragment: p[:half]}.Encode()
	}
	second := func(base uint64) []byte {
		return lpwire.LP{Seq: u64p(base + 1), FragIndex: u64p(1), FragCount: u64p(2), Fragment: p[half:]}.Encode()
	}
	for _, b := range bases {
		c.Frames = append(c.Frames, first(b))
	}
	c.Frames = append(c.Frames, first(start-uint64(3*n)-50)) // older than everything held
	c.Frames = append(c.Frames, second(start-uint64(3*n)-50))
	for k := rapid.IntRange(1, 6).Draw(t, "nComplete"); k > 0; k-- {
		c.Frames = append(c.Frames, second(bases[rapid.IntRange(0, n-1).Draw(t, "complete")]))
	}
	return c
}

func genCase(t *rapid.T) Case {
	if rapid.IntRange(0, 14).Draw(t, "manyPartials") == 0 {
		return genManyPartials(t)
	}
	var c Case
	c.Threads = rapid.IntRange(1, 4).Draw(t, "threads")
	c.Local = rapid.IntRange(0, 3).Draw(t, "local") == 0
	c.NoReasm = rapid.IntRange(0, 9).Draw(t, "noReasm") == 0
	c.Toggled = rapid.IntRange(0, 5).Draw(t, "toggled") == 0
	nP := rapid.IntRange(1, 3).Draw(t, "nPkts")
	var pkts [][]byte
	for i := 0; i < nP; i++ {
		pkts = append(pkts, genPacket(t, i))
	}
	pick := func() []byte { return pkts[rapid.IntRange(0, len(pkts)-1).Draw(t, "pkt")] }
	var msgs []*gmsg

	whole := func() []byte {
		lp := lpwire.LP{Fragment: pick()}
		if rapid.IntRange(0, 2).Draw(t, "hasTok") != 0 {
			lp.PitToken = genToken(t, c.Threads)
			lp.HasPitToken = true
		}
		switch rapid.IntRange(0, 5).Draw(t, "seqKind") {
		case 0:
			lp.Seq = u64p(rapid.Uint64().Draw(t, "seq"))
		case 1:
			lp.Seq, lp.FragIndex, lp.FragCount = u64p(rapid.Uint64Range(0, 10).Draw(t, "seq")), u64p(0), u64p(1)
		}
		if rapid.IntRange(0, 3).Draw(t, "hasCong") == 0 {
			lp.CongestionMark = u64p(rapid.SampledFrom([]uint64{0, 1, 1 << 40}).Draw(t, "cong"))
		}
		if rapid.IntRange(0, 3).Draw(t, "hasNextHop") == 0 {
			lp.NextHopFaceId = u64p(rapid.SampledFrom([]uint64{0, 1, 400, 1 << 40}).Draw(t, "nexthop"))
		}
		if rapid.IntRange(0, 3).Draw(t, "extra") == 0 {
			lp.ExtraHdr = rapid.SampledFrom([][]byte{
				{0xfd, 0x03, 0x20, 0x00},                               // Nack (empty)
				{0xfd, 0x03, 0x20, 0x05, 0xfd, 0x03, 0x21, 0x01, 0x32}, // Nack(Reason=50)
				{0xfd, 0x03, 0x34, 0x05, 0xfd, 0x03, 0x35, 0x01, 0x01}, // CachePolicy(NoCache)
				{0xfd, 0x03, 0x34, 0x00},                               // CachePolicy (empty)
				{0xfd, 0x03, 0x4c, 0x00},                               // NonDiscovery
				{0xfd, 0x03, 0x44, 0x08, 0, 0, 0, 0, 0, 0, 0, 1},       // Ack
				{0xfd, 0x03, 0x48, 0x08, 0, 0, 0, 0, 0, 0, 0, 2},       // TxSequence
				{0xfd, 0x03, 0x50, 0x02, 0x06, 0x00},                   // PrefixAnnouncement
				{0x63, 0x01, 0x00},                                     // unknown, critical
				{0xfd, 0x03, 0x52, 0x01, 0x00},                         // unknown, ignorable range
				{0x52, 0x01, 0x00},                                     // a second FragIndex
				{0x62, 0x06, 0, 9, 1, 2, 3, 4},                         // a second PitToken
			}).Draw(t, "extraHdr")
		}
		return lp.Encode()
	}

	frag := func() []byte {
		var m *gmsg
		if len(msgs) > 0 && rapid.IntRange(0, 9).Draw(t, "reuseMsg") < 7 {
			m = msgs[rapid.IntRange(0, len(msgs)-1).Draw(t, "msg")]
		} else {
			w := pick()
			k := rapid.IntRange(2, 5).Draw(t, "k")
			m = &gmsg{parts: split(t, w, k)}
			m.sent = make([]bool, len(m.parts))
			m.base = rapid.SampledFrom([]uint64{0, 1, 7, 1000, 1 << 32, 1<<64 - 2, 1<<64 - 1}).Draw(t, "base")
			msgs = append(msgs, m)
		}
		k := uint64(len(m.parts))
		// prefer a fragment not sent yet
		j := rapid.IntRange(0, len(m.parts)-1).Draw(t, "j")
		for d := 0; d < len(m.parts) && m.sent[j] && rapid.IntRange(0, 3).Draw(t, "allowDup") != 0; d++ {
			j = (j + 1) % len(m.parts)
		}
		m.sent[j] = true
		fi, fc := uint64(j), k
		lp := lpwire.LP{Fragment: m.parts[j]}
		lp.FragIndex, lp.FragCount = &fi, &fc
		dropSeq := false
		switch rapid.IntRange(0, 19).Draw(t, "variation") {
		case 0, 1, 2: // hostile count
			fc = rapid.SampledFrom(hostileCounts).Draw(t, "count")
		case 3, 4: // hostile index (same base sequence)
			fi = rapid.SampledFrom([]uint64{k, k + 1, 255, 65536, 1 << 40, 1<<64 - 1}).Draw(t, "index")
		case 5, 6: // the count changes within the message
			fc = uint64(int64(k) + int64(rapid.SampledFrom([]int{-1, 1, 2, 3}).Draw(t, "countDelta")))
			if rapid.Bool().Draw(t, "indexIntoGrown") && fc > k {
				fi = fc - 1
			}
		case 7:
			lp.FragIndex = nil
		case 8:
			lp.FragCount = nil
		case 9:
			dropSeq = true
		case 10: // index == count == hostile
			fc = rapid.SampledFrom(hostileCounts).Draw(t, "count")
			fi = fc
		}
		if !dropSeq {
			lp.Seq = u64p(m.base + fi)
		}
		if j == 0 || rapid.IntRange(0, 3).Draw(t, "tokOnAll") == 0 {
			if rapid.Bool().Draw(t, "fragTok") {
				lp.PitToken = genToken(t, c.Threads)
				lp.HasPitToken = true
			}
		}
		return lp.Encode()
	}

	n := rapid.IntRange(1, 24).Draw(t, "nFrames")
	for i := 0; i < n; i++ {
		var f []byte
		switch k := rapid.IntRange(0, 99).Draw(t, "frameKind"); {
		case k < 38:
			f = frag()
		case k < 50:
			f = whole()
		case k < 56:
			f = pick() // bare Interest / Data
		case k < 59: // IDLE: no Fragment, or an empty one
			lp := lpwire.LP{HasFragment: rapid.Bool().Draw(t, "emptyFragment")}
			if rapid.Bool().Draw(t, "idleSeq") {
				lp.Seq, lp.FragIndex, lp.FragCount = u64p(3), u64p(rapid.Uint64Range(0, 3).Draw(t, "fi")), u64p(rapid.SampledFrom(hostileCounts).Draw(t, "count"))
			}
			f = lp.Encode()
		case k < 62: // an LpPacket inside the Fragment
			f = lpwire.LP{Fragment: whole()}.Encode()
		case k < 67: // a Fragment that is not a packet
			var inner []byte
			switch rapid.IntRange(0, 2).Draw(t, "innerKind") {
			case 0:
				inner = rapid.SliceOfN(rapid.Byte(), 1, 40).Draw(t, "innerBytes")
			case 1:
				p := pick()
				inner = p[:rapid.IntRange(1, len(p)-1).Draw(t, "innerTrunc")]
			default:
				inner = mutate(t, pick())
			}
			f = lpwire.LP{Fragment: inner, PitToken: genToken(t, c.Threads)}.Encode()
		case k < 87: // a mutated frame
			if rapid.Bool().Draw(t, "mutFrag") {
				f = mutate(t, frag())
			} else {
				f = mutate(t, whole())
			}
		case k < 93: // a stream-level TLV header announcing a hostile length
			typ := rapid.SampledFrom([]uint64{0x64, 0x05, 0x06, 0x50, 0xfd00}).Draw(t, "rawType")
			l := rapid.SampledFrom(hostileLens).Draw(t, "rawLen")
			f = tlvwalk.AppendVarNum(nil, typ)
			w := tlvwalk.VarNumSize(l)
			if rapid.IntRange(0, 2).Draw(t, "rawWide") == 0 {
				w = 9
			}
			f = tlvwalk.AppendVarNumSized(f, l, w)
			f = append(f, rapid.SliceOfN(rapid.Byte(), 0, 20).Draw(t, "rawTail")...)
		default: // garbage
			f = rapid.SliceOfN(rapid.Byte(), 0, 60).Draw(t, "garbage")
		}
		c.Frames = append(c.Frames, f)
	}
	nc := rapid.IntRange(0, 6).Draw(t, "nChunks")
	for i := 0; i < nc; i++ {
		c.Chunks = append(c.Chunks, rapid.SampledFrom([]int{1, 2, 3, 4, 5, 9, 17, 60, 250, 1000, 8800, 9000, -1}).Draw(t, "chunk"))
	}
	return c
}

const ruleFrames = "1-24 frames (one case in fifteen: the first fragments of 30-300 messages held at once, then an older one) on one face fed to handleIncomingFrame with 1-4 recording forwarding threads: fragments of 1-3 valid packets referring to live partial messages (hostile FragCount 0/huge/changing, FragIndex >= count, missing fields, duplicates, wrapping Sequence), whole LpPackets with PIT tokens whose thread id is <, = or > the number of threads and extra/unknown header fields, bare packets, IDLE, nested LpPackets, non-packet fragments, structure-aware mutations (hostile length at any depth, truncation, byte flip, trailing bytes, type swap), stream-level headers with hostile lengths, garbage. Oracle per frame: no panic, allocation <= 64*len+64KiB, a frame the packet reader rejects delivers nothing and leaves partial-message store / face table / thread table unchanged, the store grows by at most the frame. Non-trivial: >=1 hostile element (harness parser) in a case in which the link service also stored or delivered something"

const ruleStream = "the same frame sequences concatenated into one byte stream and fed through readTlvStream (generated read sizes 1..9000 / as offered) into handleIncomingFrame. Oracle: no panic, returns within the watchdog, never spins on a full buffer, allocation <= receive buffer + 64*len(stream) + 64KiB per frame handed up, bytes handed up <= stream length. Non-trivial: >=1 hostile element and >=1 frame handed to the link service"

func TestC04RxFrames(t *testing.T) {
	rec := evid.New("C04", "TestC04RxFrames", ruleFrames)
	evid.Check(t, rec, genCase, execFrames)
}
func TestC04RxFramesReplay(t *testing.T)  { evid.Replay(t, "TestC04RxFrames", execFrames) }
func TestC04RxFramesRegress(t *testing.T) { evid.Regress(t, "C04", "TestC04RxFrames", execFrames) }

// genFullBuffer: a stream that fills the 32-packet receive buffer in one read with k whole
// blocks of s bytes (k*s close to the buffer size) followed by one block whose total size
// is around / just above the maximum packet size and whose type or length field is
// over-long. (Added after an independent reviewer found that readTlvStream spun for ever
// when exactly 8800 unread bytes of an 8812-byte block remained at the end of the buffer.)
func genFullBuffer(t *rapid.T) Case {
	c := Case{Threads: 1}
	s := rapid.SampledFrom([]int{8800, 8800, 8799, 4400, 2200, 8000}).Draw(t, "blockSize")
	const bufSize = 8800 * 32
	k := (bufSize-rapid.SampledFrom([]int{8800, 8800, 8799, 8801, 8812, 4400}).Draw(t, "tailRoom"))/s + rapid.IntRange(0, 1).Draw(t, "extra")
	blk := tlvwalk.AppendVarNumSized(nil, 6, 1)
	blk = tlvwalk.AppendVarNumSized(blk, uint64(s-4), 3)
	blk = append(blk, make([]byte, s-4)...)
	for i := 0; i < k; i++ {
		c.Frames = append(c.Frames, blk)
	}
	tw := rapid.SampledFrom([]int{1, 3, 5, 9}).Draw(t, "typeWidth")
	lw := rapid.SampledFrom([]int{3, 5, 9}).Draw(t, "lenWidth")
	l := rapid.SampledFrom([]int{8800, 8800, 8799, 8796, 8790, 8801}).Draw(t, "lastLen")
	last := tlvwalk.AppendVarNumSized(nil, 6, tw)
	last = tlvwalk.AppendVarNumSized(last, uint64(l), lw)
	last = append(last, make([]byte, l)...)
	c.Frames = append(c.Frames, last, blk)
	c.Chunks = []int{rapid.SampledFrom([]int{0, 0, -1, bufSize, 9000}).Draw(t, "chunk")}
	return c
}

func genStreamCase(t *rapid.T) Case {
	if rapid.IntRange(0, 9).Draw(t, "fullBuffer") == 0 {
		return genFullBuffer(t)
	}
	return genCase(t)
}

func TestC04RxStream(t *testing.T) {
	rec := evid.New("C04", "TestC04RxStream", ruleStream)
	evid.Check(t, rec, genStreamCase, execStream)
}
func TestC04RxStreamReplay(t *testing.T)  { evid.Replay(t, "TestC04RxStream", execStream) }
func TestC04RxStreamRegress(t *testing.T) { evid.Regress(t, "C04", "TestC04RxStream", execStream) }
