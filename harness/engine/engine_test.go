// Package engine decides C20: every Interest an application expresses through
// std/engine/basic resolves exactly once - with a Data that satisfies it, a Nack for its
// name, or a time-out no earlier than its lifetime - each arriving Data resolves all the
// pending Interests it satisfies, an incoming Interest reaches the handler attached at the
// longest matching prefix, and a reply is transmitted only before that Interest's deadline.
//
// A case is a plain list of operations. It is executed against a real basic.Engine on a
// dummy.DummyFace, once with the repository's dummy.Timer (single goroutine, synchronous)
// and once with the real timer inside a testing/synctest bubble (virtual time, time-outs
// on their own goroutines). The oracle is a reference set of pending Interests written from
// the property statement; it is interval-valued where the statement is silent.
package engine

import (
	"bytes"
	"crypto/sha256"
	"fmt"
	"sort"
	"strings"
	"sync"
	"testing"
	"testing/synctest"
	"time"

	enc "github.com/named-data/ndnd/std/encoding"
	basic "github.com/named-data/ndnd/std/engine/basic"
	"github.com/named-data/ndnd/std/engine/dummy"
	"github.com/named-data/ndnd/std/log"
	"github.com/named-data/ndnd/std/ndn"
	spec "github.com/named-data/ndnd/std/ndn/spec_2022"
	sec "github.com/named-data/ndnd/std/security"
	"pgregory.net/rapid"

	"verif/harness/internal/evid"
)

// ---------------------------------------------------------------------------- case

// Op is one step of a history.
//
//	ex   express Interest N (CanBePrefix P, lifetime L ms, 0 = none given = 4 s default;
//	     G: 0 no digest, 1|2 implicit digest of variant 1|2 of the Data named N, 3 a digest of no Data)
//	data feed Data named N, variant V (1|2), bare or (Lp) inside an LpPacket with a PIT token
//	nack feed a Nack (reason R) for the Interest named N (G as in ex: the nacked name carries that digest)
//	adv  let D microseconds pass
//	att  attach a handler at prefix N; M: 0 replies at once, 1 holds the reply (see rep), 2 replies twice at once
//	det  detach the handler at prefix N
//	int  feed an incoming Interest N (P, L as in ex; Lp: inside an LpPacket with a PIT token)
//	rep  reply now to the I-th incoming Interest of the history (no-op if it reached no handler)
type Op struct {
	K  string `json:"k"`
	N  string `json:"n,omitempty"`
	P  bool   `json:"p,omitempty"`
	L  int    `json:"l,omitempty"`
	G  int    `json:"g,omitempty"`
	V  int    `json:"v,omitempty"`
	Lp bool   `json:"lp,omitempty"`
	R  int    `json:"r,omitempty"`
	D  int64  `json:"d,omitempty"`
	M  int    `json:"m,omitempty"`
	I  int    `json:"i,omitempty"`
	// A (ex only): the Data named N, variant A (1|2), arrives while the Interest is being handed
	// to the face -- a loopback / in-process peer that answers before Express has returned
	A int `json:"a,omitempty"`
	// F (ex only): MustBeFresh. Freshness is the business of caches on the way; a Data that
	// arrives satisfies the Interest whether or not it carries a FreshnessPeriod (the Data of
	// this harness carry none; seeded C20-r7-2 left such Interests pending)
	F bool `json:"f,omitempty"`
}

type Case struct {
	Ops []Op `json:"ops"`
	// Race (dummy-timer unit only): a time-out that is due at exactly the instant a packet is
	// handled behaves like a real timer that has already fired and waits for the PIT lock - its
	// cancellation comes too late and its function runs right after the packet handler returns.
	// (The bubble unit explores the other order: there the timer function runs first.)
	Race bool `json:"race,omitempty"`
	// StopEarly: the application stops the engine while Interests are still pending (it is shutting
	// down, or about to restart the engine). The callbacks it registered are still owed: every pending
	// Interest resolves exactly once -- by its time-out, nothing can arrive any more.
	StopEarly bool `json:"stopearly,omitempty"`
}

const defaultLife = 4 * time.Second // NDN default InterestLifetime (no lifetime element)

func comps(s string) []string {
	if s == "/" || s == "" {
		return nil
	}
	return strings.Split(strings.TrimPrefix(s, "/"), "/")
}

func join(c []string) string {
	if len(c) == 0 {
		return "/"
	}
	return "/" + strings.Join(c, "/")
}

func isPrefix(p, n string) bool {
	pc, nc := comps(p), comps(n)
	if len(pc) > len(nc) {
		return false
	}
	for i := range pc {
		if pc[i] != nc[i] {
			return false
		}
	}
	return true
}

func mkName(s string) enc.Name {
	n, err := enc.NameFromStr(s)
	if err != nil {
		panic(err)
	}
	return n
}

func life(ms int) time.Duration {
	if ms == 0 {
		return defaultLife
	}
	return time.Duration(ms) * time.Millisecond
}

// ---------------------------------------------------------------------------- packets (built with the repository's encoder; C03/C13 check the encoder itself)

var (
	pktMu     sync.Mutex
	dataCache = map[string][]byte{}
)

// dataWire returns the wire of "the" Data named name, variant v (two Data of the same name
// with different content, hence different implicit digests).
func dataWire(name string, v int) []byte {
	key := fmt.Sprintf("%s#%d", name, v)
	pktMu.Lock()
	defer pktMu.Unlock()
	if w, ok := dataCache[key]; ok {
		return w
	}
	ct := ndn.ContentTypeBlob
	d, err := spec.Spec{}.MakeData(mkName(name), &ndn.DataConfig{ContentType: &ct},
		enc.Wire{[]byte(fmt.Sprintf("content-%d-of-%s", v, name))}, sec.NewSha256Signer())
	if err != nil {
		panic(err)
	}
	w := d.Wire.Join()
	dataCache[key] = w
	return w
}

func dataDigest(name string, v int) []byte {
	h := sha256.Sum256(dataWire(name, v))
	return h[:]
}

// digestFor maps the G field to the 32 digest bytes (nil = no digest component).
func digestFor(name string, g int) []byte {
	switch g {
	case 1, 2:
		return dataDigest(name, g)
	case 3:
		return bytes.Repeat([]byte{0x5a}, 32)
	}
	return nil
}

func interestName(name string, g int) enc.Name {
	n := mkName(name)
	if d := digestFor(name, g); d != nil {
		n = append(n, enc.Component{Typ: enc.TypeImplicitSha256DigestComponent, Val: d})
	}
	return n
}

func makeInterest(name string, g int, cbp bool, lifeMs int, nonce uint64) *ndn.EncodedInterest {
	return makeInterestF(name, g, cbp, false, lifeMs, nonce)
}

func makeInterestF(name string, g int, cbp, mbf bool, lifeMs int, nonce uint64) *ndn.EncodedInterest {
	cfg := &ndn.InterestConfig{CanBePrefix: cbp, MustBeFresh: mbf, Nonce: &nonce}
	if lifeMs != 0 {
		l := time.Duration(lifeMs) * time.Millisecond
		cfg.Lifetime = &l
	}
	it, err := spec.Spec{}.MakeInterest(interestName(name, g), cfg, nil, nil)
	if err != nil {
		panic(err)
	}
	return it
}

func makeInterestHop(name string, cbp bool, lifeMs int, nonce uint64, hop *uint) *ndn.EncodedInterest {
	cfg := &ndn.InterestConfig{CanBePrefix: cbp, Nonce: &nonce, HopLimit: hop}
	if lifeMs != 0 {
		l := time.Duration(lifeMs) * time.Millisecond
		cfg.Lifetime = &l
	}
	it, err := spec.Spec{}.MakeInterest(interestName(name, 0), cfg, nil, nil)
	if err != nil {
		panic(err)
	}
	return it
}

func lpWrap(fragment []byte, token []byte, nack uint64) []byte {
	lp := &spec.LpPacket{PitToken: token, Fragment: enc.Wire{fragment}}
	if nack != 0 {
		lp.Nack = &spec.NetworkNack{Reason: nack}
	}
	pkt := &spec.Packet{LpPacket: lp}
	e := spec.PacketEncoder{}
	e.Init(pkt)
	w := e.Encode(pkt)
	if w == nil {
		panic("cannot encode LpPacket")
	}
	return w.Join()
}

// ---------------------------------------------------------------------------- clocks

type clock interface {
	timer() ndn.Timer
	now() time.Time
	advance(d time.Duration)
	settle()
}

type dummyClock struct{ t *dummy.Timer }

func (c dummyClock) timer() ndn.Timer        { return c.t }
func (c dummyClock) now() time.Time          { return c.t.Now() }
func (c dummyClock) advance(d time.Duration) { c.t.MoveForward(d) }
func (c dummyClock) settle()                 {}

// raceTimer wraps the repository's dummy.Timer (see Case.Race).
type raceTimer struct {
	*dummy.Timer
	pending []func()
	lost    int
}

func (r *raceTimer) Schedule(d time.Duration, f func()) func() error {
	due := r.Timer.Now().Add(d)
	cancel := r.Timer.Schedule(d, f)
	return func() error {
		if r.Timer.Now().Equal(due) {
			_ = cancel() // it must not run a second time later
			r.pending = append(r.pending, f)
			r.lost++
			return fmt.Errorf("timer has already fired")
		}
		return cancel()
	}
}

// flush runs the timer functions whose cancellation came too late.
func (r *raceTimer) flush() bool {
	if len(r.pending) == 0 {
		return false
	}
	p := r.pending
	r.pending = nil
	for _, f := range p {
		f()
	}
	return true
}

type raceClock struct {
	dummyClock
	r *raceTimer
}

func (c raceClock) timer() ndn.Timer { return c.r }

type bubbleClock struct{ t ndn.Timer }

func (c bubbleClock) timer() ndn.Timer { return c.t }
func (c bubbleClock) now() time.Time   { return time.Now() }
func (c bubbleClock) advance(d time.Duration) {
	time.Sleep(d)
	synctest.Wait()
}
func (c bubbleClock) settle() { synctest.Wait() }

// ---------------------------------------------------------------------------- harness state

type call struct {
	kind   ndn.InterestResult
	name   string
	rawOK  bool
	reason uint64
	at     time.Time
}

// exInt is one expressed Interest together with what the reference knows about it.
type exInt struct {
	id       int
	name     string // without the digest component
	cbp      bool
	g        int
	digest   []byte
	at       time.Time
	life     time.Duration
	resolved bool
	calls    []call
	seen     int // calls already judged
}

type incoming struct {
	name     string
	token    []byte
	arrived  time.Time
	life     time.Duration
	reply    ndn.WireReplyFunc
	handler  int
	replies  int
	consumed bool
}

type hcall struct {
	hid  int
	args ndn.InterestHandlerArgs
}

// loopFace is the dummy face with one addition: a packet set in answer is fed to the engine from
// inside Send, right after the packet being sent was put on the face -- an interleaving of a
// packet arrival with Express that a passive face cannot produce.
type loopFace struct {
	*dummy.DummyFace
	answer []byte
}

func (f *loopFace) Send(pkt enc.Wire) error {
	err := f.DummyFace.Send(pkt)
	if a := f.answer; a != nil && err == nil {
		f.answer = nil
		_ = f.DummyFace.FeedPacket(a)
	}
	return err
}

type harness struct {
	mu    sync.Mutex
	clk   clock
	loop  *loopFace
	face  *dummy.DummyFace
	eng   *basic.Engine
	ints  []*exInt
	hcs   []hcall
	inc   []*incoming     // one per "int" op (nil reply if it reached no handler)
	hnd   map[string]int  // reference: prefix -> handler id
	mode  map[int]int     // handler id -> mode
	err   error           // first violation found inside a callback/handler
	cls   map[string]bool // classes
	cnt   map[string]int  // counters
	stats struct{ maxPendingNested, dataRes, nackRes, toRes int }
}

func (h *harness) fail(format string, a ...any) {
	if h.err == nil {
		h.err = fmt.Errorf(format, a...)
	}
}

func (h *harness) drainFace() [][]byte {
	var out [][]byte
	for {
		p, err := h.face.Consume()
		if err != nil {
			return out
		}
		out = append(out, p)
	}
}

func (h *harness) pending() []*exInt {
	var p []*exInt
	for _, e := range h.ints {
		if !e.resolved {
			p = append(p, e)
		}
	}
	return p
}

// newCalls returns, per Interest id, the callback invocations not yet judged.
func (h *harness) newCalls() map[int][]call {
	h.mu.Lock()
	defer h.mu.Unlock()
	out := map[int][]call{}
	for _, e := range h.ints {
		if len(e.calls) > e.seen {
			out[e.id] = append([]call{}, e.calls[e.seen:]...)
			e.seen = len(e.calls)
		}
	}
	return out
}

func ids(m map[int]bool) string {
	var s []int
	for k := range m {
		s = append(s, k)
	}
	sort.Ints(s)
	return fmt.Sprint(s)
}

// judge compares the callbacks observed during one step with what the statement requires
// (req: must have been invoked) and allows (alw: may have been invoked), all with the given
// result kind; every invocation must be the first and only one of its Interest.
func (h *harness) judge(step int, what string, kind ndn.InterestResult, req, alw map[int]bool, check func(e *exInt, c call) error) error {
	obs := h.newCalls()
	keys := make([]int, 0, len(obs))
	for id := range obs {
		keys = append(keys, id)
	}
	sort.Ints(keys)
	for _, id := range keys {
		e := h.ints[id]
		cs := obs[id]
		if e.resolved {
			return fmt.Errorf("step %d (%s): callback of Interest #%d (%s) invoked again (%v) after it had already resolved", step, what, id, e.name, cs[0].kind)
		}
		if len(cs) > 1 {
			return fmt.Errorf("step %d (%s): callback of Interest #%d (%s) invoked %d times", step, what, id, e.name, len(cs))
		}
		c := cs[0]
		if c.kind != kind {
			return fmt.Errorf("step %d (%s): Interest #%d (%s) resolved with result %v, only result %v can happen here", step, what, id, e.name, c.kind, kind)
		}
		if !alw[id] {
			return fmt.Errorf("step %d (%s): Interest #%d (%s cbp=%v digest=%d) was resolved (result %v) but this event does not resolve it", step, what, id, e.name, e.cbp, e.g, c.kind)
		}
		if check != nil {
			if err := check(e, c); err != nil {
				return fmt.Errorf("step %d (%s): Interest #%d (%s): %v", step, what, id, e.name, err)
			}
		}
		e.resolved = true
	}
	rk := make([]int, 0, len(req))
	for id := range req {
		rk = append(rk, id)
	}
	sort.Ints(rk)
	for _, id := range rk {
		if _, ok := obs[id]; !ok {
			e := h.ints[id]
			return fmt.Errorf("step %d (%s): pending Interest #%d (%s cbp=%v digest=%d, expressed %v ago, lifetime %v) is satisfied by this event but its callback was not invoked",
				step, what, id, e.name, e.cbp, e.g, h.clk.now().Sub(e.at), e.life)
		}
	}
	return nil
}

func (h *harness) lpmHandler(name string) (int, bool) {
	c := comps(name)
	for i := len(c); i >= 0; i-- {
		if id, ok := h.hnd[join(c[:i])]; ok {
			return id, true
		}
	}
	return 0, false
}

// doReply calls the Reply function of an incoming Interest and judges it against the deadline.
func (h *harness) doReply(step int, ic *incoming) {
	ic.replies++
	wire := dataWire(ic.name, 1+ic.replies%2)
	pre := h.drainFace()
	if len(pre) != 0 {
		h.fail("step %d: %d unexpected packet(s) on the face before a reply", step, len(pre))
		return
	}
	now := h.clk.now()
	deadline := ic.arrived.Add(ic.life)
	err := ic.reply(enc.Wire{wire})
	sent := h.drainFace()
	okSent := func() error {
		if err != nil {
			return fmt.Errorf("Reply returned %v", err)
		}
		if len(sent) != 1 {
			return fmt.Errorf("%d packets were sent", len(sent))
		}
		if ic.token == nil {
			if !bytes.Equal(sent[0], wire) {
				return fmt.Errorf("the packet sent is not the Data handed to Reply")
			}
			return nil
		}
		p, _, perr := spec.ReadPacket(enc.NewBufferReader(sent[0]))
		if perr != nil || p.LpPacket == nil {
			return fmt.Errorf("the Interest carried a PIT token but the reply is not an LpPacket (%v)", perr)
		}
		if !bytes.Equal(p.LpPacket.PitToken, ic.token) {
			return fmt.Errorf("reply carries PIT token %x, the Interest carried %x", p.LpPacket.PitToken, ic.token)
		}
		if p.LpPacket.Nack != nil || !bytes.Equal(p.LpPacket.Fragment.Join(), wire) {
			return fmt.Errorf("the LpPacket sent does not wrap exactly the Data handed to Reply")
		}
		return nil
	}
	okRefused := func() error {
		if err == nil {
			return fmt.Errorf("Reply returned no error")
		}
		if len(sent) != 0 {
			return fmt.Errorf("%d packet(s) were sent", len(sent))
		}
		return nil
	}
	switch {
	case now.Before(deadline):
		h.cls["reply-before-deadline"] = true
		if e := okSent(); e != nil {
			h.fail("step %d: reply to incoming Interest %s %v before its deadline: %v", step, ic.name, deadline.Sub(now), e)
		}
	case now.After(deadline):
		h.cls["reply-after-deadline"] = true
		if e := okRefused(); e != nil {
			h.fail("step %d: reply to incoming Interest %s %v after its deadline: %v", step, ic.name, now.Sub(deadline), e)
		}
	default: // exactly at the deadline: the statement allows either
		h.cls["reply-at-deadline"] = true
		if e1, e2 := okSent(), okRefused(); e1 != nil && e2 != nil {
			h.fail("step %d: reply to incoming Interest %s exactly at its deadline neither sent nor refused cleanly: %v / %v", step, ic.name, e1, e2)
		}
	}
}

// ---------------------------------------------------------------------------- execution

var quietOnce sync.Once

func quiet() {
	quietOnce.Do(func() {
		log.SetHandler(log.HandlerFunc(func(*log.Entry) error { return nil }))
		log.SetLevel(log.FatalLevel)
	})
}

func run(c Case, clk clock) (res evid.Result) {
	quiet()
	h := &harness{clk: clk, face: dummy.NewDummyFace(), hnd: map[string]int{}, mode: map[int]int{},
		cls: map[string]bool{}, cnt: map[string]int{}}
	defer func() {
		if r := recover(); r != nil {
			res.Err = fmt.Errorf("panic in the engine: %v", r)
		}
	}()
	passAll := func(enc.Name, enc.Wire, ndn.Signature) bool { return true }
	h.loop = &loopFace{DummyFace: h.face}
	h.eng = basic.NewEngine(h.loop, clk.timer(), sec.NewSha256IntSigner(clk.timer()), passAll)
	if err := h.eng.Start(); err != nil {
		return evid.Result{Err: fmt.Errorf("harness: engine does not start: %v", err)}
	}
	maxLife := defaultLife
	nInt := 0
	for step, op := range c.Ops {
		if err := h.step(step, op, &nInt); err != nil {
			return h.result(err)
		}
		if h.err != nil {
			return h.result(h.err)
		}
		if op.K == "ex" && life(op.L) > maxLife {
			maxLife = life(op.L)
		}
		if rc, ok := clk.(raceClock); ok && rc.r.flush() {
			h.cls["timer-function-ran-after-the-packet-that-cancelled-it-too-late"] = true
			if err := h.judgeTimeouts(step, "timer function of a time-out cancelled too late"); err != nil {
				return h.result(err)
			}
		}
		h.track()
	}
	if c.StopEarly {
		if len(h.pending()) > 0 {
			h.cls["engine-stopped-with-interests-pending"] = true
		}
		_ = h.eng.Stop()
	}
	// drain: well past every lifetime, every expressed Interest must have resolved exactly once.
	// Two advances: the dummy timer runs events in slot order within one MoveForward.
	for i := 0; i < 2; i++ {
		clk.advance(maxLife + time.Second)
		if err := h.judgeTimeouts(len(c.Ops)+i, "final drain"); err != nil {
			return h.result(err)
		}
	}
	for _, e := range h.ints {
		h.mu.Lock()
		n := len(e.calls)
		h.mu.Unlock()
		if n != 1 {
			return h.result(fmt.Errorf("end: Interest #%d (%s cbp=%v digest=%d lifetime %v) has %d callback invocations %v after the clock went well past every lifetime; exactly one is required",
				e.id, e.name, e.cbp, e.g, e.life, n, time.Duration(0)))
		}
	}
	_ = h.eng.Stop()
	return h.result(nil)
}

func (h *harness) judgeTimeouts(step int, what string) error {
	now := h.clk.now()
	alw := map[int]bool{}
	for _, e := range h.pending() {
		alw[e.id] = true
	}
	return h.judge(step, what, ndn.InterestResultTimeout, nil, alw, func(e *exInt, c call) error {
		h.stats.toRes++
		h.cls["resolved-by-timeout"] = true
		for _, o := range h.ints {
			if o.id > e.id && o.name == e.name && o.at.After(e.at) {
				h.cnt["re-expressed-same-name-before-the-older-one-timed-out"]++
				break
			}
		}
		if c.at.Before(e.at.Add(e.life)) || now.Before(e.at.Add(e.life)) {
			return fmt.Errorf("timed out %v after being expressed, before its lifetime %v", c.at.Sub(e.at), e.life)
		}
		return nil
	})
}

func (h *harness) noCalls(step int, what string) error {
	return h.judge(step, what, ndn.InterestResultNone, nil, nil, nil)
}

func (h *harness) track() {
	p := h.pending()
	if len(p) >= 3 {
		nested := false
		for i := range p {
			for j := range p {
				if i != j && p[i].name != p[j].name && isPrefix(p[i].name, p[j].name) {
					nested = true
				}
			}
		}
		if nested {
			h.stats.maxPendingNested = max(h.stats.maxPendingNested, len(p))
		}
	}
}

func (h *harness) result(err error) evid.Result {
	r := evid.Result{Err: err, Counts: h.cnt}
	r.NonTrivial = h.stats.maxPendingNested >= 3 && h.stats.dataRes >= 1 && (h.stats.nackRes+h.stats.toRes) >= 1
	if h.stats.maxPendingNested >= 3 {
		h.cls[">=3-pending-on-nested-names"] = true
	}
	for k := range h.cls {
		r.Classes = append(r.Classes, k)
	}
	sort.Strings(r.Classes)
	return r
}

// dataWants: which pending Interests the Data named name, variant v, must (req) and may (alw)
// resolve if it arrives now.
func (h *harness) dataWants(name string, v int) (req, alw map[int]bool, shorterResolvedBefore bool) {
	dg := dataDigest(name, v)
	now := h.clk.now()
	req, alw = map[int]bool{}, map[int]bool{}
	for _, e := range h.ints {
		if e.resolved && e.name != name && isPrefix(e.name, name) {
			shorterResolvedBefore = true
		}
	}
	for _, e := range h.pending() {
		nameOK := e.name == name || (e.cbp && isPrefix(e.name, name))
		if !nameOK {
			continue
		}
		if e.digest != nil && !bytes.Equal(e.digest, dg) {
			h.cls["data-with-other-digest-than-requested"] = true
			continue
		}
		alw[e.id] = true
		if now.Before(e.at.Add(e.life)) {
			req[e.id] = true
		} else {
			h.cnt["data-for-interest-past-lifetime-not-yet-timed-out (either outcome accepted)"]++
		}
	}
	return
}

// judgeData: the callbacks invoked since the last judgement against what the Data that just
// arrived must and may resolve.
func (h *harness) judgeData(step int, name string, v int, req, alw map[int]bool, shorterResolvedBefore bool) error {
	if len(req) >= 2 {
		h.cls["data-satisfies->=2-pending"] = true
	}
	if len(alw) == 0 {
		h.cls["data-satisfies-nothing"] = true
	}
	if len(req) >= 1 && shorterResolvedBefore {
		h.cls["data-for-longer-name-after-a-shorter-name-resolved"] = true
	}
	return h.judge(step, fmt.Sprintf("Data %s variant %d", name, v), ndn.InterestResultData, req, alw, func(e *exInt, c call) error {
		h.stats.dataRes++
		if c.name != mkName(name).String() {
			return fmt.Errorf("callback got Data named %s, the Data fed is %s", c.name, name)
		}
		if !c.rawOK {
			return fmt.Errorf("callback's RawData is not the wire of the Data fed")
		}
		if e.digest != nil {
			h.cls["resolved-by-digest-match"] = true
		}
		if e.name != name {
			h.cls["resolved-by-longer-data(CanBePrefix)"] = true
		}
		return nil
	})
}

func (h *harness) step(step int, op Op, nInt *int) error {
	clk := h.clk
	switch op.K {
	case "ex":
		if len(comps(op.N)) == 0 {
			return nil
		}
		it := makeInterestF(op.N, op.G, op.P, op.F, op.L, uint64(step+1))
		if op.F {
			h.cls["express-with-must-be-fresh"] = true
		}
		e := &exInt{id: len(h.ints), name: op.N, cbp: op.P, g: op.G, digest: digestFor(op.N, op.G),
			at: clk.now(), life: life(op.L)}
		h.mu.Lock()
		h.ints = append(h.ints, e)
		h.mu.Unlock()
		var ansReq, ansAlw map[int]bool
		if op.A == 1 || op.A == 2 {
			ansReq, ansAlw, _ = h.dataWants(op.N, op.A)
			h.loop.answer = append([]byte{}, dataWire(op.N, op.A)...)
			h.cls["data-arrives-while-the-interest-is-being-sent"] = true
		}
		err := h.eng.Express(it, func(a ndn.ExpressCallbackArgs) {
			c := call{kind: a.Result, reason: a.NackReason, at: clk.now()}
			if a.Data != nil {
				c.name = a.Data.Name().String()
				c.rawOK = bytes.Equal(a.RawData.Join(), dataWire(c.name, 1)) || bytes.Equal(a.RawData.Join(), dataWire(c.name, 2))
			}
			h.mu.Lock()
			e.calls = append(e.calls, c)
			h.mu.Unlock()
		})
		clk.settle()
		if err != nil {
			return fmt.Errorf("step %d: Express(%s) returned %v", step, op.N, err)
		}
		sent := h.drainFace()
		if len(sent) != 1 || !bytes.Equal(sent[0], it.Wire.Join()) {
			return fmt.Errorf("step %d: Express(%s) put %d packets on the face, want exactly the encoded Interest", step, op.N, len(sent))
		}
		// the configuration object belongs to the application, which goes on using it (for its next
		// Interest, say): what the pending Interest asked for was settled when it was expressed
		if it.Config != nil {
			it.Config.CanBePrefix = !it.Config.CanBePrefix
			it.Config.MustBeFresh = !it.Config.MustBeFresh
			it.Config.Lifetime = nil
			it.Config.Nonce = nil
		}
		if op.G != 0 {
			h.cls["express-with-digest"] = true
		}
		if ansAlw != nil {
			return h.judgeData(step, op.N, op.A, ansReq, ansAlw, false)
		}
		return h.noCalls(step, "express")

	case "data":
		v := op.V
		if v != 2 {
			v = 1
		}
		wire := dataWire(op.N, v)
		req, alw, shorterResolvedBefore := h.dataWants(op.N, v)
		feed := wire
		if op.Lp {
			feed = lpWrap(wire, []byte{9, 9, 9, 9}, 0)
		}
		if err := h.face.FeedPacket(append([]byte{}, feed...)); err != nil {
			return fmt.Errorf("step %d: harness: FeedPacket: %v", step, err)
		}
		clk.settle()
		if err := h.judgeData(step, op.N, v, req, alw, shorterResolvedBefore); err != nil {
			return err
		}
		if n := len(h.drainFace()); n != 0 {
			return fmt.Errorf("step %d: the engine sent %d packets when a Data arrived", step, n)
		}
		return nil

	case "nack":
		if len(comps(op.N)) == 0 {
			return nil
		}
		reason := uint64(op.R)
		if reason == 0 {
			reason = spec.NackReasonNoRoute
		}
		it := makeInterest(op.N, op.G, false, 0, 7)
		now := clk.now()
		req, alw := map[int]bool{}, map[int]bool{}
		descendants := false
		for _, e := range h.pending() {
			if e.name != op.N && (isPrefix(op.N, e.name) || isPrefix(e.name, op.N)) {
				descendants = true
			}
			if e.name != op.N {
				continue
			}
			// An Interest is certainly "of that name" if neither it nor the Nack carries a digest
			// component. Where digest components are involved (the engine keeps such Interests
			// at the node of the name without digest) the statement is read tolerantly: allowed,
			// not required.
			alw[e.id] = true
			if e.g == 0 && op.G == 0 && now.Before(e.at.Add(e.life)) {
				req[e.id] = true
			}
		}
		if len(req) > 0 && descendants {
			h.cls["nack-while-ancestor/descendant-names-pending"] = true
		}
		if len(alw) == 0 {
			h.cls["nack-for-nothing-pending"] = true
		}
		if err := h.face.FeedPacket(lpWrap(it.Wire.Join(), nil, reason)); err != nil {
			return fmt.Errorf("step %d: harness: FeedPacket: %v", step, err)
		}
		clk.settle()
		return h.judge(step, fmt.Sprintf("Nack %s", op.N), ndn.InterestResultNack, req, alw, func(e *exInt, c call) error {
			h.stats.nackRes++
			h.cls["resolved-by-nack"] = true
			if c.reason != reason {
				return fmt.Errorf("callback got Nack reason %d, the Nack fed has %d", c.reason, reason)
			}
			return nil
		})

	case "adv":
		if op.D <= 0 {
			return nil
		}
		clk.advance(time.Duration(op.D) * time.Microsecond)
		return h.judgeTimeouts(step, fmt.Sprintf("advance %v", time.Duration(op.D)*time.Microsecond))

	case "att":
		hid := step
		mode := op.M
		err := h.eng.AttachHandler(mkName(op.N), func(a ndn.InterestHandlerArgs) {
			h.mu.Lock()
			h.hcs = append(h.hcs, hcall{hid: hid, args: a})
			h.mu.Unlock()
		})
		if err == nil {
			// (an error - e.g. a second handler on the same prefix - must leave the table as it was)
			if _, dup := h.hnd[op.N]; dup {
				h.cls["attach-replaced-handler"] = true
			}
			h.hnd[op.N] = hid
			h.mode[hid] = mode
		} else {
			h.cls["attach-refused"] = true
		}
		return h.noCalls(step, "attach")

	case "det":
		_, had := h.hnd[op.N]
		err := h.eng.DetachHandler(mkName(op.N))
		if err == nil {
			if had {
				for p := range h.hnd {
					if p != op.N && (isPrefix(p, op.N) || isPrefix(op.N, p)) {
						h.cls["detach-with-ancestor/descendant-handlers"] = true
					}
				}
			} else {
				h.cls["detach-of-prefix-without-handler"] = true
			}
			delete(h.hnd, op.N)
		} else if had {
			return fmt.Errorf("step %d: DetachHandler(%s) of an attached handler returned %v", step, op.N, err)
		}
		return h.noCalls(step, "detach")

	case "int":
		idx := *nInt
		*nInt++
		ic := &incoming{name: op.N, life: life(op.L), handler: -1}
		h.inc = append(h.inc, ic)
		if len(comps(op.N)) == 0 {
			return nil
		}
		// the rarely used HopLimit field: absent, 0 (what an Interest sent with 1 carries when the local
		// forwarder hands it to the application: it may not travel further, but it has arrived), 1, 255
		var hop *uint
		if k := idx % 4; k > 0 {
			hop = new(uint)
			*hop = []uint{0, 0, 1, 255}[k]
			h.cls[fmt.Sprintf("incoming-interest-with-hop-limit-%d", *hop)] = true
		}
		it := makeInterestHop(op.N, op.P, op.L, uint64(1000+idx), hop)
		wire := it.Wire.Join()
		if op.Lp {
			ic.token = []byte{0xA0, byte(idx), 0x33, 0x44}
			wire = lpWrap(wire, ic.token, 0)
		}
		want, has := h.lpmHandler(op.N)
		h.hcs = nil
		ic.arrived = clk.now()
		if err := h.face.FeedPacket(wire); err != nil {
			return fmt.Errorf("step %d: harness: FeedPacket: %v", step, err)
		}
		clk.settle()
		got := h.hcs
		h.hcs = nil
		if !has {
			h.cls["incoming-interest-without-handler"] = true
			if len(got) != 0 {
				return fmt.Errorf("step %d: incoming Interest %s matches no attached prefix but handler of step %d was called", step, op.N, got[0].hid)
			}
			return h.noCalls(step, "incoming interest")
		}
		if len(got) != 1 {
			return fmt.Errorf("step %d: incoming Interest %s: %d handler calls, want exactly one (handler attached at step %d, longest matching prefix)", step, op.N, len(got), want)
		}
		if got[0].hid != want {
			return fmt.Errorf("step %d: incoming Interest %s handed to the handler attached at step %d; the longest matching attached prefix belongs to the handler of step %d", step, op.N, got[0].hid, want)
		}
		a := got[0].args
		if a.Interest == nil || !a.Interest.Name().Equal(mkName(op.N)) {
			return fmt.Errorf("step %d: handler got another Interest than the one fed (%s)", step, op.N)
		}
		if !bytes.Equal(a.PitToken, ic.token) {
			return fmt.Errorf("step %d: handler got PIT token %x, Interest carried %x", step, a.PitToken, ic.token)
		}
		if a.Reply == nil {
			return fmt.Errorf("step %d: handler got no Reply function", step)
		}
		nestedHandlers := 0
		for p := range h.hnd {
			if isPrefix(p, op.N) {
				nestedHandlers++
			}
		}
		if nestedHandlers >= 2 {
			h.cls["incoming-interest-with->=2-matching-prefixes"] = true
		}
		ic.reply, ic.handler = a.Reply, want
		switch h.mode[want] {
		case 0:
			h.doReply(step, ic)
			ic.consumed = true
		case 2:
			h.doReply(step, ic)
			h.doReply(step, ic)
			ic.consumed = true
		}
		return h.noCalls(step, "incoming interest")

	case "rep":
		if op.I < 0 || op.I >= len(h.inc) || h.inc[op.I].reply == nil {
			return nil
		}
		h.doReply(step, h.inc[op.I])
		return h.noCalls(step, "reply")
	}
	return fmt.Errorf("harness: unknown op %q", op.K)
}

func execDummy(c Case) evid.Result {
	t := dummy.NewTimer()
	if c.Race {
		return run(c, raceClock{dummyClock{t}, &raceTimer{Timer: t}})
	}
	return run(c, dummyClock{t})
}

func execBubble(t *testing.T) func(Case) evid.Result {
	return func(c Case) (res evid.Result) {
		synctest.Test(t, func(*testing.T) {
			res = run(c, bubbleClock{basic.NewTimer()})
		})
		return res
	}
}

// ---------------------------------------------------------------------------- generator

// "32=a" is a typed component with the value bytes of "a", "32%3Da" the generic component
// whose value is the text "32=a": three different components that the engine's name trie
// must keep apart (seeded defects C14-r3-1 and C20-r3-3 keyed its children ambiguously).
var alphabet = []string{"a", "b", "32=a", "32%3Da"}

var lifetimes = []int{0, 1, 5, 5, 10, 10, 20, 100, 1000, 4000, 6000}

type gExp struct {
	name string
	at   int64 // microseconds
	life int64
}

func genCase(t *rapid.T) Case {
	var c Case
	var now int64
	var exps []gExp
	var names []string    // names touched so far
	var attached []string // prefixes with a handler (approximately: the generator does not model refusals)
	type gInc struct{ at, life int64 }
	var incs []gInc
	nInt := 0
	nops := rapid.IntRange(1, 40).Draw(t, "nops")
	c.Race = rapid.Bool().Draw(t, "race")
	c.StopEarly = rapid.IntRange(0, 3).Draw(t, "stopEarly") == 0
	randName := func(label string, minDepth int) string {
		d := rapid.IntRange(minDepth, 4).Draw(t, label+"depth")
		cs := make([]string, d)
		for i := range cs {
			cs[i] = alphabet[rapid.SampledFrom([]int{0, 0, 0, 1, 0, 0, 0, 1, 2, 3}).Draw(t, label+"c")]
		}
		return join(cs)
	}
	// related: exact / parent / child / fresh, relative to a name already in the history
	related := func(label string, minDepth int) string {
		if len(names) > 0 {
			base := comps(rapid.SampledFrom(names).Draw(t, label+"base"))
			switch rapid.IntRange(0, 9).Draw(t, label+"how") {
			case 0, 1, 2, 3:
				if len(base) >= minDepth {
					return join(base)
				}
			case 4, 5:
				if len(base)-1 >= minDepth {
					return join(base[:len(base)-1])
				}
			case 6, 7:
				if len(base) < 5 {
					return join(append(append([]string{}, base...), rapid.SampledFrom(alphabet).Draw(t, label+"cc")))
				}
			case 8:
				// the same name with one component replaced by its look-alike
				if len(base) >= 1 && len(base) >= minDepth {
					tw := append([]string{}, base...)
					i := rapid.IntRange(0, len(tw)-1).Draw(t, label+"twi")
					tw[i] = map[string]string{"a": "32=a", "32=a": "32%3Da", "32%3Da": "a", "b": "32=b"}[tw[i]]
					if tw[i] == "" {
						tw[i] = "a"
					}
					return join(tw)
				}
			}
		}
		return randName(label, minDepth)
	}
	kinds := []string{"ex", "ex", "ex", "ex", "ex", "ex", "data", "data", "data", "data", "data", "nack", "nack",
		"adv", "adv", "adv", "att", "att", "det", "int", "int", "int", "rep"}
	for i := 0; i < nops; i++ {
		var op Op
		switch rapid.SampledFrom(kinds).Draw(t, "kind") {
		case "ex":
			op = Op{K: "ex", N: related("ex", 1), L: rapid.SampledFrom(lifetimes).Draw(t, "life")}
			switch rapid.IntRange(0, 9).Draw(t, "exflavour") {
			case 0, 1, 2, 3:
				op.P = true
			case 4:
				op.G = rapid.IntRange(1, 3).Draw(t, "digest")
			case 5:
				// implicit digest together with CanBePrefix: a longer-named Data can never carry
				// the requested digest, so it must not resolve this Interest
				op.G = rapid.IntRange(1, 3).Draw(t, "digest")
				op.P = true
			}
			op.F = rapid.IntRange(0, 4).Draw(t, "mustBeFresh") == 0
			if rapid.IntRange(0, 11).Draw(t, "answeredAtOnce") == 0 {
				op.A = rapid.SampledFrom([]int{1, 1, 2}).Draw(t, "answerVariant")
			}
			exps = append(exps, gExp{op.N, now, int64(life(op.L) / time.Microsecond)})
		case "data":
			op = Op{K: "data", N: related("data", 1), V: rapid.SampledFrom([]int{1, 1, 1, 2}).Draw(t, "variant"),
				Lp: rapid.IntRange(0, 3).Draw(t, "lp") == 0}
		case "nack":
			op = Op{K: "nack", N: related("nack", 1), R: rapid.SampledFrom([]int{50, 100, 150}).Draw(t, "reason")}
			if rapid.IntRange(0, 7).Draw(t, "nackdigest") == 0 {
				op.G = rapid.IntRange(1, 3).Draw(t, "ndigest")
			}
		case "adv":
			op = Op{K: "adv"}
			if len(exps) > 0 && rapid.IntRange(0, 9).Draw(t, "around") < 6 {
				// land around the lifetime / the engine's time-out instant of some expressed Interest
				e := rapid.SampledFrom(exps).Draw(t, "advtarget")
				delta := rapid.SampledFrom([]int64{-1000, -1, 0, 1, 5000, 9999, 10000, 10000, 10000, 10001, 11000, 20000}).Draw(t, "advdelta")
				op.D = e.at + e.life + delta - now
				if op.D > 0 && (delta == 0 || delta == 10000) && rapid.Bool().Draw(t, "hit") {
					// and let a packet for that very Interest arrive at this instant
					c.Ops = append(c.Ops, op)
					now += op.D
					if rapid.Bool().Draw(t, "hitnack") {
						op = Op{K: "nack", N: e.name, R: 150}
					} else {
						op = Op{K: "data", N: e.name, V: 1}
					}
					op.D = 0
				}
			}
			if op.K == "adv" {
				if op.D <= 0 {
					op.D = rapid.SampledFrom([]int64{1, 1000, 4000, 5000, 6000, 10000, 100000, 1000000, 5000000}).Draw(t, "advd")
				}
				now += op.D
			}
		case "att":
			op = Op{K: "att", N: related("att", 0), M: rapid.SampledFrom([]int{0, 0, 1, 1, 1, 2}).Draw(t, "mode")}
			if len(attached) > 0 && rapid.IntRange(0, 9).Draw(t, "attnest") < 6 {
				// nest: parent or child of a prefix that already has a handler
				base := comps(rapid.SampledFrom(attached).Draw(t, "attbase"))
				if len(base) > 0 && rapid.Bool().Draw(t, "attup") {
					op.N = join(base[:len(base)-1])
				} else if len(base) < 4 {
					op.N = join(append(append([]string{}, base...), rapid.SampledFrom(alphabet).Draw(t, "attc")))
				}
			}
			attached = append(attached, op.N)
		case "det":
			op = Op{K: "det", N: related("det", 0)}
			if len(attached) > 0 && rapid.IntRange(0, 9).Draw(t, "detatt") < 7 {
				k := rapid.IntRange(0, len(attached)-1).Draw(t, "detidx")
				op.N = attached[k]
				attached = append(append([]string{}, attached[:k]...), attached[k+1:]...)
			}
		case "int":
			op = Op{K: "int", N: related("int", 1), L: rapid.SampledFrom(lifetimes).Draw(t, "ilife"),
				P: rapid.Bool().Draw(t, "icbp"), Lp: rapid.Bool().Draw(t, "ilp")}
			if len(attached) > 0 && rapid.IntRange(0, 9).Draw(t, "intatt") < 7 {
				// below (0..2 components) a prefix that has a handler
				base := append([]string{}, comps(rapid.SampledFrom(attached).Draw(t, "intbase"))...)
				for k := rapid.IntRange(0, 2).Draw(t, "intext"); k > 0 || len(base) == 0; k-- {
					base = append(base, rapid.SampledFrom(alphabet).Draw(t, "intc"))
				}
				op.N = join(base)
			}
			incs = append(incs, gInc{now, int64(life(op.L) / time.Microsecond)})
			nInt++
		case "rep":
			if nInt == 0 {
				op = Op{K: "adv", D: 1000}
				now += op.D
			} else {
				k := rapid.IntRange(0, nInt-1).Draw(t, "repidx")
				if rapid.Bool().Draw(t, "reparound") {
					// first move the clock to around that Interest's deadline
					delta := rapid.SampledFrom([]int64{-1000, -1, 0, 1, 1000}).Draw(t, "repdelta")
					if d := incs[k].at + incs[k].life + delta - now; d > 0 {
						c.Ops = append(c.Ops, Op{K: "adv", D: d})
						now += d
					}
				}
				op = Op{K: "rep", I: k}
			}
		}
		if op.N != "" {
			names = append(names, op.N)
		}
		c.Ops = append(c.Ops, op)
	}
	return c
}

// ---------------------------------------------------------------------------- units

const ruleC20 = "rapid histories of <=40 ops (express with CanBePrefix / lifetime / implicit digest, feed Data bare or in an LpPacket, feed Nack, advance the clock around lifetimes and the engine's time-out instants, attach/detach handlers, feed incoming Interests with or without PIT token, immediate / delayed / double replies) over names from {a,b}^1..5, against a real basic.Engine on a dummy face; after every op the callbacks invoked are compared with a reference pending set (required subset, allowed superset), at the end every Interest must have exactly one invocation. Non-trivial: >=3 Interests pending at once on names of which two are nested, and >=1 resolution by Data and >=1 by Nack or time-out"

func TestC20Engine(t *testing.T) {
	rec := evid.New("C20", "TestC20Engine", ruleC20+" [repository's dummy.Timer, synchronous]")
	evid.Check(t, rec, genCase, execDummy)
}

func TestC20EngineReplay(t *testing.T) { evid.Replay(t, "TestC20Engine", execDummy) }

func TestC20EngineRegress(t *testing.T) { evid.Regress(t, "C20", "TestC20Engine", execDummy) }

func TestC20EngineBubble(t *testing.T) {
	rec := evid.New("C20", "TestC20EngineBubble", ruleC20+" [real timer, virtual time in a testing/synctest bubble]")
	// same generator, another part of the random stream than TestC20Engine gets from the same seed
	gen := func(rt *rapid.T) Case {
		_ = rapid.Uint64().Draw(rt, "salt")
		return genCase(rt)
	}
	evid.Check(t, rec, gen, execBubble(t))
}

func TestC20EngineBubbleReplay(t *testing.T) {
	evid.Replay(t, "TestC20EngineBubble", execBubble(t))
}

func TestC20EngineBubbleRegress(t *testing.T) {
	evid.Regress(t, "C20", "TestC20EngineBubble", execBubble(t))
}
