#!/usr/bin/env python3
"""Sensitivity test of the C20 check: plant each mutant in the scratch worktree, run the quick
tier, revert. Usage: mutants.py <worktree> [name ...]. Never run against /repo.
Prints one table row per mutant: name | exit status | units that reported the violation."""
import json, os, re, subprocess, sys

VERIF = os.path.abspath(os.path.join(os.path.dirname(__file__), "..", ".."))
PROP = "C20"
ENGINE = "std/engine/basic/engine.go"
TRIE = "std/engine/basic/simple_trie.go"

# (name, file, old, new)
MUTANTS = [
    ("ignore-CanBePrefix", ENGINE,
     "if cur.Depth() < len(pkt.NameV) && !entry.canBePrefix {", "if false {"),
    ("timeout-not-cancelled-on-Data (equivalent: the entry is gone from the list)", ENGINE,
     "\t\t\t// entry satisfied\n\t\t\tentry.timeoutCancel()\n", "\t\t\t// entry satisfied\n"),
    ("satisfied-entry-kept-in-PIT", ENGINE,
     "\t\t\t// entry satisfied\n", "\t\t\tnewList = append(newList, entry)\n"),
    ("nack-resolves-prefix-match", ENGINE,
     "n := e.pit.ExactMatch(name)\n\tif n == nil {\n\t\te.log.WithField(\"name\", name.String()).Warn(\"Received Nack",
     "n := e.pit.PrefixMatch(name)\n\tif n == nil {\n\t\te.log.WithField(\"name\", name.String()).Warn(\"Received Nack"),
    ("reply-deadline-test-inverted", ENGINE,
     "if args.Deadline.Before(now) {", "if !args.Deadline.Before(now) {"),
    ("reply-deadline-not-checked", ENGINE,
     "if args.Deadline.Before(now) {", "if args.Deadline.Before(now) && false {"),
    ("DeleteIf-without-emptiness-predicate", TRIE,
     "if !pred(n.val) || len(n.chd) > 0 {", "if len(n.chd) > 0 {"),
    ("revert-fix-1 (DeleteIf prunes nodes with children)", TRIE,
     "if !pred(n.val) || len(n.chd) > 0 {", "if !pred(n.val) {"),
    ("revert-fix-2a (Nack deletes subtree)", ENGINE,
     "\t// Remove only the Interests of this name: Interests pending at longer or shorter names stay.\n\tn.SetValue(nil)\n\tn.DeleteIf(func(lst []*pendInt) bool {\n\t\treturn len(lst) == 0\n\t})\n",
     "\tn.Delete()\n"),
    ("revert-fix-2b (DetachHandler deletes subtree)", ENGINE,
     "\tn.SetValue(nil)\n\tn.DeleteIf(func(h fibEntry) bool {\n\t\treturn h == nil\n\t})\n", "\tn.Delete()\n"),
    ("revert-fix-3 (stale node unlinks newer node)", TRIE,
     "if cur, ok := n.par.chd[n.key]; !ok || cur != n {", "if false {"),
    ("nack-leaves-entries-in-node", ENGINE,
     "\t// Remove only the Interests of this name: Interests pending at longer or shorter names stay.\n\tn.SetValue(nil)\n", "\n"),
    ("timeout-scheduled-before-lifetime", ENGINE,
     "e.timer.Schedule(lifetime+TimeoutMargin, timeoutFunc)", "e.timer.Schedule(lifetime-TimeoutMargin, timeoutFunc)"),
    ("timeout-sweeps-unexpired-entries", ENGINE,
     "if entry.deadline.After(now) {\n\t\t\t\t\tnewLst", "if entry.deadline.After(now) && false {\n\t\t\t\t\tnewLst"),
    ("timeout-never-invokes-callback", ENGINE,
     "if entry.deadline.After(now) {\n\t\t\t\t\tnewLst", "if entry.deadline.After(now) || true {\n\t\t\t\t\tnewLst"),
    ("digest-not-checked", ENGINE,
     "if !bytes.Equal(entry.impSha256, digest) {", "if !bytes.Equal(entry.impSha256, digest) && false {"),
    ("digest-over-first-buffer-only/garbled", ENGINE,
     "digest := h.Sum(nil)", "digest := h.Sum([]byte{0})[:32]"),
    ("handler-no-walk-up-to-parents", ENGINE,
     "for n != nil && n.Value() == nil {\n\t\t\tn = n.Parent()\n\t\t}", "for false {\n\t\t\tn = n.Parent()\n\t\t}"),
    ("handler-shortest-prefix-instead-of-longest", ENGINE,
     "for n != nil && n.Value() == nil {\n\t\t\tn = n.Parent()\n\t\t}",
     "for n != nil && (n.Value() == nil || (n.Parent() != nil && n.Parent().Value() != nil)) {\n\t\t\tn = n.Parent()\n\t\t}"),
    ("reply-drops-pit-token", ENGINE,
     "if args.PitToken != nil {\n\t\t\tlpPkt", "if false {\n\t\t\tlpPkt"),
    ("onData-stops-at-longest-node", ENGINE,
     "for cur := n; cur != nil; cur = cur.Parent() {\n\t\tcurListSize", "for cur := n; cur != nil; cur = nil {\n\t\tcurListSize"),
    ("onData-resolves-only-first-entry-of-a-node", ENGINE,
     "\t\t\t// check CanBePrefix\n", "\t\t\tif entry != cur.Value()[0] {\n\t\t\t\tnewList = append(newList, entry)\n\t\t\t\tcontinue\n\t\t\t}\n"),
    ("nack-reason-lost", ENGINE,
     "Result:     ndn.InterestResultNack,\n\t\t\t\tNackReason: reason,", "Result:     ndn.InterestResultNack,\n\t\t\t\tNackReason: 0,"),
    ("second-attach-replaces-silently-but-reports-error", ENGINE,
     "if n.Value() != nil {\n\t\treturn ndn.ErrMultipleHandlers\n\t}", "if n.Value() != nil {\n\t\tn.SetValue(handler)\n\t\treturn ndn.ErrMultipleHandlers\n\t}"),
]


def main():
    wt = os.path.abspath(sys.argv[1])
    assert wt != "/repo"
    only = sys.argv[2:]
    env = dict(os.environ, VERIF_REPO=wt)
    rows = []
    for name, f, old, new in MUTANTS:
        if only and not any(o in name for o in only):
            continue
        p = os.path.join(wt, f)
        src = open(p).read()
        if src.count(old) != 1:
            rows.append((name, "NOT-PLANTED (pattern occurs %d times)" % src.count(old), ""))
            continue
        open(p, "w").write(src.replace(old, new))
        try:
            r = subprocess.run([os.path.join(VERIF, "check"), PROP, "--tier", "quick"], env=env, cwd=VERIF,
                               stdout=subprocess.PIPE, stderr=subprocess.STDOUT, text=True)
            units = set()
            for m in re.finditer(r"VIOLATION property=\S+ replay=(\S+)", r.stdout):
                try:
                    units.add(json.load(open(m.group(1)))["unit"])
                    os.remove(m.group(1))
                except Exception:
                    pass
            if "BUILD-FAILED" in r.stdout:
                verdict = "BUILD-FAILED"
            else:
                verdict = {0: "NOT caught", 1: "caught", 2: "inconclusive"}.get(r.returncode, str(r.returncode))
            rows.append((name, verdict, ", ".join(sorted(units))))
        finally:
            open(p, "w").write(src)
        print("| %s | %s | %s |" % rows[-1], flush=True)
    subprocess.run(["git", "-C", wt, "status", "--short"])


if __name__ == "__main__":
    main()
