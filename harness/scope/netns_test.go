package scope

import (
	"fmt"
	"net"
	"runtime"
	"sync"
	"syscall"
	"time"
	"unsafe"
)

// A private network namespace for the test process: a locked OS thread unshares its network
// namespace, brings `lo` up and gives it the additional address 203.0.113.1/24 (TEST-NET-3).
// On a loopback device the kernel makes the whole prefix of an address local, so inside that
// namespace connections can be made between 203.0.113.x addresses that are neither loopback
// addresses nor addresses of any interface: to the code under test they look exactly like
// connections from another host. Nothing outside the namespace changes; it disappears with
// the thread. Sockets must be created on that thread (sockets belong to the namespace of the
// creating thread), so requests are executed by a worker goroutine locked to it.

type nsWorker struct {
	req chan func()
	err error
}

var (
	nsOnce sync.Once
	ns     *nsWorker
)

type ifreqFlags struct {
	name  [16]byte
	flags uint16
	_     [22]byte
}

type ifreqAddr struct {
	name   [16]byte
	family uint16
	port   uint16
	addr   [4]byte
	_      [16]byte
}

func ioctl(fd int, req uintptr, arg unsafe.Pointer) error {
	if _, _, e := syscall.Syscall(syscall.SYS_IOCTL, uintptr(fd), req, uintptr(arg)); e != 0 {
		return e
	}
	return nil
}

func nsSetup() error {
	if err := syscall.Unshare(syscall.CLONE_NEWNET); err != nil {
		return fmt.Errorf("unshare(CLONE_NEWNET): %v", err)
	}
	fd, err := syscall.Socket(syscall.AF_INET, syscall.SOCK_DGRAM, 0)
	if err != nil {
		return err
	}
	defer syscall.Close(fd)
	var fl ifreqFlags
	copy(fl.name[:], "lo")
	if err := ioctl(fd, syscall.SIOCGIFFLAGS, unsafe.Pointer(&fl)); err != nil {
		return fmt.Errorf("SIOCGIFFLAGS: %v", err)
	}
	fl.flags |= syscall.IFF_UP | syscall.IFF_RUNNING
	if err := ioctl(fd, syscall.SIOCSIFFLAGS, unsafe.Pointer(&fl)); err != nil {
		return fmt.Errorf("SIOCSIFFLAGS: %v", err)
	}
	a := ifreqAddr{family: syscall.AF_INET, addr: [4]byte{203, 0, 113, 1}}
	copy(a.name[:], "lo:1")
	if err := ioctl(fd, syscall.SIOCSIFADDR, unsafe.Pointer(&a)); err != nil {
		return fmt.Errorf("SIOCSIFADDR: %v", err)
	}
	m := ifreqAddr{family: syscall.AF_INET, addr: [4]byte{255, 255, 255, 0}}
	copy(m.name[:], "lo:1")
	if err := ioctl(fd, syscall.SIOCSIFNETMASK, unsafe.Pointer(&m)); err != nil {
		return fmt.Errorf("SIOCSIFNETMASK: %v", err)
	}
	return nil
}

// inNamespace runs f on the namespace thread; it returns an error if the namespace could
// not be set up (no privilege): the caller then has nothing to judge.
func inNamespace(f func()) error {
	nsOnce.Do(func() {
		ns = &nsWorker{req: make(chan func())}
		ready := make(chan struct{})
		go func() {
			runtime.LockOSThread() // never unlocked: the thread, and with it the namespace, ends with the goroutine
			ns.err = nsSetup()
			close(ready)
			if ns.err != nil {
				return
			}
			for g := range ns.req {
				g()
			}
		}()
		<-ready
	})
	if ns.err != nil {
		return ns.err
	}
	done := make(chan struct{})
	ns.req <- func() { defer close(done); f() }
	<-done
	return nil
}

// acceptPair (to be called on the namespace thread, or anywhere for addresses of the host):
// a listener on `local`, a connection to it from a socket bound to `remote`; returns the
// accepted connection, whose RemoteAddr is `remote` and LocalAddr `local`.
func acceptPair(local, remote net.IP) (net.Conn, func(), error) {
	l, err := net.ListenTCP("tcp", &net.TCPAddr{IP: local})
	if err != nil {
		return nil, nil, err
	}
	d := net.Dialer{LocalAddr: &net.TCPAddr{IP: remote}, Timeout: 2 * time.Second}
	cl, err := d.Dial("tcp", l.Addr().String())
	if err != nil {
		l.Close()
		return nil, nil, err
	}
	l.SetDeadline(time.Now().Add(2 * time.Second))
	sv, err := l.Accept()
	if err != nil {
		cl.Close()
		l.Close()
		return nil, nil, err
	}
	return sv, func() { sv.Close(); cl.Close(); l.Close() }, nil
}

// ---- IPv6 link-local addresses on the namespace's loopback device (their textual form
// carries a zone, "fe80::7%lo", which a classifier has to strip before parsing) ----

type in6Ifreq struct {
	addr      [16]byte
	prefixlen uint32
	ifindex   int32
}

type ifreqIndex struct {
	name  [16]byte
	index int32
	_     [20]byte
}

func nsAddV6(last byte) error {
	fd, err := syscall.Socket(syscall.AF_INET6, syscall.SOCK_DGRAM, 0)
	if err != nil {
		return err
	}
	defer syscall.Close(fd)
	var ix ifreqIndex
	copy(ix.name[:], "lo")
	if err := ioctl(fd, syscall.SIOCGIFINDEX, unsafe.Pointer(&ix)); err != nil {
		return fmt.Errorf("SIOCGIFINDEX: %v", err)
	}
	r := in6Ifreq{prefixlen: 128, ifindex: ix.index}
	r.addr[0], r.addr[1], r.addr[15] = 0xfe, 0x80, last
	if err := ioctl(fd, syscall.SIOCSIFADDR, unsafe.Pointer(&r)); err != nil {
		return fmt.Errorf("SIOCSIFADDR(v6): %v", err)
	}
	return nil
}

var (
	v6Once sync.Once
	v6Err  error
)

// nsLinkLocal makes fe80::7 and fe80::9 available on the namespace's lo (once).
func nsLinkLocal() error {
	v6Once.Do(func() {
		if err := inNamespace(func() {
			if v6Err = nsAddV6(7); v6Err == nil {
				v6Err = nsAddV6(9)
			}
		}); err != nil {
			v6Err = err
		}
	})
	return v6Err
}
