package scope

import (
	"fmt"
	"net"
	"net/http"
	"time"

	"github.com/gorilla/websocket"
)

// wsAccept performs a real WebSocket handshake between a client socket bound to `remote`
// and a server listening on `local` -- both created on the namespace thread when ns is set --
// and returns the server side of the connection, which is what the forwarder's WebSocket
// listener hands to NewWebSocketTransport.
func wsAccept(local, remote *net.TCPAddr, ns bool) (*websocket.Conn, func(), error) {
	onThread := func(f func()) error {
		if ns {
			return inNamespace(f)
		}
		f()
		return nil
	}
	var l *net.TCPListener
	var err error
	if e := onThread(func() { l, err = net.ListenTCP("tcp", local) }); e != nil {
		return nil, nil, e
	}
	if err != nil {
		return nil, nil, err
	}
	got := make(chan *websocket.Conn, 1)
	up := websocket.Upgrader{CheckOrigin: func(*http.Request) bool { return true }}
	srv := &http.Server{Handler: http.HandlerFunc(func(w http.ResponseWriter, r *http.Request) {
		if c, err := up.Upgrade(w, r, nil); err == nil {
			got <- c
		}
	})}
	go srv.Serve(l)
	la := l.Addr().(*net.TCPAddr)
	host := la.IP.String()
	if la.Zone != "" {
		host += "%25" + la.Zone
	}
	if la.IP.To4() == nil {
		host = "[" + host + "]"
	}
	d := websocket.Dialer{HandshakeTimeout: 3 * time.Second, NetDial: func(network, _ string) (net.Conn, error) {
		var c net.Conn
		var derr error
		if e := onThread(func() {
			nd := net.Dialer{LocalAddr: &net.TCPAddr{IP: remote.IP, Zone: remote.Zone}, Timeout: 2 * time.Second}
			c, derr = nd.Dial("tcp", la.String())
		}); e != nil {
			return nil, e
		}
		return c, derr
	}}
	cl, _, err := d.Dial(fmt.Sprintf("ws://%s:%d/", host, la.Port), nil)
	if err != nil {
		srv.Close()
		return nil, nil, err
	}
	select {
	case sv := <-got:
		return sv, func() { sv.Close(); cl.Close(); srv.Close() }, nil
	case <-time.After(3 * time.Second):
		cl.Close()
		srv.Close()
		return nil, nil, fmt.Errorf("handshake did not complete")
	}
}
