// Package scope extends C09 to the place where "non-local face" is decided: the transports
// classify a face as local or non-local from its remote address (fw/face/unicast-udp-transport.go,
// unicast-tcp-transport.go, listed among the anchors of C09), and everything the forwarding
// pipeline enforces (harness/fwsim) rests on that classification. A face whose peer is on
// another host must never be classified local (or /localhost traffic crosses the machine
// boundary); a loopback peer must be classified local (or local applications stop working).
package scope

import (
	"fmt"
	"net"
	"net/url"
	"strings"
	"testing"
	"time"

	"github.com/named-data/ndnd/fw/core"
	"github.com/named-data/ndnd/fw/defn"
	"github.com/named-data/ndnd/fw/face"
	"github.com/named-data/ndnd/std/log"
	"pgregory.net/rapid"

	"verif/harness/internal/evid"
)

func init() { log.SetLevel(log.FatalLevel) }

type Case struct {
	Proto string `json:"proto"` // tcp | udp
	IP    string `json:"ip"`    // remote address, textual
	Local string `json:"local,omitempty"` // tcp-accept-ns: address the accepting socket listens on
	Port  int    `json:"port"`
}

// isLoopback is the harness's own rule, written from RFC 1122 / RFC 4291: 127.0.0.0/8, ::1,
// and the IPv4-mapped form of 127.0.0.0/8.
func isLoopback(ip net.IP) bool {
	if v4 := ip.To4(); v4 != nil {
		return v4[0] == 127
	}
	if len(ip) != 16 {
		return false
	}
	for i := 0; i < 15; i++ {
		if ip[i] != 0 {
			return false
		}
	}
	return ip[15] == 1
}

func genCase(t *rapid.T) Case {
	c := Case{Proto: rapid.SampledFrom([]string{"tcp", "udp", "tcp", "udp", "tcp-accept"}).Draw(t, "proto"), Port: rapid.IntRange(1024, 65535).Draw(t, "port")}
	if rapid.IntRange(0, 5).Draw(t, "ns") == 0 {
		// accepted connections between addresses of a private network namespace (see netns_test.go)
		c.Proto = "tcp-accept-ns"
		v := func(l string) string {
			if rapid.IntRange(0, 2).Draw(t, l+"loop") == 0 {
				return fmt.Sprintf("127.%d.%d.%d", rapid.IntRange(0, 255).Draw(t, l+"a"), rapid.IntRange(0, 255).Draw(t, l+"b"), rapid.IntRange(1, 254).Draw(t, l+"c"))
			}
			return fmt.Sprintf("203.0.113.%d", rapid.IntRange(2, 254).Draw(t, l+"d"))
		}
		c.IP, c.Local = v("remote"), v("local")
		return c
	}
	if rapid.IntRange(0, 6).Draw(t, "ws") == 0 {
		// a WebSocket client, as accepted by the forwarder's WebSocket listener: loopback,
		// 203.0.113.x, or an IPv6 link-local address (whose textual form carries a zone), all
		// inside the private network namespace
		c.Proto = "ws-accept-ns"
		pair := rapid.SampledFrom([][2]string{{"127.0.0.1", "127.0.0.1"}, {"127.3.2.1", "127.0.0.1"}, {"203.0.113.7", "203.0.113.9"},
			{"203.0.113.7", "127.0.0.1"}, {"127.0.0.1", "203.0.113.9"}, {"::1", "::1"}, {"fe80::7%lo", "fe80::9%lo"}, {"fe80::9%lo", "fe80::7%lo"},
			{"fe80::7%lo", "fe80::7%lo"}}).Draw(t, "wspair")
		c.IP, c.Local = pair[0], pair[1]
		return c
	}
	if c.Proto == "tcp-accept" {
		// a real connection accepted from a peer bound to this address (only addresses this host owns can be used)
		if rapid.Bool().Draw(t, "any127") {
			c.IP = fmt.Sprintf("127.%d.%d.%d", rapid.IntRange(0, 255).Draw(t, "a"), rapid.IntRange(0, 255).Draw(t, "b"), rapid.IntRange(1, 254).Draw(t, "c"))
		} else {
			c.IP = rapid.SampledFrom(ownAddrs()).Draw(t, "own")
		}
		return c
	}
	b := func(l string) int { return rapid.IntRange(0, 255).Draw(t, l) }
	switch rapid.IntRange(0, 11).Draw(t, "class") {
	case 0:
		c.IP = "127.0.0.1"
	case 1:
		c.IP = fmt.Sprintf("127.%d.%d.%d", b("a"), b("b"), rapid.IntRange(1, 254).Draw(t, "c"))
	case 2: // look-alikes of loopback
		c.IP = rapid.SampledFrom([]string{"128.0.0.1", "126.255.255.255", "12.7.0.1", "1.0.0.127", "0.0.0.127", "172.0.0.1", "127.0.0.1"}).Draw(t, "v4like")
	case 3: // private / link-local / this host's own non-loopback addresses: other hosts may own them
		c.IP = rapid.SampledFrom([]string{"10.0.0.1", "192.168.1.1", "172.16.0.9", "169.254.1.1", "192.0.2.1", "192.0.2.2", "100.64.0.1", "224.0.23.170"}).Draw(t, "private")
	case 4:
		c.IP = fmt.Sprintf("%d.%d.%d.%d", rapid.IntRange(1, 223).Draw(t, "a"), b("b"), b("c"), rapid.IntRange(1, 254).Draw(t, "d"))
	case 5:
		c.IP = "::1"
	case 6: // look-alikes of ::1
		c.IP = rapid.SampledFrom([]string{"::2", "::1:1", "1::1", "::1:0", "fe80::1", "ff02::1", "::ffff:0:1", "2001:db8::1", "::"}).Draw(t, "v6like")
	case 7: // IPv4-mapped
		c.IP = rapid.SampledFrom([]string{"::ffff:127.0.0.1", "::ffff:127.9.9.9", "::ffff:10.0.0.1", "::ffff:128.0.0.1", "::ffff:192.0.2.2"}).Draw(t, "mapped")
	case 8:
		c.IP = fmt.Sprintf("2001:db8:%x:%x::%x", rapid.IntRange(0, 65535).Draw(t, "h1"), rapid.IntRange(0, 65535).Draw(t, "h2"), rapid.IntRange(1, 65535).Draw(t, "h3"))
	case 9:
		c.IP = fmt.Sprintf("fd00:%x::%x", rapid.IntRange(0, 65535).Draw(t, "h1"), rapid.IntRange(1, 65535).Draw(t, "h3"))
	default:
		c.IP = fmt.Sprintf("%d.%d.%d.%d", b("a"), b("b"), b("c"), b("d"))
	}
	return c
}

// ownAddrs lists the addresses configured on this host (sorted by interface order, which is
// fixed for a given sandbox), plus the two loopback addresses.
func ownAddrs() []string {
	out := []string{"127.0.0.1", "::1"}
	as, _ := net.InterfaceAddrs()
	for _, a := range as {
		if n, ok := a.(*net.IPNet); ok && !n.IP.IsLinkLocalUnicast() && n.IP.String() != "127.0.0.1" && n.IP.String() != "::1" {
			out = append(out, n.IP.String())
		}
	}
	return out
}

// acceptFrom opens a listener on ip, connects to it from a socket bound to ip, and returns
// the accepted connection (whose remote address is ip) and a cleanup function.
func acceptFrom(ip net.IP) (net.Conn, func(), error) {
	l, err := net.ListenTCP("tcp", &net.TCPAddr{IP: ip})
	if err != nil {
		return nil, nil, err
	}
	d := net.Dialer{LocalAddr: &net.TCPAddr{IP: ip}, Timeout: 2 * time.Second}
	cl, err := d.Dial("tcp", l.Addr().String())
	if err != nil {
		l.Close()
		return nil, nil, err
	}
	l.SetDeadline(time.Now().Add(2 * time.Second))
	sv, err := l.Accept()
	if err != nil {
		cl.Close()
		l.Close()
		return nil, nil, err
	}
	return sv, func() { sv.Close(); cl.Close(); l.Close() }, nil
}

func setup() {
	cfg := core.DefaultConfig()
	cfg.Faces.Udp.PortUnicast = 0 // let the system choose local ports
	cfg.Faces.Tcp.PortUnicast = 0
	core.LoadConfig(cfg, "")
	face.Configure()
}

func exec(c Case) (res evid.Result) {
	defer func() {
		if r := recover(); r != nil {
			res.Err = fmt.Errorf("panic: %v", r)
		}
	}()
	setup()
	ipText, zone := c.IP, ""
	if i := strings.IndexByte(c.IP, '%'); i >= 0 {
		ipText, zone = c.IP[:i], c.IP[i+1:]
	}
	ip := net.ParseIP(ipText)
	if ip == nil {
		res.Classes = append(res.Classes, "harness-unparsable-address")
		return res
	}
	v := 4
	if ip.To4() == nil {
		v = 6
	}
	want := defn.NonLocal
	if isLoopback(ip) {
		want = defn.Local
	}
	var got defn.Scope
	var uri *defn.URI
	switch c.Proto {
	case "tcp":
		uri = defn.MakeTCPFaceURI(v, c.IP, uint16(c.Port))
		uri.Canonize()
		tr, err := face.MakeUnicastTCPTransport(uri, nil, face.PersistencyPersistent)
		if err != nil {
			res.Classes = append(res.Classes, "transport-refused-uri")
			return res
		}
		got = tr.Scope()
		if ls := face.MakeNDNLPLinkService(tr, face.MakeNDNLPLinkServiceOptions()); ls.Scope() != got {
			res.Err = fmt.Errorf("link service reports scope %v, its transport %v (remote %s)", ls.Scope(), got, uri)
			return res
		}
	case "ws-accept-ns":
		if zone != "" {
			if err := nsLinkLocal(); err != nil {
				res.Classes = append(res.Classes, "private-network-namespace-not-available")
				return res
			}
		}
		ltext, lzone := c.Local, ""
		if i := strings.IndexByte(c.Local, '%'); i >= 0 {
			ltext, lzone = c.Local[:i], c.Local[i+1:]
		}
		conn, done, err := wsAccept(&net.TCPAddr{IP: net.ParseIP(ltext), Zone: lzone}, &net.TCPAddr{IP: ip, Zone: zone}, true)
		if err != nil {
			res.Classes = append(res.Classes, "ws-accept-ns-not-available")
			res.Counts = map[string]int{"ws-accept-ns-not-available: " + err.Error(): 1}
			return res
		}
		defer done()
		tr := face.NewWebSocketTransport(defn.MakeWebSocketServerFaceURI(&url.URL{Scheme: "ws", Host: "127.0.0.1:9696"}), conn)
		got = tr.Scope()
		uri = tr.RemoteURI()
		if zone != "" {
			res.Classes = append(res.Classes, "peer-address-with-zone")
		}
	case "tcp-accept-ns":
		var conn net.Conn
		var done func()
		var err error
		if nserr := inNamespace(func() { conn, done, err = acceptPair(net.ParseIP(c.Local), ip) }); nserr != nil {
			res.Classes = append(res.Classes, "private-network-namespace-not-available")
			return res
		}
		if err != nil {
			res.Classes = append(res.Classes, "tcp-accept-ns-socket-not-available")
			return res
		}
		defer done()
		tr, err := face.AcceptUnicastTCPTransport(conn, nil, face.PersistencyOnDemand)
		if err != nil || tr == nil {
			res.Classes = append(res.Classes, "accept-refused-connection")
			return res
		}
		got = tr.Scope()
		uri = tr.RemoteURI()
		if isLoopback(net.ParseIP(c.Local)) != isLoopback(ip) {
			res.Classes = append(res.Classes, "local-and-remote-address-differ-in-kind")
		}
	case "tcp-accept":
		conn, done, err := acceptFrom(ip)
		if err != nil {
			res.Classes = append(res.Classes, "tcp-accept-socket-not-available")
			return res
		}
		defer done()
		tr, err := face.AcceptUnicastTCPTransport(conn, nil, face.PersistencyOnDemand)
		if err != nil || tr == nil {
			res.Classes = append(res.Classes, "accept-refused-connection")
			return res
		}
		got = tr.Scope()
		uri = tr.RemoteURI()
	case "udp":
		uri = defn.MakeUDPFaceURI(v, c.IP, uint16(c.Port))
		uri.Canonize()
		tr, err := face.MakeUnicastUDPTransport(uri, nil, face.PersistencyPersistent)
		if err != nil {
			// no route / address family not available in this sandbox: nothing to judge
			res.Classes = append(res.Classes, "udp-socket-not-available")
			return res
		}
		got = tr.Scope()
		tr.Close()
	}
	if ip.IsUnspecified() {
		// 0.0.0.0 / :: is no host's address: the kernel connects such a socket to this host
		// itself, so a transport that looks at the connected peer truthfully finds loopback
		// (legitimate variation C09-r2-4), one that looks at the URI finds "not loopback"
		res.Classes = append(res.Classes, c.Proto, "peer-address-unspecified-not-judged")
		return res
	}
	if want == defn.NonLocal && c.Proto != "tcp-accept-ns" && c.Proto != "ws-accept-ns" {
		for _, own := range ownAddrs() {
			if net.ParseIP(own).Equal(ip) {
				// an address of this very host that is not a loopback address: either classification keeps /localhost on the machine
				res.Classes = append(res.Classes, c.Proto, "peer-is-own-non-loopback-address-not-judged")
				return res
			}
		}
	}
	res.Classes = append(res.Classes, c.Proto, map[defn.Scope]string{defn.Local: "peer-is-loopback", defn.NonLocal: "peer-is-another-host"}[want])
	res.NonTrivial = true
	if got != want {
		res.Err = fmt.Errorf("%s face to remote %s is classified %v, but the peer %s: /localhost traffic %s", c.Proto, uri,
			map[defn.Scope]string{defn.Local: "LOCAL", defn.NonLocal: "NON-LOCAL", defn.Unknown: "UNKNOWN"}[got],
			map[bool]string{true: "is this host (loopback)", false: "is another host"}[want == defn.Local],
			map[bool]string{true: "of local applications would be refused", false: "would cross the machine boundary"}[want == defn.Local])
	}
	return res
}

const rule = "remote addresses (IPv4/IPv6: loopback 127/8 and ::1, IPv4-mapped forms, look-alikes such as 128.0.0.1, ::2, ::ffff:10.0.0.1, private/link-local/documentation/multicast/this host's own global address, random) x {tcp, udp}: the unicast transport constructed for that remote (no packet is sent; UDP sockets that the sandbox cannot open are skipped and counted), and tcp-accept: a real connection accepted from a peer bound to 127.a.b.c, ::1 or one of this host's other addresses, handed to AcceptUnicastTCPTransport; and tcp-accept-ns: the same between 127.a.b.c and 203.0.113.x addresses inside a private network namespace of the test process, where 203.0.113.x peers are neither loopback nor addresses of an interface, i.e. look like another host (local and remote address drawn independently); and ws-accept-ns: a real WebSocket handshake inside that namespace from loopback, 203.0.113.x and zoned IPv6 link-local (fe80::7%lo) clients, the server side handed to NewWebSocketTransport; must be classified local iff the remote address is a loopback address by the harness's own RFC rule, and the link service must report its transport's scope. Non-trivial: a transport was constructed; distinct by (proto, address, port)"

func TestC09TransportScope(t *testing.T) {
	rec := evid.New("C09", "TestC09TransportScope", rule)
	evid.Check(t, rec, genCase, exec)
}

func TestC09TransportScopeReplay(t *testing.T) { evid.Replay(t, "TestC09TransportScope", exec) }
