package robust

import (
	"fmt"
	"os"
	"runtime"
	"strings"
	"testing"

	enc "github.com/named-data/ndnd/std/encoding"
	"pgregory.net/rapid"

	"verif/harness/internal/evid"
	"verif/harness/internal/modelreg"
)

// ---------------------------------------------------------------------------- harness state

type env struct {
	st      *modelreg.State
	targets []target
	byName  map[string]*target
	factor  uint64
}

func loadEnv() (*env, error) {
	st, err := modelreg.Load()
	if err != nil {
		return nil, err
	}
	if len(st.Models) == 0 {
		return nil, fmt.Errorf("no generated model found under %s", modelreg.RepoDir())
	}
	e := &env{st: st, targets: buildTargets(st), byName: map[string]*target{}, factor: allocFactor(st)}
	for i := range e.targets {
		e.byName[e.targets[i].name] = &e.targets[i]
	}
	return e, nil
}

// mustEnv: a harness problem is never a violation -> exit without FAIL line (driver: inconclusive).
func mustEnv() *env {
	e, err := loadEnv()
	if err != nil {
		fmt.Printf("INCONCLUSIVE-HARNESS: %v\n", err)
		os.Exit(3)
	}
	if len(e.st.Missing) > 0 {
		// C13's registry unit reports this as inconclusive for C13; for C04 it means that some
		// Parse entries are not among the targets, which must not pass silently either
		fmt.Printf("INCONCLUSIVE-HARNESS: %d generated models are missing from the compiled registry (regenerate it: cd /verif/harness && go1.26.8 run ./internal/modelscan/cmd/mkregistry)\n", len(e.st.Missing))
		os.Exit(3)
	}
	return e
}

func prepare() {
	runtime.LockOSThread()
	// one P: ReadMemStats stops the world twice per call and that is only cheap when there is nothing to
	// stop; the watchdog goroutine still runs because a spinning goroutine is preempted asynchronously
	runtime.GOMAXPROCS(1)
	startWatchdog()
}

// ---------------------------------------------------------------------------- running one input against one target

type verdict struct {
	err      error
	accepted bool
}

// runTarget feeds input to t through the buffer reader and (unless the entry takes bytes only)
// through a wire reader cut at cuts, and applies the oracle.
func (e *env) runTarget(t *target, input []byte, cuts []int, res *evid.Result) error {
	bound := e.factor*uint64(len(input)) + allocSlack
	type rd struct {
		name string
		mk   func() enc.ParseReader
	}
	readers := []rd{{"BufferReader", func() enc.ParseReader { return enc.NewBufferReader(input) }}}
	if !t.bytesOnly {
		w := modelreg.Segment(input, modelreg.CutsFor(input, cuts))
		readers = append(readers, rd{fmt.Sprintf("WireReader(%d segments)", len(w)), func() enc.ParseReader { return enc.NewWireReader(w) }})
	}
	var accepted []bool
	var values []any
	defer func() {
		_ = values
	}()
	for _, r := range readers {
		desc := fmt.Sprintf("%s via %s on %d bytes %x", t.name, r.name, len(input), clip(input))
		curInput.Store(&desc)
		reader := r.mk()
		c := measured(func() (any, error) { return t.run(reader, input) })
		if c.panicked {
			return fmt.Errorf("%s panicked: %s", desc, c.panicMsg)
		}
		if c.alloc > bound {
			// confirm: the same input three more times, each must exceed the bound again
			confirmed := 0
			worst := c.alloc
			for i := 0; i < 3; i++ {
				reader := r.mk()
				c2 := measured(func() (any, error) { return t.run(reader, input) })
				if c2.panicked {
					return fmt.Errorf("%s panicked: %s", desc, c2.panicMsg)
				}
				if c2.alloc > bound {
					confirmed++
					if c2.alloc < worst {
						worst = c2.alloc
					}
				}
			}
			if confirmed == 3 {
				return fmt.Errorf("%s allocated %d bytes (at least %d in 4 runs); bound %d x len + %d = %d", desc, c.alloc, worst, e.factor, allocSlack, bound)
			}
			res.Counts = addCount(res.Counts, "alloc-excess-not-confirmed", 1)
		}
		if c.err != nil || c.val == nil {
			res.Counts = addCount(res.Counts, "calls:rejected", 1)
			accepted, values = append(accepted, false), append(values, nil)
			continue
		}
		res.Counts = addCount(res.Counts, "calls:accepted", 1)
		accepted, values = append(accepted, true), append(values, c.val)
		// (d) an accepted input must be structurally what it was taken for
		if !t.noConform() {
			if why := conforms(e.st, t.conform, input, 0, len(input), 0); why != "" {
				return fmt.Errorf("%s was ACCEPTED although a declared length is not honoured: %s", desc, why)
			}
		}
		// (c) what was returned can be encoded and decoded again without a panic
		if t.model != nil {
			re, _, err := e.st.EncodeValue(t.model, c.val, modelreg.EncOpts{})
			if err != nil {
				if strings.Contains(err.Error(), "panicked") {
					return fmt.Errorf("%s: re-encoding the returned value: %v", desc, err)
				}
				continue // harness-side limitation (signature slot bookkeeping), not a decoder fault
			}
			reader := enc.NewBufferReader(re.Bytes)
			c3 := measured(func() (any, error) { return t.run(reader, re.Bytes) })
			if c3.panicked {
				return fmt.Errorf("%s: decoding the re-encoded value panicked: %s", desc, c3.panicMsg)
			}
		}
	}
	// (e) the contiguous and the segmented reader are two views of the same bytes: they must
	// agree on whether the input decodes and, for the generated models, on what it decodes to
	if len(accepted) == 2 {
		if accepted[0] != accepted[1] {
			return fmt.Errorf("%s on %d bytes %x: BufferReader accepted=%v but WireReader (cuts %v) accepted=%v", t.name, len(input), clip(input), accepted[0], modelreg.CutsFor(input, cuts), accepted[1])
		}
		if accepted[0] && t.model != nil {
			if d := modelreg.Diff(values[0], values[1]); d != "" {
				return fmt.Errorf("%s on %d bytes %x: BufferReader and WireReader (cuts %v) decode different values: %s", t.name, len(input), clip(input), modelreg.CutsFor(input, cuts), d)
			}
		}
	}
	return nil
}

func (t *target) noConform() bool {
	// ReadComponent / ComponentFromBytes read ONE component and leave the rest of the input alone
	return t.name == "enc.ComponentFromBytes" || t.name == "enc.ReadComponent"
}

func addCount(m map[string]int, k string, n int) map[string]int {
	if m == nil {
		m = map[string]int{}
	}
	m[k] += n
	return m
}

func clip(b []byte) []byte {
	if len(b) > 64 {
		return b[:64]
	}
	return b
}

// inside: the outermost type and length decode and the declared length does not exceed the
// input, i.e. a decoder gets past the first header (non-triviality rule of C04).
func inside(b []byte) bool {
	e, ok := modelreg.ReadElem(b, 0)
	return ok && e.Len <= uint64(len(b)-e.Hdr())
}

// ---------------------------------------------------------------------------- unit 1: structure-aware mutations

// MutCase: a valid encoding (of a model value, or of a name) plus mutations.
type MutCase struct {
	Kind   string        `json:"kind"` // model | name | comps
	Model  string        `json:"m,omitempty"`
	V      modelreg.Node `json:"v"`
	Digest bool          `json:"dg,omitempty"`
	Ops    []Op          `json:"ops"`
	Cuts   []int         `json:"cuts,omitempty"`
	Cross  string        `json:"cross,omitempty"` // additionally feed the input to this other target
}

func genCuts(t *rapid.T) []int {
	n := rapid.IntRange(0, 3).Draw(t, "ncuts")
	out := make([]int, 0, n)
	for i := 0; i < n; i++ {
		if rapid.Bool().Draw(t, "hdrcut") {
			out = append(out, -1-rapid.IntRange(0, 63).Draw(t, "hcut"))
		} else {
			out = append(out, rapid.IntRange(0, 999).Draw(t, "pcut"))
		}
	}
	return out
}

const packetKey = "github.com/named-data/ndnd/std/ndn/spec_2022.Packet"

func genMut(e *env) func(*rapid.T) MutCase {
	keys := e.st.Keys()
	// the packet-level entry points get a fifth of the cases, names a tenth
	return func(t *rapid.T) MutCase {
		var c MutCase
		switch k := modelreg.Uniform(t, 10, "kind"); {
		case k == 0:
			c.Kind = []string{"name", "comps"}[modelreg.Uniform(t, 2, "namekind")]
			c.V = genNameNode(t)
		case k <= 2 && e.st.ByKey(packetKey) != nil:
			c.Kind, c.Model = "model", packetKey
			c.V = genPacket(t, e.st)
		default:
			c.Kind, c.Model = "model", keys[modelreg.Uniform(t, len(keys), "model")]
			c.V = modelreg.Gen(t, e.st, e.st.ByKey(c.Model), modelreg.GenOpts{Dense: rapid.Bool().Draw(t, "dense")})
		}
		c.Digest = rapid.Bool().Draw(t, "needDigest")
		c.Ops = genOps(t)
		c.Cuts = genCuts(t)
		if modelreg.Uniform(t, 4, "cross?") == 0 {
			c.Cross = e.targets[modelreg.Uniform(t, len(e.targets), "cross")].name
		}
		return c
	}
}

// genPacket draws a Packet with exactly one of Interest / Data / LpPacket set (what
// ReadPacket / ReadInterest / ReadData are meant for).
func genPacket(t *rapid.T, st *modelreg.State) modelreg.Node {
	m := st.ByKey(packetKey)
	n := modelreg.Gen(t, st, m, modelreg.GenOpts{Dense: true})
	keep := modelreg.Uniform(t, len(n.K), "member")
	for i := range n.K {
		if i != keep {
			n.K[i] = modelreg.Node{Z: true}
		}
	}
	return n
}

func genNameNode(t *rapid.T) modelreg.Node {
	n := rapid.IntRange(0, 5).Draw(t, "ncomp")
	out := modelreg.Node{K: make([]modelreg.Node, 0, n)}
	for i := 0; i < n; i++ {
		l := []int{0, 1, 2, 8, 32, 252}[modelreg.Uniform(t, 6, "clen")]
		b := rapid.SliceOfN(rapid.Byte(), 0, 4).Draw(t, "cval")
		if len(b) > l {
			b = b[:l]
		}
		out.K = append(out.K, modelreg.Node{U: []uint64{8, 8, 1, 2, 32, 54, 253, 65536}[modelreg.Uniform(t, 8, "ctyp")], B: b, N: l - len(b)})
	}
	return out
}

func nameBytes(n modelreg.Node, withHeader bool) []byte {
	var comps []byte
	for _, c := range n.K {
		val := make([]byte, len(c.B)+c.N)
		copy(val, c.B)
		comps = append(comps, modelreg.TLV(c.U, val)...)
	}
	if withHeader {
		return modelreg.TLV(7, comps)
	}
	return comps
}

var nameTargets = []string{"enc.NameFromBytes", "enc.ReadName", "enc.ComponentFromBytes", "enc.ReadComponent"}
var packetTargets = []string{"spec_2022.ReadPacket", "spec_2022.Spec.ReadInterest", "spec_2022.Spec.ReadData"}

func execMut(e *env) func(MutCase) evid.Result {
	return func(c MutCase) (res evid.Result) {
		var base []byte
		var names []string
		switch c.Kind {
		case "model":
			m := e.st.ByKey(c.Model)
			if m == nil {
				return evid.Result{Classes: []string{"skipped:model-not-in-this-tree"}}
			}
			v, err := modelreg.Build(m, c.V)
			if err != nil {
				return evid.Result{Classes: []string{"skipped:node-does-not-fit-model"}}
			}
			enc0, _, err := e.st.EncodeValue(m, v, modelreg.EncOpts{NeedDigest: c.Digest})
			if err != nil {
				// encoder trouble on valid values is C13's business; here it only means "no base"
				return evid.Result{Classes: []string{"skipped:base-value-does-not-encode"}}
			}
			base = enc0.Bytes
			names = []string{c.Model + "#ic=false", c.Model + "#ic=true"}
			if c.Model == packetKey {
				names = append(names, packetTargets...)
			}
		case "name":
			base, names = nameBytes(c.V, true), nameTargets
		case "comps":
			base, names = nameBytes(c.V, false), nameTargets
		default:
			return evid.Result{Classes: []string{"skipped:unknown-kind"}}
		}
		if c.Cross != "" {
			names = append(names, c.Cross)
		}
		input, applied := applyOps(base, c.Ops)
		for _, n := range names {
			t := e.byName[n]
			if t == nil {
				continue
			}
			if err := e.runTarget(t, input, c.Cuts, &res); err != nil {
				res.Err = err
				return res
			}
		}
		res.Classes = append(res.Classes, "kind:"+c.Kind)
		if c.Model == packetKey {
			res.Classes = append(res.Classes, "packet-level-entry-points")
		}
		seen := map[string]bool{}
		for _, op := range c.Ops {
			if !seen[op.K] {
				seen[op.K] = true
				res.Classes = append(res.Classes, "op:"+op.K)
			}
			if op.K == "len" && op.Val >= 1<<31 {
				res.Classes = append(res.Classes, "len>=2^31")
			}
			if (op.K == "len" || op.K == "lenrel") && op.W != 0 {
				res.Classes = append(res.Classes, "len-nonshortest-width")
			}
		}
		in := inside(input)
		if in {
			res.Classes = append(res.Classes, "decoder-gets-inside")
		}
		if c.Cross != "" {
			res.Classes = append(res.Classes, "cross-model-confusion")
		}
		res.NonTrivial = in && applied > 0
		return res
	}
}

const ruleMut = "valid encoding of a random value of a discovered model (or a Packet with one member, or a name) -> 1..3 structure-aware mutations (length field := boundary/huge value in every var-number width, +-delta, type set/swap, duplicate/swap/delete/insert/wrap/unwrap element, truncate, byte flip) -> fed to that model's Parse with both ignoreCritical values (+ ReadPacket/ReadInterest/ReadData, the name functions, and sometimes an unrelated model) through BufferReader and a segmented WireReader. Oracle: no panic; TotalAlloc delta <= F*len+64KiB (confirmed by 3 re-runs); returns (watchdog); accepted input honours every declared length (walker); returned value re-encodes/re-decodes without panic. Non-trivial: >= 1 mutation took effect and the outermost type/length still decode with the declared length inside the input"

func TestC04Mutate(t *testing.T) {
	e := mustEnv()
	prepare()
	rec := evid.New("C04", "TestC04Mutate", ruleMut)
	rec.Note(fmt.Sprintf("decoder targets: %d (= 2 x %d discovered models + 7 hand-written entry points); allocation factor F = %d bytes per input byte (max(64, largest model struct))", len(e.targets), len(e.st.Models), e.factor))
	evid.Check(t, rec, genMut(e), execMut(e))
}

func replayEnv(t *testing.T) *env {
	e, err := loadEnv()
	if err != nil {
		t.Skipf("harness: %v", err)
	}
	prepare()
	return e
}

func TestC04MutateReplay(t *testing.T) { evid.Replay(t, "TestC04Mutate", execMut(replayEnv(t))) }
func TestC04MutateRegress(t *testing.T) {
	e := mustEnv()
	prepare()
	evid.Regress(t, "C04", "TestC04Mutate", execMut(e))
}

// ---------------------------------------------------------------------------- unit 2: arbitrary bytes

// BytesCase: arbitrary bytes against one target.
type BytesCase struct {
	Target string `json:"t"`
	Data   []byte `json:"d"`
	Cuts   []int  `json:"cuts,omitempty"`
}

func genBytes(e *env) func(*rapid.T) BytesCase {
	return func(t *rapid.T) BytesCase {
		tg := &e.targets[modelreg.Uniform(t, len(e.targets), "target")]
		if modelreg.Uniform(t, 4, "handwritten?") == 0 {
			// the seven hand-written entry points get a quarter of the cases
			var hw []*target
			for i := range e.targets {
				if e.targets[i].model == nil {
					hw = append(hw, &e.targets[i])
				}
			}
			tg = hw[modelreg.Uniform(t, len(hw), "hw")]
		}
		c := BytesCase{Target: tg.name, Cuts: genCuts(t)}
		switch modelreg.Uniform(t, 3, "shape") {
		case 0: // plain random bytes
			c.Data = rapid.SliceOfN(rapid.Byte(), 0, 40).Draw(t, "bytes")
		default: // TLV soup: plausible types for the target, lengths honest or hostile
			var types []uint64
			if tg.conform != nil {
				types = tg.conform.Info.Types
			}
			types = append(append([]uint64{}, types...), 5, 6, 7, 8, 100, 80)
			n := 1 + modelreg.Uniform(t, 4, "elems")
			for i := 0; i < n; i++ {
				typ := types[modelreg.Uniform(t, len(types), "typ")]
				val := rapid.SliceOfN(rapid.Byte(), 0, 6).Draw(t, "val")
				if modelreg.Uniform(t, 3, "nest") == 0 {
					val = modelreg.TLV(types[modelreg.Uniform(t, len(types), "ityp")], val)
				}
				l := uint64(len(val))
				w := 0
				if modelreg.Uniform(t, 3, "lie") == 0 {
					l = HostileLengths[modelreg.Uniform(t, len(HostileLengths), "hostile")]
					w = widths[modelreg.Uniform(t, len(widths), "w")]
				}
				c.Data = modelreg.AppendVarNum(c.Data, typ)
				c.Data = modelreg.AppendVarNumWidth(c.Data, l, func() int {
					if w == 0 || w < modelreg.VarNumLen(l) {
						return modelreg.VarNumLen(l)
					}
					return w
				}())
				c.Data = append(c.Data, val...)
			}
		}
		return c
	}
}

func execBytes(e *env) func(BytesCase) evid.Result {
	return func(c BytesCase) (res evid.Result) {
		t := e.byName[c.Target]
		if t == nil {
			return evid.Result{Classes: []string{"skipped:target-not-in-this-tree"}}
		}
		if err := e.runTarget(t, c.Data, c.Cuts, &res); err != nil {
			res.Err = err
			return res
		}
		switch {
		case t.model != nil:
			res.Classes = append(res.Classes, "target:generated-model")
		default:
			res.Classes = append(res.Classes, "target:"+t.name)
		}
		in := inside(c.Data)
		if in {
			res.Classes = append(res.Classes, "decoder-gets-inside")
		}
		res.NonTrivial = in
		return res
	}
}

const ruleBytes = "arbitrary bytes (plain random, or a soup of 1..4 elements with types the target knows and honest or hostile lengths) against one of the decoder targets through BufferReader and a segmented WireReader; same oracle as TestC04Mutate. Non-trivial: the outermost type/length decode and the declared length lies inside the input"

func TestC04Bytes(t *testing.T) {
	e := mustEnv()
	prepare()
	rec := evid.New("C04", "TestC04Bytes", ruleBytes)
	evid.Check(t, rec, genBytes(e), execBytes(e))
}

func TestC04BytesReplay(t *testing.T) { evid.Replay(t, "TestC04Bytes", execBytes(replayEnv(t))) }
func TestC04BytesRegress(t *testing.T) {
	e := mustEnv()
	prepare()
	evid.Regress(t, "C04", "TestC04Bytes", execBytes(e))
}
