package robust

import (
	"runtime"
	"sync"
	"testing"

	"verif/harness/internal/evid"
)

// Native coverage-guided fuzzing of the decoders (thorough tier, run by hand: the driver has no
// fuzz kind yet, see NOTES.md). The oracle is the one of the rapid units (runTarget). Inputs
// that make it fail are saved by `go test -fuzz` under testdata/fuzz/<name>/ and are replayed
// by TestC04Corpus on every run afterwards.
//
//	cd /verif/harness && GOFLAGS=-mod=mod GOPROXY=off go1.26.8 test -tags verif ./robust \
//	    -run '^$' -fuzz '^FuzzC04Decoders$' -fuzztime 40s -parallel 14

var (
	fuzzEnvOnce sync.Once
	fuzzEnv     *env
	fuzzEnvErr  error
)

func envForFuzz(f *testing.F) *env {
	fuzzEnvOnce.Do(func() {
		fuzzEnv, fuzzEnvErr = loadEnv()
		if fuzzEnvErr == nil {
			runtime.GOMAXPROCS(1)
			startWatchdog()
		}
	})
	if fuzzEnvErr != nil {
		f.Skipf("harness: %v", fuzzEnvErr)
	}
	return fuzzEnv
}

func fuzzOne(t *testing.T, e *env, names []string, data []byte, cut uint16) {
	cuts := []int{int(cut) % 1000, -1 - int(cut>>8)}
	for _, n := range names {
		tg := e.byName[n]
		if tg == nil {
			continue
		}
		var res evid.Result
		if err := e.runTarget(tg, data, cuts, &res); err != nil {
			t.Fatalf("%v", err)
		}
	}
}

// FuzzC04Decoders: sel picks one of the decoder targets (every generated Parse entry with both
// ignoreCritical values and the hand-written entry points), cut the segmentation.
func FuzzC04Decoders(f *testing.F) {
	e := envForFuzz(f)
	idx := map[string]int{}
	for i := range e.targets {
		idx[e.targets[i].name] = i
	}
	for _, s := range seeds(e) {
		// every target gets its valid encoding; the hostile constants go to every 16th target
		// (the mutator spreads them: sel is part of the input)
		i := idx[s.target]
		if len(s.src) >= 5 && s.src[:5] == "valid" || i%16 == 0 {
			f.Add(s.data, uint16(i), uint16(len(s.data)/2))
		}
	}
	f.Fuzz(func(t *testing.T, data []byte, sel uint16, cut uint16) {
		fuzzOne(t, e, fuzzTargets(e, "FuzzC04Decoders", sel), data, cut)
	})
}

// FuzzC04ReadPacket: the packet-level entry points the forwarder and the client engine use.
func FuzzC04ReadPacket(f *testing.F) {
	e := envForFuzz(f)
	for _, s := range seeds(e) {
		if s.target == "spec_2022.ReadPacket" {
			f.Add(s.data, uint16(len(s.data)/3))
		}
	}
	f.Fuzz(func(t *testing.T, data []byte, cut uint16) {
		fuzzOne(t, e, packetTargets, data, cut)
	})
}

// FuzzC04Names: NameFromBytes / ReadName / ComponentFromBytes / ReadComponent.
func FuzzC04Names(f *testing.F) {
	e := envForFuzz(f)
	for _, s := range seeds(e) {
		if s.target == "enc.NameFromBytes" {
			f.Add(s.data, uint16(len(s.data)/3))
		}
	}
	f.Fuzz(func(t *testing.T, data []byte, cut uint16) {
		fuzzOne(t, e, nameTargets, data, cut)
	})
}
