package robust

import (
	"fmt"

	"pgregory.net/rapid"

	"verif/harness/internal/modelreg"
)

// Structure-aware mutation of a valid TLV encoding. The valid bytes are parsed by the
// independent walker into a tree (an element is taken for a container when its value tiles
// exactly into elements); mutations are plain-data operations on that tree or on the
// serialised bytes; the tree is serialised with honest lengths everywhere except where a
// mutation says otherwise, so "inner length > outer" and friends arise by construction.

// Op is one mutation.
type Op struct {
	// K: len | lenrel | typeset | typeswap | dup | swap | del | trunc | byte | insert | wrap
	K   string `json:"k"`
	I   int    `json:"i,omitempty"`   // element index (preorder, modulo the number of elements) / byte offset
	J   int    `json:"j,omitempty"`   // second element / flag
	Val uint64 `json:"val,omitempty"` // new length / type / byte value / signed delta (two's complement) for lenrel
	W   int    `json:"w,omitempty"`   // var-number width 1,3,5,9 (0: shortest form)
	Raw []byte `json:"raw,omitempty"` // bytes to insert
}

// HostileLengths are the length values every length field is replaced with (DESIGN C04); the
// relative ones (true-1, true+1) are the "lenrel" operation.
var HostileLengths = []uint64{0, 1, 252, 253, 254, 255, 0xffff, 0x10000, 1<<31 - 1, 1 << 31, 1<<32 - 1, 1 << 32,
	1 << 40, 1 << 47, 1<<63 - 16, 1<<63 - 1, 1 << 63, 1<<64 - 2, 1<<64 - 1}

var widths = []int{0, 1, 3, 5, 9}

type tnode struct {
	typ    uint64
	tw     int // type width override (0: shortest)
	kids   []*tnode
	raw    []byte // leaf value
	leaf   bool
	lenSet bool // length override
	length uint64
	lw     int // length width override (0: shortest for the value written)
}

func parseTree(b []byte, lo, hi, depth int) ([]*tnode, bool) {
	es, ok, _ := modelreg.Elements(b, lo, hi)
	if !ok {
		return nil, false
	}
	out := make([]*tnode, 0, len(es))
	for _, e := range es {
		n := &tnode{typ: e.Typ}
		if e.Len > 0 && depth < 5 {
			if kids, ok := parseTree(b, e.ValOff(), e.End(), depth+1); ok && len(kids) > 0 {
				n.kids = kids
				out = append(out, n)
				continue
			}
		}
		n.leaf = true
		n.raw = b[e.ValOff():e.End()]
		out = append(out, n)
	}
	return out, true
}

func (n *tnode) body() []byte {
	if n.leaf {
		return n.raw
	}
	var out []byte
	for _, k := range n.kids {
		out = k.appendTo(out)
	}
	return out
}

func (n *tnode) appendTo(dst []byte) []byte {
	body := n.body()
	tw := n.tw
	if tw == 0 {
		tw = modelreg.VarNumLen(n.typ)
	}
	dst = modelreg.AppendVarNumWidth(dst, n.typ, tw)
	l := uint64(len(body))
	if n.lenSet {
		l = n.length
	}
	lw := n.lw
	if lw == 0 {
		lw = modelreg.VarNumLen(l)
	}
	dst = modelreg.AppendVarNumWidth(dst, l, lw)
	return append(dst, body...)
}

type forest struct {
	roots []*tnode
}

// flat lists the nodes in preorder together with their parent slice and index in it.
type slot struct {
	n      *tnode
	parent *tnode // nil: root level
	idx    int
}

func (f *forest) flat() []slot {
	var out []slot
	var walk func(list []*tnode, parent *tnode)
	walk = func(list []*tnode, parent *tnode) {
		for i, n := range list {
			out = append(out, slot{n, parent, i})
			if !n.leaf {
				walk(n.kids, n)
			}
		}
	}
	walk(f.roots, nil)
	return out
}

func (f *forest) siblings(s slot) *[]*tnode {
	if s.parent == nil {
		return &f.roots
	}
	return &s.parent.kids
}

func (f *forest) bytes() []byte {
	var out []byte
	for _, r := range f.roots {
		out = r.appendTo(out)
	}
	return out
}

func cloneTree(n *tnode) *tnode {
	c := *n
	c.raw = append([]byte{}, n.raw...)
	c.kids = nil
	for _, k := range n.kids {
		c.kids = append(c.kids, cloneTree(k))
	}
	return &c
}

// applyOps mutates a copy of base and returns the bytes plus the number of operations that
// had an effect.
func applyOps(base []byte, ops []Op) (out []byte, applied int) {
	roots, ok := parseTree(base, 0, len(base), 0)
	f := &forest{}
	if ok {
		f.roots = roots
	}
	var byteOps []Op
	for _, op := range ops {
		switch op.K {
		case "trunc", "byte":
			byteOps = append(byteOps, op)
			continue
		}
		fl := f.flat()
		if len(fl) == 0 {
			if op.K == "insert" && len(op.Raw) > 0 {
				f.roots = append(f.roots, rawNode(op.Raw))
				applied++
			}
			continue
		}
		s := fl[mod(op.I, len(fl))]
		switch op.K {
		case "len":
			s.n.lenSet, s.n.length, s.n.lw = true, op.Val, fitWidth(op.W, op.Val)
			applied++
		case "lenrel":
			cur := uint64(len(s.n.body()))
			s.n.lenSet, s.n.length, s.n.lw = true, cur+op.Val, fitWidth(op.W, cur+op.Val) // Val is a two's complement delta
			applied++
		case "typeset":
			s.n.typ, s.n.tw = op.Val, fitWidth(op.W, op.Val)
			applied++
		case "typeswap":
			o := fl[mod(op.J, len(fl))]
			s.n.typ, o.n.typ = o.n.typ, s.n.typ
			if s.n != o.n {
				applied++
			}
		case "dup":
			sib := f.siblings(s)
			c := cloneTree(s.n)
			*sib = append((*sib)[:s.idx+1], append([]*tnode{c}, (*sib)[s.idx+1:]...)...)
			applied++
		case "swap":
			sib := f.siblings(s)
			if len(*sib) >= 2 {
				j := (s.idx + 1 + mod(op.J, len(*sib)-1)) % len(*sib)
				(*sib)[s.idx], (*sib)[j] = (*sib)[j], (*sib)[s.idx]
				applied++
			}
		case "del":
			sib := f.siblings(s)
			*sib = append((*sib)[:s.idx:s.idx], (*sib)[s.idx+1:]...)
			applied++
		case "insert":
			sib := f.siblings(s)
			*sib = append((*sib)[:s.idx+1], append([]*tnode{rawNode(op.Raw)}, (*sib)[s.idx+1:]...)...)
			applied++
		case "wrap":
			// the element becomes the only child of a new element of type Val
			sib := f.siblings(s)
			(*sib)[s.idx] = &tnode{typ: op.Val, kids: []*tnode{s.n}}
			applied++
		case "unwrap":
			// a container is replaced by its children (type confusion parent/child)
			if !s.n.leaf && len(s.n.kids) > 0 {
				sib := f.siblings(s)
				*sib = append((*sib)[:s.idx:s.idx], append(append([]*tnode{}, s.n.kids...), (*sib)[s.idx+1:]...)...)
				applied++
			}
		}
	}
	out = f.bytes()
	if !ok {
		out = append([]byte{}, base...)
	}
	for _, op := range byteOps {
		switch op.K {
		case "trunc":
			if len(out) > 0 {
				out = out[:mod(op.I, len(out))]
				applied++
			}
		case "byte":
			if len(out) > 0 {
				out[mod(op.I, len(out))] = byte(op.Val)
				applied++
			}
		}
	}
	return out, applied
}

// rawNode holds bytes that are emitted verbatim (no header of their own): modelled as a leaf
// whose header is part of the raw bytes, i.e. a pseudo element serialised without TL.
func rawNode(raw []byte) *tnode {
	// encode as type = first var-number of raw if it parses, else opaque: simplest faithful
	// representation is a leaf with an explicit header taken from the bytes when possible
	if e, ok := modelreg.ReadElem(raw, 0); ok {
		valEnd := len(raw)
		return &tnode{typ: e.Typ, tw: e.TLen, leaf: true, raw: raw[e.Hdr():valEnd], lenSet: true, length: e.Len, lw: e.LLen}
	}
	if len(raw) == 0 {
		return &tnode{typ: 0x80, leaf: true}
	}
	return &tnode{typ: uint64(raw[0]), tw: 1, leaf: true, raw: raw[1:], lenSet: true, length: uint64(len(raw)), lw: 1}
}

func mod(i, n int) int {
	if n <= 0 {
		return 0
	}
	i %= n
	if i < 0 {
		i += n
	}
	return i
}

// fitWidth widens a requested width until the value fits (a 1-byte var-number cannot hold 253+).
func fitWidth(w int, v uint64) int {
	if w == 0 {
		return 0
	}
	need := modelreg.VarNumLen(v)
	if w < need {
		return need
	}
	return w
}

// genOps draws 1..3 mutations.
func genOps(t *rapid.T) []Op {
	n := 1 + modelreg.Uniform(t, 3, "nops")
	ops := make([]Op, 0, n)
	kinds := []string{"len", "len", "len", "lenrel", "lenrel", "typeset", "typeswap", "dup", "swap", "del", "trunc", "trunc", "byte", "insert", "wrap", "unwrap"}
	for i := 0; i < n; i++ {
		op := Op{K: kinds[modelreg.Uniform(t, len(kinds), "op")]}
		op.I = rapid.IntRange(0, 255).Draw(t, "i")
		switch op.K {
		case "len":
			op.Val = HostileLengths[modelreg.Uniform(t, len(HostileLengths), "hostile")]
			op.W = widths[modelreg.Uniform(t, len(widths), "w")]
		case "lenrel":
			d := []int64{-1, 1, -2, 2, 3, 8, 127, -128}[modelreg.Uniform(t, 8, "delta")]
			op.Val = uint64(d)
			op.W = widths[modelreg.Uniform(t, len(widths), "w")]
		case "typeset":
			op.Val = []uint64{0, 1, 5, 6, 7, 8, 20, 21, 22, 23, 30, 36, 44, 46, 80, 100, 128, 129, 133, 135, 201, 253, 800, 65535, 65536, 1<<32 - 1, 1 << 32, 1<<64 - 1}[modelreg.Uniform(t, 28, "typ")]
			op.W = widths[modelreg.Uniform(t, len(widths), "w")]
		case "typeswap", "swap":
			op.J = rapid.IntRange(0, 255).Draw(t, "j")
		case "byte":
			op.Val = uint64(rapid.Byte().Draw(t, "b"))
		case "insert":
			op.Raw = hostileChunks[modelreg.Uniform(t, len(hostileChunks), "chunk")]
		case "wrap":
			op.Val = []uint64{5, 6, 7, 100, 80, 0x68, 0xC9, 0x1e, 0x14}[modelreg.Uniform(t, 9, "wtyp")]
		}
		ops = append(ops, op)
	}
	return ops
}

// hostileChunks are raw byte strings inserted between elements.
var hostileChunks = [][]byte{
	{0x80, 0x00},
	{0x07, 0xff, 0xff, 0xff, 0xff, 0xff, 0xff, 0xff, 0xff, 0xf0},                   // Name, length 2^64-16
	{0x07, 0xff, 0x7f, 0xff, 0xff, 0xff, 0xff, 0xff, 0xff, 0xf0},                   // Name, length 2^63-16
	{0x08, 0xff, 0xff, 0xff, 0xff, 0xff, 0xff, 0xff, 0xff, 0xff},                   // component, length 2^64-1
	{0x07, 0x0b, 0x08, 0xff, 0xff, 0xff, 0xff, 0xff, 0xff, 0xff, 0xff, 0xff, 0x41}, // Name with a component of length 2^64-1
	{0x15, 0xfe, 0x80, 0x00, 0x00, 0x00},                                           // Content, length 2^31
	{0x1a, 0xfe, 0x7f, 0xff, 0xff, 0xff},                                           // binary, length 2^31-1
	{0xfd}, {0xfe, 0x00}, {0xff, 0x00, 0x00, 0x00},                                 // truncated var-numbers
	{0x21, 0x7f}, {0x22, 0x00}, {0x0a, 0x09, 1, 2, 3, 4, 5, 6, 7, 8, 9}, // bool with a length, empty HopLimit, 9-byte nonce
	{0x50, 0xfd, 0xff, 0xff}, {0x64, 0xff, 0x7f, 0xff, 0xff, 0xff, 0xff, 0xff, 0xff, 0xff}, // fragment / LpPacket with huge lengths
	{0x00, 0x00}, {0x1f, 0x01, 0x00}, {0xfd, 0x00, 0x07, 0x00}, // type 0, unknown critical, non-shortest type
}

func describe(ops []Op) string {
	s := ""
	for _, o := range ops {
		s += fmt.Sprintf("%s(i=%d,j=%d,val=%#x,w=%d) ", o.K, o.I, o.J, o.Val, o.W)
	}
	return s
}
