// Package robust decides the decoder half of C04: no byte sequence makes a TLV decoder of
// the repository panic, allocate out of proportion to its input, or spin. (The receive path of
// the forwarder -- stream framing, link service, reassembly, dispatch -- is package rxpath.)
package robust

import (
	"fmt"
	"os"
	"reflect"
	"runtime"
	"sort"
	"sync"
	"sync/atomic"
	"time"

	enc "github.com/named-data/ndnd/std/encoding"
	"github.com/named-data/ndnd/std/ndn"
	spec "github.com/named-data/ndnd/std/ndn/spec_2022"

	"verif/harness/internal/modelreg"
)

// ---------------------------------------------------------------------------- targets

// target is one decoder entry point.
type target struct {
	name  string
	model *modelreg.Model // nil for the hand-written entries
	ic    bool
	// run decodes from r (already positioned at 0); raw is the same input as one buffer for
	// the entry points that only take bytes.
	run func(r enc.ParseReader, raw []byte) (any, error)
	// bytesOnly: the entry point takes []byte (no reader variants)
	bytesOnly bool
	// conform: model whose structure an accepted input must follow (oracle d); nil: top-level tiling only
	conform *modelreg.Model
}

func nilIfNilPtr(v any, err error) (any, error) {
	if v == nil {
		return nil, err
	}
	if rv := reflect.ValueOf(v); rv.Kind() == reflect.Pointer && rv.IsNil() {
		return nil, err
	}
	return v, err
}

func buildTargets(st *modelreg.State) []target {
	var ts []target
	for _, m := range st.Models {
		m := m
		for _, ic := range []bool{false, true} {
			ic := ic
			name := fmt.Sprintf("%s#ic=%v", m.Info.Key(), ic)
			run := func(r enc.ParseReader, _ []byte) (any, error) {
				v, _, err := m.ParseOnce(r, ic)
				return v, err
			}
			if m.PubParse != nil {
				// the exported Parse<Model> wrapper is the entry the repository's callers use
				run = func(r enc.ParseReader, _ []byte) (any, error) { return m.PubParse(r, ic) }
			}
			ts = append(ts, target{name: name, model: m, ic: ic, run: run, conform: m})
		}
	}
	pkt := st.ByKey("github.com/named-data/ndnd/std/ndn/spec_2022.Packet")
	ts = append(ts,
		target{name: "spec_2022.ReadPacket", conform: pkt, run: func(r enc.ParseReader, _ []byte) (any, error) {
			p, _, err := spec.ReadPacket(r)
			if err == nil && p != nil {
				if p.Data != nil {
					touchData(p.Data)
				}
				if p.Interest != nil {
					touchInterest(p.Interest)
				}
			}
			return nilIfNilPtr(p, err)
		}},
		target{name: "spec_2022.Spec.ReadInterest", conform: pkt, run: func(r enc.ParseReader, _ []byte) (any, error) {
			i, _, err := spec.Spec{}.ReadInterest(r)
			if err == nil && i != nil {
				touchInterest(i)
			}
			return nilIfNilPtr(i, err)
		}},
		target{name: "spec_2022.Spec.ReadData", conform: pkt, run: func(r enc.ParseReader, _ []byte) (any, error) {
			d, _, err := spec.Spec{}.ReadData(r)
			if err == nil && d != nil {
				touchData(d)
			}
			return nilIfNilPtr(d, err)
		}},
		target{name: "enc.NameFromBytes", bytesOnly: true, run: func(_ enc.ParseReader, raw []byte) (any, error) {
			n, err := enc.NameFromBytes(raw)
			if err != nil {
				return nil, err
			}
			return n, nil
		}},
		target{name: "enc.ComponentFromBytes", bytesOnly: true, run: func(_ enc.ParseReader, raw []byte) (any, error) {
			c, err := enc.ComponentFromBytes(raw)
			if err != nil {
				return nil, err
			}
			return c, nil
		}},
		target{name: "enc.ReadName", run: func(r enc.ParseReader, _ []byte) (any, error) {
			n, err := enc.ReadName(r)
			if err != nil {
				return nil, err
			}
			return n, nil
		}},
		target{name: "enc.ReadComponent", run: func(r enc.ParseReader, _ []byte) (any, error) {
			c, err := enc.ReadComponent(r)
			if err != nil {
				return nil, err
			}
			return c, nil
		}},
	)
	sort.Slice(ts, func(i, j int) bool { return ts[i].name < ts[j].name })
	return ts
}

// ---------------------------------------------------------------------------- measurement

var (
	ms1, ms2 runtime.MemStats

	callStart atomic.Int64 // unix nanoseconds of the decoder call in progress, 0 = none
	curInput  atomic.Pointer[string]
	wdOnce    sync.Once
)

// Watchdog limit: decoder calls take microseconds; 30 s is four to six orders of magnitude
// above the slowest legitimate call. When it expires the process exits WITHOUT a verdict: the
// in-flight case file stays behind, the driver re-runs exactly that case in a fresh process
// and reports a violation only if the re-run does not finish either.
var watchdogLimit = 30 * time.Second

func startWatchdog() {
	wdOnce.Do(func() {
		go func() {
			for {
				time.Sleep(250 * time.Millisecond)
				s := callStart.Load()
				if s != 0 && time.Since(time.Unix(0, s)) > watchdogLimit {
					what := ""
					if p := curInput.Load(); p != nil {
						what = *p
					}
					fmt.Printf("WATCHDOG: a decoder call has not returned after %v: %s\n", watchdogLimit, what)
					if os.Getenv("VERIF_REPLAY") != "" {
						fmt.Printf("REPLAY-FAIL: decoder call does not return\n")
					}
					os.Exit(1)
				}
			}
		}()
	})
}

// call is the outcome of one measured decoder call.
type call struct {
	val      any
	err      error
	panicked bool
	panicMsg string
	alloc    uint64
}

// measured runs f on the calling goroutine between two runtime.ReadMemStats calls.
// TotalAlloc is cumulative (independent of GC); the test goroutine is the only goroutine of
// the harness that allocates (the watchdog only sleeps), and the thread is locked by the caller.
func measured(f func() (any, error)) (c call) {
	callStart.Store(time.Now().UnixNano())
	runtime.ReadMemStats(&ms1)
	func() {
		defer func() {
			if r := recover(); r != nil {
				c.panicked = true
				c.panicMsg = fmt.Sprintf("%v [at %s]", r, modelreg.PanicSite())
			}
		}()
		c.val, c.err = f()
	}()
	runtime.ReadMemStats(&ms2)
	callStart.Store(0)
	c.alloc = ms2.TotalAlloc - ms1.TotalAlloc
	return c
}

// allocFactor: bytes a decoder may allocate per input byte. DESIGN says 64; the largest model
// struct is allocated per 2-byte element of a sequence, so the factor is raised to that size when
// a model is bigger (measured from the registry, not hard-coded).
func allocFactor(st *modelreg.State) uint64 {
	f := uint64(64)
	for _, m := range st.Models {
		if s := uint64(m.Type().Size()); s > f {
			f = s
		}
	}
	return f
}

const allocSlack = 64 << 10

// ---------------------------------------------------------------------------- oracle (d): declared lengths are honoured

// conforms checks that an input a decoder ACCEPTED is structurally what it was taken for: the
// elements tile the input exactly (every declared length lies inside its container), and the
// same holds inside every element that the (unordered) model parses as a nested model. A
// decoder that "succeeds" on an input where this fails has ignored a declared length, i.e. it
// has interpreted bytes of one element as another one (nested-length disagreement).
func conforms(st *modelreg.State, m *modelreg.Model, b []byte, lo, hi, depth int) string {
	es, ok, _ := modelreg.Elements(b, lo, hi)
	if !ok {
		return fmt.Sprintf("the elements at nesting depth %d (offsets %d..%d) do not tile their container: a declared length overruns it or a header is cut", depth, lo, hi)
	}
	if m == nil || m.Info.Ordered || depth >= 6 {
		return ""
	}
	subs := structFields(st, m)
	for _, e := range es {
		if sub := subs[e.Typ]; sub != nil {
			if why := conforms(st, sub, b, e.ValOff(), e.End(), depth+1); why != "" {
				return fmt.Sprintf("inside element type %d (%s): %s", e.Typ, sub.Name, why)
			}
		}
	}
	return ""
}

var (
	sfMu    sync.Mutex
	sfCache = map[*modelreg.Model]map[uint64]*modelreg.Model{}
)

// structFields: type number -> nested model, for struct and sequence-of-struct fields.
func structFields(st *modelreg.State, m *modelreg.Model) map[uint64]*modelreg.Model {
	sfMu.Lock()
	defer sfMu.Unlock()
	if c, ok := sfCache[m]; ok {
		return c
	}
	out := map[uint64]*modelreg.Model{}
	t := m.Type()
	for _, f := range m.Info.Fields {
		sf, ok := t.FieldByName(f.Name)
		if !ok || f.Type == 0 {
			continue
		}
		ft := sf.Type
		if ft.Kind() == reflect.Slice {
			ft = ft.Elem()
		}
		if ft.Kind() == reflect.Pointer && ft.Elem().Kind() == reflect.Struct {
			if sub := st.ByType(ft); sub != nil {
				out[f.Type] = sub
			}
		}
	}
	sfCache[m] = out
	return out
}

// The packet decoders hand out objects whose accessors decode some parts on demand (a Data's
// FinalBlockId is parsed when asked for). They are part of the decoder: every accessor of an
// accepted packet is called inside the guarded call (seeded C04-r7-2: FinalBlockID() trusted the
// length of the nested component).
func touchSig(s ndn.Signature) {
	if s == nil || reflect.ValueOf(s).IsNil() {
		return
	}
	_ = s.SigType()
	_ = s.KeyName()
	_ = s.SigNonce()
	_ = s.SigTime()
	_ = s.SigSeqNum()
	_, _ = s.Validity()
	_ = s.SigValue()
}

func touchData(d ndn.Data) {
	if d == nil || reflect.ValueOf(d).IsNil() {
		return
	}
	_ = d.Name()
	_ = d.ContentType()
	_ = d.Freshness()
	_ = d.FinalBlockID()
	_ = d.Content()
	touchSig(d.Signature())
}

func touchInterest(i ndn.Interest) {
	if i == nil || reflect.ValueOf(i).IsNil() {
		return
	}
	_ = i.Name()
	_ = i.CanBePrefix()
	_ = i.MustBeFresh()
	_ = i.ForwardingHint()
	_ = i.Nonce()
	_ = i.Lifetime()
	_ = i.HopLimit()
	_ = i.AppParam()
	touchSig(i.Signature())
}
