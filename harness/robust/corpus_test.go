package robust

import (
	"fmt"
	"os"
	"path/filepath"
	"sort"
	"strconv"
	"strings"
	"testing"

	"verif/harness/internal/evid"
	"verif/harness/internal/modelreg"
)

// CorpusCase is one deterministic case: raw bytes against a target, or a mutation of a valid
// encoding (same executors as the random units).
type CorpusCase struct {
	Bytes *BytesCase `json:"bytes,omitempty"`
	Mut   *MutCase   `json:"mut,omitempty"`
	Src   string     `json:"src,omitempty"` // where the case comes from
}

// seedInputs: the hostile constants plus, per model, the encoding of the all-fields-set value.
type seed struct {
	target string
	data   []byte
	src    string
}

func fullValue(e *env, m *modelreg.Model) (modelreg.Node, []byte, bool) {
	nodes := modelreg.Sweep(e.st, m, false)
	full := nodes[1]
	v, err := modelreg.Build(m, full)
	if err != nil {
		return full, nil, false
	}
	enc0, _, err := e.st.EncodeValue(m, v, modelreg.EncOpts{})
	if err != nil {
		return full, nil, false
	}
	return full, enc0.Bytes, true
}

func seeds(e *env) []seed {
	var out []seed
	for i := range e.targets {
		t := &e.targets[i]
		out = append(out, seed{t.name, []byte{}, "empty"})
		for j, h := range hostileChunks {
			out = append(out, seed{t.name, h, fmt.Sprintf("hostile-constant-%d", j)})
		}
		if t.model != nil {
			if _, b, ok := fullValue(e, t.model); ok {
				out = append(out, seed{t.name, b, "valid:all-fields-set"})
			}
		}
	}
	// valid packets for the packet-level entry points, valid names for the name functions
	if pkt := e.st.ByKey(packetKey); pkt != nil {
		full, _, _ := fullValue(e, pkt)
		for keep := range full.K {
			n := modelreg.Node{K: append([]modelreg.Node{}, full.K...)}
			for i := range n.K {
				if i != keep {
					n.K[i] = modelreg.Node{Z: true}
				}
			}
			if v, err := modelreg.Build(pkt, n); err == nil {
				if enc0, _, err := e.st.EncodeValue(pkt, v, modelreg.EncOpts{}); err == nil {
					for _, tn := range packetTargets {
						out = append(out, seed{tn, enc0.Bytes, fmt.Sprintf("valid:packet-member-%d", keep)})
					}
				}
			}
		}
	}
	name := modelreg.Node{K: []modelreg.Node{{U: 8, B: []byte("a")}, {U: 8, B: []byte("bc")}, {U: 54, B: []byte{1}}, {U: 8, N: 252}}}
	for _, tn := range nameTargets {
		out = append(out, seed{tn, nameBytes(name, true), "valid:name"}, seed{tn, nameBytes(name, false), "valid:components"})
	}
	return out
}

// crashers reads inputs saved by `go test -fuzz` (testdata/fuzz/<Fuzz…>/<hash>): version line,
// then one Go literal per fuzz argument; the first []byte argument is the input, the first
// integer (if any) selects the target.
func crashers(e *env) []seed {
	var out []seed
	files, _ := filepath.Glob(filepath.Join("testdata", "fuzz", "*", "*"))
	sort.Strings(files)
	for _, fn := range files {
		b, err := os.ReadFile(fn)
		if err != nil {
			continue
		}
		lines := strings.Split(strings.TrimSpace(string(b)), "\n")
		if len(lines) < 2 || !strings.HasPrefix(lines[0], "go test fuzz v1") {
			continue
		}
		var data []byte
		sel, haveSel := uint64(0), false
		for _, l := range lines[1:] {
			l = strings.TrimSpace(l)
			switch {
			case strings.HasPrefix(l, "[]byte(") && strings.HasSuffix(l, ")"):
				if s, err := strconv.Unquote(l[len("[]byte(") : len(l)-1]); err == nil && data == nil {
					data = []byte(s)
				}
			case strings.HasPrefix(l, "uint16(") && strings.HasSuffix(l, ")"):
				if v, err := strconv.ParseUint(l[len("uint16("):len(l)-1], 0, 16); err == nil && !haveSel {
					sel, haveSel = v, true
				}
			}
		}
		if data == nil {
			data = []byte{}
		}
		fz := filepath.Base(filepath.Dir(fn))
		for _, tn := range fuzzTargets(e, fz, uint16(sel)) {
			out = append(out, seed{tn, data, "saved-fuzz-input:" + fz + "/" + filepath.Base(fn)})
		}
	}
	return out
}

// fuzzTargets maps a fuzz function name and selector to target names (shared with fuzz_test.go).
func fuzzTargets(e *env, fuzzName string, sel uint16) []string {
	switch fuzzName {
	case "FuzzC04ReadPacket":
		return packetTargets
	case "FuzzC04Names":
		return nameTargets
	default:
		return []string{e.targets[int(sel)%len(e.targets)].name}
	}
}

func corpusCases(e *env) []CorpusCase {
	var out []CorpusCase
	for _, s := range append(seeds(e), crashers(e)...) {
		out = append(out, CorpusCase{Bytes: &BytesCase{Target: s.target, Data: s.data, Cuts: []int{-1, 500}}, Src: s.src})
	}
	// deterministic structure-aware sweep over the all-fields-set value of every model:
	// truncation at EVERY offset, EVERY length field := every hostile value (shortest and 9-byte
	// width; all widths in the thorough tier), +-1 on every length field
	ws := []int{0, 9}
	if evid.Thorough() {
		ws = widths
	}
	for _, m := range e.st.Models {
		full, b, ok := fullValue(e, m)
		if !ok {
			continue
		}
		k := m.Info.Key()
		for off := 0; off < len(b); off++ {
			out = append(out, CorpusCase{Mut: &MutCase{Kind: "model", Model: k, V: full, Ops: []Op{{K: "trunc", I: off}}, Cuts: []int{-1 - off%7}}, Src: "sweep:truncate"})
		}
		roots, ok := parseTree(b, 0, len(b), 0)
		if !ok {
			continue
		}
		n := len((&forest{roots: roots}).flat())
		for i := 0; i < n; i++ {
			for _, hv := range HostileLengths {
				for _, w := range ws {
					out = append(out, CorpusCase{Mut: &MutCase{Kind: "model", Model: k, V: full, Ops: []Op{{K: "len", I: i, Val: hv, W: w}}, Cuts: []int{-1 - i%5}}, Src: "sweep:length"})
				}
			}
			for _, d := range []int64{-1, 1} {
				out = append(out, CorpusCase{Mut: &MutCase{Kind: "model", Model: k, V: full, Ops: []Op{{K: "lenrel", I: i, Val: uint64(d)}}, Cuts: []int{500}}, Src: "sweep:length+-1"})
			}
			out = append(out, CorpusCase{Mut: &MutCase{Kind: "model", Model: k, V: full, Ops: []Op{{K: "dup", I: i}}, Cuts: []int{-3}}, Src: "sweep:repeat"},
				CorpusCase{Mut: &MutCase{Kind: "model", Model: k, V: full, Ops: []Op{{K: "swap", I: i}}, Cuts: []int{-4}}, Src: "sweep:reorder"},
				CorpusCase{Mut: &MutCase{Kind: "model", Model: k, V: full, Ops: []Op{{K: "unwrap", I: i}}, Cuts: []int{-5}}, Src: "sweep:type-confusion"})
		}
	}
	return out
}

func execCorpus(e *env) func(CorpusCase) evid.Result {
	eb, em := execBytes(e), execMut(e)
	return func(c CorpusCase) evid.Result {
		var r evid.Result
		switch {
		case c.Bytes != nil:
			r = eb(*c.Bytes)
		case c.Mut != nil:
			r = em(*c.Mut)
		default:
			return evid.Result{Err: fmt.Errorf("harness: empty corpus case")}
		}
		src := c.Src
		if i := strings.Index(src, "/"); i >= 0 {
			src = src[:i]
		}
		if strings.HasPrefix(src, "hostile-constant") {
			src = "hostile-constant"
		}
		r.Classes = append(r.Classes, "src:"+src)
		return r
	}
}

const ruleCorpus = "deterministic part of C04 (decoders), independent of the seed: (a) every target x {empty input, 19 hostile constants, the valid all-fields-set encoding, valid packets/names}; (b) every input saved by a native fuzzing campaign under robust/testdata/fuzz; (c) for the all-fields-set encoding of every model: truncation at every offset, every length field := every hostile value (shortest and 9-byte form; every width in the thorough tier) and +-1, every element repeated / swapped with its sibling / replaced by its children. Same oracle as the random units. Non-trivial: as there"

func TestC04Corpus(t *testing.T) {
	e := mustEnv()
	prepare()
	rec := evid.New("C04", "TestC04Corpus", ruleCorpus)
	cases := corpusCases(e)
	rec.Note(fmt.Sprintf("%d deterministic cases; %d decoder targets", len(cases), len(e.targets)))
	evid.Each(t, rec, cases, execCorpus(e))
}

func TestC04CorpusReplay(t *testing.T) { evid.Replay(t, "TestC04Corpus", execCorpus(replayEnv(t))) }
