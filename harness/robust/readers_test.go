package robust

import (
	"bytes"
	"fmt"
	"testing"

	enc "github.com/named-data/ndnd/std/encoding"
	"pgregory.net/rapid"

	"verif/harness/internal/evid"
	"verif/harness/internal/modelreg"
)

// The reader layer itself (std/encoding/readers.go) is an exported API that every decoder sits
// on; the generated parsers validate lengths before they call it, which would hide a missing
// check in the readers. This unit drives BufferReader and WireReader directly with hostile
// arguments: the same operation sequence on both readers over the same bytes.

// ROp is one reader call.
type ROp struct {
	M string `json:"m"` // byte | read | buf | wire | skip | delegate | range | unread
	A int64  `json:"a,omitempty"`
	B int64  `json:"b,omitempty"`
}

// ReaderCase: n bytes (0,1,2,…), a segmentation, and a call sequence.
type ReaderCase struct {
	N    int   `json:"n"`
	Cuts []int `json:"cuts,omitempty"` // absolute offsets; may repeat (=> empty segments)
	Ops  []ROp `json:"ops"`
}

var hostileInts = []int64{-1 << 63, -1<<63 + 16, -1 << 31, -2, -1, 0, 1, 2, 3, 7, 252, 253, 65536, 1<<31 - 1, 1 << 31, 1 << 40, 1<<62 + 1, 1<<63 - 17, 1<<63 - 2, 1<<63 - 1}

func genReaderCase(t *rapid.T) ReaderCase {
	c := ReaderCase{N: []int{0, 1, 2, 3, 8, 9, 40}[modelreg.Uniform(t, 7, "n")]}
	for i, n := 0, rapid.IntRange(0, 4).Draw(t, "ncuts"); i < n; i++ {
		c.Cuts = append(c.Cuts, rapid.IntRange(0, c.N).Draw(t, "cut"))
	}
	methods := []string{"byte", "read", "buf", "buf", "wire", "wire", "skip", "skip", "delegate", "delegate", "range", "unread"}
	for i, n := 0, 1+modelreg.Uniform(t, 6, "nops"); i < n; i++ {
		op := ROp{M: methods[modelreg.Uniform(t, len(methods), "m")]}
		arg := func(label string) int64 {
			if rapid.Bool().Draw(t, label+"small") {
				return int64(rapid.IntRange(0, c.N+1).Draw(t, label))
			}
			return hostileInts[modelreg.Uniform(t, len(hostileInts), label+"h")]
		}
		op.A = arg("a")
		if op.M == "range" {
			op.B = arg("b")
		}
		c.Ops = append(c.Ops, op)
	}
	return c
}

// segmentsWithEmpties cuts b at the offsets in order of appearance after sorting, keeping
// duplicates as empty segments.
func segmentsWithEmpties(b []byte, cuts []int) enc.Wire {
	cs := append([]int{}, cuts...)
	for i := range cs {
		for j := i + 1; j < len(cs); j++ {
			if cs[j] < cs[i] {
				cs[i], cs[j] = cs[j], cs[i]
			}
		}
	}
	w := enc.Wire{}
	prev := 0
	for _, c := range cs {
		if c < prev || c > len(b) {
			continue
		}
		w = append(w, b[prev:c])
		prev = c
	}
	return append(w, b[prev:])
}

type ropResult struct {
	ok   bool
	data []byte
	pos  int
	sub  enc.ParseReader
}

func applyROp(r enc.ParseReader, op ROp) (res ropResult) {
	a, b := int(op.A), int(op.B)
	switch op.M {
	case "byte":
		x, err := r.ReadByte()
		res.ok, res.data = err == nil, []byte{x}
	case "unread":
		res.ok = r.UnreadByte() == nil
	case "read":
		n := a
		if n < 0 || n > 64 {
			n = 64
		}
		buf := make([]byte, n)
		k, err := r.Read(buf)
		res.ok, res.data = err == nil, buf[:k]
		// Read may legitimately return fewer bytes on a wire (one segment at a time): only
		// the bytes are compared by the caller, through a prefix relation
	case "buf":
		x, err := r.ReadBuf(a)
		res.ok, res.data = err == nil, x
	case "wire":
		x, err := r.ReadWire(a)
		res.ok, res.data = err == nil, x.Join()
	case "skip":
		res.ok = r.Skip(a) == nil
	case "delegate":
		res.sub = r.Delegate(a)
		res.ok = res.sub != nil
		if res.ok {
			// the delegated reader must expose exactly the delegated bytes
			n := res.sub.Length() - res.sub.Pos()
			x, err := res.sub.ReadWire(n)
			if err != nil {
				res.data = []byte("delegated reader cannot read its own length: " + err.Error())
			} else {
				res.data = x.Join()
			}
		}
	case "range":
		x := r.Range(a, b)
		res.ok, res.data = x != nil, x.Join()
	}
	res.pos = r.Pos()
	return res
}

func execReaderCase(e *env) func(ReaderCase) evid.Result {
	return func(c ReaderCase) (res evid.Result) {
		data := make([]byte, c.N)
		for i := range data {
			data[i] = byte(i*37 + 11)
		}
		w := segmentsWithEmpties(data, c.Cuts)
		readers := []struct {
			name string
			r    enc.ParseReader
		}{{"BufferReader", enc.NewBufferReader(data)}, {fmt.Sprintf("WireReader%v", segLens(w)), enc.NewWireReader(w)}}
		bound := uint64(64*c.N) + allocSlack
		alive := true
		for i, op := range c.Ops {
			if !alive {
				break
			}
			var outs [2]ropResult
			for k, rd := range readers {
				desc := fmt.Sprintf("op %d %s(%d,%d) on %s over %d bytes", i, op.M, op.A, op.B, rd.name, c.N)
				curInput.Store(&desc)
				r := rd.r
				m := measured(func() (any, error) { outs[k] = applyROp(r, op); return nil, nil })
				if m.panicked {
					res.Err = fmt.Errorf("%s panicked: %s", desc, m.panicMsg)
					return res
				}
				if m.alloc > bound {
					res.Err = fmt.Errorf("%s allocated %d bytes (bound %d)", desc, m.alloc, bound)
					return res
				}
			}
			a, b := outs[0], outs[1]
			what := fmt.Sprintf("op %d %s(%d,%d) over %d bytes, segments %v", i, op.M, op.A, op.B, c.N, segLens(w))
			if op.M == "unread" {
				// UnreadByte at a segment start is position-dependent in a way the interface does not pin down
				if a.ok != b.ok || (a.ok && a.pos != b.pos) {
					alive = false
				}
				continue
			}
			if op.M == "skip" && op.A < 0 {
				// documented difference: BufferReader can skip backwards inside its buffer,
				// WireReader refuses ("backword skipping is not allowed"); only no-panic is required
				alive = false
				continue
			}
			if a.ok != b.ok {
				res.Err = fmt.Errorf("%s: BufferReader ok=%v, WireReader ok=%v", what, a.ok, b.ok)
				return res
			}
			if !a.ok {
				// a refused call must not have moved the reader past the end
				if a.pos > c.N || b.pos > c.N || a.pos < 0 || b.pos < 0 {
					res.Err = fmt.Errorf("%s: refused, but positions are now %d / %d of %d", what, a.pos, b.pos, c.N)
					return res
				}
				alive = false // state after a refused call is not specified: stop comparing
				res.Counts = addCount(res.Counts, "ops:refused", 1)
				continue
			}
			res.Counts = addCount(res.Counts, "ops:ok", 1)
			if op.M == "read" {
				// bytes.HasPrefix relation; then resynchronise by stopping
				if !bytes.HasPrefix(a.data, b.data) && !bytes.HasPrefix(b.data, a.data) {
					res.Err = fmt.Errorf("%s: readers return different bytes %x vs %x", what, a.data, b.data)
					return res
				}
				if a.pos != b.pos {
					alive = false
				}
				continue
			}
			if !bytes.Equal(a.data, b.data) {
				res.Err = fmt.Errorf("%s: BufferReader gives %x, WireReader gives %x", what, clip(a.data), clip(b.data))
				return res
			}
			if a.pos != b.pos {
				res.Err = fmt.Errorf("%s: positions differ afterwards: %d vs %d", what, a.pos, b.pos)
				return res
			}
			// results must be the bytes of the input at the right place
			switch op.M {
			case "buf", "wire", "delegate":
				start := a.pos - len(a.data)
				if start < 0 || !bytes.Equal(a.data, data[start:a.pos]) {
					res.Err = fmt.Errorf("%s: returned bytes %x are not input[%d:%d]", what, clip(a.data), start, a.pos)
					return res
				}
			case "range":
				if !bytes.Equal(a.data, data[op.A:op.B]) {
					res.Err = fmt.Errorf("%s: Range returned %x, input[%d:%d] is %x", what, clip(a.data), op.A, op.B, clip(data[op.A:op.B]))
					return res
				}
			}
		}
		hostile := false
		for _, op := range c.Ops {
			if op.A < 0 || op.A > int64(c.N) || op.B < 0 || op.B > int64(c.N) {
				hostile = true
			}
			res.Classes = append(res.Classes, "m:"+op.M)
		}
		if hostile {
			res.Classes = append(res.Classes, "hostile-argument")
		}
		if len(w) > 1 {
			res.Classes = append(res.Classes, "multi-segment")
		}
		for _, s := range w {
			if len(s) == 0 && len(w) > 1 {
				res.Classes = append(res.Classes, "empty-segment")
				break
			}
		}
		res.NonTrivial = hostile && len(w) > 1
		return res
	}
}

func segLens(w enc.Wire) []int {
	out := make([]int, len(w))
	for i := range w {
		out[i] = len(w[i])
	}
	return out
}

const ruleReaders = "the reader API itself: the same sequence of 1..6 calls (ReadByte, Read, ReadBuf, ReadWire, Skip, Delegate, Range, UnreadByte) with in-range and hostile arguments (negative, >= 2^31, near +-2^63) on a BufferReader and on a WireReader over the same 0..40 bytes cut into 1..5 segments (empty segments included). Oracle: no panic, allocation bounded, both readers agree on success/refusal, on the bytes returned (which must be the right slice of the input) and on the position; a refused call leaves the position inside the input. Non-trivial: a hostile argument on a multi-segment wire"

func TestC04Readers(t *testing.T) {
	e := mustEnv()
	prepare()
	rec := evid.New("C04", "TestC04Readers", ruleReaders)
	evid.Check(t, rec, genReaderCase, execReaderCase(e))
}

func TestC04ReadersReplay(t *testing.T) {
	evid.Replay(t, "TestC04Readers", execReaderCase(replayEnv(t)))
}

func TestC04ReadersRegress(t *testing.T) {
	e := mustEnv()
	prepare()
	evid.Regress(t, "C04", "TestC04Readers", execReaderCase(e))
}
