package pkt

import (
	"bytes"
	"fmt"
	"io"
	"testing"

	enc "github.com/named-data/ndnd/std/encoding"
	"pgregory.net/rapid"

	"verif/harness/internal/evid"
	tw "verif/harness/internal/tlvwalk"
)

// C03, reader mechanism: "decoding those bytes, whether presented contiguously or split into
// segments at arbitrary offsets, yields exactly the same". The generated decoders of every
// TLV model are written against the enc.ParseReader interface; this unit drives that
// interface the way they do -- ReadTLNum (ReadByte), then for the value one of ReadBuf,
// ReadWire, Skip+Range, byte-wise reads, io.ReadFull, or Delegate followed by a nested walk,
// and Range(start, Pos()) over whole elements -- over a random well-formed TLV forest, on a
// BufferReader and on a WireReader over a generated segmentation, and compares everything
// that is read with the tree the bytes were encoded from (ground truth, harness encoder).
// Only in-bounds requests are made (hostile lengths belong to C04).

type RNode struct {
	T    uint64  `json:"t"`
	V    *Blob   `json:"v,omitempty"`    // leaf value
	Kids []RNode `json:"kids,omitempty"` // container
	Cont bool    `json:"c,omitempty"`    // container (possibly without children)
	M    int     `json:"m,omitempty"`    // how the value is read (see readLeaf / walk)
}

type ReaderCase struct {
	Forest []RNode `json:"f"`
	Cuts   []Cut   `json:"cuts"`
}

var rTypes = []uint64{1, 7, 8, 21, 100, 252, 253, 254, 800, 65535, 65536}

func genRNode(t *rapid.T, depth int) RNode {
	n := RNode{T: rapid.SampledFrom(rTypes).Draw(t, "typ"), M: rapid.IntRange(0, 5).Draw(t, "mode")}
	if depth < 3 && rapid.IntRange(0, 2).Draw(t, "isCont") == 0 {
		n.Cont = true
		k := rapid.IntRange(0, 4).Draw(t, "nkids")
		for i := 0; i < k; i++ {
			n.Kids = append(n.Kids, genRNode(t, depth+1))
		}
		return n
	}
	var l int
	switch rapid.IntRange(0, 9).Draw(t, "lk") {
	case 0, 1, 2:
		l = 0
	case 3, 4, 5:
		l = rapid.IntRange(1, 6).Draw(t, "sl")
	case 6, 7:
		l = rapid.SampledFrom([]int{31, 252, 253, 254, 300}).Draw(t, "bl")
	case 8:
		l = rapid.IntRange(0, 700).Draw(t, "ml")
	default:
		l = rapid.SampledFrom([]int{1, 2, 65535, 65536}).Draw(t, "hl")
	}
	b := Blob{N: l, S: rapid.Byte().Draw(t, "seed")}
	n.V = &b
	return n
}

func genReaderCase(t *rapid.T) ReaderCase {
	k := rapid.IntRange(1, 4).Draw(t, "nroots")
	c := ReaderCase{Cuts: genCuts(t, 6)}
	for i := 0; i < k; i++ {
		c.Forest = append(c.Forest, genRNode(t, 0))
	}
	return c
}

func (n RNode) encode() []byte {
	if !n.Cont {
		return tw.EncodeTLV(n.T, n.V.bytes())
	}
	var parts [][]byte
	for _, k := range n.Kids {
		parts = append(parts, k.encode())
	}
	return tw.EncodeTLV(n.T, parts...)
}

type readerWalk struct {
	name        string
	delegations int
	crossings   int
}

// walk reads the elements ns from r, which must hold exactly them from its current
// position to its end when whole is true.
func (w *readerWalk) walk(r enc.ParseReader, ns []RNode, whole bool) error {
	for i, n := range ns {
		want := n.encode()
		start := r.Pos()
		if start >= r.Length() {
			return fmt.Errorf("%s: Pos()=%d >= Length()=%d before element %d of %d", w.name, start, r.Length(), i, len(ns))
		}
		typ, err := enc.ReadTLNum(r)
		if err != nil || uint64(typ) != n.T {
			return fmt.Errorf("%s: ReadTLNum(type) = %d, %v; want %d", w.name, uint64(typ), err, n.T)
		}
		if n.M == 5 {
			// decoders of optional fields peek: un-read the last byte of the number and read it again
			if err := r.UnreadByte(); err != nil {
				return fmt.Errorf("%s: UnreadByte after reading a type: %v", w.name, err)
			}
			hdr := tw.AppendVarNum(nil, n.T)
			b, err := r.ReadByte()
			if err != nil || b != hdr[len(hdr)-1] {
				return fmt.Errorf("%s: ReadByte after UnreadByte = %#x, %v; want %#x", w.name, b, err, hdr[len(hdr)-1])
			}
		}
		l, err := enc.ReadTLNum(r)
		tl, _ := tw.ParseOne(want)
		vlen := int(tl.Len)
		if err != nil || int(l) != vlen {
			return fmt.Errorf("%s: ReadTLNum(length) = %d, %v; want %d", w.name, uint64(l), err, vlen)
		}
		valStart := r.Pos()
		if valStart-start != tl.HdrSize() {
			return fmt.Errorf("%s: Pos() advanced by %d over a %d-byte header", w.name, valStart-start, tl.HdrSize())
		}
		wantVal := want[tl.ValOff:]
		if n.Cont {
			if n.M%2 == 0 {
				sub := r.Delegate(vlen)
				w.delegations++
				if rem := sub.Length() - sub.Pos(); rem != vlen {
					return fmt.Errorf("%s: Delegate(%d) returns a reader with %d bytes left", w.name, vlen, rem)
				}
				if err := w.walk(sub, n.Kids, true); err != nil {
					return fmt.Errorf("inside Delegate(%d) of element %#x: %w", vlen, n.T, err)
				}
			} else {
				if err := w.walk(r, n.Kids, false); err != nil {
					return err
				}
			}
		} else {
			got, err := w.readLeaf(r, n.M, vlen, valStart)
			if err != nil {
				return fmt.Errorf("%s: element %#x with %d-byte value (mode %d): %v", w.name, n.T, vlen, n.M, err)
			}
			if !bytes.Equal(got, wantVal) {
				return fmt.Errorf("%s: element %#x (mode %d) value read as %s, want %s", w.name, n.T, n.M, shortB(got), shortB(wantVal))
			}
		}
		if end := r.Pos(); end-start != len(want) {
			return fmt.Errorf("%s: after element %#x Pos() advanced by %d, the element has %d bytes", w.name, n.T, end-start, len(want))
		}
		if got := r.Range(start, r.Pos()).Join(); !bytes.Equal(got, want) {
			return fmt.Errorf("%s: Range(%d,%d) over element %#x = %s, want %s", w.name, start, r.Pos(), n.T, shortB(got), shortB(want))
		}
		if got := r.Range(start, valStart).Join(); !bytes.Equal(got, want[:tl.ValOff]) {
			return fmt.Errorf("%s: Range over the header of element %#x = %x, want %x", w.name, n.T, got, want[:tl.ValOff])
		}
	}
	if whole {
		if r.Pos() != r.Length() {
			return fmt.Errorf("%s: %d bytes left after the last element", w.name, r.Length()-r.Pos())
		}
		if _, err := r.ReadByte(); err != io.EOF {
			return fmt.Errorf("%s: ReadByte at the end returns %v, want io.EOF", w.name, err)
		}
	}
	return nil
}

func (w *readerWalk) readLeaf(r enc.ParseReader, mode, l, valStart int) ([]byte, error) {
	switch mode {
	case 0:
		b, err := r.ReadBuf(l)
		if err != nil {
			return nil, fmt.Errorf("ReadBuf(%d): %v", l, err)
		}
		if len(b) != l {
			return nil, fmt.Errorf("ReadBuf(%d) returned %d bytes", l, len(b))
		}
		return b, nil
	case 1:
		wr, err := r.ReadWire(l)
		if err != nil {
			return nil, fmt.Errorf("ReadWire(%d): %v", l, err)
		}
		if len(wr) > 1 {
			w.crossings++
		}
		return wr.Join(), nil
	case 2:
		if err := r.Skip(l); err != nil {
			return nil, fmt.Errorf("Skip(%d): %v", l, err)
		}
		return r.Range(valStart, r.Pos()).Join(), nil
	case 3:
		out := make([]byte, 0, l)
		for i := 0; i < l; i++ {
			b, err := r.ReadByte()
			if err != nil {
				return nil, fmt.Errorf("ReadByte %d of %d: %v", i, l, err)
			}
			out = append(out, b)
		}
		return out, nil
	case 4:
		// io.ReadFull, with a guard: a Read that keeps returning (0, nil) would spin forever
		out := make([]byte, l)
		for n, idle := 0, 0; n < l; {
			k, err := r.Read(out[n:])
			if err != nil {
				return nil, fmt.Errorf("Read after %d of %d bytes: %v", n, l, err)
			}
			if k == 0 {
				if idle++; idle >= 3 {
					return nil, fmt.Errorf("Read returns (0, nil) repeatedly after %d of %d bytes: io.ReadFull would never return", n, l)
				}
			} else {
				idle = 0
			}
			n += k
		}
		return out, nil
	default:
		sub := r.Delegate(l)
		w.delegations++
		if rem := sub.Length() - sub.Pos(); rem != l {
			return nil, fmt.Errorf("Delegate(%d) returns a reader with %d bytes left", l, rem)
		}
		b, err := sub.ReadBuf(l)
		if err != nil {
			return nil, fmt.Errorf("Delegate(%d).ReadBuf: %v", l, err)
		}
		return b, nil
	}
}

func execC03Reader(c ReaderCase) (res evid.Result) {
	var buf []byte
	for _, n := range c.Forest {
		buf = append(buf, n.encode()...)
	}
	roots, err := tw.Forest(buf, nil)
	if err != nil {
		return evid.Result{Err: fmt.Errorf("harness: own encoding does not parse: %v", err)}
	}
	// cut positions: header interiors of every element, nested ones included
	var all []*tw.Node
	var collect func(ns []RNode, base int)
	collect = func(ns []RNode, base int) {
		off := base
		for _, n := range ns {
			e := n.encode()
			t, _ := tw.Parse(buf, off)
			all = append(all, &tw.Node{TLV: t})
			if n.Cont {
				collect(n.Kids, t.ValOff)
			}
			off += len(e)
		}
	}
	collect(c.Forest, 0)
	_ = roots
	offs, inHeader := resolveCuts(c.Cuts, len(buf), all)
	run := func(name string, mk func() enc.ParseReader) (w *readerWalk, err error) {
		w = &readerWalk{name: name}
		defer func() {
			if r := recover(); r != nil {
				err = fmt.Errorf("%s panics on an in-bounds request: %v", name, r)
			}
		}()
		return w, w.walk(mk(), c.Forest, true)
	}
	if _, err := run("BufferReader", func() enc.ParseReader { return enc.NewBufferReader(append([]byte(nil), buf...)) }); err != nil {
		return evid.Result{Err: fmt.Errorf("%v (bytes %s)", err, shortB(buf))}
	}
	w, err := run(fmt.Sprintf("WireReader(cuts %v of %d)", offs, len(buf)), func() enc.ParseReader { return enc.NewWireReader(segment(buf, offs)) })
	if err != nil {
		return evid.Result{Err: fmt.Errorf("%v (bytes %s)", err, shortB(buf))}
	}
	res.NonTrivial = len(offs) >= 1 && (inHeader > 0 || w.delegations > 0)
	if inHeader > 0 {
		res.Classes = append(res.Classes, "cut-inside-a-TLV-header")
	}
	if w.delegations > 0 && len(offs) > 0 {
		res.Classes = append(res.Classes, "delegate-on-segmented-input")
	}
	if w.crossings > 0 {
		res.Classes = append(res.Classes, "ReadWire-crossed-a-segment-boundary")
	}
	if len(offs) >= 3 {
		res.Classes = append(res.Classes, ">=4-segments")
	}
	if len(offs) == 0 {
		res.Classes = append(res.Classes, "unsegmented")
	}
	return res
}

const ruleC03Reader = "random well-formed TLV forests (depth <= 4, types and lengths at the var-number boundaries) read through the ParseReader interface the way generated decoders do (ReadTLNum, then ReadBuf / ReadWire / Skip+Range / ReadByte / io.ReadFull / Delegate + nested walk, Range over whole elements, Pos/Length), on BufferReader and on WireReader over a generated segmentation; every value read is compared with the tree the bytes were encoded from. Non-trivial: segmented input with a cut inside a TLV header or with a Delegate"

func TestC03Reader(t *testing.T) {
	rec := evid.New("C03", "TestC03Reader", ruleC03Reader)
	evid.Check(t, rec, genReaderCase, execC03Reader)
}

func TestC03ReaderReplay(t *testing.T) { evid.Replay(t, "TestC03Reader", execC03Reader) }

func TestC03ReaderRegress(t *testing.T) { evid.Regress(t, "C03", "TestC03Reader", execC03Reader) }
