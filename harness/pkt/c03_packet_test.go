package pkt

import (
	"bytes"
	"crypto/sha256"
	"fmt"
	"testing"

	enc "github.com/named-data/ndnd/std/encoding"
	"pgregory.net/rapid"

	"verif/harness/internal/evid"
	tw "verif/harness/internal/tlvwalk"
)

// C03, packet part. One case = one Interest or Data (Pkt) plus a symbolic segmentation.
//
//	(a) the bytes MakeInterest/MakeData return are a well-formed TLV for the independent
//	    walker (shortest forms, exact nested lengths, nothing trailing, elements in the
//	    order of the packet format) and the reference decoder reads from them exactly what
//	    went in;
//	(b) ReadInterest/ReadData and ReadPacket, on a BufferReader over the joined bytes, on a
//	    WireReader over the generated segmentation, and on a WireReader over the encoder's
//	    own multi-buffer wire, all return what went in;
//	(c) Name.Bytes()/Component.Bytes() equal the bytes of the Name/component the walker
//	    finds in the packet, and NameFromBytes/ComponentFromBytes return them.

type C03Case struct {
	P    Pkt   `json:"p"`
	Cuts []Cut `json:"cuts"`
}

func genC03Case(t *rapid.T) C03Case {
	// lengths around 65536 make a case ~50x more expensive: keep them a small share
	huge := rapid.IntRange(0, 7).Draw(t, "allowHuge") == 0
	return C03Case{P: genPkt(t, huge), Cuts: genCuts(t, 5)}
}

// finalName computes the name the packet must carry: the base name plus, with parameters,
// the digest component the harness computes itself over ApplicationParameters .. end.
func finalName(p Pkt, rp *refPacket, buf []byte) (Name, error) {
	n := append(Name(nil), p.baseName()...)
	if p.Kind == "I" && p.Params != nil {
		if rp.paramsN == nil {
			return nil, fmt.Errorf("Interest built with parameters has no ApplicationParameters element")
		}
		d := sha256.Sum256(buf[rp.paramsN.Off:rp.root.End])
		n = append(n, Comp{T: tw.TParamsDigest, V: Blob{X: fmt.Sprintf("%x", d[:])}})
	}
	return n, nil
}

type readerKind struct {
	name string
	mk   func() enc.ParseReader
}

func cloneWire(w enc.Wire) enc.Wire {
	out := make(enc.Wire, len(w))
	for i, b := range w {
		out[i] = append([]byte(nil), b...)
	}
	return out
}

func execC03Packet(c C03Case) (res evid.Result) {
	defer func() {
		if r := recover(); r != nil {
			res.Err = fmt.Errorf("panic: %v", r)
		}
	}()
	p := c.P
	b, err := p.make()
	if err != nil {
		return evid.Result{Err: err}
	}
	res.Classes = p.classes()
	reason := p.expectedRefusal()
	if b.refused != nil {
		if reason == "" {
			return evid.Result{Err: fmt.Errorf("the packet API fails on a valid input: %v", b.refused), Classes: res.Classes}
		}
		res.Classes = append(res.Classes, "refused-by-api: "+reason)
		return res
	}
	if reason != "" {
		res.Classes = append(res.Classes, "built-although-refusal-expected: "+reason)
	}
	kindWord := map[string]string{"I": "Interest", "D": "Data"}[p.Kind]

	// (a) independent walker + reference decoder
	rp, err := refDecode(b.joined)
	if err != nil {
		return evid.Result{Err: fmt.Errorf("Make%s output %s: %v", kindWord, shortB(b.joined), err), Classes: res.Classes}
	}
	fn, err := finalName(p, rp, b.joined)
	if err != nil {
		return evid.Result{Err: err, Classes: res.Classes}
	}
	fnEnc := fn.toEnc()
	want := b.expected(nameStr(fnEnc))
	if d := want.diff(rp.v); d != "" {
		return evid.Result{Err: fmt.Errorf("Make%s output does not say what went in (reference decoder): %s", kindWord, d), Classes: res.Classes}
	}
	if p.Kind == "I" {
		if got := nameStr(b.final); got != want.name {
			return evid.Result{Err: fmt.Errorf("EncodedInterest.FinalName = %s, the packet carries %s", short(got), short(want.name)), Classes: res.Classes}
		}
	}

	// (b) the API decoders on contiguous and segmented input
	offs, inHeader := resolveCuts(c.Cuts, len(b.joined), []*tw.Node{rp.root})
	readers := []readerKind{
		{"BufferReader(joined)", func() enc.ParseReader { return enc.NewBufferReader(append([]byte(nil), b.joined...)) }},
		{fmt.Sprintf("WireReader(cuts %v of %d)", offs, len(b.joined)), func() enc.ParseReader { return enc.NewWireReader(segment(b.joined, offs)) }},
	}
	encWireUsable := len(b.wire) > 1
	for _, w := range b.wire {
		if len(w) == 0 {
			encWireUsable = false // empty segments are not a split "at offsets"
		}
	}
	if encWireUsable {
		readers = append(readers, readerKind{fmt.Sprintf("WireReader(encoder wire, %d buffers)", len(b.wire)), func() enc.ParseReader { return enc.NewWireReader(cloneWire(b.wire)) }})
	}
	specific := "Read" + kindWord
	for _, rk := range readers {
		for _, how := range []string{specific, "ReadPacket"} {
			d := decode(p.Kind, how, rk.mk())
			if d.err != nil {
				return evid.Result{Err: fmt.Errorf("%s on %s fails on the bytes Make%s produced (%s): %v", how, rk.name, kindWord, shortB(b.joined), d.err), Classes: res.Classes}
			}
			if df := want.diff(d.v); df != "" {
				return evid.Result{Err: fmt.Errorf("%s on %s returns something else than went in: %s (bytes %s)", how, rk.name, df, shortB(b.joined)), Classes: res.Classes}
			}
		}
	}

	// (c) standalone encoders agree with the packet encoder
	nameNodes := []*tw.Node{rp.nameNode}
	names := []enc.Name{fnEnc}
	if p.Hints != nil {
		if fh := rp.root.Child(tw.TForwardingHint); fh != nil && len(fh.Children) == len(*p.Hints) {
			for i, h := range *p.Hints {
				nameNodes = append(nameNodes, fh.Children[i])
				names = append(names, h.toEnc())
			}
		}
	}
	for k, nn := range nameNodes {
		if err := standalone(names[k], nn, b.joined); err != nil {
			return evid.Result{Err: err, Classes: res.Classes}
		}
	}

	// classification
	ge253 := false
	rp.root.Walk(func(x *tw.Node) bool {
		if x.Len >= 253 {
			ge253 = true
		}
		return true
	})
	multiBuf := (p.Params != nil && len(*p.Params) >= 2) || (p.Content != nil && len(*p.Content) >= 2)
	res.NonTrivial = ge253 || multiBuf || inHeader > 0
	if ge253 {
		res.Classes = append(res.Classes, "some-length>=253")
	}
	if rp.nameNode.Len >= 253 {
		res.Classes = append(res.Classes, "name>=253")
	}
	if fn.maxCompLen() >= 253 {
		res.Classes = append(res.Classes, "component>=253")
	}
	if rp.root.Len >= 65536 {
		res.Classes = append(res.Classes, "packet>=65536")
	}
	if rp.root.Len >= 253 && rp.root.Len <= 256 {
		res.Classes = append(res.Classes, "outer-length-253..256")
	}
	if multiBuf {
		res.Classes = append(res.Classes, "params/content-in->=2-buffers")
	}
	if inHeader > 0 {
		res.Classes = append(res.Classes, "cut-inside-a-TLV-header")
	}
	if len(offs) >= 3 {
		res.Classes = append(res.Classes, ">=4-segments")
	}
	if len(offs) == 0 {
		res.Classes = append(res.Classes, "unsegmented")
	}
	if encWireUsable {
		res.Classes = append(res.Classes, "encoder-wire-read-directly")
	}
	if rp.v.signed {
		res.Classes = append(res.Classes, "signed")
		if b.rec != nil && uint(len(b.rec.value)) < b.rec.inner.EstimateSize() {
			res.Classes = append(res.Classes, "signature-shorter-than-estimate")
			est := rp.root.Len + uint64(b.rec.inner.EstimateSize()) - uint64(len(b.rec.value))
			if tw.VarNumSize(est) > tw.VarNumSize(rp.root.Len) {
				res.Classes = append(res.Classes, "outer-length-field-shrunk-after-signing")
			}
		}
	}
	if len(fn) > 0 && fn[len(fn)-1].V.size() == 0 {
		res.Classes = append(res.Classes, "name-ends-in-empty-component")
	}
	if rp.v.hintsElem == 1 {
		res.Classes = append(res.Classes, "forwarding-hint-element")
	}
	return res
}

// standalone checks Name.Bytes / NameFromBytes / Component.Bytes / ComponentFromBytes /
// EncodingLength against the bytes of the Name element nn the walker found in buf.
func standalone(n enc.Name, nn *tw.Node, buf []byte) error {
	inPkt := nn.Bytes(buf)
	nb := n.Bytes()
	if !bytes.Equal(nb, inPkt) {
		return fmt.Errorf("Name.Bytes() of %s = %s, but the packet encoder wrote %s for the same name", short(nameStr(n)), shortB(nb), shortB(inPkt))
	}
	if el := n.EncodingLength(); el != int(nn.Len) {
		return fmt.Errorf("Name.EncodingLength() of %s = %d, the name value in the packet has %d bytes", short(nameStr(n)), el, nn.Len)
	}
	back, err := enc.NameFromBytes(append([]byte(nil), inPkt...))
	if err != nil {
		return fmt.Errorf("NameFromBytes fails on the Name element of the packet (%s): %v", shortB(inPkt), err)
	}
	if nameStr(back) != nameStr(n) {
		return fmt.Errorf("NameFromBytes(%s) = %s, want %s", shortB(inPkt), short(nameStr(back)), short(nameStr(n)))
	}
	if len(nn.Children) != len(n) {
		return fmt.Errorf("harness: component count mismatch")
	}
	for i, c := range n {
		cb := nn.Children[i].Bytes(buf)
		if got := c.Bytes(); !bytes.Equal(got, cb) {
			return fmt.Errorf("Component.Bytes() of component %d (type %d, %d bytes) = %s, but the packet encoder wrote %s", i, uint64(c.Typ), len(c.Val), shortB(got), shortB(cb))
		}
		if el := c.EncodingLength(); el != len(cb) {
			return fmt.Errorf("Component.EncodingLength() of component %d = %d, its encoding has %d bytes", i, el, len(cb))
		}
		bc, err := enc.ComponentFromBytes(append([]byte(nil), cb...))
		if err != nil {
			return fmt.Errorf("ComponentFromBytes fails on %s: %v", shortB(cb), err)
		}
		if bc.Typ != c.Typ || !bytes.Equal(bc.Val, c.Val) {
			return fmt.Errorf("ComponentFromBytes(%s) = type %d value %s", shortB(cb), uint64(bc.Typ), shortB(bc.Val))
		}
	}
	return nil
}

const ruleC03Packet = "Interest/Data over names with component types {1,2,8,32,50..58,252..254,65535,65536,2^32-1} and value lengths at the 1/3/5-byte boundaries (incl. whole names padded to 252..256 and 65534..65537 bytes), every subset of optional fields with boundary values, parameters/content as 0..5 buffers (nil / empty buffers included), every shipped signer; decoded contiguously, from a generated segmentation (cuts biased into TLV headers) and from the encoder's own wire. Non-trivial: some TLV length >= 253, or parameters/content in >= 2 buffers, or a cut inside a TLV header"

func TestC03Packet(t *testing.T) {
	keys()
	rec := evid.New("C03", "TestC03Packet", ruleC03Packet)
	evid.Check(t, rec, genC03Case, execC03Packet)
}

func TestC03PacketReplay(t *testing.T) { evid.Replay(t, "TestC03Packet", execC03Packet) }

func TestC03PacketRegress(t *testing.T) { evid.Regress(t, "C03", "TestC03Packet", execC03Packet) }
