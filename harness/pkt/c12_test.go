package pkt

import (
	"bytes"
	"crypto/sha256"
	"errors"
	"fmt"
	"os"
	"sort"
	"sync"
	"testing"

	enc "github.com/named-data/ndnd/std/encoding"
	basic "github.com/named-data/ndnd/std/engine/basic"
	"github.com/named-data/ndnd/std/ndn"
	spec "github.com/named-data/ndnd/std/ndn/spec_2022"
	sec "github.com/named-data/ndnd/std/security"
	"pgregory.net/rapid"

	"verif/harness/internal/evid"
	tw "verif/harness/internal/tlvwalk"
)

// C12. One case = one packet built with a shipped signer (wrapped in a recorder), a
// segmentation, and a seed that selects which bits are flipped when the packet is too
// large to flip all of them.
//
// (a) untampered: bytes handed to ComputeSigValue == signed portion computed by the harness
//     from the packet format with its own walker == EncodedData/EncodedInterest.SigCovered ==
//     SigCovered returned by ReadData/ReadInterest/ReadPacket over a BufferReader and over a
//     WireReader on the segmentation; the matching validator accepts; an Interest with
//     parameters ends in a digest component equal to the harness's SHA-256 over
//     ApplicationParameters .. end of the Interest.
// (b) tampered: for a flipped bit inside the signed portion, the signature value, an
//     Interest's parameter portion (ApplicationParameters .. end) or the value of the
//     digest component: decoding fails, or the digest check rejects, or the validator
//     rejects. Flips elsewhere are executed without obligation.

type C12Case struct {
	P    Pkt    `json:"p"`
	Cuts []Cut  `json:"cuts"`
	Seed uint64 `json:"seed"` // selects the sample of flipped bits for large packets
}

func genC12Case(t *rapid.T) C12Case {
	huge := rapid.IntRange(0, 39).Draw(t, "allowHuge") == 0
	p := genPkt(t, huge)
	// C12 is about signed packets and Interests with parameters: steer most cases there
	if rapid.IntRange(0, 9).Draw(t, "steer") > 0 && (p.Sig.Kind == "" || p.expectedRefusal() != "") {
		if p.Kind == "I" && rapid.IntRange(0, 4).Draw(t, "unsignedWithParams") == 0 {
			p.Sig = Signer{}
			if p.Params == nil {
				p.Params = genBlobs(t, false)
				p.Name = stripMidDigest(p.Name)
			}
		} else {
			p.Sig = genValidSigner(t, p.Kind)
			if p.Kind == "I" && p.Params == nil {
				p.Params = genBlobs(t, false)
				p.Name = stripMidDigest(p.Name)
			}
		}
	}
	return C12Case{P: p, Cuts: genCuts(t, 4), Seed: rapid.Uint64().Draw(t, "flipSeed")}
}

func genValidSigner(t *rapid.T, kind string) Signer {
	kn := genName(t, 2, false, false)
	s := Signer{}
	if kind == "D" {
		s.Kind = rapid.SampledFrom([]string{"sha", "hmac", "hmac", "ecdsa", "rsa"}).Draw(t, "vsigner")
		if s.Kind != "sha" {
			if rapid.IntRange(0, 3).Draw(t, "vKeyName") > 0 {
				s.KeyName = &kn
			}
			s.ForCert = rapid.IntRange(0, 3).Draw(t, "vCert") == 0
			s.ExpireS = 3600
		}
		if s.Kind == "ecdsa" {
			s.Curve = rapid.SampledFrom([]string{"", "", "p224", "p384", "p521"}).Draw(t, "vcurve")
		}
	} else {
		s.Kind = rapid.SampledFrom([]string{"shaInt", "hmacInt", "hmacInt", "ecdsa", "sha", "hmac"}).Draw(t, "vsigner")
		switch s.Kind {
		case "ecdsa":
			s.KeyName = &kn
			s.ForInt = rapid.Bool().Draw(t, "vInt")
			s.Curve = rapid.SampledFrom([]string{"", "", "p224", "p384", "p521"}).Draw(t, "vcurve")
		case "hmac":
			s.KeyName = &kn
		case "shaInt", "hmacInt":
			s.NowMs = rapid.SampledFrom([]int64{0, 1, 1727136000000, 1 << 40}).Draw(t, "vnow")
			s.TNonce = Blob{X: fmt.Sprintf("%x", rapid.SliceOfN(rapid.Byte(), 0, 8).Draw(t, "vtnonce"))}
		}
	}
	if s.Kind == "hmac" || s.Kind == "hmacInt" {
		s.Key = Blob{N: rapid.SampledFrom([]int{1, 2, 16, 31, 32, 33, 40, 63, 64, 65, 128, 200}).Draw(t, "vkeyLen"), S: rapid.Byte().Draw(t, "vkeySeed")}
	}
	return s
}

// fatalAllocation reports whether the (tampered) buffer holds -- anywhere a decoder can be
// led to, following the NDN container structure and, like the decoders, re-reading the
// value of an element that overflows its parent as siblings -- a Name, KeyDigest,
// FinalBlockId or SignatureNonce element whose announced length exceeds the whole buffer.
// The generated decoders allocate for these from the announced length *before* reading
// (make(enc.Name, l/2+1), make([]byte, l)): with a flipped 5- or 9-byte length that is a
// multi-gigabyte request, i.e. a fatal out-of-memory error that no recover() contains. That
// is a C04 finding (owned by the robustness checks). Such flips are not executed (and are
// counted) only when VERIF_C12_SCREEN=1 is set (trees whose decoders do not yet bound these
// allocations), so that the C12 search can continue behind them. lengthBeyond reports, more broadly, any
// element whose length exceeds the buffer (used to keep the copying WireReader off them).
func fatalAllocation(buf []byte) (fatal, lengthBeyond bool) {
	steps := 0
	var scan func(lo, hi, depth int)
	scan = func(lo, hi, depth int) {
		for off := lo; off < hi && steps < 4096; steps++ {
			typ, n1, _, err := tw.ReadVarNum(buf[:hi], off)
			if err != nil {
				return
			}
			l, n2, _, err := tw.ReadVarNum(buf[:hi], off+n1)
			if err != nil {
				return
			}
			val := off + n1 + n2
			if l > uint64(len(buf)) {
				lengthBeyond = true
				switch typ {
				case tw.TName, tw.TKeyDigest, tw.TFinalBlockId, tw.TSignatureNonce:
					fatal = true
				}
			}
			fits := l <= uint64(hi-val)
			if depth < 8 && tw.NDNContainer([]uint64{typ}) { // (a Name too: its components' lengths matter to the copying reader)
				end := hi
				if fits {
					end = val + int(l)
				}
				scan(val, end, depth+1)
				if !fits {
					return
				}
			}
			if fits {
				off = val + int(l)
			} else {
				off = val // the decoders do not advance over an element that overflows
			}
		}
	}
	scan(0, len(buf), 0)
	return
}

// The decoders of /repo main bound these allocations since 634d608; the screen is therefore
// off unless VERIF_C12_SCREEN=1 asks for it (for trees that predate that repair).
var noScreen = os.Getenv("VERIF_C12_SCREEN") != "1"

type span struct{ lo, hi int } // [lo, hi)

func inSpans(sp []span, o int) bool {
	for _, s := range sp {
		if o >= s.lo && o < s.hi {
			return true
		}
	}
	return false
}

// flipBudget: how many single-bit flips per packet.
func flipBudget() int {
	if evid.Thorough() {
		return 2400 // all bits of packets up to 300 bytes
	}
	return 256
}

type rng struct{ x uint64 }

func (r *rng) next() uint64 {
	r.x ^= r.x << 13
	r.x ^= r.x >> 7
	r.x ^= r.x << 17
	return r.x
}

// sample returns up to k distinct elements of xs, chosen by r (order: ascending).
func sample(r *rng, xs []int, k int) []int {
	if len(xs) <= k {
		return xs
	}
	cp := append([]int(nil), xs...)
	for i := 0; i < k; i++ {
		j := i + int(r.next()%uint64(len(cp)-i))
		cp[i], cp[j] = cp[j], cp[i]
	}
	out := cp[:k]
	sort.Ints(out)
	return out
}

// chooseFlips returns bit indexes (byte*8+bit) to flip.
func chooseFlips(buf []byte, root *tw.Node, must []span, seed uint64, budget int) []int {
	nbits := len(buf) * 8
	if nbits <= budget || len(buf) <= 100 { // small packets: every bit, in every tier
		out := make([]int, nbits)
		for i := range out {
			out[i] = i
		}
		return out
	}
	r := &rng{x: seed | 1}
	var hdrBits, edgeBits, mustBits []int
	seenByte := map[int]bool{}
	addByte := func(dst *[]int, o int) {
		if o >= 0 && o < len(buf) && !seenByte[o] {
			seenByte[o] = true
			for b := 0; b < 8; b++ {
				*dst = append(*dst, o*8+b)
			}
		}
	}
	root.Walk(func(x *tw.Node) bool {
		for o := x.Off; o < x.ValOff; o++ {
			addByte(&hdrBits, o)
		}
		return true
	})
	root.Walk(func(x *tw.Node) bool {
		if x.Len > 0 {
			addByte(&edgeBits, x.ValOff)
			addByte(&edgeBits, x.End-1)
		}
		return true
	})
	for _, s := range must {
		// a few bytes of every region that must always be probed (digest value, signature value)
		for k := 0; k < 4 && s.hi > s.lo; k++ {
			addByte(&mustBits, s.lo+int(r.next()%uint64(s.hi-s.lo)))
		}
	}
	out := sample(r, mustBits, budget/8)
	out = append(out, sample(r, hdrBits, budget*3/8)...)
	out = append(out, sample(r, edgeBits, budget/4)...)
	rest := budget - len(out)
	seenBit := map[int]bool{}
	for _, b := range out {
		seenBit[b] = true
	}
	for tries := 0; rest > 0 && tries < 8*budget; tries++ {
		b := int(r.next() % uint64(nbits))
		if !seenBit[b] {
			seenBit[b] = true
			out = append(out, b)
			rest--
		}
	}
	sort.Ints(out)
	return out
}

func execC12(c C12Case) (res evid.Result) {
	defer func() {
		if r := recover(); r != nil {
			res.Err = fmt.Errorf("panic: %v", r)
		}
	}()
	p := c.P
	b, err := p.make()
	if err != nil {
		return evid.Result{Err: err}
	}
	res.Classes = p.classes()
	fail := func(format string, a ...any) evid.Result {
		return evid.Result{Err: fmt.Errorf(format, a...), Classes: res.Classes}
	}
	reason := p.expectedRefusal()
	if b.refused != nil {
		if reason == "" {
			return fail("the packet API fails on a valid input: %v", b.refused)
		}
		res.Classes = append(res.Classes, "refused-by-api: "+reason)
		return res
	}
	kindWord := map[string]string{"I": "Interest", "D": "Data"}[p.Kind]
	rp, err := refDecode(b.joined)
	if err != nil {
		return fail("Make%s output %s: %v", kindWord, shortB(b.joined), err)
	}
	signed := b.rec != nil && b.rec.cfg != nil && b.rec.calls > 0
	if signed != rp.v.signed {
		return fail("signer used: %v, but the packet carries a signature: %v", signed, rp.v.signed)
	}
	hasParams := p.Kind == "I" && p.Params != nil
	if !signed && !hasParams {
		res.Classes = append(res.Classes, "neither-signed-nor-parameters(no obligation)")
	}

	// ---- (a) untampered
	var wantCovered []byte
	embeddedDigest, everyDigest := false, false
	if signed {
		if b.rec.calls != 1 {
			return fail("ComputeSigValue was called %d times", b.rec.calls)
		}
		wantCovered = rp.signedPortion(b.joined, false)
		if rp.digestCount() > 1 {
			embeddedDigest = true
			if alt := rp.signedPortion(b.joined, true); !bytes.Equal(b.rec.covered, wantCovered) && bytes.Equal(b.rec.covered, alt) {
				wantCovered, everyDigest = alt, true
			}
		}
		if !bytes.Equal(b.rec.covered, wantCovered) {
			return fail("the signer was asked to sign %s, the signed portion of the packet (by the packet format) is %s; packet %s", shortB(b.rec.covered), shortB(wantCovered), shortB(b.joined))
		}
		if got := b.covered.Join(); !bytes.Equal(got, wantCovered) {
			return fail("Encoded%s.SigCovered = %s, the signed portion of the packet is %s", kindWord, shortB(got), shortB(wantCovered))
		}
		if !bytes.Equal(rp.v.sigValue, b.rec.value) {
			return fail("the packet carries signature value %s, the signer returned %s", shortB(rp.v.sigValue), shortB(b.rec.value))
		}
	}
	var digestSpan span
	if hasParams {
		if rp.paramsN == nil {
			return fail("Interest built with parameters has no ApplicationParameters element")
		}
		kids := rp.nameNode.Children
		if len(kids) == 0 || kids[len(kids)-1].Type != tw.TParamsDigest || kids[len(kids)-1].Len != 32 {
			return fail("Interest with parameters does not end in a 32-byte parameters-digest component: name %s", short(rp.v.name))
		}
		last := kids[len(kids)-1]
		want := sha256.Sum256(b.joined[rp.paramsN.Off:rp.root.End])
		if !bytes.Equal(last.Value(b.joined), want[:]) {
			return fail("parameters digest in the name is %x, SHA-256 over ApplicationParameters..end is %x", last.Value(b.joined), want)
		}
		digestSpan = span{last.ValOff, last.End}
		if fn := b.final; len(fn) == 0 || !bytes.Equal(fn[len(fn)-1].Val, want[:]) {
			return fail("EncodedInterest.FinalName does not end in the parameters digest")
		}
	} else if p.Kind == "I" {
		for _, k := range rp.nameNode.Children {
			if k.Type == tw.TParamsDigest && k == rp.nameNode.Children[len(rp.nameNode.Children)-1] {
				return fail("Interest without parameters carries a trailing parameters-digest component")
			}
		}
	}
	offs, inHeader := resolveCuts(c.Cuts, len(b.joined), []*tw.Node{rp.root})
	specific := "Read" + kindWord
	// the bytes each reader was given (the decoders return views into them): they must still be
	// the packet after decoding and validating (seeded defect C12-r4-1: a validator that
	// appends the later signed ranges to the first one, i.e. into the received packet)
	var lastInput func() []byte
	var firstSig ndn.Signature
	readers := []readerKind{
		{"BufferReader(joined)", func() enc.ParseReader {
			buf := append([]byte(nil), b.joined...)
			lastInput = func() []byte { return buf }
			return enc.NewBufferReader(buf)
		}},
		{fmt.Sprintf("WireReader(cuts %v of %d)", offs, len(b.joined)), func() enc.ParseReader {
			w := segment(b.joined, offs)
			lastInput = func() []byte { return w.Join() }
			return enc.NewWireReader(w)
		}},
	}
	for _, rk := range readers {
		for _, how := range []string{specific, "ReadPacket"} {
			d := decode(p.Kind, how, rk.mk())
			if d.err != nil {
				return fail("%s on %s fails on the untampered packet %s: %v", how, rk.name, shortB(b.joined), d.err)
			}
			if !signed {
				if len(d.covered) != 0 && d.v.signed {
					return fail("%s on %s reports a signature on an unsigned packet", how, rk.name)
				}
				continue
			}
			if !bytes.Equal(d.covered, wantCovered) {
				return fail("%s on %s returns signed portion %s, the signer signed %s (packet %s)", how, rk.name, shortB(d.covered), shortB(wantCovered), shortB(b.joined))
			}
			if firstSig == nil {
				firstSig = d.sig
			}
			// validate exactly what the decoder returned (wire form, as a caller would)
			if !p.Sig.validate(enc.Wire{d.covered}, d.sig) {
				return fail("the %s validator rejects the untampered packet decoded by %s on %s (signature type in packet: %d)", p.Sig.Kind, how, rk.name, d.v.sigType)
			}
			// ... the signed portion a decoder handed out belongs to the caller: another packet
			// decoded in the meantime (a store or a cache decodes many before it validates) must
			// leave it alone (seeded C12-r7-1: parsing contexts recycled through a pool)
			if d.coveredWire != nil {
				_ = decode("D", "ReadData", enc.NewBufferReader(otherSignedData()))
				_ = decode("I", "ReadInterest", enc.NewBufferReader(otherSignedInterest()))
				if got := d.coveredWire.Join(); !bytes.Equal(got, wantCovered) {
					return fail("the signed portion returned by %s on %s changed after two other packets were decoded: now %s, the signer signed %s", how, rk.name, shortB(got), shortB(wantCovered))
				}
			}
			// ... and validating the ranges as the decoder returned them (views into the
			// received bytes) must leave the received bytes alone and give the same verdict twice
			if d.coveredWire != nil {
				for round := 1; round <= 2; round++ {
					if !p.Sig.validate(d.coveredWire, d.sig) {
						return fail("the %s validator rejects the untampered packet decoded by %s on %s when given the signed ranges as the decoder returned them (validation #%d)", p.Sig.Kind, how, rk.name, round)
					}
					if in := lastInput(); !bytes.Equal(in, b.joined) {
						return fail("validating the untampered packet decoded by %s on %s changed the received bytes (first difference at byte %d of %d): the validator wrote into the packet", how, rk.name, firstDiffAt(in, b.joined), len(b.joined))
					}
				}
			}
		}
	}

	// ---- signature values of every length the signer can produce: an ECDSA signature is a DER
	// sequence of two integers that drop their leading zero octets, so now and then (one in a
	// few hundred) a valid value is shorter than usual; the validator must accept them all
	// (seeded C12-r7-2: a length window in the validator). The same bytes are signed again 48 times.
	if signed && p.Sig.Kind == "ecdsa" && b.rec != nil {
		short := 0
		for k := 0; k < 48; k++ {
			v, err := b.rec.inner.ComputeSigValue(enc.Wire{wantCovered})
			if err != nil {
				break
			}
			if len(v) < len(b.rec.value) {
				short++
			}
			sig := sigWithValue{Signature: firstSig, v: v}
			if firstSig != nil && !p.Sig.validate(enc.Wire{wantCovered}, sig) {
				return fail("the ecdsa validator rejects a signature value of %d bytes that the shipped signer produced over the packet's signed portion (curve %s)", len(v), p.Sig.Curve)
			}
		}
		if short > 0 {
			res.Classes = append(res.Classes, "ecdsa-signature-value-shorter-than-the-first")
		}
	}

	// ---- re-expression: an application builds its next Interest from the FinalName of the one
	// it sent before (new nonce, new signature). The packet already built must stay what it was
	// (seeded C12-r6-1: the encoder re-used the old digest component as its placeholder and
	// zeroed it -- inside the first packet's wire), and the new one must decode.
	if hasParams && len(b.final) > 0 {
		before := append([]byte(nil), b.wire.Join()...)
		var s2 ndn.Signer
		if b.rec != nil {
			s2 = b.rec.inner
		}
		nonce2 := uint64(0x7e57)
		e2, err2 := spec.Spec{}.MakeInterest(b.final, &ndn.InterestConfig{Nonce: &nonce2}, blobsToWire(p.Params), s2)
		if after := b.wire.Join(); !bytes.Equal(after, before) {
			return fail("building a second Interest from the first one's FinalName changed the bytes of the first packet (first difference at byte %d of %d)", firstDiffAt(after, before), len(before))
		}
		if err2 == nil {
			w2 := append([]byte(nil), e2.Wire.Join()...)
			if d2 := decode("I", "ReadInterest", enc.NewBufferReader(w2)); d2.err != nil {
				return fail("an Interest built from the FinalName of an earlier one does not decode: %v (packet %s)", d2.err, shortB(w2))
			}
			if d1 := decode("I", "ReadInterest", enc.NewBufferReader(append([]byte(nil), b.wire.Join()...))); d1.err != nil {
				return fail("after a second Interest was built from its FinalName the first packet no longer decodes: %v", d1.err)
			}
			res.Classes = append(res.Classes, "re-expressed-from-FinalName")
		}
	}

	// ---- a second Interest under the same name is built while the first one is being signed
	// (another goroutine of the application, or a signer that has to fetch something first). The
	// name slice has spare capacity, as a name put together with append has. Both packets must
	// come out right (seeded C12-r6-2: the first wrote its digest through the shared name slot
	// into the second packet).
	if hasParams && signed {
		in := p.Name.toEnc()
		shared := make(enc.Name, len(in), len(in)+4)
		copy(shared, in)
		recA := p.Sig.build()
		var eB *ndn.EncodedInterest
		var errB error
		n1, n2 := uint64(0xa1), uint64(0xb2)
		if recA != nil {
			recA.during = func() {
				if sB := p.Sig.build(); sB != nil {
					eB, errB = spec.Spec{}.MakeInterest(shared, &ndn.InterestConfig{Nonce: &n2}, blobsToWire(p.Params), sB.inner)
				}
			}
			eA, errA := spec.Spec{}.MakeInterest(shared, &ndn.InterestConfig{Nonce: &n1}, blobsToWire(p.Params), recA)
			if errA == nil && errB == nil && eA != nil && eB != nil {
				for i, e := range []*ndn.EncodedInterest{eA, eB} {
					which := []string{"first (outer)", "second (built while the first was being signed)"}[i]
					w := append([]byte(nil), e.Wire.Join()...)
					if d := decode("I", "ReadInterest", enc.NewBufferReader(w)); d.err != nil {
						return fail("two Interests built from one name slice, the second while the first was being signed: the %s packet does not decode: %v", which, d.err)
					}
				}
				res.Classes = append(res.Classes, "second-interest-built-while-the-first-was-being-signed")
			}
		}
	}

	// ---- (b), (c) tampered
	var obligated, must []span
	if signed {
		if p.Kind == "D" {
			obligated = append(obligated, span{rp.nameNode.Off, rp.sigValueN.Off})
		} else {
			kids := rp.nameNode.Children
			for i, k := range kids {
				if k.Type == tw.TParamsDigest && (everyDigest || i == len(kids)-1) {
					continue
				}
				obligated = append(obligated, span{k.Off, k.End})
			}
			obligated = append(obligated, span{rp.paramsN.Off, rp.sigValueN.Off})
		}
		sv := span{rp.sigValueN.ValOff, rp.sigValueN.End}
		obligated = append(obligated, sv)
		must = append(must, sv)
	}
	if hasParams {
		obligated = append(obligated, span{rp.paramsN.Off, rp.root.End}, digestSpan)
		must = append(must, digestSpan)
	}
	flips := chooseFlips(b.joined, rp.root, must, c.Seed, flipBudget())
	counts := map[string]int{}
	work := append([]byte(nil), b.joined...)
	for fi, bit := range flips {
		o, m := bit/8, byte(1)<<(bit%8)
		work[o] ^= m
		ob := inSpans(obligated, o)
		fatal, beyond := fatalAllocation(work)
		if !noScreen && fatal {
			work[o] ^= m
			counts["flips-not-executed: Name/binary-field length beyond the packet (fatal up-front allocation, C04 finding)"]++
			continue
		}
		// every fourth flip goes through the segmented reader
		var rd enc.ParseReader = enc.NewBufferReader(work)
		if fi%4 == 3 && len(offs) > 0 && !beyond {
			rd = enc.NewWireReader(segment(work, offs))
			counts["flips-decoded-from-segments"]++
		}
		d := decodeOpt(p.Kind, specific, rd, false)
		outcome := ""
		switch {
		case d.panicked:
			outcome = "decoder-panicked"
		case d.err != nil && errors.Is(d.err, enc.ErrIncorrectDigest):
			outcome = "rejected-by-digest-check"
		case d.err != nil:
			outcome = "rejected-by-decoder"
		case signed && !p.Sig.validate(enc.Wire{d.covered}, d.sig):
			outcome = "rejected-by-validator"
		default:
			outcome = "accepted"
		}
		work[o] ^= m
		if ob {
			counts["flips-with-obligation"]++
			counts["obligated:"+outcome]++
			if outcome == "accepted" {
				where := "signed portion / signature value"
				if !signed {
					where = "parameter portion / digest component"
				}
				return fail("bit %d of byte %d (in the %s) flipped and the packet is still accepted (%s decodes%s): packet %s", bit%8, o, where, specific, map[bool]string{true: " and the validator accepts", false: ""}[signed], shortB(b.joined))
			}
		} else {
			counts["flips-without-obligation"]++
			counts["free:"+outcome]++
		}
	}
	counts["flips"] = len(flips)
	// "one whose digest does not match is rejected on decode": besides a digest with flipped bits, a last
	// component that carries the right 32 bytes and more, or all but the last of them (the enclosing
	// lengths adjusted, everything else untouched). A digest of another length matches nothing.
	if hasParams && p.Kind == "I" {
		kids := rp.nameNode.Children
		last := kids[len(kids)-1]
		dv := append([]byte(nil), b.joined[last.ValOff:last.End]...)
		variants := [][]byte{append(append([]byte(nil), dv...), 0x00), append(append([]byte(nil), dv...), 0x5a, 0x00, 0x00, 0x01), dv[:len(dv)-1], {}}
		for vi, nv := range variants {
			nameVal := append(append(append([]byte(nil), b.joined[rp.nameNode.ValOff:last.Off]...), tw.EncodeTLV(tw.TParamsDigest, nv)...), b.joined[last.End:rp.nameNode.End]...)
			rootVal := append(append(append([]byte(nil), b.joined[rp.root.ValOff:rp.nameNode.Off]...), tw.EncodeTLV(uint64(rp.nameNode.Type), nameVal)...), b.joined[rp.nameNode.End:rp.root.End]...)
			crafted := tw.EncodeTLV(uint64(rp.root.Type), rootVal)
			for _, sp := range []string{"ReadInterest", "ReadPacket"} {
				d := decodeOpt(p.Kind, sp, enc.NewBufferReader(crafted), false)
				if d.panicked {
					return fail("an Interest whose digest component has %d bytes instead of 32 makes %s panic: packet %s", len(nv), sp, shortB(crafted))
				}
				if d.err == nil {
					return fail("an Interest whose last name component is a parameters digest of %d bytes (variant %d: the right 32 bytes %s) is accepted by %s: packet %s", len(nv), vi, map[bool]string{true: "and more", false: "cut short"}[len(nv) > 32], sp, shortB(crafted))
				}
			}
			counts["digest-components-of-another-length-rejected"]++
		}
	}
	res.Counts = counts
	if len(flips) == len(b.joined)*8 {
		res.Classes = append(res.Classes, "all-bits-flipped")
	} else {
		res.Classes = append(res.Classes, "sampled-bits-flipped")
	}
	optional := p.CBP || p.MBF || p.Hints != nil || p.Nonce != nil || p.LifeMs != nil || p.Hop != nil || p.CType != nil || p.FreshMs != nil || p.FBI != nil
	multiBuf := (p.Params != nil && len(*p.Params) >= 2) || (p.Content != nil && len(*p.Content) >= 2)
	res.NonTrivial = counts["obligated:rejected-by-validator"]+counts["obligated:rejected-by-digest-check"] > 0 || (signed && optional && multiBuf)
	if signed {
		res.Classes = append(res.Classes, "signed")
		if embeddedDigest {
			res.Classes = append(res.Classes, map[bool]string{true: "signed-name-embeds-a-digest:not-covered", false: "signed-name-embeds-a-digest:covered"}[everyDigest])
		}
	}
	if counts["obligated:rejected-by-validator"] > 0 {
		res.Classes = append(res.Classes, "some-flip-rejected-by-validator")
	}
	if counts["obligated:rejected-by-digest-check"] > 0 {
		res.Classes = append(res.Classes, "some-flip-rejected-by-digest-check")
	}
	if inHeader > 0 {
		res.Classes = append(res.Classes, "cut-inside-a-TLV-header")
	}
	if len(offs) >= 3 {
		res.Classes = append(res.Classes, ">=4-segments")
	}
	if signed && b.rec.nbuf >= 3 {
		res.Classes = append(res.Classes, "signed-portion-in->=3-buffers")
	}
	if rp.root.Len >= 253 {
		res.Classes = append(res.Classes, "packet>=253")
	}
	return res
}

const ruleC12 = "packets as in C03 built with every shipped signer (SHA-256 digest, HMAC, ECDSA P-256, RSA-2048; Data and Interest flavours, with/without key locator and validity period) wrapped in a recorder, plus unsigned Interests with parameters; untampered: signer input == signed portion by the packet format (own walker) == SigCovered of the encoder == SigCovered of every decoder (contiguous and segmented), validator accepts, parameters digest correct; tampered: every bit (packets up to budget/8 bytes) or a stratified sample (all header bytes, first/last byte of every element, digest and signature value, random interior) flipped one at a time; for Interests with parameters also a digest component that holds the right 32 bytes and more, or fewer. Non-trivial: >=1 flip where decoding succeeded and the validator or the digest check did the rejecting, or an untampered signed packet with >=1 optional field and a multi-buffer wire"

func TestC12Signed(t *testing.T) {
	keys()
	rec := evid.New("C12", "TestC12Signed", ruleC12)
	evid.Check(t, rec, genC12Case, execC12)
}

func TestC12SignedReplay(t *testing.T) { evid.Replay(t, "TestC12Signed", execC12) }

func TestC12SignedRegress(t *testing.T) { evid.Regress(t, "C12", "TestC12Signed", execC12) }

func firstDiffAt(a, b []byte) int {
	i := 0
	for i < len(a) && i < len(b) && a[i] == b[i] {
		i++
	}
	return i
}

// sigWithValue is a decoded signature with another signature value.
type sigWithValue struct {
	ndn.Signature
	v []byte
}

func (s sigWithValue) SigValue() []byte { return s.v }

var (
	otherOnce      sync.Once
	otherD, otherI []byte
)

func otherPackets() {
	otherOnce.Do(func() {
		n, _ := enc.NameFromStr("/some/other/packet/decoded/in/between")
		d, err := spec.Spec{}.MakeData(n, &ndn.DataConfig{}, enc.Wire{bytes.Repeat([]byte{0xab}, 300)}, sec.NewSha256Signer())
		if err != nil {
			panic(err)
		}
		otherD = d.Wire.Join()
		i, err := spec.Spec{}.MakeInterest(n, &ndn.InterestConfig{}, enc.Wire{bytes.Repeat([]byte{0xcd}, 300)}, sec.NewSha256IntSigner(basic.NewTimer()))
		if err != nil {
			panic(err)
		}
		otherI = i.Wire.Join()
	})
}

func otherSignedData() []byte     { otherPackets(); return append([]byte(nil), otherD...) }
func otherSignedInterest() []byte { otherPackets(); return append([]byte(nil), otherI...) }
