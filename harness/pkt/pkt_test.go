// Package pkt decides C03 (Interest/Data encode->decode round trip for all field values,
// contiguous and segmented readers, standalone name/component encoders) and C12 (signed
// packets verify iff untampered; signer and parser cover the same bytes; parameters
// digest).
//
// This file: the plain-data description of a packet (Pkt), its generator, the builder that
// turns it into calls of the real packet API, the recording signer, and the reference
// decoder that reads the encoded bytes back through internal/tlvwalk (written from the
// NDN packet specification, independent of std/encoding).
package pkt

import (
	"bytes"
	"crypto/ecdsa"
	"crypto/elliptic"
	"crypto/rand"
	"crypto/rsa"
	"encoding/hex"
	"fmt"
	"sort"
	"strconv"
	"sync"
	"time"

	enc "github.com/named-data/ndnd/std/encoding"
	"github.com/named-data/ndnd/std/ndn"
	spec "github.com/named-data/ndnd/std/ndn/spec_2022"
	sec "github.com/named-data/ndnd/std/security"
	"pgregory.net/rapid"

	"verif/harness/internal/evid"
	tw "verif/harness/internal/tlvwalk"
)

// ---------------------------------------------------------------------------- plain data

// Blob is a byte string as plain data: either explicit hex (X) or N bytes of a
// deterministic pattern seeded by S (keeps 64 KiB values out of the JSON case).
type Blob struct {
	N   int    `json:"n,omitempty"`
	S   byte   `json:"s,omitempty"`
	X   string `json:"x,omitempty"`
	Nil bool   `json:"nil,omitempty"` // hand a nil slice (instead of an empty one) to the API when empty
}

func (b Blob) bytes() []byte {
	if b.X != "" {
		v, err := hex.DecodeString(b.X)
		if err != nil {
			panic("harness: bad hex in case: " + b.X)
		}
		return v
	}
	if b.N == 0 {
		if b.Nil {
			return nil
		}
		return []byte{}
	}
	v := make([]byte, b.N)
	x := uint32(b.S)*2654435761 + 12345
	for i := range v {
		// xorshift-ish pattern: every byte value occurs, neighbouring bytes differ
		x ^= x << 13
		x ^= x >> 17
		x ^= x << 5
		v[i] = byte(x>>8) + b.S
	}
	return v
}

func (b Blob) size() int {
	if b.X != "" {
		return len(b.X) / 2
	}
	return b.N
}

// Comp is a name component as plain data.
type Comp struct {
	T uint64 `json:"t"`
	V Blob   `json:"v"`
}

type Name []Comp

func (n Name) toEnc() enc.Name {
	out := make(enc.Name, len(n))
	for i, c := range n {
		out[i] = enc.Component{Typ: enc.TLNum(c.T), Val: c.V.bytes()}
	}
	return out
}

// refValue / refWire: the name encoded by the harness's own encoder.
func (n Name) refValue() []byte {
	var out []byte
	for _, c := range n {
		out = tw.AppendTLV(out, c.T, c.V.bytes())
	}
	return out
}

func (n Name) refWire() []byte { return tw.EncodeTLV(tw.TName, n.refValue()) }

func (n Name) valueLen() int {
	l := 0
	for _, c := range n {
		s := c.V.size()
		l += tw.VarNumSize(c.T) + tw.VarNumSize(uint64(s)) + s
	}
	return l
}

func (n Name) maxCompLen() int {
	m := 0
	for _, c := range n {
		if s := c.V.size(); s > m {
			m = s
		}
	}
	return m
}

// Signer describes which shipped signer to use and with what.
type Signer struct {
	// "" (nil signer), "sha" NewSha256Signer, "shaInt" NewSha256IntSigner, "hmac"
	// NewHmacSigner, "hmacInt" NewHmacIntSigner, "ecdsa" NewEccSigner, "rsa" NewRsaSigner
	Kind    string `json:"k,omitempty"`
	Key     Blob   `json:"key,omitzero"`    // HMAC key
	KeyName *Name  `json:"kname,omitempty"` // key locator (hmac, ecdsa, rsa); nil = none
	ForCert bool   `json:"cert,omitempty"`  // hmac/ecdsa/rsa: add a validity period
	ForInt  bool   `json:"int,omitempty"`   // ecdsa/rsa: Interest flavour (nonce, time, sequence number)
	NowMs   int64  `json:"now,omitempty"`   // clock of the harness timer given to shaInt/hmacInt
	TNonce  Blob   `json:"tn,omitzero"`     // nonce the harness timer hands out
	ExpireS int64  `json:"exp,omitempty"`   // certificate lifetime in seconds (ForCert)
	Curve   string `json:"curve,omitempty"` // ecdsa: "" = P-256, "p224", "p384", "p521"
}

// Pkt is one Interest or Data as plain data.
type Pkt struct {
	Kind string `json:"kind"` // "I" | "D"
	Name Name   `json:"name"`
	// Interest
	CBP    bool    `json:"cbp,omitempty"`
	MBF    bool    `json:"mbf,omitempty"`
	Hints  *[]Name `json:"hints,omitempty"`
	Nonce  *uint64 `json:"nonce,omitempty"`
	LifeMs *int64  `json:"life,omitempty"`
	Hop    *uint   `json:"hop,omitempty"`
	Params *[]Blob `json:"params,omitempty"` // nil: no ApplicationParameters
	// Data
	CType   *uint64 `json:"ctype,omitempty"`
	FreshMs *int64  `json:"fresh,omitempty"`
	FBI     *Comp   `json:"fbi,omitempty"`
	Content *[]Blob `json:"content,omitempty"` // nil: nil wire
	Sig     Signer  `json:"sig"`
}

func blobsToWire(bs *[]Blob) enc.Wire {
	if bs == nil {
		return nil
	}
	w := make(enc.Wire, len(*bs))
	for i, b := range *bs {
		w[i] = b.bytes()
	}
	return w
}

func blobsJoin(bs *[]Blob) []byte {
	if bs == nil {
		return nil
	}
	out := []byte{}
	for _, b := range *bs {
		out = append(out, b.bytes()...)
	}
	return out
}

// ---------------------------------------------------------------------------- keys and signers

var (
	keyOnce sync.Once
	eccKey  *ecdsa.PrivateKey
	rsaKey  *rsa.PrivateKey
	eccMore = map[string]*ecdsa.PrivateKey{} // other curves: p224, p384, p521
)

// eccFor returns the process-wide ECDSA key on the named curve ("" = P-256).
func eccFor(curve string) *ecdsa.PrivateKey {
	k, _ := keys()
	if curve == "" {
		return k
	}
	return eccMore[curve]
}

// asymmetric keys are generated once per process (the oracle never depends on their value)
func keys() (*ecdsa.PrivateKey, *rsa.PrivateKey) {
	keyOnce.Do(func() {
		var err error
		if eccKey, err = ecdsa.GenerateKey(elliptic.P256(), rand.Reader); err != nil {
			panic(err)
		}
		if rsaKey, err = rsa.GenerateKey(rand.Reader, 2048); err != nil {
			panic(err)
		}
		for name, c := range map[string]elliptic.Curve{"p224": elliptic.P224(), "p384": elliptic.P384(), "p521": elliptic.P521()} {
			if eccMore[name], err = ecdsa.GenerateKey(c, rand.Reader); err != nil {
				panic(err)
			}
		}
	})
	return eccKey, rsaKey
}

// fixedTimer is the ndn.Timer handed to the Interest signers that take one.
type fixedTimer struct {
	now   time.Time
	nonce []byte
}

func (t fixedTimer) Now() time.Time                              { return t.now }
func (t fixedTimer) Sleep(time.Duration)                         {}
func (t fixedTimer) Schedule(time.Duration, func()) func() error { return func() error { return nil } }
func (t fixedTimer) Nonce() []byte                               { return t.nonce }

// recSigner wraps a shipped signer and records what it was asked and what it answered.
type recSigner struct {
	inner   ndn.Signer
	cfg     *ndn.SigConfig
	covered []byte // exact bytes handed to ComputeSigValue (joined, copied)
	nbuf    int
	value   []byte
	calls   int
	// during, if set, runs once at the start of the first ComputeSigValue call: whatever else the
	// application does while this packet is being signed
	during func()
}

func (r *recSigner) SigInfo() (*ndn.SigConfig, error) {
	c, err := r.inner.SigInfo()
	r.cfg = c
	return c, err
}
func (r *recSigner) EstimateSize() uint { return r.inner.EstimateSize() }
func (r *recSigner) ComputeSigValue(w enc.Wire) ([]byte, error) {
	if d := r.during; d != nil {
		r.during = nil
		d()
	}
	r.calls++
	r.nbuf = len(w)
	r.covered = r.covered[:0]
	for _, b := range w {
		r.covered = append(r.covered, b...)
	}
	v, err := r.inner.ComputeSigValue(w)
	r.value = append([]byte(nil), v...)
	return v, err
}

func (s Signer) keyName() enc.Name {
	if s.KeyName == nil {
		return nil
	}
	return s.KeyName.toEnc()
}

// The shipped certificate signers stamp their validity period with time.Now(), which carries the
// host's time zone; the wire format is UTC. This process therefore lives in a zone that is not UTC
// (and not a whole number of hours away from it), as most hosts do.
func init() { time.Local = time.FixedZone("verif+0530", 5*3600+30*60) }

// build returns the recording wrapper around the shipped signer, or nil for no signer.
func (s Signer) build() *recSigner {
	tm := fixedTimer{now: time.UnixMilli(s.NowMs), nonce: s.TNonce.bytes()}
	exp := time.Duration(s.ExpireS) * time.Second
	var in ndn.Signer
	switch s.Kind {
	case "":
		return nil
	case "sha":
		in = sec.NewSha256Signer()
	case "shaInt":
		in = sec.NewSha256IntSigner(tm)
	case "hmac":
		in = sec.NewHmacSigner(s.keyName(), s.Key.bytes(), s.ForCert, exp)
	case "hmacInt":
		in = sec.NewHmacIntSigner(s.Key.bytes(), tm)
	case "ecdsa":
		in = sec.NewEccSigner(s.ForCert, s.ForInt, exp, eccFor(s.Curve), s.keyName())
	case "rsa":
		_, k := keys()
		in = sec.NewRsaSigner(s.ForCert, s.ForInt, exp, k, s.keyName())
	default:
		panic("harness: unknown signer kind " + s.Kind)
	}
	return &recSigner{inner: in}
}

// validate applies the validator that matches the signer kind.
func (s Signer) validate(covered enc.Wire, sig ndn.Signature) bool {
	switch s.Kind {
	case "sha", "shaInt":
		return sec.Sha256Validate(covered, sig)
	case "hmac", "hmacInt":
		return sec.HmacValidate(covered, sig, s.Key.bytes())
	case "ecdsa":
		return sec.EcdsaValidate(covered, sig, &eccFor(s.Curve).PublicKey)
	case "rsa":
		_, k := keys()
		return sec.RsaValidate(covered, sig, &k.PublicKey)
	}
	panic("harness: no validator for signer kind " + s.Kind)
}

// intFlavour: the signer puts nonce / time / sequence number into its SigInfo.
func (s Signer) intFlavour() bool {
	return s.Kind == "shaInt" || s.Kind == "hmacInt" || ((s.Kind == "ecdsa" || s.Kind == "rsa") && s.ForInt)
}

func (s Signer) certFlavour() bool {
	return (s.Kind == "hmac" || s.Kind == "ecdsa" || s.Kind == "rsa") && s.ForCert
}

func (s Signer) hasKeyName() bool {
	switch s.Kind {
	case "hmacInt":
		return true // it uses the key itself as key name
	case "hmac", "ecdsa", "rsa":
		return s.KeyName != nil
	}
	return false
}

// expectedRefusal: preconditions of MakeInterest / MakeData (std/ndn/spec_2022/spec.go) under
// which the API refuses the combination with an error instead of building a packet. A
// refusal is not a violation; anything else that fails is.
func (p Pkt) expectedRefusal() string {
	s := p.Sig
	if s.Kind == "" {
		return ""
	}
	if p.Kind == "D" {
		if s.intFlavour() {
			return "Data signer with nonce/time/seqnum"
		}
		return ""
	}
	if p.Params == nil {
		return "signed Interest without ApplicationParameters"
	}
	if s.certFlavour() {
		return "Interest signer with validity period"
	}
	if s.Kind != "sha" && s.Kind != "shaInt" && !s.hasKeyName() {
		return "Interest signer without key name"
	}
	if s.Kind == "rsa" {
		return "Interest signature of 253 bytes or more"
	}
	return ""
}

// ---------------------------------------------------------------------------- building

type built struct {
	p        Pkt
	rec      *recSigner
	wire     enc.Wire // as returned by the API
	joined   []byte   // private copy of wire.Join()
	covered  enc.Wire // SigCovered as returned by the API
	final    enc.Name // Interest: FinalName
	refused  error
	inName   enc.Name
	nEncBufs int
}

// warmUp builds and discards one small packet with the given signer.
func warmUp(kind string, signer ndn.Signer) {
	defer func() { _ = recover() }()
	n, _ := enc.NameFromStr("/warm/up")
	if kind == "I" {
		_, _ = spec.Spec{}.MakeInterest(n, &ndn.InterestConfig{}, enc.Wire{[]byte("warm-up parameters")}, signer)
	} else {
		_, _ = spec.Spec{}.MakeData(n, &ndn.DataConfig{}, enc.Wire{[]byte("warm-up content")}, signer)
	}
}

// make calls the real packet API. A panic is reported as error (violation).
func (p Pkt) make() (b *built, err error) {
	defer func() {
		if r := recover(); r != nil {
			err = fmt.Errorf("Make%s panics: %v", map[string]string{"I": "Interest", "D": "Data"}[p.Kind], r)
		}
	}()
	b = &built{p: p, rec: p.Sig.build()}
	var signer ndn.Signer
	if b.rec != nil {
		signer = b.rec
		// A signer object is used for many packets: sign a throw-away packet of the same kind
		// with the very same object first, so that state leaking from one signature into the
		// next (seeded defect C12-r2-1: a keyed hash that was never reset) shows in the packet
		// under test. The recorder is reset by the real call.
		warmUp(p.Kind, b.rec.inner)
	}
	name := p.Name.toEnc()
	b.inName = p.Name.toEnc()
	sp := spec.Spec{}
	if p.Kind == "I" {
		cfg := &ndn.InterestConfig{CanBePrefix: p.CBP, MustBeFresh: p.MBF, Nonce: p.Nonce, HopLimit: p.Hop}
		if p.Hints != nil {
			cfg.ForwardingHint = make([]enc.Name, len(*p.Hints))
			for i, h := range *p.Hints {
				cfg.ForwardingHint[i] = h.toEnc()
			}
		}
		if p.LifeMs != nil {
			d := time.Duration(*p.LifeMs) * time.Millisecond
			cfg.Lifetime = &d
		}
		e, merr := sp.MakeInterest(name, cfg, blobsToWire(p.Params), signer)
		if merr != nil {
			b.refused = merr
			return b, nil
		}
		b.wire, b.covered, b.final = e.Wire, e.SigCovered, e.FinalName
	} else {
		cfg := &ndn.DataConfig{}
		if p.CType != nil {
			ct := ndn.ContentType(*p.CType)
			cfg.ContentType = &ct
		}
		if p.FreshMs != nil {
			d := time.Duration(*p.FreshMs) * time.Millisecond
			cfg.Freshness = &d
		}
		if p.FBI != nil {
			c := enc.Component{Typ: enc.TLNum(p.FBI.T), Val: p.FBI.V.bytes()}
			cfg.FinalBlockID = &c
		}
		e, merr := sp.MakeData(name, cfg, blobsToWire(p.Content), signer)
		if merr != nil {
			b.refused = merr
			return b, nil
		}
		b.wire, b.covered = e.Wire, e.SigCovered
	}
	b.nEncBufs = len(b.wire)
	b.joined = append([]byte(nil), b.wire.Join()...)
	if b.rec != nil {
		// ... and the packet just built must not depend on what the signer does next: sign two
		// more packets with the same object and look at the first again (seeded defect C12-r3-1:
		// a signer that returns a slice of its own scratch buffer as the signature value, which
		// the encoder places in the wire without copying).
		warmUp(p.Kind, b.rec.inner)
		warmUp(map[string]string{"I": "D", "D": "I"}[p.Kind], b.rec.inner)
		if now := b.wire.Join(); !bytes.Equal(now, b.joined) {
			i := 0
			for i < len(now) && i < len(b.joined) && now[i] == b.joined[i] {
				i++
			}
			return b, fmt.Errorf("the encoded packet changed (first at byte %d of %d) after the same signer object signed other packets: the packet shares memory with the signer", i, len(b.joined))
		}
	}
	return b, nil
}

// ---------------------------------------------------------------------------- views (what a packet says)

// view is the content of a packet in comparable form, produced (1) from the case = what
// went in, (2) by the reference decoder from the bytes, (3) from what the API decoders return.
type view struct {
	kind      string
	name      string
	cbp, mbf  bool
	hints     []string
	hintsElem int // -1 unknown (API), 0 absent, 1 present
	nonce     *uint64
	lifeMs    *int64
	hop       *uint64
	paramsOn  bool
	params    []byte
	ctype     *uint64
	freshMs   *int64
	fbi       *string
	contentOn int // -1 unknown/tolerated, 0 absent, 1 present
	content   []byte
	signed    bool
	sigType   int64
	keyName   *string
	sigNonce  []byte
	sigTimeMs *int64
	sigSeq    *uint64
	notBefore string
	notAfter  string
	sigValue  []byte
}

func nameStr(n enc.Name) string {
	if len(n) == 0 {
		return "/"
	}
	var out []byte
	for _, c := range n {
		out = append(out, '/')
		out = strconv.AppendUint(out, uint64(c.Typ), 10)
		out = append(out, '=')
		out = hex.AppendEncode(out, c.Val)
	}
	return string(out)
}

func short(s string) string {
	if len(s) > 120 {
		return fmt.Sprintf("%s...(%d chars)...%s", s[:50], len(s), s[len(s)-50:])
	}
	return s
}

func shortB(b []byte) string {
	if len(b) > 48 {
		return fmt.Sprintf("%x...(%d bytes)...%x", b[:16], len(b), b[len(b)-16:])
	}
	return fmt.Sprintf("%x", b)
}

func p64(p *uint64) string {
	if p == nil {
		return "absent"
	}
	return fmt.Sprint(*p)
}

func pi64(p *int64) string {
	if p == nil {
		return "absent"
	}
	return fmt.Sprint(*p)
}

func pstr(p *string) string {
	if p == nil {
		return "absent"
	}
	return short(*p)
}

func eqP64(a, b *uint64) bool { return (a == nil) == (b == nil) && (a == nil || *a == *b) }
func eqPi64(a, b *int64) bool { return (a == nil) == (b == nil) && (a == nil || *a == *b) }
func eqPstr(a, b *string) bool {
	return (a == nil) == (b == nil) && (a == nil || *a == *b)
}

// diff returns "" if got says the same as want, else the first difference.
func (want *view) diff(got *view) string {
	if want.kind != got.kind {
		return fmt.Sprintf("packet kind: want %s, got %s", want.kind, got.kind)
	}
	if want.name != got.name {
		return fmt.Sprintf("name: want %s, got %s", short(want.name), short(got.name))
	}
	if want.kind == "I" {
		if want.cbp != got.cbp {
			return fmt.Sprintf("CanBePrefix: want %v, got %v", want.cbp, got.cbp)
		}
		if want.mbf != got.mbf {
			return fmt.Sprintf("MustBeFresh: want %v, got %v", want.mbf, got.mbf)
		}
		if len(want.hints) != len(got.hints) {
			return fmt.Sprintf("forwarding hints: want %d names, got %d", len(want.hints), len(got.hints))
		}
		for i := range want.hints {
			if want.hints[i] != got.hints[i] {
				return fmt.Sprintf("forwarding hint %d: want %s, got %s", i, short(want.hints[i]), short(got.hints[i]))
			}
		}
		// (whether an empty hint list is encoded as an empty element or left out is not
		// something the property speaks about: hintsElem is only classified)
		if !eqP64(want.nonce, got.nonce) {
			return fmt.Sprintf("nonce: want %s, got %s", p64(want.nonce), p64(got.nonce))
		}
		if !eqPi64(want.lifeMs, got.lifeMs) {
			return fmt.Sprintf("lifetime (ms): want %s, got %s", pi64(want.lifeMs), pi64(got.lifeMs))
		}
		if !eqP64(want.hop, got.hop) {
			return fmt.Sprintf("hop limit: want %s, got %s", p64(want.hop), p64(got.hop))
		}
		if want.paramsOn != got.paramsOn {
			return fmt.Sprintf("ApplicationParameters presence: want %v, got %v", want.paramsOn, got.paramsOn)
		}
		if !bytes.Equal(want.params, got.params) {
			return fmt.Sprintf("ApplicationParameters: want %s, got %s", shortB(want.params), shortB(got.params))
		}
	} else {
		if !eqP64(want.ctype, got.ctype) {
			return fmt.Sprintf("content type: want %s, got %s", p64(want.ctype), p64(got.ctype))
		}
		if !eqPi64(want.freshMs, got.freshMs) {
			return fmt.Sprintf("freshness (ms): want %s, got %s", pi64(want.freshMs), pi64(got.freshMs))
		}
		if !eqPstr(want.fbi, got.fbi) {
			return fmt.Sprintf("FinalBlockId: want %s, got %s", pstr(want.fbi), pstr(got.fbi))
		}
		if !bytes.Equal(want.content, got.content) {
			return fmt.Sprintf("content: want %s, got %s", shortB(want.content), shortB(got.content))
		}
	}
	if want.signed != got.signed {
		return fmt.Sprintf("signature presence: want %v, got %v", want.signed, got.signed)
	}
	if want.signed {
		if want.sigType != got.sigType {
			return fmt.Sprintf("signature type: want %d, got %d", want.sigType, got.sigType)
		}
		if !eqPstr(want.keyName, got.keyName) {
			return fmt.Sprintf("key locator name: want %s, got %s", pstr(want.keyName), pstr(got.keyName))
		}
		if !bytes.Equal(want.sigNonce, got.sigNonce) {
			return fmt.Sprintf("signature nonce: want %x, got %x", want.sigNonce, got.sigNonce)
		}
		if !eqPi64(want.sigTimeMs, got.sigTimeMs) {
			return fmt.Sprintf("signature time (ms): want %s, got %s", pi64(want.sigTimeMs), pi64(got.sigTimeMs))
		}
		if !eqP64(want.sigSeq, got.sigSeq) {
			return fmt.Sprintf("signature sequence number: want %s, got %s", p64(want.sigSeq), p64(got.sigSeq))
		}
		if want.notBefore != got.notBefore || want.notAfter != got.notAfter {
			return fmt.Sprintf("validity period: want %s..%s, got %s..%s", want.notBefore, want.notAfter, got.notBefore, got.notAfter)
		}
		if !bytes.Equal(want.sigValue, got.sigValue) {
			return fmt.Sprintf("signature value: want %s, got %s", shortB(want.sigValue), shortB(got.sigValue))
		}
	}
	return ""
}

const timeFmt = "20060102T150405" // ISO 8601 basic format used by ValidityPeriod

// expected builds the view of what went in. finalName is the name the encoded packet must
// carry (Interest: input name without a trailing parameters-digest component, plus the
// digest component computed by the harness when parameters are present).
func (b *built) expected(finalName string) *view {
	p := b.p
	v := &view{kind: p.Kind, name: finalName, hintsElem: 0, contentOn: -1}
	if p.Kind == "I" {
		v.cbp, v.mbf = p.CBP, p.MBF
		if p.Hints != nil {
			v.hintsElem = 1
			for _, h := range *p.Hints {
				v.hints = append(v.hints, nameStr(h.toEnc()))
			}
		}
		v.nonce, v.lifeMs = p.Nonce, p.LifeMs
		if p.Hop != nil {
			h := uint64(*p.Hop)
			v.hop = &h
		}
		v.paramsOn = p.Params != nil
		v.params = blobsJoin(p.Params)
	} else {
		v.ctype, v.freshMs = p.CType, p.FreshMs
		if p.FBI != nil {
			s := fmt.Sprintf("%d=%x", p.FBI.T, p.FBI.V.bytes())
			v.fbi = &s
		}
		v.content = blobsJoin(p.Content)
		if p.Content != nil {
			v.contentOn = 1
		} else {
			v.contentOn = 0
		}
	}
	if b.rec != nil && b.rec.cfg != nil && b.rec.cfg.Type != ndn.SignatureNone {
		c := b.rec.cfg
		v.signed = true
		v.sigType = int64(c.Type)
		v.sigValue = b.rec.value
		if p.Kind == "I" {
			if c.Type != ndn.SignatureDigestSha256 && c.KeyName != nil {
				s := nameStr(c.KeyName)
				v.keyName = &s
			}
			v.sigNonce = c.Nonce
			if c.SigTime != nil {
				ms := c.SigTime.UnixMilli()
				v.sigTimeMs = &ms
			}
			v.sigSeq = c.SeqNum
		} else {
			if c.KeyName != nil {
				s := nameStr(c.KeyName)
				v.keyName = &s
			}
			if c.NotBefore != nil && c.NotAfter != nil {
				v.notBefore = c.NotBefore.UTC().Format(timeFmt)
				v.notAfter = c.NotAfter.UTC().Format(timeFmt)
			}
		}
	}
	return v
}

// ---------------------------------------------------------------------------- reference decoder (walker)

type refPacket struct {
	root      *tw.Node
	v         *view
	nameNode  *tw.Node
	paramsN   *tw.Node
	sigInfoN  *tw.Node
	sigValueN *tw.Node
}

func nodeName(buf []byte, n *tw.Node) (string, error) {
	if len(n.Children) == 0 {
		return "/", nil
	}
	var out []byte
	for _, c := range n.Children {
		if c.Type == 0 {
			return "", fmt.Errorf("name component with type 0 at offset %d", c.Off)
		}
		out = append(out, '/')
		out = strconv.AppendUint(out, c.Type, 10)
		out = append(out, '=')
		out = hex.AppendEncode(out, c.Value(buf))
	}
	return string(out), nil
}

func nni(buf []byte, n *tw.Node) (uint64, error) {
	v, _, err := tw.ParseNNI(n.Value(buf))
	if err != nil {
		return 0, fmt.Errorf("element %#x at offset %d: %v (length %d)", n.Type, n.Off, err, n.Len)
	}
	return v, nil
}

// ordered checks that the children of n have known, non-repeated types appearing in the
// order the packet specification fixes.
func ordered(n *tw.Node, order []uint64) error {
	rank := map[uint64]int{}
	for i, t := range order {
		rank[t] = i
	}
	last := -1
	for _, c := range n.Children {
		r, ok := rank[c.Type]
		if !ok {
			return fmt.Errorf("element %#x holds an unexpected element of type %#x at offset %d", n.Type, c.Type, c.Off)
		}
		if r <= last {
			return fmt.Errorf("element %#x: child type %#x at offset %d is repeated or out of the order fixed by the packet format", n.Type, c.Type, c.Off)
		}
		last = r
	}
	return nil
}

var interestOrder = []uint64{tw.TName, tw.TCanBePrefix, tw.TMustBeFresh, tw.TForwardingHint, tw.TNonce, tw.TInterestLifetime, tw.THopLimit, tw.TAppParameters, tw.TInterestSigInfo, tw.TInterestSigValue}
var dataOrder = []uint64{tw.TName, tw.TMetaInfo, tw.TContent, tw.TSignatureInfo, tw.TSignatureValue}
var metaOrder = []uint64{tw.TContentType, tw.TFreshnessPeriod, tw.TFinalBlockId}
var sigInfoKnown = []uint64{tw.TSignatureType, tw.TKeyLocator, tw.TSignatureNonce, tw.TSignatureTime, tw.TSignatureSeqNum, tw.TValidityPeriod}

// refDecode checks well-formedness (shortest forms, exact nesting, nothing trailing, element
// order) with the independent walker and reads the packet's content from the tree.
func refDecode(buf []byte) (*refPacket, error) {
	root, err := tw.Check(buf, tw.NDNContainer)
	if err != nil {
		return nil, fmt.Errorf("not a well-formed TLV: %v", err)
	}
	rp := &refPacket{root: root, v: &view{hintsElem: 0, contentOn: 0}}
	v := rp.v
	switch root.Type {
	case tw.TInterest:
		v.kind = "I"
		if err := ordered(root, interestOrder); err != nil {
			return nil, err
		}
	case tw.TData:
		v.kind = "D"
		if err := ordered(root, dataOrder); err != nil {
			return nil, err
		}
	default:
		return nil, fmt.Errorf("outer element has type %#x, neither Interest nor Data", root.Type)
	}
	rp.nameNode = root.Child(tw.TName)
	if rp.nameNode == nil {
		return nil, fmt.Errorf("packet has no Name element")
	}
	if v.name, err = nodeName(buf, rp.nameNode); err != nil {
		return nil, err
	}
	var sigInfo, sigValue *tw.Node
	if v.kind == "I" {
		for _, c := range root.Children {
			switch c.Type {
			case tw.TCanBePrefix, tw.TMustBeFresh:
				if c.Len != 0 {
					return nil, fmt.Errorf("flag element %#x has a non-empty value", c.Type)
				}
				if c.Type == tw.TCanBePrefix {
					v.cbp = true
				} else {
					v.mbf = true
				}
			case tw.TForwardingHint:
				v.hintsElem = 1
				for _, h := range c.Children {
					if h.Type != tw.TName {
						return nil, fmt.Errorf("ForwardingHint holds element %#x", h.Type)
					}
					s, err := nodeName(buf, h)
					if err != nil {
						return nil, err
					}
					v.hints = append(v.hints, s)
				}
			case tw.TNonce:
				if c.Len != 4 {
					return nil, fmt.Errorf("Nonce has %d bytes, the packet format fixes 4", c.Len)
				}
				x, _ := nni(buf, c)
				v.nonce = &x
			case tw.TInterestLifetime:
				x, err := nni(buf, c)
				if err != nil {
					return nil, err
				}
				ms := int64(x)
				v.lifeMs = &ms
			case tw.THopLimit:
				if c.Len != 1 {
					return nil, fmt.Errorf("HopLimit has %d bytes, the packet format fixes 1", c.Len)
				}
				x := uint64(c.Value(buf)[0])
				v.hop = &x
			case tw.TAppParameters:
				v.paramsOn = true
				v.params = c.Value(buf)
				rp.paramsN = c
			case tw.TInterestSigInfo:
				sigInfo = c
			case tw.TInterestSigValue:
				sigValue = c
			}
		}
	} else {
		if m := root.Child(tw.TMetaInfo); m != nil {
			if err := ordered(m, metaOrder); err != nil {
				return nil, err
			}
			for _, c := range m.Children {
				switch c.Type {
				case tw.TContentType:
					x, err := nni(buf, c)
					if err != nil {
						return nil, err
					}
					v.ctype = &x
				case tw.TFreshnessPeriod:
					x, err := nni(buf, c)
					if err != nil {
						return nil, err
					}
					ms := int64(x)
					v.freshMs = &ms
				case tw.TFinalBlockId:
					if len(c.Children) != 1 {
						return nil, fmt.Errorf("FinalBlockId holds %d elements, must hold exactly one name component", len(c.Children))
					}
					s := fmt.Sprintf("%d=%x", c.Children[0].Type, c.Children[0].Value(buf))
					v.fbi = &s
				}
			}
		}
		if c := root.Child(tw.TContent); c != nil {
			v.contentOn = 1
			v.content = c.Value(buf)
		}
		sigInfo, sigValue = root.Child(tw.TSignatureInfo), root.Child(tw.TSignatureValue)
	}
	if (sigInfo == nil) != (sigValue == nil) {
		return nil, fmt.Errorf("packet has only one of SignatureInfo / SignatureValue")
	}
	rp.sigInfoN, rp.sigValueN = sigInfo, sigValue
	if sigInfo != nil {
		v.signed = true
		v.sigValue = sigValue.Value(buf)
		seen := map[uint64]bool{}
		for i, c := range sigInfo.Children {
			if seen[c.Type] {
				return nil, fmt.Errorf("SignatureInfo repeats element %#x", c.Type)
			}
			seen[c.Type] = true
			if i == 0 && c.Type != tw.TSignatureType {
				return nil, fmt.Errorf("SignatureInfo does not start with SignatureType")
			}
			switch c.Type {
			case tw.TSignatureType:
				x, err := nni(buf, c)
				if err != nil {
					return nil, err
				}
				v.sigType = int64(x)
			case tw.TKeyLocator:
				if len(c.Children) != 1 || c.Children[0].Type != tw.TName {
					return nil, fmt.Errorf("KeyLocator does not hold exactly one Name")
				}
				s, err := nodeName(buf, c.Children[0])
				if err != nil {
					return nil, err
				}
				v.keyName = &s
			case tw.TSignatureNonce:
				v.sigNonce = c.Value(buf)
			case tw.TSignatureTime:
				x, err := nni(buf, c)
				if err != nil {
					return nil, err
				}
				ms := int64(x)
				v.sigTimeMs = &ms
			case tw.TSignatureSeqNum:
				x, err := nni(buf, c)
				if err != nil {
					return nil, err
				}
				v.sigSeq = &x
			case tw.TValidityPeriod:
				nb, na := c.Child(tw.TNotBefore), c.Child(tw.TNotAfter)
				if nb == nil || na == nil || len(c.Children) != 2 {
					return nil, fmt.Errorf("ValidityPeriod does not hold exactly NotBefore and NotAfter")
				}
				v.notBefore, v.notAfter = string(nb.Value(buf)), string(na.Value(buf))
			default:
				return nil, fmt.Errorf("SignatureInfo holds an unexpected element of type %#x", c.Type)
			}
		}
		if !seen[tw.TSignatureType] {
			return nil, fmt.Errorf("SignatureInfo without SignatureType")
		}
	}
	return rp, nil
}

// signedPortion computes, from the packet format alone, the bytes a signature must cover:
// Data: Name through SignatureInfo; Interest: the name components except the
// parameters-digest component, then ApplicationParameters through InterestSignatureInfo.
//
// The packet format allows one parameters-digest component per name. A name that embeds
// another parameterised Interest's name carries two; then "except the digest component" has
// two readings -- all of them (everyDigest), or only this Interest's own, which the encoder
// appends last -- and the checks accept either as long as signer and parser agree.
func (rp *refPacket) signedPortion(buf []byte, everyDigest bool) []byte {
	if rp.sigValueN == nil {
		return nil
	}
	if rp.v.kind == "D" {
		return buf[rp.nameNode.Off:rp.sigValueN.Off]
	}
	var out []byte
	kids := rp.nameNode.Children
	for i, c := range kids {
		if c.Type == tw.TParamsDigest && (everyDigest || i == len(kids)-1) {
			continue
		}
		out = append(out, c.Bytes(buf)...)
	}
	return append(out, buf[rp.paramsN.Off:rp.sigValueN.Off]...)
}

// digestCount is the number of parameters-digest components in the name.
func (rp *refPacket) digestCount() int {
	n := 0
	for _, c := range rp.nameNode.Children {
		if c.Type == tw.TParamsDigest {
			n++
		}
	}
	return n
}

// ---------------------------------------------------------------------------- views of what the API decodes

func viewOfInterest(i ndn.Interest) *view {
	v := &view{kind: "I", hintsElem: -1, contentOn: -1}
	v.name = nameStr(i.Name())
	v.cbp, v.mbf = i.CanBePrefix(), i.MustBeFresh()
	for _, h := range i.ForwardingHint() {
		v.hints = append(v.hints, nameStr(h))
	}
	v.nonce = i.Nonce()
	if l := i.Lifetime(); l != nil {
		if *l%time.Millisecond != 0 {
			panic("harness: decoded lifetime is not a whole number of milliseconds")
		}
		ms := int64(*l / time.Millisecond)
		v.lifeMs = &ms
	}
	if h := i.HopLimit(); h != nil {
		x := uint64(*h)
		v.hop = &x
	}
	if ap := i.AppParam(); ap != nil {
		v.paramsOn = true
		v.params = append([]byte{}, ap.Join()...)
	}
	fillSig(v, i.Signature())
	return v
}

func viewOfData(d ndn.Data) *view {
	v := &view{kind: "D", hintsElem: -1, contentOn: -1}
	v.name = nameStr(d.Name())
	if ct := d.ContentType(); ct != nil {
		x := uint64(*ct)
		v.ctype = &x
	}
	if f := d.Freshness(); f != nil {
		ms := int64(*f / time.Millisecond)
		v.freshMs = &ms
	}
	if c := d.FinalBlockID(); c != nil {
		s := fmt.Sprintf("%d=%x", uint64(c.Typ), c.Val)
		v.fbi = &s
	}
	if c := d.Content(); c != nil {
		v.content = append([]byte{}, c.Join()...)
	}
	fillSig(v, d.Signature())
	return v
}

func fillSig(v *view, s ndn.Signature) {
	if s == nil || s.SigType() == ndn.SignatureNone {
		return
	}
	v.signed = true
	v.sigType = int64(s.SigType())
	if kn := s.KeyName(); kn != nil {
		str := nameStr(kn)
		v.keyName = &str
	}
	v.sigNonce = s.SigNonce()
	if t := s.SigTime(); t != nil {
		ms := t.UnixMilli()
		v.sigTimeMs = &ms
	}
	v.sigSeq = s.SigSeqNum()
	if nb, na := s.Validity(); nb != nil && na != nil {
		v.notBefore, v.notAfter = nb.UTC().Format(timeFmt), na.UTC().Format(timeFmt)
	}
	v.sigValue = append([]byte(nil), s.SigValue()...)
}

// decoded is what one decoding call of the API returned.
type decoded struct {
	v       *view
	covered []byte
	// coveredWire: the signed ranges exactly as the decoder returned them (views into the
	// bytes it was given), not copied
	coveredWire enc.Wire
	ncov        int
	sig         ndn.Signature
	err         error // decode error or recovered panic
	panicked    bool
}

// decode runs one of the API decoders (how = "ReadInterest/ReadData" | "ReadPacket").
func decode(kind, how string, r enc.ParseReader) (d decoded) { return decodeOpt(kind, how, r, true) }

// decodeOpt with withView=false skips building the comparable view (tamper loop).
func decodeOpt(kind, how string, r enc.ParseReader, withView bool) (d decoded) {
	defer func() {
		if rec := recover(); rec != nil {
			d = decoded{err: fmt.Errorf("panic: %v", rec), panicked: true}
		}
	}()
	sp := spec.Spec{}
	var cov enc.Wire
	if how == "ReadPacket" {
		pkt, ctx, err := spec.ReadPacket(r)
		if err != nil {
			return decoded{err: err}
		}
		switch {
		case kind == "I" && pkt.Interest != nil:
			d.v, d.sig = viewOfInterest(pkt.Interest), pkt.Interest.Signature()
			cov = ctx.Interest_context.SigCovered()
		case kind == "D" && pkt.Data != nil:
			d.v, d.sig = viewOfData(pkt.Data), pkt.Data.Signature()
			cov = ctx.Data_context.SigCovered()
		default:
			return decoded{err: fmt.Errorf("ReadPacket returned a packet of another kind")}
		}
	} else if kind == "I" {
		i, c, err := sp.ReadInterest(r)
		if err != nil {
			return decoded{err: err}
		}
		d.sig, cov = i.Signature(), c
		if withView {
			d.v = viewOfInterest(i)
		}
	} else {
		dd, c, err := sp.ReadData(r)
		if err != nil {
			return decoded{err: err}
		}
		d.sig, cov = dd.Signature(), c
		if withView {
			d.v = viewOfData(dd)
		}
	}
	d.ncov = len(cov)
	d.covered = append([]byte{}, cov.Join()...)
	d.coveredWire = cov
	return d
}

// ---------------------------------------------------------------------------- segmentation

// Cut selects one cut point of the encoded bytes symbolically, because the bytes only
// exist once the code under test has run: "hdr" = strictly inside the A-th TLV header
// (walker order, modulo), "edge" = at the A-th element boundary plus B (-1,0,+1), "abs" =
// at A per mille of the length.
type Cut struct {
	K string `json:"k"`
	A int    `json:"a"`
	B int    `json:"b,omitempty"`
}

func genCuts(t *rapid.T, max int) []Cut {
	n := rapid.IntRange(0, max).Draw(t, "ncuts")
	out := make([]Cut, n)
	for i := range out {
		switch rapid.IntRange(0, 9).Draw(t, "cutKind") {
		case 0, 1, 2, 3, 4:
			out[i] = Cut{K: "hdr", A: rapid.IntRange(0, 4000).Draw(t, "hdrIdx")}
		case 5, 6, 7:
			out[i] = Cut{K: "edge", A: rapid.IntRange(0, 4000).Draw(t, "edgeIdx"), B: rapid.IntRange(-1, 1).Draw(t, "edgeDelta")}
		default:
			out[i] = Cut{K: "abs", A: rapid.IntRange(0, 1000).Draw(t, "permille")}
		}
	}
	return out
}

// resolveCuts turns symbolic cuts into sorted distinct interior offsets. roots may be nil
// (then only "abs" cuts resolve). It also reports how many cuts fall inside a TLV header.
func resolveCuts(cuts []Cut, n int, roots []*tw.Node) (offs []int, inHeader int) {
	var hdr, edges []int
	if len(roots) > 0 {
		hdr = tw.HeaderInteriorOffsets(roots...)
		for _, r := range roots {
			for _, x := range r.Flatten() {
				edges = append(edges, x.Off, x.ValOff, x.End)
			}
		}
	}
	// the early headers are few but matter most; bias small indices towards the front
	seen := map[int]bool{}
	for _, c := range cuts {
		o := -1
		switch c.K {
		case "hdr":
			if len(hdr) > 0 {
				o = hdr[c.A%len(hdr)]
			}
		case "edge":
			if len(edges) > 0 {
				o = edges[c.A%len(edges)] + c.B
			}
		default:
			o = int(int64(c.A) * int64(n) / 1000)
		}
		if o > 0 && o < n && !seen[o] {
			seen[o] = true
			offs = append(offs, o)
		}
	}
	sort.Ints(offs)
	hset := map[int]bool{}
	for _, h := range hdr {
		hset[h] = true
	}
	for _, o := range offs {
		if hset[o] {
			inHeader++
		}
	}
	return offs, inHeader
}

// segment splits a private copy of buf at offs (every segment non-empty).
func segment(buf []byte, offs []int) enc.Wire {
	cp := append([]byte(nil), buf...)
	var w enc.Wire
	p := 0
	for _, o := range offs {
		w = append(w, cp[p:o:o])
		p = o
	}
	return append(w, cp[p:])
}

// ---------------------------------------------------------------------------- generators

var boundaryLens = []int{0, 1, 2, 31, 32, 33, 100, 252, 253, 254, 255, 256, 257, 300}
var hugeLens = []int{65535, 65536, 65537, 70000}

func genLen(t *rapid.T, allowHuge bool) int {
	switch k := rapid.IntRange(0, 19).Draw(t, "lenKind"); {
	case k < 8:
		return rapid.IntRange(0, 8).Draw(t, "small")
	case k < 18:
		return rapid.SampledFrom(boundaryLens).Draw(t, "boundary")
	case k == 18 && allowHuge:
		return rapid.SampledFrom(hugeLens).Draw(t, "huge")
	default:
		return rapid.IntRange(0, 600).Draw(t, "mid")
	}
}

func genBlob(t *rapid.T, allowHuge bool) Blob {
	n := genLen(t, allowHuge)
	if n == 0 {
		return Blob{Nil: rapid.Bool().Draw(t, "nilEmpty")}
	}
	if n <= 8 && rapid.Bool().Draw(t, "explicit") {
		return Blob{X: hex.EncodeToString(rapid.SliceOfN(rapid.Byte(), n, n).Draw(t, "bytes"))}
	}
	return Blob{N: n, S: rapid.Byte().Draw(t, "seed")}
}

var compTypes = []uint64{1, 2, 8, 8, 8, 8, 8, 8, 32, 50, 52, 54, 56, 58, 252, 253, 254, 65535, 65536, 1<<32 - 1}

func genComp(t *rapid.T, allowHuge bool, noDigest bool) Comp {
	typ := rapid.SampledFrom(compTypes).Draw(t, "ctype")
	if noDigest && typ == tw.TParamsDigest {
		typ = 8
	}
	return Comp{T: typ, V: genBlob(t, allowHuge)}
}

// solveCompLen finds n such that a generic (1-byte type) component with an n-byte value
// encodes to exactly size bytes; ok=false if impossible (size in a gap).
func solveCompLen(size int) (int, bool) {
	for _, hdr := range []int{2, 4, 6} {
		n := size - hdr
		if n >= 0 && 1+tw.VarNumSize(uint64(n)) == hdr {
			return n, true
		}
	}
	return 0, false
}

var nameTargets = []int{251, 252, 253, 254, 255, 256, 65534, 65535, 65536, 65537}

// genName draws 0..maxComps components; sometimes it then pads the name with one generic
// component so that the encoded name value has a length right at a var-number boundary.
func genName(t *rapid.T, maxComps int, allowHuge, noDigest bool) Name {
	k := rapid.IntRange(0, maxComps).Draw(t, "ncomp")
	if maxComps >= 5 && rapid.IntRange(0, 13).Draw(t, "manyComps") == 0 {
		// a name made of many short components (decoders that size or cap their component slice
		// from a guess; seeded C12-r5-1 capped the Interest name parser at 32 components)
		k = rapid.SampledFrom([]int{15, 16, 17, 30, 31, 32, 33, 34, 63, 64, 65, 130}).Draw(t, "ncompMany")
		n := make(Name, 0, k)
		for i := 0; i < k; i++ {
			n = append(n, Comp{T: 8, V: Blob{N: rapid.IntRange(0, 2).Draw(t, "shortLen"), S: byte(i)}})
		}
		return n
	}
	n := make(Name, 0, k+1)
	for i := 0; i < k; i++ {
		// at most one huge component per name keeps cases affordable
		n = append(n, genComp(t, allowHuge && n.maxCompLen() < 60000, noDigest))
	}
	if rapid.IntRange(0, 7).Draw(t, "fit") == 0 {
		tg := nameTargets
		if !allowHuge {
			tg = nameTargets[:6]
		}
		target := rapid.SampledFrom(tg).Draw(t, "nameTarget")
		if rem := target - n.valueLen(); rem >= 2 {
			if l, ok := solveCompLen(rem); ok {
				pad := Comp{T: 8, V: Blob{N: l, S: rapid.Byte().Draw(t, "padSeed")}}
				pos := rapid.IntRange(0, len(n)).Draw(t, "padPos")
				n = append(n, Comp{})
				copy(n[pos+1:], n[pos:])
				n[pos] = pad
			}
		}
	}
	return n
}

func ptr[T any](v T) *T { return &v }

var msValues = []int64{0, 1, 2, 255, 256, 257, 4000, 65535, 65536, 65537, 1<<32 - 1, 1 << 32, 1<<32 + 1, 9223372036854}
var u64Values = []uint64{0, 1, 2, 3, 255, 256, 65535, 65536, 1<<32 - 1, 1 << 32, 1<<63 - 1, 1 << 63, 1<<64 - 1}

func genBlobs(t *rapid.T, allowHuge bool) *[]Blob {
	switch rapid.IntRange(0, 9).Draw(t, "wireKind") {
	case 0:
		return &[]Blob{} // non-nil wire without buffers
	case 1, 2, 3, 4:
		return &[]Blob{genBlob(t, allowHuge)}
	default:
		k := rapid.IntRange(2, 5).Draw(t, "nbuf")
		out := make([]Blob, k)
		huge := allowHuge
		for i := range out {
			out[i] = genBlob(t, huge)
			if out[i].N >= 60000 {
				huge = false
			}
		}
		return &out
	}
}

func genSigner(t *rapid.T, kind string) Signer {
	var s Signer
	// weights: asymmetric signers are ~1 ms each, keep them a minority
	dataKinds := []string{"", "", "", "", "", "", "sha", "sha", "sha", "sha", "hmac", "hmac", "hmac", "hmac", "hmac", "ecdsa", "ecdsa", "ecdsa", "rsa", "rsa", "shaInt", "hmacInt"}
	intKinds := []string{"", "", "", "shaInt", "shaInt", "hmacInt", "hmacInt", "sha", "hmac", "ecdsa", "ecdsa", "rsa"}
	if kind == "D" {
		s.Kind = rapid.SampledFrom(dataKinds).Draw(t, "signer")
	} else {
		s.Kind = rapid.SampledFrom(intKinds).Draw(t, "signer")
	}
	switch s.Kind {
	case "hmac", "hmacInt":
		switch rapid.IntRange(0, 5).Draw(t, "keyKind") {
		case 0:
			s.Key = Blob{}
		case 1:
			s.Key = Blob{N: rapid.SampledFrom([]int{63, 64, 65, 252, 253, 300}).Draw(t, "keyLen"), S: rapid.Byte().Draw(t, "keySeed")}
		default:
			s.Key = Blob{N: rapid.SampledFrom([]int{1, 2, 16, 31, 32, 33, 40, 63, 64, 65, 128, 200}).Draw(t, "keyLen"), S: rapid.Byte().Draw(t, "keySeed")}
		}
	}
	switch s.Kind {
	case "hmac", "ecdsa", "rsa":
		if rapid.IntRange(0, 5).Draw(t, "hasKeyName") > 0 {
			kn := genName(t, 3, false, false)
			s.KeyName = &kn
		}
		if kind == "D" {
			s.ForCert = rapid.IntRange(0, 3).Draw(t, "forCert") == 0
		} else {
			s.ForCert = rapid.IntRange(0, 11).Draw(t, "forCert") == 0
		}
		if s.ForCert {
			s.ExpireS = rapid.SampledFrom([]int64{0, 1, 3600, 86400 * 365}).Draw(t, "expire")
		}
	}
	if s.Kind == "ecdsa" {
		s.Curve = rapid.SampledFrom([]string{"", "", "", "p224", "p384", "p521"}).Draw(t, "curve")
	}
	if s.Kind == "ecdsa" || s.Kind == "rsa" {
		if kind == "I" {
			s.ForInt = rapid.IntRange(0, 5).Draw(t, "forInt") > 0
		} else {
			s.ForInt = rapid.IntRange(0, 11).Draw(t, "forInt") == 0
		}
	}
	if s.Kind == "shaInt" || s.Kind == "hmacInt" {
		s.NowMs = rapid.SampledFrom([]int64{0, 1, 255, 256, 65536, 1727136000000, 1<<32 - 1, 1 << 32, 1 << 40, 9223372036854}).Draw(t, "now")
		s.TNonce = Blob{X: hex.EncodeToString(rapid.SliceOfN(rapid.Byte(), 0, 9).Draw(t, "tnonce"))}
		if s.TNonce.X == "" {
			s.TNonce.Nil = rapid.Bool().Draw(t, "nilNonce")
		}
	}
	return s
}

// genPkt draws an Interest or a Data. allowHuge permits lengths around 65536.
func genPkt(t *rapid.T, allowHuge bool) Pkt {
	p := Pkt{Kind: rapid.SampledFrom([]string{"I", "D"}).Draw(t, "kind")}
	if p.Kind == "I" {
		if rapid.IntRange(0, 9).Draw(t, "hasParams") < 6 {
			p.Params = genBlobs(t, allowHuge)
		}
		// Interest names hold no parameters-digest component of their own, except a
		// trailing one (below): the packet format allows that component only together
		// with ApplicationParameters, at most once, and the API computes it itself
		// ("/test/params-sha256=.../ndn is not supported yet", spec_test.go)
		p.Name = genName(t, 5, allowHuge, true)
		if rapid.IntRange(0, 9).Draw(t, "trailingDigest") == 0 {
			// re-encoding a received Interest: the name already ends in a digest component
			p.Name = append(p.Name, Comp{T: tw.TParamsDigest, V: Blob{N: 32, S: rapid.Byte().Draw(t, "oldDigest")}})
		}
		p.CBP = rapid.Bool().Draw(t, "cbp")
		p.MBF = rapid.Bool().Draw(t, "mbf")
		if rapid.IntRange(0, 2).Draw(t, "hasHints") == 0 {
			k := rapid.IntRange(0, 3).Draw(t, "nhints")
			hs := make([]Name, k)
			for i := range hs {
				hs[i] = genName(t, 3, allowHuge && i == 0, false)
			}
			p.Hints = &hs
		}
		if rapid.Bool().Draw(t, "hasNonce") {
			p.Nonce = ptr(rapid.SampledFrom([]uint64{0, 1, 255, 256, 0x01020304, 0xfffffffe, 0xffffffff}).Draw(t, "nonce"))
		}
		if rapid.Bool().Draw(t, "hasLife") {
			p.LifeMs = ptr(rapid.SampledFrom(msValues).Draw(t, "life"))
		}
		if rapid.Bool().Draw(t, "hasHop") {
			p.Hop = ptr(rapid.SampledFrom([]uint{0, 1, 127, 128, 254, 255}).Draw(t, "hop"))
		}
	} else {
		p.Name = genName(t, 5, allowHuge, false)
		if rapid.Bool().Draw(t, "hasCType") {
			p.CType = ptr(rapid.SampledFrom(u64Values).Draw(t, "ctype"))
		}
		if rapid.Bool().Draw(t, "hasFresh") {
			p.FreshMs = ptr(rapid.SampledFrom(msValues).Draw(t, "fresh"))
		}
		if rapid.IntRange(0, 2).Draw(t, "hasFBI") == 0 {
			c := genComp(t, false, false)
			p.FBI = &c
		}
		if rapid.IntRange(0, 9).Draw(t, "hasContent") < 8 {
			p.Content = genBlobs(t, allowHuge)
		}
	}
	p.Sig = genSigner(t, p.Kind)
	if p.Kind == "I" && p.Sig.Kind != "" && p.Params == nil && rapid.IntRange(0, 9).Draw(t, "signedNeedsParams") > 0 {
		p.Params = genBlobs(t, false) // a signed Interest must carry (possibly empty) parameters
		p.Name = stripMidDigest(p.Name)
	}
	if p.Kind == "I" && p.Params != nil && len(p.Name) >= 2 && rapid.IntRange(0, 7).Draw(t, "embeddedDigest") == 0 {
		// a name that embeds another parameterised Interest's name, digest component included
		// (a relay / encapsulation pattern): the encoder appends this Interest's own digest as
		// the last component, and signer and parser must agree on where the signed name ends
		i := rapid.IntRange(0, len(p.Name)-2).Draw(t, "embeddedAt")
		p.Name = append(Name(nil), p.Name...)
		p.Name[i] = Comp{T: tw.TParamsDigest, V: Blob{N: 32, S: rapid.Byte().Draw(t, "embeddedSeed")}}
	}
	if rapid.IntRange(0, 5).Draw(t, "padPacket") == 0 {
		p = padPacket(t, p)
	}
	return p
}

func stripMidDigest(n Name) Name {
	out := append(Name(nil), n...)
	for i := 0; i+1 < len(out); i++ {
		if out[i].T == tw.TParamsDigest {
			out[i].T = 8
		}
	}
	return out
}

func tlvSize(n int) int { return 1 + tw.VarNumSize(uint64(n)) + n }

func nniSize(v uint64) int { return len(tw.EncodeNNI(v)) }

// estValueLen estimates (generator heuristic only, never used by an oracle) the length of
// the outer element's value before the signature is filled in.
func estValueLen(p Pkt) int {
	blobsLen := func(bs *[]Blob) int {
		l := 0
		for _, b := range *bs {
			l += b.size()
		}
		return l
	}
	l := 0
	nameLen := p.baseName().valueLen()
	if p.Kind == "I" {
		if p.Params != nil {
			nameLen += 34
		}
		l += tlvSize(nameLen)
		if p.CBP {
			l += 2
		}
		if p.MBF {
			l += 2
		}
		if p.Hints != nil {
			h := 0
			for _, n := range *p.Hints {
				h += tlvSize(n.valueLen())
			}
			l += tlvSize(h)
		}
		if p.Nonce != nil {
			l += 6
		}
		if p.LifeMs != nil {
			l += 2 + nniSize(uint64(*p.LifeMs))
		}
		if p.Hop != nil {
			l += 3
		}
		if p.Params != nil {
			l += tlvSize(blobsLen(p.Params))
		}
	} else {
		l += tlvSize(nameLen)
		m := 0
		if p.CType != nil {
			m += 2 + nniSize(*p.CType)
		}
		if p.FreshMs != nil {
			m += 2 + nniSize(uint64(*p.FreshMs))
		}
		if p.FBI != nil {
			m += tlvSize(tw.VarNumSize(p.FBI.T) + tw.VarNumSize(uint64(p.FBI.V.size())) + p.FBI.V.size())
		}
		l += tlvSize(m)
		if p.Content != nil {
			l += tlvSize(blobsLen(p.Content))
		}
	}
	s := p.Sig
	if s.Kind != "" && p.expectedRefusal() == "" {
		si := 3
		switch {
		case s.Kind == "hmacInt":
			si += tlvSize(tlvSize(tlvSize(s.Key.size()) - 0))
		case s.KeyName != nil && s.Kind != "sha" && s.Kind != "shaInt":
			si += tlvSize(tlvSize(s.KeyName.valueLen()))
		}
		if s.Kind == "shaInt" || s.Kind == "hmacInt" {
			si += 2 + s.TNonce.size() + 2 + nniSize(uint64(s.NowMs)) + 3
		} else if s.intFlavour() {
			si += 2 + 8 + 2 + 8 + 3
		}
		if s.certFlavour() {
			si += 4 + 2*(3+1+15)
		}
		l += tlvSize(si)
		switch s.Kind {
		case "ecdsa":
			l += tlvSize(72)
		case "rsa":
			l += tlvSize(256)
		default:
			l += tlvSize(32)
		}
	}
	return l
}

var packetTargets = []int{250, 251, 252, 253, 254, 255, 256, 257, 258, 65535, 65536, 65537, 65538}

// padPacket resizes the first content/parameter buffer so that the outer length lands on a
// var-number boundary (where ShrinkLength has to shorten the outer header when the real
// signature is shorter than the estimate).
func padPacket(t *rapid.T, p Pkt) Pkt {
	tg := packetTargets[:9]
	if rapid.IntRange(0, 9).Draw(t, "padHuge") == 0 {
		tg = packetTargets
	}
	target := rapid.SampledFrom(tg).Draw(t, "packetTarget")
	if rapid.Bool().Draw(t, "padWithEcdsa") {
		// ECDSA signatures are 70..72 bytes against an estimate of 72: the only shipped
		// signer whose signature can be shorter than estimated
		kn := Name{{T: 8, V: Blob{X: "6b"}}}
		p.Sig = Signer{Kind: "ecdsa", KeyName: &kn, ForInt: p.Kind == "I"}
		if p.Kind == "I" && p.Params == nil {
			p.Params = &[]Blob{{}}
			p.Name = stripMidDigest(p.Name)
		}
	}
	var bs *[]Blob
	if p.Kind == "I" {
		bs = p.Params
	} else {
		if p.Content == nil {
			p.Content = &[]Blob{{}}
		}
		bs = p.Content
	}
	if bs == nil {
		return p
	}
	if len(*bs) == 0 {
		*bs = []Blob{{}}
	}
	seed := rapid.Byte().Draw(t, "padSeed")
	(*bs)[0] = Blob{}
	for iter := 0; iter < 3; iter++ {
		cur := estValueLen(p)
		n := (*bs)[0].size() + target - cur
		if n < 0 {
			return p
		}
		(*bs)[0] = Blob{N: n, S: seed}
		if n == 0 {
			(*bs)[0] = Blob{}
		}
	}
	return p
}

// finalNameOf computes the name the encoded packet must carry, from the case alone: the
// API drops a trailing parameters-digest component of an Interest name and, when
// parameters are present, appends the digest (computed by the harness from the bytes).
func (p Pkt) baseName() Name {
	n := p.Name
	if p.Kind == "I" && len(n) > 0 && n[len(n)-1].T == tw.TParamsDigest {
		n = n[:len(n)-1]
	}
	return n
}

// classes common to C03 and C12
func (p Pkt) classes() []string {
	var cl []string
	if p.Kind == "I" {
		cl = append(cl, "interest")
		if p.Params != nil {
			cl = append(cl, "interest-with-parameters")
		}
		if len(p.Name) > 0 && p.Name[len(p.Name)-1].T == tw.TParamsDigest {
			cl = append(cl, "input-name-ends-in-digest-component")
		}
	} else {
		cl = append(cl, "data")
	}
	sk := p.Sig.Kind
	if sk == "" {
		sk = "none"
	}
	cl = append(cl, "signer-"+sk)
	return cl
}

func addCount(m map[string]int, k string, n int) map[string]int {
	if m == nil {
		m = map[string]int{}
	}
	m[k] += n
	return m
}

var _ = evid.Thorough
