#!/usr/bin/env python3
"""Mutation run for C03 / C12 (package pkt) and C14 (package names).

  python3 harness/pkt/mutants.py <worktree> [name-filter]

Plants each mutant in the given scratch worktree of the repository (which must be clean),
runs ./check <property> --tier quick against it, reports which unit caught it, and restores
the worktree with `git checkout -- .`. Never run it on /repo itself.
"""
import os, re, subprocess, sys, time

VERIF = os.path.dirname(os.path.dirname(os.path.dirname(os.path.abspath(__file__))))

GEN = "std/ndn/spec_2022/zz_generated.go"
SPEC = "std/ndn/spec_2022/spec.go"
PRIM = "std/encoding/primitives.go"
RD = "std/encoding/readers.go"
NC = "std/encoding/name_component.go"
NP = "std/encoding/name_pattern.go"
KV = "std/security/known-key-validator.go"
HM = "std/security/hmac-signer.go"
RSA = "std/security/rsa-signer.go"

# (name, property, [(file, old, new, occurrence-index or None for "must be unique")])
M = [
 # ------------------------------------------------------------------ C03
 ("c03-swap-encoder-fields-cbp-mbf", "C03", [(GEN, "\t\tbuf[pos] = byte(33)\n", "\t\tbuf[pos] = byte(18)\n", 0), (GEN, "\tif value.MustBeFreshV {\n\t\tbuf[pos] = byte(18)\n", "\tif value.MustBeFreshV {\n\t\tbuf[pos] = byte(33)\n", None)]),
 ("c03-swap-fields-symmetric-ctype-fresh", "C03", [(GEN, "\t\tbuf[pos] = byte(24)\n", "\t\tbuf[pos] = byte(25)\n", 0), (GEN, "\t\tbuf[pos] = byte(25)\n", "\t\tbuf[pos] = byte(24)\n", 1),
    (GEN, "\t\t\tcase 24:\n\t\t\t\tif true {\n\t\t\t\t\thandled = true\n\t\t\t\t\thandled_ContentType", "\t\t\tcase 25:\n\t\t\t\tif true {\n\t\t\t\t\thandled = true\n\t\t\t\t\thandled_ContentType", None),
    (GEN, "\t\t\tcase 25:\n\t\t\t\tif true {\n\t\t\t\t\thandled = true\n\t\t\t\t\thandled_FreshnessPeriod", "\t\t\tcase 24:\n\t\t\t\tif true {\n\t\t\t\t\thandled = true\n\t\t\t\t\thandled_FreshnessPeriod", None)]),
 ("c03-tlnum-encodinglength-boundary", "C03", [(PRIM, "func (v TLNum) EncodingLength() int {\n\tswitch x := uint64(v); {\n\tcase x <= 0xfc:", "func (v TLNum) EncodingLength() int {\n\tswitch x := uint64(v); {\n\tcase x <= 0xfd:", None)]),
 ("c03-tlnum-encodeinto-boundary", "C03", [(PRIM, "func (v TLNum) EncodeInto(buf Buffer) int {\n\tswitch x := uint64(v); {\n\tcase x <= 0xfc:", "func (v TLNum) EncodeInto(buf Buffer) int {\n\tswitch x := uint64(v); {\n\tcase x <= 0xfd:", None),
                                       (PRIM, "func (v TLNum) EncodingLength() int {\n\tswitch x := uint64(v); {\n\tcase x <= 0xfc:", "func (v TLNum) EncodingLength() int {\n\tswitch x := uint64(v); {\n\tcase x <= 0xfd:", None)]),
 ("c03-wirereader-readbuf-copy-offset", "C03", [(RD, "\t\t\t\tcur += len(r.wire[r.seg]) - r.pos\n", "", None)]),
 ("c03-wirereader-readwire-remaining", "C03", [(RD, "\t\t\tret = append(ret, r.wire[r.seg][r.pos:])\n\t\t\tl -= len(r.wire[r.seg]) - r.pos\n", "\t\t\tret = append(ret, r.wire[r.seg][r.pos:])\n\t\t\tl -= len(r.wire[r.seg])\n", None)]),
 ("c03-wirereader-delegate-start", "C03", [(RD, "\t\tnewWire[0] = newWire[0][startPos:]\n", "", None)]),
 ("c03-wirereader-skip-boundary", "C03", [(RD, "\tr.pos += n\n\tfor r.pos > len(r.wire[r.seg]) {", "\tr.pos += n\n\tfor r.pos >= len(r.wire[r.seg]) {", None)]),
 ("c03-wirereader-range-endpos", "C03", [(RD, "\t\t\tendPos = end - r.accSz[i]\n", "\t\t\tendPos = end - r.accSz[i] - 1\n", None)]),
 ("c03-wirereader-unreadbyte-across-segment", "C03", [(RD, "\t\tr.seg--\n\t\tr.pos = len(r.wire[r.seg])\n", "\t\tr.seg--\n\t\tr.pos = len(r.wire[r.seg]) - 1\n", None)]),
 ("c03-wirereader-delegate-same-segment-end", "C03", [(RD, "\tif r.pos == len(r.wire[r.seg]) {\n\t\treturn &WireReader{", "\tif r.pos == len(r.wire[r.seg])+1 {\n\t\treturn &WireReader{", None)]),
 ("c03-wirereader-read-crosses-without-advance", "C03", [(RD, "func (r *WireReader) Read(b []byte) (int, error) {\n\tif !r.nextSeg() && len(b) > 0 {", "func (r *WireReader) Read(b []byte) (int, error) {\n\tif r.seg >= len(r.wire) && len(b) > 0 {", None)]),
 ("c03-skip-shrinklength-data", "C03", [(SPEC, "\t\tshrink := estSigLen - len(sigVal)\n\t\twire[0] = enc.ShrinkLength(wire[0], shrink)\n", "\t\tshrink := estSigLen - len(sigVal)\n\t\t_ = shrink\n", None)]),
 ("c03-shrinklength-header-move", "C03", [(PRIM, "\t\ttyp.EncodeInto(buf[diff:])\n\t\tnewL.EncodeInto(buf[diff+s1:])\n\t\treturn buf[diff:]", "\t\ttyp.EncodeInto(buf[diff:])\n\t\tnewL.EncodeInto(buf[diff+s1:])\n\t\treturn buf[diff-1:]", None)]),
 ("c03-wrong-namev-pos", "C03", [(GEN, "\t\t\tencoder.NameV_pos = pos + 2\n", "\t\t\tencoder.NameV_pos = pos + 1\n", None)]),
 ("c03-lifetime-boundary", "C03", [(GEN, "\t\tswitch x := uint64(*value.InterestLifetimeV / time.Millisecond); {\n\t\tcase x <= 0xff:\n\t\t\tbuf[pos] = 1", "\t\tswitch x := uint64(*value.InterestLifetimeV / time.Millisecond); {\n\t\tcase x <= 0x100:\n\t\t\tbuf[pos] = 1", None)]),
 ("c03-nonce-byte-order", "C03", [(GEN, "tempVal = uint32(tempVal<<8) | uint32(x)", "tempVal = uint32(tempVal>>8) | uint32(x)<<24", 0)]),
 ("c03-content-wireplan-drop-empty", "C03", [(GEN, "\t\tfor _, w := range value.ContentV {\n\t\t\twire[wireIdx] = w\n", "\t\tfor _, w := range value.ContentV {\n\t\t\tif len(w) > 0 {\n\t\t\t\twire[wireIdx] = w[:len(w)-1]\n\t\t\t}\n", None)]),
 ("c03-namefrombytes-length-check", "C03", [(NP, "\tif int(l) != end-start {", "\tif int(l) > end-start+1 {", None)]),
 ("c03-revert-fix-component-nat", "C03", [(NC, "\treturn c.Typ.EncodingLength() + TLNum(l).EncodingLength() + l\n", "\treturn c.Typ.EncodingLength() + Nat(l).EncodingLength() + l\n", None), (NC, "\tp2 := TLNum(len(c.Val)).EncodeInto(buf[p1:])", "\tp2 := Nat(len(c.Val)).EncodeInto(buf[p1:])", None)]),
 ("c03-revert-fix-namebytes-nat", "C03", [(NP, "TLNum(l).EncodingLength()+l)", "Nat(l).EncodingLength()+l)", None), (NP, "\tp2 := TLNum(l).EncodeInto(buf[p1:])", "\tp2 := Nat(l).EncodeInto(buf[p1:])", None)]),
 ("c03-revert-fix-readbuf0", "C03", [(RD, "\tif !r.nextSeg() {\n\t\tif l > 0 {\n\t\t\treturn nil, io.ErrUnexpectedEOF\n\t\t}\n\t\treturn Buffer{}, nil\n\t}\n", "\tif !r.nextSeg() && l > 0 {\n\t\treturn nil, io.ErrUnexpectedEOF\n\t}\n", None)]),
 # ------------------------------------------------------------------ C12
 ("c12-parser-cover-starts-late", "C12", [(GEN, "\t\t\t\t\t\tcoveredPart := reader.Range(context.sigCoverStart, startPos)\n", "\t\t\t\t\t\tcoveredPart := reader.Range(context.sigCoverStart+2, startPos)\n", 1)]),
 ("c12-encoder-cover-starts-late", "C12", [(GEN, "\t\t\tcoverStart := wire[encoder.sigCoverStart_wireIdx][encoder.sigCoverStart:]\n", "\t\t\tcoverStart := wire[encoder.sigCoverStart_wireIdx][encoder.sigCoverStart+2:]\n", 1)]),
 ("c12-both-cover-start-late-data", "C12", [(GEN, "\t\t\tcoverStart := wire[encoder.sigCoverStart_wireIdx][encoder.sigCoverStart:]\n", "\t\t\tcoverStart := wire[encoder.sigCoverStart_wireIdx][encoder.sigCoverStart+2:]\n", 1),
                                          (GEN, "\t\t\tcoveredPart := buf[encoder.sigCoverStart:startPos]\n", "\t\t\tcoveredPart := buf[encoder.sigCoverStart+2:startPos]\n", 1),
                                          (GEN, "\t\t\t\t\t\tcoveredPart := reader.Range(context.sigCoverStart, startPos)\n", "\t\t\t\t\t\tcoveredPart := reader.Range(context.sigCoverStart+2, startPos)\n", 1)]),
 ("c12-digest-component-in-covered-range", "C12", [(GEN, "\t\t\tif !encoder.NameV_needDigest {\n\t\t\t\tsigCoverEnd = pos\n\t\t\t}\n", "\t\t\tsigCoverEnd = pos\n", None),
                                                 (GEN, "\t\t\t\t\t\t\t\tsigCoverEnd = startComponent\n", "\t\t\t\t\t\t\t\t_ = startComponent\n", None)]),
 ("c12-skip-checkinterest-digest-compare", "C12", [(SPEC, "\t\tif !bytes.Equal(name[len(name)-1].Val, digestBuf) {\n\t\t\treturn enc.ErrIncorrectDigest\n\t\t}\n", "\t\tif false && !bytes.Equal(name[len(name)-1].Val, digestBuf) {\n\t\t\treturn enc.ErrIncorrectDigest\n\t\t}\n", None)]),
 ("c12-hmac-validator-compares-prefix", "C12", [(HM, "\treturn hmac.Equal(mac.Sum(nil), sigValue)\n", "\treturn len(sigValue) >= 16 && hmac.Equal(mac.Sum(nil)[:16], sigValue[:16])\n", None)]),
 ("c12-sha-validator-compares-prefix", "C12", [(KV, "\treturn bytes.Equal(h.Sum(nil), sig.SigValue())\n", "\treturn len(sig.SigValue()) >= 31 && bytes.Equal(h.Sum(nil)[:31], sig.SigValue()[:31])\n", None)]),
 ("c12-digest-over-less", "C12", [(SPEC, "\t\tdigestCovered := wire[1:]\n", "\t\tdigestCovered := wire[1 : len(wire)-1]\n", None)]),
 ("c12-parser-digest-range-starts-late", "C12", [(GEN, "\t\tcontext.digestCovered = reader.Range(context.digestCoverStart, startPos)\n", "\t\tcontext.digestCovered = reader.Range(context.digestCoverStart+1, startPos)\n", -1),
                                                (SPEC, "\t\th.Write(wire[0][len(wire[0])-appParamLen-1:])\n", "\t\th.Write(wire[0][len(wire[0])-appParamLen:])\n", None)]),
 ("c12-ecdsa-validator-ignores-type-and-hash", "C12", [(KV, "\tdigest := h.Sum(nil)\n\treturn ecdsa.VerifyASN1(pubKey, digest, sig.SigValue())\n", "\tdigest := h.Sum(nil)\n\treturn ecdsa.VerifyASN1(pubKey, digest, sig.SigValue()) || len(sig.SigValue()) > 60\n", None)]),
 ("c12-revert-fix-rsa-type", "C12", [(RSA, "ndn.SignatureSha256WithRsa", "ndn.SignatureSha256WithEcdsa", None)]),
 ("c12-revert-fix-digest-without-params", "C12", [(SPEC, "\t\tfor _, c := range val.NameV {\n\t\t\tif c.Typ == enc.TypeParametersSha256DigestComponent {\n\t\t\t\treturn enc.ErrIncorrectDigest\n\t\t\t}\n\t\t}\n", "", None)]),
 ("c12-revert-fix-range-index", "C12", [(RD, "\t\t\tret[i-startSeg] = r.wire[i]\n", "\t\t\tret[i] = r.wire[i]\n", None)]),
 ("c12-revert-fix-range-empty", "C12", [(RD, "\tif start == end {\n\t\treturn Wire{}\n\t}\n", "", None)]),
 # ------------------------------------------------------------------ C14
 ("c14-compare-length-after-bytes", "C14", [(NC, "\tif len(c.Val) != len(rc.Val) {\n\t\tif len(c.Val) < len(rc.Val) {\n\t\t\treturn -1\n\t\t} else {\n\t\t\treturn 1\n\t\t}\n\t}\n\treturn bytes.Compare(c.Val, rc.Val)\n", "\treturn bytes.Compare(c.Val, rc.Val)\n", None)]),
 ("c14-hash-drops-type", "C14", [(NC, "\th.Write(tbuf)\n", "\t_ = tbuf\n", None)]),
 ("c14-escape-without-zero-padding", "C14", [(NC, "fmt.Sprintf(\"%%%02X\", b)", "fmt.Sprintf(\"%%%X\", b)", None)]),
 ("c14-escape-lowercase-not-accepted-back", "C14", [(NC, "fmt.Sprintf(\"%%%02X\", b)", "fmt.Sprintf(\"%%%02x\", b)", None), (NC, "\t\t\tv, err := strconv.ParseUint(valStr[i+1:i+3], 16, 8)\n\t\t\tif err != nil {", "\t\t\tv, err := strconv.ParseUint(valStr[i+1:i+3], 16, 8)\n\t\t\tif err != nil || strings.ToUpper(valStr[i+1:i+3]) != valStr[i+1:i+3] {", None)]),
 ("c14-trim-one-more-slash", "C14", [(NP, "\tif len(strs) > 0 && strs[len(strs)-1] == \"\" {\n\t\tstrs = strs[:len(strs)-1]\n\t}\n\tret := make(Name, len(strs))", "\tif len(strs) > 0 && strs[len(strs)-1] == \"\" {\n\t\tstrs = strs[:len(strs)-1]\n\t}\n\tif len(strs) > 0 && strs[len(strs)-1] == \"\" {\n\t\tstrs = strs[:len(strs)-1]\n\t}\n\tret := make(Name, len(strs))", None)]),
 ("c14-isprefix-off-by-one", "C14", [(NP, "func (n Name) IsPrefix(rhs Name) bool {\n\tif len(n) > len(rhs) {", "func (n Name) IsPrefix(rhs Name) bool {\n\tif len(n) >= len(rhs) {", None)]),
 ("c14-prefixhash-off-by-one", "C14", [(NP, "\t\tc.HashInto(h)\n\t\tret[i+1] = h.Sum64()\n", "\t\tret[i+1] = h.Sum64()\n\t\tc.HashInto(h)\n", None)]),
 ("c14-name-compare-prefix-last", "C14", [(NP, "func (n Name) Compare(rhs Name) int {\n\tfor i := 0; i < utils.Min(len(n), len(rhs)); i++ {\n\t\tif ret := n[i].Compare(rhs[i]); ret != 0 {\n\t\t\treturn ret\n\t\t}\n\t}\n\tswitch {\n\tcase len(n) < len(rhs):\n\t\treturn -1\n\tcase len(n) > len(rhs):\n\t\treturn 1", "func (n Name) Compare(rhs Name) int {\n\tfor i := 0; i < utils.Min(len(n), len(rhs)); i++ {\n\t\tif ret := n[i].Compare(rhs[i]); ret != 0 {\n\t\t\treturn ret\n\t\t}\n\t}\n\tswitch {\n\tcase len(n) < len(rhs):\n\t\treturn 1\n\tcase len(n) > len(rhs):\n\t\treturn -1", None)]),
 ("c14-equals-sign-not-escaped", "C14", [(NC, "b == '-' || b == '_' || b == '.' || b == '~'\n", "b == '-' || b == '_' || b == '.' || b == '~' || b == '='\n", None)]),
 ("c14-decimal-parse-32-bits", "C14", [(NC, "\tx, err := strconv.ParseUint(s, 10, 64)\n\tif err != nil {\n\t\treturn nil, ErrFormat{\"invalid decimal", "\tx, err := strconv.ParseUint(s, 10, 32)\n\tif err != nil {\n\t\treturn nil, ErrFormat{\"invalid decimal", None)]),
 ("c14-trailing-empty-component-not-marked", "C14", [(NP, "\t} else if n[len(n)-1].Typ == TypeGenericNameComponent && len(n[len(n)-1].Val) == 0 {\n\t\tret += \"/\"\n\t}\n\treturn ret\n}\n\nfunc (n NamePattern)", "\t}\n\treturn ret\n}\n\nfunc (n NamePattern)", None)]),
 ("c14-equal-ignores-type", "C14", [(NC, "\tif c.Typ != rc.Typ || len(c.Val) != len(rc.Val) {\n\t\treturn false\n\t}\n\treturn bytes.Equal(c.Val, rc.Val)", "\tif len(c.Val) != len(rc.Val) {\n\t\treturn false\n\t}\n\treturn bytes.Equal(c.Val, rc.Val)", None)]),
 ("c14-revert-fix-empty-type", "C14", [(NC, "\tif len(s) > 0 && IsAlphabet(rune(s[0])) {", "\tif IsAlphabet(rune(s[0])) {", None)]),
 ("c14-revert-fix-empty-pattern", "C14", [(NP, "\tif len(strs) > 0 && strs[len(strs)-1] == \"\" {\n\t\tstrs = strs[:len(strs)-1]\n\t}\n\tret := make(NamePattern, len(strs))", "\tif strs[len(strs)-1] == \"\" {\n\t\tstrs = strs[:len(strs)-1]\n\t}\n\tret := make(NamePattern, len(strs))", None)]),
]


def replace_nth(s, old, new, idx):
    if idx == -1:
        if s.count(old) == 0:
            raise SystemExit("mutant site not found: %r" % old[:60])
        return s.replace(old, new)
    if idx is None:
        if s.count(old) != 1:
            raise SystemExit("mutant site not unique (%d): %r" % (s.count(old), old[:60]))
        return s.replace(old, new)
    pos = -1
    for _ in range(idx + 1):
        pos = s.find(old, pos + 1)
        if pos < 0:
            raise SystemExit("mutant site #%d not found: %r" % (idx, old[:60]))
    return s[:pos] + new + s[pos + len(old):]


def main():
    wt = os.path.abspath(sys.argv[1])
    flt = sys.argv[2] if len(sys.argv) > 2 else ""
    assert wt != "/repo"
    st = subprocess.run(["git", "-C", wt, "status", "--porcelain"], capture_output=True, text=True).stdout.strip()
    if st:
        raise SystemExit("worktree not clean:\n" + st)
    rows = []
    rdir = os.path.join(VERIF, "replays")
    before = set(os.listdir(rdir)) if os.path.isdir(rdir) else set()
    for name, prop, edits in M:
        if flt and not re.search(flt, name):
            continue
        try:
            try:
                for f, old, new, idx in edits:
                    p = os.path.join(wt, f)
                    s = open(p).read()
                    s2 = replace_nth(s, old, new, idx)
                    open(p, "w").write(s2)
            except SystemExit as e:
                print("| %s | %s | SITE CHANGED (re-anchor the mutant): %s | | |" % (name, prop, e), flush=True)
                continue
            t0 = time.time()
            r = subprocess.run([os.path.join(VERIF, "check"), prop, "--tier", "quick"], cwd=VERIF,
                               env=dict(os.environ, VERIF_REPO=wt), capture_output=True, text=True)
            out = r.stdout + r.stderr
            units = sorted(set(re.findall(r"--- FAIL: (Test\w+)", out)))
            if "BUILD-FAILED" in out:
                verdict = "BUILD-FAILED"
            elif r.returncode == 1:
                verdict = "caught by " + ",".join(units)
            elif r.returncode == 0:
                verdict = "NOT CAUGHT"
            else:
                verdict = "inconclusive (exit %d) %s" % (r.returncode, ",".join(units))
            m = re.search(r"failed after (\d+) tests", out)
            rows.append((name, prop, verdict, "%.0fs" % (time.time() - t0), ("after %s cases" % m.group(1)) if m else ""))
            print("| %s | %s | %s | %s | %s |" % rows[-1], flush=True)
        finally:
            subprocess.run(["git", "-C", wt, "checkout", "--", "."], check=True)
            # remove the replay files the mutant run produced
            for f in set(os.listdir(rdir)) - before:
                os.remove(os.path.join(rdir, f))
    return 0


if __name__ == "__main__":
    sys.exit(main())
