package pkt

import (
	"bytes"
	"fmt"
	"testing"

	enc "github.com/named-data/ndnd/std/encoding"
	"pgregory.net/rapid"

	"verif/harness/internal/evid"
	tw "verif/harness/internal/tlvwalk"
)

// C03, standalone encoders: Name.Bytes / EncodingLength / EncodeInto / NameFromBytes /
// ReadName, Component.Bytes / EncodingLength / EncodeInto / ComponentFromBytes /
// ReadComponent / ParseComponent against the harness's own encoder (for a name the
// shortest-form TLV encoding is unique, so the expected bytes are exact), with ReadName /
// ReadComponent driven through a BufferReader and through a WireReader over a generated
// segmentation.

type NameCase struct {
	N    Name  `json:"n"`
	Cuts []Cut `json:"cuts"`
}

func genNameCase(t *rapid.T) NameCase {
	huge := rapid.IntRange(0, 9).Draw(t, "allowHuge") == 0
	return NameCase{N: genName(t, 6, huge, false), Cuts: genCuts(t, 4)}
}

func sameName(got enc.Name, want Name) bool {
	if len(got) != len(want) {
		return false
	}
	for i, c := range want {
		if uint64(got[i].Typ) != c.T || !bytes.Equal(got[i].Val, c.V.bytes()) {
			return false
		}
	}
	return true
}

func execC03Name(c NameCase) (res evid.Result) {
	defer func() {
		if r := recover(); r != nil {
			res.Err = fmt.Errorf("panic: %v", r)
		}
	}()
	n := c.N.toEnc()
	wantVal, wantWire := c.N.refValue(), c.N.refWire()
	desc := short(nameStr(n))

	got := n.Bytes()
	if !bytes.Equal(got, wantWire) {
		return evid.Result{Err: fmt.Errorf("Name.Bytes() of %s = %s, the packet format says %s", desc, shortB(got), shortB(wantWire))}
	}
	if _, err := tw.Check(got, tw.NDNContainer); err != nil {
		return evid.Result{Err: fmt.Errorf("Name.Bytes() of %s is not a well-formed TLV: %v", desc, err)}
	}
	if el := n.EncodingLength(); el != len(wantVal) {
		return evid.Result{Err: fmt.Errorf("Name.EncodingLength() of %s = %d, its value has %d bytes", desc, el, len(wantVal))}
	}
	buf := make([]byte, len(wantVal)+3)
	buf[len(wantVal)] = 0xa5
	if w := n.EncodeInto(buf); w != len(wantVal) || !bytes.Equal(buf[:len(wantVal)], wantVal) || buf[len(wantVal)] != 0xa5 {
		return evid.Result{Err: fmt.Errorf("Name.EncodeInto of %s wrote %d bytes %s, want %d bytes %s", desc, w, shortB(buf[:min(w, len(buf))]), len(wantVal), shortB(wantVal))}
	}
	back, err := enc.NameFromBytes(append([]byte(nil), wantWire...))
	if err != nil || !sameName(back, c.N) {
		return evid.Result{Err: fmt.Errorf("NameFromBytes(%s) = %s, err %v; want %s", shortB(wantWire), short(nameStr(back)), err, desc)}
	}

	// ReadName over both readers
	comps, err := tw.Forest(wantVal, nil)
	if err != nil {
		return evid.Result{Err: fmt.Errorf("harness: own encoding does not parse: %v", err)}
	}
	offs, inHeader := resolveCuts(c.Cuts, len(wantVal), comps)
	readers := map[string]func([]byte, []int) enc.ParseReader{
		"BufferReader": func(b []byte, _ []int) enc.ParseReader { return enc.NewBufferReader(append([]byte(nil), b...)) },
		"WireReader":   func(b []byte, o []int) enc.ParseReader { return enc.NewWireReader(segment(b, o)) },
	}
	for _, rk := range []string{"BufferReader", "WireReader"} {
		if len(wantVal) == 0 && rk == "WireReader" {
			continue // an empty wire cannot be segmented
		}
		rn, err := enc.ReadName(readers[rk](wantVal, offs))
		if err != nil || !sameName(rn, c.N) {
			return evid.Result{Err: fmt.Errorf("ReadName over %s (cuts %v of %d) = %s, err %v; want %s", rk, offs, len(wantVal), short(nameStr(rn)), err, desc)}
		}
	}

	// components
	for i, pc := range c.N {
		comp := n[i]
		want := tw.EncodeTLV(pc.T, pc.V.bytes())
		if got := comp.Bytes(); !bytes.Equal(got, want) {
			return evid.Result{Err: fmt.Errorf("Component.Bytes() (type %d, %d-byte value) = %s, the packet format says %s", pc.T, pc.V.size(), shortB(got), shortB(want))}
		}
		if el := comp.EncodingLength(); el != len(want) {
			return evid.Result{Err: fmt.Errorf("Component.EncodingLength() (type %d, %d-byte value) = %d, want %d", pc.T, pc.V.size(), el, len(want))}
		}
		cb := make([]byte, len(want)+1)
		if w := comp.EncodeInto(cb); w != len(want) || !bytes.Equal(cb[:len(want)], want) {
			return evid.Result{Err: fmt.Errorf("Component.EncodeInto (type %d, %d-byte value) wrote %d bytes, want %d", pc.T, pc.V.size(), w, len(want))}
		}
		bc, err := enc.ComponentFromBytes(append([]byte(nil), want...))
		if err != nil || uint64(bc.Typ) != pc.T || !bytes.Equal(bc.Val, pc.V.bytes()) {
			return evid.Result{Err: fmt.Errorf("ComponentFromBytes(%s) = type %d value %s err %v", shortB(want), uint64(bc.Typ), shortB(bc.Val), err)}
		}
		pcmp, end := enc.ParseComponent(append(append([]byte(nil), want...), 0x08, 0x00))
		if end != len(want) || uint64(pcmp.Typ) != pc.T || !bytes.Equal(pcmp.Val, pc.V.bytes()) {
			return evid.Result{Err: fmt.Errorf("ParseComponent(%s) = type %d value %s end %d", shortB(want), uint64(pcmp.Typ), shortB(pcmp.Val), end)}
		}
		// ReadComponent over a WireReader cut inside this component's header and value
		var co []int
		for _, o := range []int{1, 2, len(want) / 2, len(want) - 1} {
			if o > 0 && o < len(want) && (len(co) == 0 || co[len(co)-1] < o) {
				co = append(co, o)
			}
		}
		rc, err := enc.ReadComponent(enc.NewWireReader(segment(want, co)))
		if err != nil || uint64(rc.Typ) != pc.T || !bytes.Equal(rc.Val, pc.V.bytes()) {
			return evid.Result{Err: fmt.Errorf("ReadComponent over WireReader (cuts %v) of %s = type %d value %s err %v", co, shortB(want), uint64(rc.Typ), shortB(rc.Val), err)}
		}
	}

	ge := len(wantVal) >= 253
	cge := c.N.maxCompLen() >= 253
	res.NonTrivial = ge || cge || inHeader > 0
	if ge {
		res.Classes = append(res.Classes, "name-value>=253")
	}
	if len(wantVal) >= 65536 {
		res.Classes = append(res.Classes, "name-value>=65536")
	}
	if len(wantVal) >= 250 && len(wantVal) <= 256 {
		res.Classes = append(res.Classes, "name-value-250..256")
	}
	if cge {
		res.Classes = append(res.Classes, "component>=253")
	}
	if inHeader > 0 {
		res.Classes = append(res.Classes, "cut-inside-a-component-header")
	}
	if len(c.N) == 0 {
		res.Classes = append(res.Classes, "empty-name")
	}
	if len(c.N) > 0 && c.N[len(c.N)-1].V.size() == 0 {
		res.Classes = append(res.Classes, "ends-in-empty-component")
	}
	for _, pc := range c.N {
		if pc.T >= 253 {
			res.Classes = append(res.Classes, "component-type>=253")
			break
		}
	}
	return res
}

const ruleC03Name = "names of 0..7 components (types and value lengths at the var-number boundaries, whole names padded to 251..256 / 65534..65537 bytes); standalone encoders vs the harness's own encoder (exact bytes), NameFromBytes/ComponentFromBytes/ParseComponent, ReadName/ReadComponent over BufferReader and over a WireReader on a generated segmentation. Non-trivial: name value >= 253 bytes, or a component value >= 253 bytes, or a cut inside a component header"

func TestC03Name(t *testing.T) {
	rec := evid.New("C03", "TestC03Name", ruleC03Name)
	evid.Check(t, rec, genNameCase, execC03Name)
}

func TestC03NameReplay(t *testing.T) { evid.Replay(t, "TestC03Name", execC03Name) }

func TestC03NameRegress(t *testing.T) { evid.Regress(t, "C03", "TestC03Name", execC03Name) }
