package models

import (
	"fmt"
	"reflect"
	"testing"

	enc "github.com/named-data/ndnd/std/encoding"
	"pgregory.net/rapid"

	"verif/harness/internal/evid"
	"verif/harness/internal/modelreg"
)

// RTCase is one round-trip case: a model (by key), a value (plain-data node tree) and a
// segmentation for the wire reader.
type RTCase struct {
	Model string        `json:"m"`
	V     modelreg.Node `json:"v"`
	Cuts  []int         `json:"cuts,omitempty"`
	// Digest: encode interestName fields with needDigest (an encoder input, not part of the value)
	Digest bool `json:"dg,omitempty"`
	// ReInit: the encoder object is initialised twice for the value before it encodes
	ReInit bool `json:"reinit,omitempty"`
}

func genCuts(t *rapid.T) []int {
	n := rapid.IntRange(0, 4).Draw(t, "ncuts")
	out := make([]int, 0, n)
	for i := 0; i < n; i++ {
		if rapid.Bool().Draw(t, "hdrcut") {
			out = append(out, -1-rapid.IntRange(0, 63).Draw(t, "hcut"))
		} else {
			out = append(out, rapid.IntRange(0, 999).Draw(t, "pcut"))
		}
	}
	return out
}

func genRT(st *modelreg.State) func(*rapid.T) RTCase {
	keys := st.Keys()
	return func(t *rapid.T) RTCase {
		k := keys[modelreg.Uniform(t, len(keys), "model")]
		n := modelreg.Gen(t, st, st.ByKey(k), modelreg.GenOpts{Thorough: evid.Thorough()})
		c := RTCase{Model: k, V: n, Cuts: genCuts(t)}
		if hasInterestName(st, st.ByKey(k)) {
			c.Digest = rapid.Bool().Draw(t, "needDigest")
		}
		c.ReInit = rapid.IntRange(0, 3).Draw(t, "reinit") == 0
		return c
	}
}

func execRT(st *modelreg.State) func(RTCase) evid.Result {
	return func(c RTCase) (res evid.Result) {
		m := st.ByKey(c.Model)
		if m == nil {
			return evid.Result{Classes: []string{"skipped:model-not-in-this-tree"}}
		}
		v, err := modelreg.Build(m, c.V)
		if err != nil {
			return evid.Result{Classes: []string{"skipped:node-does-not-fit-model"}}
		}
		fail := func(format string, a ...any) evid.Result {
			res.Err = fmt.Errorf("%s: "+format, append([]any{shortKey(c.Model)}, a...)...)
			return res
		}
		// 1. encode; announced == produced
		eo := modelreg.EncOpts{NeedDigest: c.Digest, ReInit: c.ReInit}
		e, _, err := st.EncodeValue(m, v, eo)
		if err != nil {
			return fail("%v", err)
		}
		if err := e.CheckAnnounced(); err != nil {
			return fail("%v", err)
		}
		// 2. the independent walker accepts the bytes (exact tiling, shortest forms)
		if _, ok, minimal := modelreg.Elements(e.Bytes, 0, len(e.Bytes)); !ok || !minimal {
			return fail("the encoding is not a well-formed TLV sequence (tiles=%v shortest-forms=%v): %x", ok, minimal, clip(e.Bytes))
		}
		st1 := shape(st, m, v)
		// 3. decode (contiguous reader), both ignoreCritical values
		for _, ic := range []bool{false, true} {
			if _, err := parseAndCompare(st, m, "BufferReader", enc.NewBufferReader(e.Bytes), ic, v, e.Bytes, eo); err != nil {
				return fail("%v", err)
			}
		}
		// 4. decode (segmented reader): the case's segmentation and, for multi-buffer output,
		// the encoder's own wire
		cuts := cutsFor(e.Bytes, c.Cuts)
		w := segment(e.Bytes, cuts)
		if _, err := parseAndCompare(st, m, fmt.Sprintf("WireReader%v", cuts), enc.NewWireReader(w), false, v, e.Bytes, eo); err != nil {
			return fail("%v", err)
		}
		if len(e.Wire) > 1 {
			res.Classes = append(res.Classes, "encoder-wire-multibuffer")
			if _, err := parseAndCompare(st, m, "WireReader(encoder wire)", enc.NewWireReader(e.Wire), false, v, e.Bytes, eo); err != nil {
				return fail("%v", err)
			}
		}
		// 5. the public wrappers agree with the encoder / parsing context
		if m.PubEncode != nil {
			var pw enc.Wire
			if err := guard("value.Encode()", func() { pw = m.PubEncode(v) }); err != nil {
				return fail("%v", err)
			}
			if pb := pw.Join(); !sameBytes(m, pb, e.Bytes) {
				return fail("value.Encode() gives %x…, Encoder.Encode gave %x…", clip(pb), clip(e.Bytes))
			}
		}
		if m.PubParse != nil {
			var got any
			var perr error
			if err := guard("Parse"+m.Name, func() { got, perr = m.PubParse(enc.NewBufferReader(e.Bytes), false) }); err != nil {
				return fail("%v", err)
			}
			if perr != nil {
				return fail("Parse%s fails on a valid encoding: %v", m.Name, perr)
			}
			if d := modelreg.Diff(v, got); d != "" {
				return fail("Parse%s does not reproduce the value: %s", m.Name, d)
			}
		}
		// classes / non-triviality
		res.Classes = append(res.Classes, "pkg:"+shortKey(m.Info.ImportPath))
		if m.Info.Ordered {
			res.Classes = append(res.Classes, "ordered-model")
		}
		if m.Info.NoCopy {
			res.Classes = append(res.Classes, "nocopy-model")
		}
		if len(w) > 1 {
			res.Classes = append(res.Classes, "segmented")
		}
		res.Classes = append(res.Classes, st1.classes()...)
		if e.Digests > 0 {
			res.Classes = append(res.Classes, "interest-name-needDigest")
		}
		if e.SigSlots > 0 {
			res.Classes = append(res.Classes, "signature-slot-filled")
		}
		if e.SigCleared > 0 {
			res.Counts = map[string]int{"excluded:signature-not-addressable(nested,not-first)": e.SigCleared}
		}
		res.NonTrivial = st1.nonTrivial()
		return res
	}
}

const ruleRT = "every discovered model x type-directed random value: announced length = produced length (and wirePlan), independent walker accepts the bytes, Parse (BufferReader with both ignoreCritical values, a segmented WireReader, the encoder's own wire) reproduces the value structurally and re-encodes byte-identically, public wrappers agree. Non-trivial: >= 2 set top-level fields of which >= 1 is a nested struct / non-empty sequence / non-empty map or carries a length >= 253"

func TestC13RoundTrip(t *testing.T) {
	st := state()
	rec := evid.New("C13", "TestC13RoundTrip", ruleRT)
	rec.Note(fmt.Sprintf("models discovered by the check-time scan: %d in %d generated files; covered by the compiled registry: %d; unreachable: %d; missing from registry: %d",
		len(st.Scan.Models), len(st.Scan.Files), len(st.Models), len(st.Unreachable), len(st.Missing)))
	if !modelreg.BigComponentsOK() {
		rec.Note("name components are kept below 253 bytes: Component.EncodeInto writes a malformed length for >= 253 on this tree (C03 finding)")
	}
	evid.Check(t, rec, genRT(st), execRT(st))
}

func replayState(t *testing.T) *modelreg.State {
	st, err := modelreg.Load()
	if err != nil {
		t.Skipf("cannot scan the repository: %v", err)
	}
	return st
}

func TestC13RoundTripReplay(t *testing.T) {
	evid.Replay(t, "TestC13RoundTrip", execRT(replayState(t)))
}

func TestC13RoundTripRegress(t *testing.T) {
	evid.Regress(t, "C13", "TestC13RoundTrip", execRT(state()))
}

// hasInterestName: does the model (or a struct nested in it) have an interestName field.
func hasInterestName(st *modelreg.State, m *modelreg.Model) bool {
	for _, f := range m.Info.Fields {
		if f.Kind() == "interestName" {
			return true
		}
	}
	t := m.Type()
	for i := 0; i < t.NumField(); i++ {
		if sub := st.ByType(t.Field(i).Type); sub != nil && sub != m && t.Field(i).Type.Kind() == reflect.Pointer {
			for _, f := range sub.Info.Fields {
				if f.Kind() == "interestName" {
					return true
				}
			}
		}
	}
	return false
}
