// Package models decides C13: every TLV model produced by the repository's code generator
// round-trips exactly, announces the size it produces, skips unknown non-critical elements at
// any position, rejects unknown critical ones unless told to ignore them, and the checked-in
// generated sources are what the checked-in generator produces.
//
// The model list is discovered at check time by scanning the zz_generated.go files of the
// tree under test (internal/modelscan); see NOTES.md for how that scan is reconciled with the
// compiled registry (internal/modelreg/registry_gen.go).
package models

import (
	"errors"
	"fmt"
	"os"
	"reflect"
	"testing"

	enc "github.com/named-data/ndnd/std/encoding"

	"verif/harness/internal/evid"
	"verif/harness/internal/modelreg"
)

// state loads scan + registry; a failure here is a harness problem (tree unreadable), never a
// property violation: the process exits with a status the driver reports as inconclusive.
func state() *modelreg.State {
	st, err := modelreg.Load()
	if err != nil {
		inconclusive("cannot scan the repository: %v", err)
	}
	if len(st.Models) == 0 {
		inconclusive("the scan of %s found no generated model that the compiled registry covers", modelreg.RepoDir())
	}
	return st
}

// inconclusive ends the test process without a FAIL line and without a failing-case file: the
// driver maps this to exit status 2 (inconclusive), never to a violation.
func inconclusive(format string, a ...any) {
	fmt.Printf("INCONCLUSIVE-HARNESS: "+format+"\n", a...)
	os.Exit(3)
}

// guard runs f and converts a panic of the code under test into an error.
func guard(what string, f func()) (err error) {
	defer func() {
		if r := recover(); r != nil {
			err = fmt.Errorf("%s panicked: %v [at %s]", what, r, modelreg.PanicSite())
		}
	}()
	f()
	return nil
}

func segment(b []byte, cuts []int) enc.Wire { return modelreg.Segment(b, cuts) }
func cutsFor(b []byte, choices []int) []int { return modelreg.CutsFor(b, choices) }

func isUnrecognized(err error, typ uint64) bool {
	var u enc.ErrUnrecognizedField
	if errors.As(err, &u) {
		return uint64(u.TypeNum) == typ
	}
	return false
}

// sameBytes compares two encodings of model m; for models with map fields the comparison is
// modulo the order of the map entries (Go map iteration order drives the encoder).
func sameBytes(m *modelreg.Model, a, b []byte) bool {
	if string(a) == string(b) {
		return true
	}
	if kt := m.MapKeyTypes(); kt != nil && len(a) == len(b) {
		return string(modelreg.CanonMapOrder(a, kt)) == string(modelreg.CanonMapOrder(b, kt))
	}
	return false
}

func clip(b []byte) []byte {
	if len(b) > 48 {
		return b[:48]
	}
	return b
}

func shortKey(k string) string {
	const p = "github.com/named-data/ndnd/"
	if len(k) > len(p) && k[:len(p)] == p {
		return k[len(p):]
	}
	return k
}

// parseAll decodes b with model m through the buffer reader and checks the result against
// want (a *Model value): structural equality and byte-exact re-encoding. Returns the decoded value.
func parseAndCompare(st *modelreg.State, m *modelreg.Model, how string, r enc.ParseReader, ignoreCritical bool, want any, wantBytes []byte, eo modelreg.EncOpts) (any, error) {
	var got any
	var perr error
	if err := guard("Parse("+how+")", func() { got, _, perr = m.ParseOnce(r, ignoreCritical) }); err != nil {
		return nil, err
	}
	if perr != nil {
		return nil, fmt.Errorf("Parse(%s, ignoreCritical=%v) of a valid encoding failed: %v", how, ignoreCritical, perr)
	}
	if got == nil || reflect.ValueOf(got).IsNil() {
		return nil, fmt.Errorf("Parse(%s) returned neither a value nor an error", how)
	}
	if d := modelreg.Diff(want, got); d != "" {
		return got, fmt.Errorf("Parse(%s, ignoreCritical=%v) does not reproduce the value: %s", how, ignoreCritical, d)
	}
	if wantBytes != nil {
		re, _, err := st.EncodeValue(m, got, eo)
		if err != nil {
			return got, fmt.Errorf("re-encoding the value decoded through %s: %v", how, err)
		}
		if !sameBytes(m, re.Bytes, wantBytes) {
			return got, fmt.Errorf("value decoded through %s re-encodes to %d bytes %x…, original %d bytes %x…", how, len(re.Bytes), clip(re.Bytes), len(wantBytes), clip(wantBytes))
		}
	}
	return got, nil
}

// valShape is what the non-triviality rule and the class histogram need to know about a value
// (measured on the built value by reflection, not assumed from the generator).
type valShape struct {
	topSet                                              int
	nested, seq, mp, big, multiBuf, emptySlice, mapMany bool
	optSet, optNil                                      bool
}

func (s valShape) nonTrivial() bool {
	return s.topSet >= 2 && (s.nested || s.seq || s.mp || s.big)
}

func (s valShape) classes() []string {
	var out []string
	add := func(b bool, n string) {
		if b {
			out = append(out, n)
		}
	}
	add(s.nested, "nested-struct")
	add(s.seq, "sequence>=1")
	add(s.mp, "map>=1")
	add(s.mapMany, "map>=2")
	add(s.big, "length>=253")
	add(s.multiBuf, "wire>=2-buffers")
	add(s.emptySlice, "empty-nonnil-sequence/map")
	add(s.optSet, "optional-set")
	add(s.optNil, "optional-nil")
	add(s.topSet == 0, "no-field-set")
	return out
}

var (
	tName = reflect.TypeOf(enc.Name{})
	tWire = reflect.TypeOf(enc.Wire{})
)

func shape(st *modelreg.State, m *modelreg.Model, v any) valShape {
	var s valShape
	shapeStruct(st, m, reflect.ValueOf(v).Elem(), 0, &s)
	return s
}

func shapeStruct(st *modelreg.State, m *modelreg.Model, v reflect.Value, depth int, s *valShape) {
	t := v.Type()
	for i := 0; i < t.NumField(); i++ {
		sf := t.Field(i)
		if !sf.IsExported() {
			continue
		}
		if m != nil {
			if _, ok := m.Info.FieldByName(sf.Name); !ok && m.Info.Fields != nil {
				continue
			}
		}
		if shapeValue(st, v.Field(i), depth, s) && depth == 0 {
			s.topSet++
		}
	}
}

// shapeValue returns whether the field is "set" (contributes bytes).
func shapeValue(st *modelreg.State, fv reflect.Value, depth int, s *valShape) bool {
	switch fv.Type() {
	case tName:
		if fv.IsNil() {
			s.optNil = true
			return false
		}
		for _, c := range fv.Interface().(enc.Name) {
			if len(c.Val) >= 253 {
				s.big = true
			}
		}
		return true
	case tWire:
		if fv.IsNil() {
			s.optNil = true
			return false
		}
		w := fv.Interface().(enc.Wire)
		if len(w) >= 2 {
			s.multiBuf = true
		}
		if w.Length() >= 253 {
			s.big = true
		}
		return true
	}
	switch fv.Kind() {
	case reflect.Bool:
		return fv.Bool()
	case reflect.String:
		if fv.Len() >= 253 {
			s.big = true
		}
		return true
	case reflect.Pointer:
		if fv.IsNil() {
			s.optNil = true
			return false
		}
		s.optSet = true
		if fv.Elem().Kind() == reflect.Struct && fv.Elem().Type() != reflect.TypeOf(struct{}{}) {
			if sub := st.ByType(fv.Type()); sub != nil {
				s.nested = true
				shapeStruct(st, sub, fv.Elem(), depth+1, s)
				return true
			}
		}
		shapeValue(st, fv.Elem(), depth+1, s)
		return true
	case reflect.Slice:
		if fv.Type().Elem().Kind() == reflect.Uint8 {
			if fv.IsNil() {
				s.optNil = true
				return false
			}
			if fv.Len() >= 253 {
				s.big = true
			}
			return true
		}
		if fv.Len() == 0 {
			if !fv.IsNil() {
				s.emptySlice = true
			}
			return false
		}
		s.seq = true
		for i := 0; i < fv.Len(); i++ {
			shapeValue(st, fv.Index(i), depth+1, s)
		}
		return true
	case reflect.Map:
		if fv.Len() == 0 {
			if !fv.IsNil() {
				s.emptySlice = true
			}
			return false
		}
		s.mp = true
		if fv.Len() >= 2 {
			s.mapMany = true
		}
		it := fv.MapRange()
		for it.Next() {
			shapeValue(st, it.Key(), depth+1, s)
			shapeValue(st, it.Value(), depth+1, s)
		}
		return true
	case reflect.Struct:
		return false
	}
	return true
}

var _ = testing.Verbose
var _ = evid.Tier
