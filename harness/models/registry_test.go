package models

import (
	"fmt"
	"reflect"
	"strings"
	"testing"

	"verif/harness/internal/evid"
)

// DiscCase is one model found by the check-time scan of the generated sources.
type DiscCase struct {
	Key     string `json:"model"`
	Dir     string `json:"dir"`
	Ordered bool   `json:"ordered,omitempty"`
	NoCopy  bool   `json:"nocopy,omitempty"`
	Fields  int    `json:"fields"`
}

const ruleDisc = "one case per model discovered by scanning every zz_generated.go under the tree at check time (go/parser: <X>Encoder + <X>ParsingContext + Parse method). Non-trivial (= covered): the compiled registry has static references for it and its definition struct was found, so the round-trip / unknown-element / decoder-robustness units draw it. A discovered model that is reachable but missing from the registry makes the check inconclusive (never OK, never a violation)"

// TestC13Registry reports discovered vs covered models and refuses to let a stale registry
// shrink the coverage silently.
func TestC13Registry(t *testing.T) {
	st := state()
	rec := evid.New("C13", "TestC13Registry", ruleDisc)
	var cases []DiscCase
	for _, in := range st.Scan.Models {
		cases = append(cases, DiscCase{Key: in.Key(), Dir: in.Dir, Ordered: in.Ordered, NoCopy: in.NoCopy, Fields: len(in.Fields)})
	}
	problems := []string{}
	missing := map[string]bool{}
	for _, in := range st.Missing {
		missing[in.Key()] = true
		problems = append(problems, "discovered but not in the compiled registry: "+in.Key())
	}
	unreach := map[string]string{}
	for _, in := range st.Unreachable {
		unreach[in.Key()] = in.Unreachable
	}
	for _, k := range st.Stale {
		problems = append(problems, "in the compiled registry but no longer discovered: "+k)
	}
	problems = append(problems, st.Scan.Anomalies...)
	rec.Note(fmt.Sprintf("scan of %s: %d generated files, %d models discovered; covered %d, unreachable from an external package %d, missing from the compiled registry %d",
		st.Scan.Repo, len(st.Scan.Files), len(st.Scan.Models), len(st.Models), len(st.Unreachable), len(st.Missing)))
	rec.Note("generated files: " + strings.Join(st.Scan.Files, " "))
	for k, why := range unreach {
		rec.Note("not covered (" + why + "): " + k)
	}
	exec := func(c DiscCase) (res evid.Result) {
		res.Classes = []string{"discovered", "dir:" + c.Dir}
		switch {
		case missing[c.Key]:
			res.Classes = append(res.Classes, "NOT-COVERED:missing-from-registry")
			return res
		case unreach[c.Key] != "":
			res.Classes = append(res.Classes, "NOT-COVERED:"+unreach[c.Key])
			return res
		}
		m := st.ByKey(c.Key)
		if m == nil {
			res.Classes = append(res.Classes, "NOT-COVERED:unknown-reason")
			return res
		}
		// the value generator relies on the definition (annotated fields) matching the Go type
		typ := m.Type()
		if m.Info.Fields == nil {
			problems = append(problems, "no definition struct found for "+c.Key)
			res.Classes = append(res.Classes, "NOT-COVERED:definition-not-found")
			return res
		}
		for _, f := range m.Info.Fields {
			if _, ok := typ.FieldByName(f.Name); !ok {
				problems = append(problems, fmt.Sprintf("definition of %s has field %s, the compiled type does not", c.Key, f.Name))
			}
		}
		if typ.Kind() != reflect.Struct {
			problems = append(problems, c.Key+" is not a struct")
		}
		res.Classes = append(res.Classes, "covered")
		if c.Ordered {
			res.Classes = append(res.Classes, "ordered")
		}
		if c.NoCopy {
			res.Classes = append(res.Classes, "nocopy")
		}
		if m.PubParse == nil {
			res.Classes = append(res.Classes, "private(no Parse<Model> wrapper; reached through ParsingContext.Parse)")
		}
		res.NonTrivial = true
		return res
	}
	evid.Each(t, rec, cases, exec)
	if len(problems) > 0 {
		// coverage would be smaller than what the tree contains: not a violation of C13, but
		// not a success either
		inconclusive("model registry does not match the tree (regenerate: cd /verif/harness && VERIF_REPO=%s go1.26.8 run ./internal/modelscan/cmd/mkregistry):\n  %s",
			st.Scan.Repo, strings.Join(problems, "\n  "))
	}
}
