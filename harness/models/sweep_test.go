package models

import (
	"fmt"
	"testing"

	"verif/harness/internal/evid"
	"verif/harness/internal/modelreg"
)

// SweepCase wraps a round-trip or an unknown-element case of the deterministic sweep.
type SweepCase struct {
	RT  *RTCase  `json:"rt,omitempty"`
	Unk *UnkCase `json:"unk,omitempty"`
}

const ruleSweep = "deterministic enumeration, independent of the seed: for every discovered model the minimal value, the all-fields-set value and, for every annotated field (one nested level for struct fields), every boundary variant of its type (naturals 0..2^64-1 at the 1/2/4/8-byte edges, lengths 0/1/252/253/300, nil/empty/non-empty, 0..4 elements, 0..3 keys, multi-buffer wires) -> the round-trip oracle with a header-interior segmentation; plus, on the all-fields-set value, an unknown element of each class at EVERY element boundary of the top level and of every nested model value -> the unknown-element oracle. Non-trivial: as in the two random units"

func sweepCases(st *modelreg.State) []SweepCase {
	var out []SweepCase
	for _, m := range st.Models {
		k := m.Info.Key()
		nodes := modelreg.Sweep(st, m, evid.Thorough())
		digest := hasInterestName(st, m)
		for i, n := range nodes {
			out = append(out, SweepCase{RT: &RTCase{Model: k, V: n, Cuts: []int{-1 - i%5, -7, 500}, Digest: digest && i%2 == 1}})
		}
		full := nodes[1]
		for _, cl := range unkClasses {
			for lvl := 0; lvl <= 1; lvl++ {
				for nest := 0; nest < 6; nest++ {
					if lvl == 0 && nest > 0 {
						break
					}
					out = append(out, SweepCase{Unk: &UnkCase{Model: k, V: full, Level: lvl, Nest: nest, Pos: -1, Class: cl, Seed: uint64(nest), VLen: []int{0, 1, 3, 253}[(nest+lvl+len(cl))%4], Cuts: []int{-2, -9}}})
				}
			}
		}
	}
	return out
}

func execSweep(st *modelreg.State) func(SweepCase) evid.Result {
	rt, unk := execRT(st), execUnk(st)
	return func(c SweepCase) evid.Result {
		switch {
		case c.RT != nil:
			r := rt(*c.RT)
			r.Classes = append(r.Classes, "kind:round-trip")
			return r
		case c.Unk != nil:
			r := unk(*c.Unk)
			r.Classes = append(r.Classes, "kind:unknown-element")
			return r
		}
		return evid.Result{Err: fmt.Errorf("harness: empty sweep case")}
	}
}

func TestC13Sweep(t *testing.T) {
	st := state()
	rec := evid.New("C13", "TestC13Sweep", ruleSweep)
	cases := sweepCases(st)
	rec.Note(fmt.Sprintf("%d deterministic cases over %d models", len(cases), len(st.Models)))
	evid.Each(t, rec, cases, execSweep(st))
}

func TestC13SweepReplay(t *testing.T) {
	evid.Replay(t, "TestC13Sweep", execSweep(replayState(t)))
}
