package models

import (
	"bytes"
	"fmt"
	"os"
	"os/exec"
	"path/filepath"
	"strings"
	"sync"
	"testing"

	"verif/harness/internal/evid"
	"verif/harness/internal/modelreg"
)

// FidCase is one directory carrying a `//go:generate gondn_tlv_gen` directive.
type FidCase struct {
	Dir  string   `json:"dir"`
	Args []string `json:"args,omitempty"`
}

var (
	genOnce   sync.Once
	genBinary string
	genTmp    string
	genErr    error
	genLog    string
)

func goTool() string {
	for _, c := range []string{"go1.26.8", "go"} {
		if p, err := exec.LookPath(c); err == nil {
			return p
		}
	}
	return "go"
}

func toolEnv() []string {
	env := os.Environ()
	// readonly: building the generator must never touch go.mod / go.sum of the tree under test
	env = append(env, "GOFLAGS=-mod=readonly", "GOPROXY=off", "GOSUMDB=off", "GOTOOLCHAIN=local")
	return env
}

// buildGenerator compiles std/cmd/gondn_tlv_gen from the tree under test into a temp dir.
func buildGenerator(repo string) {
	genOnce.Do(func() {
		genTmp, genErr = os.MkdirTemp("", "verif-c13-gen-")
		if genErr != nil {
			return
		}
		genBinary = filepath.Join(genTmp, "gondn_tlv_gen")
		cmd := exec.Command(goTool(), "build", "-o", genBinary, "./std/cmd/gondn_tlv_gen")
		cmd.Dir = repo
		cmd.Env = toolEnv()
		out, err := cmd.CombinedOutput()
		genLog = string(out)
		if err != nil {
			genErr = fmt.Errorf("building std/cmd/gondn_tlv_gen from %s: %v\n%s", repo, err, out)
		}
	})
}

func copyDirFiles(src, dst string) error {
	if err := os.MkdirAll(dst, 0o755); err != nil {
		return err
	}
	ents, err := os.ReadDir(src)
	if err != nil {
		return err
	}
	for _, e := range ents {
		if e.IsDir() || !e.Type().IsRegular() {
			continue
		}
		b, err := os.ReadFile(filepath.Join(src, e.Name()))
		if err != nil {
			return err
		}
		if err := os.WriteFile(filepath.Join(dst, e.Name()), b, 0o644); err != nil {
			return err
		}
	}
	return nil
}

func firstDiff(a, b []byte) string {
	la, lb := strings.Split(string(a), "\n"), strings.Split(string(b), "\n")
	for i := 0; i < len(la) || i < len(lb); i++ {
		var x, y string
		if i < len(la) {
			x = la[i]
		}
		if i < len(lb) {
			y = lb[i]
		}
		if x != y {
			return fmt.Sprintf("first difference at line %d: checked-in %q, generated %q", i+1, strings.TrimSpace(x), strings.TrimSpace(y))
		}
	}
	return "identical"
}

// regenerate copies the directory (and the module files, so that the copy sits in a module
// of the same path at the same relative place) into a fresh temp tree, runs the generator there
// exactly as `go generate` would (working directory = package directory, the directive's
// arguments) and returns the produced file. Nothing is written into the repository.
func regenerate(repo string, c FidCase, run int) ([]byte, error) {
	root, err := os.MkdirTemp(genTmp, fmt.Sprintf("tree%d-", run))
	if err != nil {
		return nil, err
	}
	defer os.RemoveAll(root)
	for _, f := range []string{"go.mod", "go.sum"} {
		if b, err := os.ReadFile(filepath.Join(repo, f)); err == nil {
			_ = os.WriteFile(filepath.Join(root, f), b, 0o644)
		}
	}
	dst := filepath.Join(root, filepath.FromSlash(c.Dir))
	if err := copyDirFiles(filepath.Join(repo, filepath.FromSlash(c.Dir)), dst); err != nil {
		return nil, err
	}
	cmd := exec.Command(genBinary, c.Args...)
	cmd.Dir = dst
	cmd.Env = toolEnv()
	out, err := cmd.CombinedOutput()
	if err != nil {
		return nil, fmt.Errorf("generator failed in a copy of %s: %v\n%s", c.Dir, err, out)
	}
	if strings.Contains(string(out), "warning: internal error") {
		return nil, fmt.Errorf("generator reports an internal error for %s: %s", c.Dir, out)
	}
	return os.ReadFile(filepath.Join(dst, modelreg.GeneratedFileName))
}

func execFid(repo string) func(FidCase) evid.Result {
	return func(c FidCase) (res evid.Result) {
		want, err := os.ReadFile(filepath.Join(repo, filepath.FromSlash(c.Dir), modelreg.GeneratedFileName))
		if err != nil {
			res.Err = fmt.Errorf("%s carries a go:generate gondn_tlv_gen directive but has no checked-in %s: %v", c.Dir, modelreg.GeneratedFileName, err)
			return res
		}
		got1, err := regenerate(repo, c, 1)
		if err != nil {
			res.Err = err
			return res
		}
		got2, err := regenerate(repo, c, 2)
		if err != nil {
			res.Err = err
			return res
		}
		if !bytes.Equal(got1, got2) {
			res.Err = fmt.Errorf("%s: the generator is not deterministic: two runs over the same definitions differ (%s)", c.Dir, firstDiff(got1, got2))
			return res
		}
		if !bytes.Equal(want, got1) {
			res.Err = fmt.Errorf("%s/%s is not what the checked-in generator produces from the checked-in definitions: %d vs %d bytes, %s", c.Dir, modelreg.GeneratedFileName, len(want), len(got1), firstDiff(want, got1))
			return res
		}
		res.Classes = []string{"byte-identical", "deterministic(2 runs)"}
		res.NonTrivial = len(want) > 0
		return res
	}
}

const ruleFid = "one case per directory with a `//go:generate gondn_tlv_gen` directive (discovered by scanning the tree): std/cmd/gondn_tlv_gen is built from the tree under test and run twice over a temp copy of the directory; both outputs must be byte-identical to each other and to the checked-in zz_generated.go. Non-trivial: every case (non-empty generated file)"

func fidelityCases(st *modelreg.State) ([]FidCase, []string) {
	var cases []FidCase
	dirs := map[string]bool{}
	for _, g := range st.Scan.GenDirs {
		// the generator's own source tree mentions the directive in comments/strings only
		cases = append(cases, FidCase{Dir: g.Dir, Args: g.Args})
		dirs[g.Dir] = true
	}
	var orphans []string
	for _, f := range st.Scan.Files {
		if !dirs[filepath.ToSlash(filepath.Dir(f))] {
			orphans = append(orphans, f)
		}
	}
	return cases, orphans
}

func TestC13Fidelity(t *testing.T) {
	st := state()
	cases, orphans := fidelityCases(st)
	if len(orphans) > 0 {
		inconclusive("generated files without a go:generate directive in their directory (cannot be regenerated): %v", orphans)
	}
	if len(cases) == 0 {
		inconclusive("no go:generate gondn_tlv_gen directive found under %s", st.Scan.Repo)
	}
	buildGenerator(st.Scan.Repo)
	if genErr != nil {
		os.RemoveAll(genTmp)
		inconclusive("%v", genErr)
	}
	defer os.RemoveAll(genTmp)
	rec := evid.New("C13", "TestC13Fidelity", ruleFid)
	rec.Note(fmt.Sprintf("directories with a generate directive: %d; generated files found: %d", len(cases), len(st.Scan.Files)))
	evid.Each(t, rec, cases, execFid(st.Scan.Repo))
}

func TestC13FidelityReplay(t *testing.T) {
	st := replayState(t)
	buildGenerator(st.Scan.Repo)
	if genErr != nil {
		t.Skipf("%v", genErr)
	}
	defer os.RemoveAll(genTmp)
	evid.Replay(t, "TestC13Fidelity", execFid(st.Scan.Repo))
}
