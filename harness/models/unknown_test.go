package models

import (
	"fmt"
	"reflect"
	"sort"
	"testing"

	enc "github.com/named-data/ndnd/std/encoding"
	"pgregory.net/rapid"

	"verif/harness/internal/evid"
	"verif/harness/internal/modelreg"
)

// UnkCase: a valid encoding of a model value plus one unknown element inserted at an element
// boundary of the top level (Level 0) or inside one nested model value (Level 1).
type UnkCase struct {
	Model  string        `json:"m"`
	V      modelreg.Node `json:"v"`
	Digest bool          `json:"dg,omitempty"`
	Level  int           `json:"lvl"`
	Nest   int           `json:"nest,omitempty"` // which nested container (modulo their number)
	Deep   []int         `json:"deep,omitempty"` // levels >= 2: which nested container of the container chosen one level up
	Pos    int           `json:"pos"`            // which boundary (modulo their number); -1: every boundary in turn
	Class  string        `json:"cls"`            // nc1 nc3 nc5 (even > 31) | clow (even <= 30) codd1 codd3 (odd)
	Seed   uint64        `json:"seed"`           // selects the concrete type number inside the class
	VLen   int           `json:"vlen"`
	Cuts   []int         `json:"cuts,omitempty"`
}

// wide: a 9-byte type number (>= 2^32, which the packet format does not allow) whose low 32 bits are a
// type the model knows. Whether a decoder rejects such an element or skips it is left open; it must
// never be taken for the field whose number it shares half of.
var unkClasses = []string{"nc1", "nc3", "nc5", "clow", "codd1", "codd3", "nc1", "nc3", "nc5", "clow", "codd1", "codd3", "wide"}

func genUnk(st *modelreg.State) func(*rapid.T) UnkCase {
	keys := st.Keys()
	byDepth := map[int][]string{}
	for _, k := range keys {
		for d := 0; d <= nestDepth(st, st.ByKey(k), 4); d++ {
			byDepth[d] = append(byDepth[d], k)
		}
	}
	return func(t *rapid.T) UnkCase {
		c := UnkCase{}
		c.Level = []int{0, 1, 0, 1, 2, 3}[modelreg.Uniform(t, 6, "level")]
		// a model whose definition nests that deep, if there is one (constructed, not filtered)
		pool := byDepth[c.Level]
		if len(pool) == 0 {
			pool = keys
		}
		k := pool[modelreg.Uniform(t, len(pool), "model")]
		m := st.ByKey(k)
		c.Model = k
		c.V = modelreg.Gen(t, st, m, modelreg.GenOpts{Thorough: evid.Thorough(), Dense: c.Level >= 1})
		if hasInterestName(st, m) {
			c.Digest = rapid.Bool().Draw(t, "needDigest")
		}
		c.Nest = modelreg.Uniform(t, 8, "nest")
		for i := 2; i <= c.Level; i++ {
			c.Deep = append(c.Deep, modelreg.Uniform(t, 8, "deep"))
		}
		c.Pos = -1 // every boundary of the chosen level
		c.Class = unkClasses[modelreg.Uniform(t, len(unkClasses), "class")]
		c.Seed = uint64(rapid.IntRange(0, 4095).Draw(t, "typeseed"))
		c.VLen = []int{0, 1, 3, 253}[modelreg.Uniform(t, 4, "vlen")]
		c.Cuts = genCuts(t)
		return c
	}
}

// nestDepth is the number of levels of nested model values the definition of m allows (0: none).
func nestDepth(st *modelreg.State, m *modelreg.Model, limit int) int {
	if limit == 0 {
		return 0
	}
	best := 0
	t := m.Type()
	for _, f := range m.Info.Fields {
		sf, ok := t.FieldByName(f.Name)
		if !ok {
			continue
		}
		ft := sf.Type
		if ft.Kind() == reflect.Slice || ft.Kind() == reflect.Map {
			ft = ft.Elem()
		}
		if ft.Kind() == reflect.Pointer && ft.Elem().Kind() == reflect.Struct {
			if sub := st.ByType(ft); sub != nil {
				if d := 1 + nestDepth(st, sub, limit-1); d > best {
					best = d
				}
			}
		}
	}
	return best
}

func isCriticalType(t uint64) bool { return t <= 31 || t&1 == 1 }

// pickUnknown chooses a type number of the wanted class that is not in known.
func pickUnknown(class string, seed uint64, known map[uint64]bool) (uint64, string) {
	order := map[string][]string{
		"nc1": {"nc1", "nc3", "nc5"}, "nc3": {"nc3", "nc5", "nc1"}, "nc5": {"nc5", "nc3", "nc1"},
		"clow": {"clow", "codd1", "codd3"}, "codd1": {"codd1", "codd3", "clow"}, "codd3": {"codd3", "codd1", "clow"},
	}[class]
	for _, cl := range order {
		var lo, n uint64 // candidates lo, lo+step, … (n of them)
		step := uint64(2)
		switch cl {
		case "nc1":
			lo, n = 32, 111 // 32..252 even
		case "nc3":
			lo, n = 254, 32641 // 254..65534 even (253..65535 use the 3-byte form)
		case "nc5":
			lo, n = 65536, 100000
		case "clow":
			lo, n = 2, 15 // even 2..30: critical only because of the range rule (odd ones are critical anyway)
		case "codd1":
			lo, n = 33, 110 // 33..251 odd
		case "codd3":
			lo, n = 253, 32642 // 253..65535 odd
		}
		for i := uint64(0); i < n && i < 4096; i++ {
			c := lo + ((seed+i)%n)*step
			if cl == "clow" {
				c = 30 - 2*((seed+i)%n) // seed 0 = 30, the last number that is critical by range (32 / 33 are seed 0 of nc1 / codd1)
			}
			if !known[c] {
				return c, cl
			}
		}
	}
	return 0, ""
}

// container is a top-level element whose value is the encoding of a nested model.
type container struct {
	idx int
	sub *modelreg.Model
}

// nestedContainers maps the top-level elements of an encoding to the nested models they hold,
// going through the definition (type number -> field) and the Go type of that field.
func nestedContainers(st *modelreg.State, m *modelreg.Model, es []modelreg.Elem) []container {
	t := m.Type()
	byType := map[uint64]*modelreg.Model{}
	for _, f := range m.Info.Fields {
		sf, ok := t.FieldByName(f.Name)
		if !ok {
			continue
		}
		ft := sf.Type
		vt := f.Type
		switch ft.Kind() {
		case reflect.Slice:
			ft = ft.Elem()
		case reflect.Map:
			ft = ft.Elem()
			if kv := m.MapKeyTypes(); kv != nil {
				vt = kv[f.Type]
			}
		}
		if ft.Kind() == reflect.Pointer && ft.Elem().Kind() == reflect.Struct {
			if sub := st.ByType(ft); sub != nil {
				byType[vt] = sub
			}
		}
	}
	var out []container
	for i, e := range es {
		if sub := byType[e.Typ]; sub != nil {
			out = append(out, container{i, sub})
		}
	}
	return out
}

func execUnk(st *modelreg.State) func(UnkCase) evid.Result {
	return func(c UnkCase) (res evid.Result) {
		m := st.ByKey(c.Model)
		if m == nil {
			return evid.Result{Classes: []string{"skipped:model-not-in-this-tree"}}
		}
		v, err := modelreg.Build(m, c.V)
		if err != nil {
			return evid.Result{Classes: []string{"skipped:node-does-not-fit-model"}}
		}
		fail := func(format string, a ...any) evid.Result {
			res.Err = fmt.Errorf("%s: "+format, append([]any{shortKey(c.Model)}, a...)...)
			return res
		}
		eo := modelreg.EncOpts{NeedDigest: c.Digest}
		e, _, err := st.EncodeValue(m, v, eo)
		if err != nil {
			return fail("%v", err)
		}
		base := e.Bytes
		top, ok, _ := modelreg.Elements(base, 0, len(base))
		if !ok {
			return fail("the encoding is not a well-formed TLV sequence: %x", clip(base))
		}
		// the unmodified encoding must decode (the round-trip unit looks at it in detail)
		if _, err := parseAndCompare(st, m, "BufferReader", enc.NewBufferReader(base), false, v, nil, eo); err != nil {
			return fail("%v", err)
		}

		// where to insert: descend through up to c.Level nested model values (Packet -> Data ->
		// SignatureInfo -> KeyLocator, RibStatus -> RibEntry -> Route, ...); the descent stops where the
		// value holds no further nested model
		level := 0
		lo, hi := 0, len(base) // range whose element boundaries are candidates
		levelModel := m
		es := top
		var chain []modelreg.Elem // the containers descended into, outermost first
		for level < c.Level {
			cs := nestedContainers(st, levelModel, es)
			if len(cs) == 0 {
				res.Classes = append(res.Classes, fmt.Sprintf("no-nested-model-in-value(level%d-instead)", level))
				break
			}
			pick := c.Nest
			if level >= 1 {
				pick = c.Deep[level-1]
			}
			cont := cs[pick%len(cs)]
			ce := es[cont.idx]
			chain = append(chain, ce)
			lo, hi = ce.ValOff(), ce.End()
			levelModel = cont.sub
			var ok2 bool
			es, ok2, _ = modelreg.Elements(base, lo, hi)
			if !ok2 {
				return fail("nested value of type %d is not a well-formed TLV sequence", ce.Typ)
			}
			level++
		}
		bounds := []int{lo}
		for _, x := range es {
			bounds = append(bounds, x.End())
		}
		known := map[uint64]bool{}
		for _, t := range levelModel.Info.Types {
			known[t] = true
		}
		for _, f := range levelModel.Info.Fields { // also what the definition says, whatever the parse loop looks like
			known[f.Type] = true
		}
		var typ uint64
		var cl string
		wide := c.Class == "wide"
		if wide {
			var ks []uint64
			for t := range known {
				if t != 0 && t < 1<<32 {
					ks = append(ks, t)
				}
			}
			if len(ks) == 0 {
				return evid.Result{Classes: []string{"skipped:no-known-type-at-this-level"}}
			}
			sort.Slice(ks, func(i, j int) bool { return ks[i] < ks[j] })
			typ, cl = (1+(c.Seed>>8)%3)<<32|ks[int(c.Seed)%len(ks)], "wide"
		} else {
			typ, cl = pickUnknown(c.Class, c.Seed, known)
		}
		if cl == "" {
			return evid.Result{Classes: []string{"skipped:no-unknown-type-available"}}
		}
		critical := isCriticalType(typ)
		val := make([]byte, c.VLen)
		for i := range val {
			val[i] = byte(0xA0 + i)
		}
		unk := modelreg.TLV(typ, val)

		positions := []int{}
		if c.Pos < 0 {
			for i := range bounds {
				positions = append(positions, i)
			}
		} else {
			positions = append(positions, c.Pos%len(bounds))
		}
		for _, bi := range positions {
			at := bounds[bi]
			// between a map key and its value?
			betweenKV := false
			if kv := levelModel.MapKeyTypes(); kv != nil && bi > 0 && bi < len(bounds)-1 {
				if vt, isKey := kv[es[bi-1].Typ]; isKey && es[bi].Typ == vt {
					// the element before is a key only if it is at an even distance from the start of its run
					run := 0
					for j := bi - 1; j >= 0 && (es[j].Typ == es[bi-1].Typ || es[j].Typ == vt); j-- {
						run++
					}
					betweenKV = run%2 == 1
				}
			}

			// the innermost value with the element inserted, re-wrapped by every container on the way out
			mod := append(append(append([]byte{}, base[lo:at]...), unk...), base[at:hi]...)
			for i := len(chain) - 1; i >= 0; i-- {
				ce := chain[i]
				plo, phi := 0, len(base)
				if i > 0 {
					plo, phi = chain[i-1].ValOff(), chain[i-1].End()
				}
				mod = append(append(append([]byte{}, base[plo:ce.Off]...), modelreg.TLV(ce.Typ, mod)...), base[ce.End():phi]...)
			}

			where := fmt.Sprintf("unknown element type %d (%s, %d value bytes) inserted at level %d boundary %d/%d (offset %d)", typ, cl, c.VLen, level, bi, len(bounds)-1, at)
			readers := []struct {
				name string
				mk   func() enc.ParseReader
			}{
				{"BufferReader", func() enc.ParseReader { return enc.NewBufferReader(mod) }},
				{"WireReader", func() enc.ParseReader { return enc.NewWireReader(segment(mod, cutsFor(mod, c.Cuts))) }},
			}
			for _, rd := range readers {
				for _, ic := range []bool{false, true} {
					var got any
					var perr error
					if err := guard("Parse("+rd.name+")", func() { got, _, perr = m.ParseOnce(rd.mk(), ic) }); err != nil {
						return fail("%s: %v", where, err)
					}
					if wide && perr != nil {
						continue // rejected: fine (type numbers above 2^32-1 are not part of the format)
					}
					if critical && !ic {
						if perr == nil {
							return fail("%s: Parse(%s, ignoreCritical=false) accepted an unrecognised critical element", where, rd.name)
						}
						if !isUnrecognized(perr, typ) {
							return fail("%s: Parse(%s, ignoreCritical=false) failed with %q, want ErrUnrecognizedField{%d}", where, rd.name, perr, typ)
						}
						continue
					}
					if perr != nil {
						return fail("%s: Parse(%s, ignoreCritical=%v) rejected the encoding: %v", where, rd.name, ic, perr)
					}
					if d := modelreg.Diff(v, got); d != "" {
						return fail("%s: Parse(%s, ignoreCritical=%v) succeeded but other fields changed: %s", where, rd.name, ic, d)
					}
					re, _, err := st.EncodeValue(m, got, eo)
					if err != nil {
						return fail("%s: re-encoding the decoded value: %v", where, err)
					}
					if !sameBytes(m, re.Bytes, base) {
						return fail("%s: the value decoded by Parse(%s, ignoreCritical=%v) re-encodes to %x…, the encoding without the unknown element was %x…", where, rd.name, ic, clip(re.Bytes), clip(base))
					}
				}
			}

			res.Counts = addCount(res.Counts, "insertions", 1)
			switch {
			case len(es) == 0:
				res.Counts = addCount(res.Counts, "insertions:empty-level", 1)
			case bi == 0:
				res.Counts = addCount(res.Counts, "insertions:first", 1)
			case bi == len(bounds)-1:
				res.Counts = addCount(res.Counts, "insertions:last", 1)
			default:
				res.Counts = addCount(res.Counts, "insertions:middle", 1)
			}
			if betweenKV {
				res.Counts = addCount(res.Counts, "insertions:between-map-key-and-value", 1)
			}
		}
		res.Classes = append(res.Classes, "pkg:"+shortKey(m.Info.ImportPath), "class:"+cl, fmt.Sprintf("level%d", level))
		if critical {
			res.Classes = append(res.Classes, "critical")
		} else {
			res.Classes = append(res.Classes, "non-critical")
		}
		if levelModel.Info.Ordered {
			res.Classes = append(res.Classes, "into-ordered-model")
		}
		res.NonTrivial = len(es) >= 2
		return res
	}
}

const ruleUnk = "every discovered model x random value x one unknown TLV (type not used by the model at that level: non-critical even >31 in 1-, 3- and 5-byte type form, or critical <=31 / odd; or a 9-byte number sharing its low 32 bits with a known field: rejected, or skipped like the others, never taken for that field) inserted at every element boundary of the top level or of a nested model value one, two or three levels down; BufferReader and segmented WireReader, ignoreCritical false and true. Non-critical (or ignoreCritical): decode succeeds, equals the original value, re-encodes to the original bytes; critical and !ignoreCritical: ErrUnrecognizedField for that type. Non-trivial: >= 2 elements at the insertion level"

func TestC13Unknown(t *testing.T) {
	st := state()
	rec := evid.New("C13", "TestC13Unknown", ruleUnk)
	evid.Check(t, rec, genUnk(st), execUnk(st))
}

func TestC13UnknownReplay(t *testing.T) {
	evid.Replay(t, "TestC13Unknown", execUnk(replayState(t)))
}

func TestC13UnknownRegress(t *testing.T) {
	evid.Regress(t, "C13", "TestC13Unknown", execUnk(state()))
}

func addCount(m map[string]int, k string, n int) map[string]int {
	if m == nil {
		m = map[string]int{}
	}
	m[k] += n
	return m
}
