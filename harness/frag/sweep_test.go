package frag

import (
	"fmt"
	"os"
	"strconv"
	"testing"

	"github.com/named-data/ndnd/fw/defn"

	"verif/harness/internal/evid"
)

// Finite sweep of C10: every packet size that exists (4, 6..254, 257..8800) for a grid of
// MTUs x header-option combinations, one packet per case, frames fed to the receiver in
// reverse order. The thorough tier enumerates the grid completely (reported as exhaustive
// for that grid); the quick tier runs a coarse sub-grid.

type SweepCase struct {
	MTU  int `json:"mtu"`
	Opt  int `json:"opt"` // bit 0 fragmentation on, 1 forwarder PIT token (6 bytes), 2 congestion mark, 3 incoming-face indication, 4 Interest instead of Data
	Size int `json:"sz"`
}

const (
	optFrag = 1 << iota
	optTok
	optCong
	optInFace
	optInterest
)

var sweepMTUs = []int{128, 129, 130, 160, 200, 252, 253, 254, 255, 256, 257, 258, 259, 300, 512, 576, 1024, 1280, 1492, 1500, 4096, 8192, 8799, 8800}

func sweepOpts() []int {
	var o []int
	for i := 0; i < 16; i++ {
		o = append(o, i)
	}
	return append(o, optInterest|optFrag|optTok|optInFace)
}

var quickMTUs = []int{128, 253, 1500, 8800}
var quickOpts = []int{optFrag, optFrag | optTok, optFrag | optTok | optCong | optInFace, 0, optTok | optCong, optInterest | optFrag | optTok | optInFace}

func (sc SweepCase) toCase() Case {
	m := Msg{Kind: "D", Label: "a", Size: sc.Size, Seed: byte(sc.Size)}
	if sc.Opt&optInterest != 0 {
		m.Kind = "I"
	}
	if sc.Opt&optTok != 0 {
		m.OutTok = []byte{0, 1, 0xde, 0xad, 0xbe, 0xef}
	}
	if sc.Opt&optCong != 0 {
		m.Cong = u64p(1)
	}
	c := Case{MTU: sc.MTU, Frag: sc.Opt&optFrag != 0, RxThreads: 2, Mode: "rev"}
	if sc.Opt&optInFace != 0 {
		c.InFaceInd = true
		m.InFace = u64p(65536)
	}
	c.Msgs = []Msg{m}
	return c
}

var existCache = map[string][]bool{}

func sizeExists(kind string, size int) bool {
	e, ok := existCache[kind]
	if !ok {
		e = make([]bool, defn.MaxNDNPacketSize+1)
		for s := 1; s <= defn.MaxNDNPacketSize; s++ {
			_, e[s] = buildWire(Msg{Kind: kind, Label: "a", Size: s})
		}
		existCache[kind] = e
	}
	return e[size]
}

// sweepCases enumerates the grid and returns the cases of this shard (index mod shards)
// and the size of the whole grid.
func sweepCases(thorough bool, shard, shards int) (out []SweepCase, total int) {
	mtus, opts := quickMTUs, quickOpts
	if thorough {
		mtus, opts = sweepMTUs, sweepOpts()
	}
	for _, mtu := range mtus {
		for _, opt := range opts {
			kind := "D"
			if opt&optInterest != 0 {
				kind = "I"
			}
			probe := SweepCase{MTU: mtu, Opt: opt, Size: 100}.toCase()
			h := hdrOf(probe, probe.Msgs[0], probe.Msgs[0].Cong)
			fit := maxFit(h, mtu)
			p := mtu - 26 - len(h.Encode()) + 2
			for size := 4; size <= defn.MaxNDNPacketSize; size++ {
				if !thorough {
					d := size - fit
					near := d >= -3 && d <= 4
					if r := size % p; r <= 2 || r >= p-2 {
						near = near || size/p <= 12 || size%7 == 0
					}
					if !(near || size <= 60 || (size >= 249 && size <= 262) || size%211 == 0 || size >= 8797) {
						continue
					}
				}
				if !sizeExists(kind, size) {
					continue
				}
				if total%shards == shard {
					out = append(out, SweepCase{MTU: mtu, Opt: opt, Size: size})
				}
				total++
			}
		}
	}
	return out, total
}

func execSweep(sc SweepCase) evid.Result { return execC10(sc.toCase()) }

const ruleC10Sweep = "finite sweep: one packet of every existing size 4..8800 (no TLV is 1-3, 5, 255 or 256 bytes long) x MTU grid x header options {fragmentation, forwarder PIT token, congestion mark, incoming-face indication} (+ Interests for one combination), frames received in reverse order; same oracle as TestC10Frag. Non-trivial: the packet was sent as >=2 fragments (received in non-identity order)"

func TestC10Sweep(t *testing.T) {
	rec := evid.New("C10", "TestC10Sweep", ruleC10Sweep)
	thorough := evid.Thorough()
	shard, _ := strconv.Atoi(os.Getenv("VERIF_SHARD"))
	shards, _ := strconv.Atoi(os.Getenv("VERIF_SHARDS"))
	if shards < 1 {
		shards = 1
	}
	mine, total := sweepCases(thorough, shard, shards)
	if thorough {
		rec.SetExhaustive()
		rec.Note(fmt.Sprintf("exhaustive for the grid: all %d existing packet sizes 4..8800 x MTUs %v x %d header-option combinations = %d sends (split over %d shards)",
			total/(len(sweepMTUs)*len(sweepOpts())), sweepMTUs, len(sweepOpts()), total, shards))
	} else {
		rec.Note(fmt.Sprintf("quick tier: coarse sub-grid (MTUs %v, %d option combinations, sizes near the one-frame boundary, near multiples of the fragment payload, <=60, 249..262, multiples of 211, >=8797): %d sends; not exhaustive", quickMTUs, len(quickOpts), total))
	}
	evid.Each(t, rec, mine, execSweep)
}

func TestC10SweepReplay(t *testing.T) { evid.Replay(t, "TestC10Sweep", execSweep) }
