// Package frag decides C10: link-layer fragmentation and reassembly reproduce every packet
// exactly. Sender = the real NDNLPLinkService send path (sendPacket) over a recording
// in-memory transport; receiver = a second NDNLPLinkService (handleIncomingFrame) that
// dispatches to recording forwarding threads. Frame sizes, "fits in one frame" and
// well-formedness are judged with the harness's own NDNLPv2 encoder (internal/lpwire),
// never with the code under test.
package frag

import (
	"bytes"
	"fmt"
	"io"
	"sort"
	"sync"
	"testing"
	"testing/synctest"
	"time"

	"github.com/named-data/ndnd/fw/core"
	"github.com/named-data/ndnd/fw/defn"
	"github.com/named-data/ndnd/fw/dispatch"
	"github.com/named-data/ndnd/fw/face"
	"github.com/named-data/ndnd/fw/fw"
	enc "github.com/named-data/ndnd/std/encoding"
	ndnlog "github.com/named-data/ndnd/std/log"
	spec "github.com/named-data/ndnd/std/ndn/spec_2022"
	"pgregory.net/rapid"

	"verif/harness/internal/evid"
	"verif/harness/internal/lpwire"
)

// ---------------------------------------------------------------------------- case

// Msg is one network packet handed to the sending link service, the way a forwarding
// thread hands it over: the packet as received (with the token / mark it arrived with)
// plus what the forwarder attaches (OutPkt.PitToken, OutPkt.InFace).
type Msg struct {
	Kind   string  `json:"k"`              // "D" Data | "I" Interest
	Label  string  `json:"l"`              // first name component
	Size   int     `json:"sz"`             // exact wire size of the network packet
	Seed   byte    `json:"seed,omitempty"` // content bytes
	OutTok []byte  `json:"otok,omitempty"` // OutPkt.PitToken (forwarder supplied); empty = none
	PktTok []byte  `json:"ptok,omitempty"` // defn.Pkt.PitToken (the packet's own, from its arrival)
	Cong   *uint64 `json:"cm,omitempty"`   // defn.Pkt.CongestionMark
	InFace *uint64 `json:"inf,omitempty"`  // OutPkt.InFace
}

type Case struct {
	MTU       int      `json:"mtu"`
	MTU0      int      `json:"mtu0,omitempty"`     // >0: the face is created with this MTU, which is then changed to MTU (faces/update does that)
	LateOpts  bool     `json:"lateopts,omitempty"` // the options are applied with SetOptions after creation with the defaults
	Frag      bool     `json:"frag"`               // sender: IsFragmentationEnabled
	InFaceInd bool     `json:"ifi,omitempty"`      // sender: IsIncomingFaceIndicationEnabled
	LocalCong bool     `json:"lcong,omitempty"`    // sender's queue is congested: it adds its own mark
	Warmed    bool     `json:"warmed,omitempty"`   // the face has carried > 64 KiB before: the sender looks at its (idle) queue when the first packet goes out
	RxThreads int      `json:"rxt"`                // forwarding threads at the receiver
	RxLocal   bool     `json:"rxlocal,omitempty"`  // receiver face has local scope
	Msgs      []Msg    `json:"msgs"`
	Mode      string   `json:"mode"`           // id | rev | rr | keys
	Keys      []uint32 `json:"keys,omitempty"` // mode keys: frames are fed in stable order of Keys[i%len]
	Dup       int      `json:"dup,omitempty"`  // >0: frame (Dup-1)%n is fed twice, second copy at DupAt%(n+1)
	DupAt     int      `json:"dupat,omitempty"`
	// Stream non-empty: the receiver is a stream face -- the frames (in receive order) are
	// concatenated and go through readTlvStream in reads of these sizes (cycled; <=0: as
	// much as offered), whose callback is the link service, exactly as the TCP / Unix
	// transports do.
	Stream []int `json:"stream,omitempty"`
	// SeqBack > 0: the sender's next fragment sequence number is 2^64 - SeqBack when the first
	// message goes out, so that the numbering wraps inside or between the messages (a link
	// service that has been up long enough gets there; seeded C10-r6-2 rejected fragments whose
	// sequence number is smaller than their index)
	SeqBack uint64 `json:"seqback,omitempty"`
	// Gaps non-empty: virtual milliseconds that pass before each frame reaches the receiver (cycled).
	// Gaps are short (<= 60 ms) and many: a message with many fragments is under reassembly for
	// seconds while others begin and complete. No reassembly timeout an implementation may reasonably
	// have (NFD's is 500 ms after the LAST fragment of that message) is entitled to drop a message
	// whose fragments keep arriving every few milliseconds. (Seeded C10-r9-2 measured the timeout from
	// the moment any message last began.)
	Gaps []int `json:"gaps,omitempty"`
	// Stall[1] > 0: before the frame at receive position Stall[0] (modulo the number of frames) the link
	// is silent for Stall[1] virtual milliseconds (0.7..3 s). A message that is under reassembly across
	// such a silence may be given up by a receiver with a reassembly time-out - it need not be
	// delivered (if it is: once, byte-identical) - but nothing may crash and every other message is
	// owed as usual. (Seeded C04-r10-2: a late fragment of a timed-out message panicked.)
	Stall [2]int `json:"stall,omitempty"`
}

// ---------------------------------------------------------------------------- set-up

var setupOnce sync.Once

func setup() {
	setupOnce.Do(func() {
		cfg := core.DefaultConfig() // congestion marking enabled, as in production
		cfg.Core.LogLevel = "FATAL"
		core.LoadConfig(cfg, "")
		core.InitializeLogger("")
		ndnlog.SetHandler(ndnlog.HandlerFunc(func(*ndnlog.Entry) error { return nil }))
		face.Configure()
	})
}

type delivery struct {
	thread   int
	interest bool
	raw      []byte // copy taken at the moment of delivery
	tok      []byte
	cong     *uint64
	pkt      *defn.Pkt // what the forwarding thread holds on to and processes later
}

type recThread struct {
	id   int
	sink *[]delivery
}

func (r *recThread) String() string        { return fmt.Sprintf("rec-thread-%d", r.id) }
func (r *recThread) GetNumPitEntries() int { return 0 }
func (r *recThread) GetNumCsEntries() int  { return 0 }
func (r *recThread) rec(p *defn.Pkt, interest bool) {
	d := delivery{thread: r.id, interest: interest, raw: append([]byte{}, p.Raw...), tok: append([]byte{}, p.PitToken...), pkt: p}
	if p.CongestionMark != nil {
		v := *p.CongestionMark
		d.cong = &v
	}
	*r.sink = append(*r.sink, d)
}
func (r *recThread) QueueData(p *defn.Pkt)     { r.rec(p, false) }
func (r *recThread) QueueInterest(p *defn.Pkt) { r.rec(p, true) }

// resetGlobals re-creates every piece of package-level state the two link services touch.
func resetGlobals(nThreads int, sink *[]delivery) {
	ths := make([]dispatch.FWThread, nThreads)
	for i := range ths {
		ths[i] = &recThread{id: i, sink: sink}
	}
	dispatch.InitializeFWThreads(ths)
	fw.Threads = make([]*fw.Thread, nThreads) // only len(fw.Threads) is used by the name hash
	face.VerifResetFaceTable()
}

func buildWire(m Msg) ([]byte, bool) {
	if m.Kind == "I" {
		return lpwire.MakeInterest(m.Label, m.Size, m.Seed)
	}
	return lpwire.MakeData(m.Label, m.Size, m.Seed)
}

// toPkt does what the receive path of the forwarder does with a packet before a
// forwarding thread sends it on: parse the wire, keep the raw bytes.
func toPkt(m Msg, wire []byte) (*defn.Pkt, error) {
	raw := append([]byte{}, wire...)
	l3, _, err := spec.ReadPacket(enc.NewBufferReader(raw))
	if err != nil {
		return nil, err
	}
	p := &defn.Pkt{L3: l3, Raw: raw}
	if l3.Interest != nil {
		p.Name = l3.Interest.NameV
	} else if l3.Data != nil {
		p.Name = l3.Data.NameV
	} else {
		return nil, fmt.Errorf("not Interest/Data")
	}
	if len(m.PktTok) > 0 {
		p.PitToken = append([]byte{}, m.PktTok...)
	}
	if m.Cong != nil {
		v := *m.Cong
		p.CongestionMark = &v
	}
	in := uint64(7)
	p.IncomingFaceID = &in
	return p, nil
}

// hdrOf is the LpPacket header a single frame carrying message m needs.
func hdrOf(c Case, m Msg, mark *uint64) lpwire.LP {
	h := lpwire.LP{}
	if len(m.OutTok) > 0 {
		h.PitToken = m.OutTok
	}
	if c.InFaceInd && m.InFace != nil {
		h.IncomingFaceId = m.InFace
	}
	h.CongestionMark = mark
	return h
}

func maxFit(h lpwire.LP, mtu int) int {
	for s := mtu; s > 0; s-- {
		if h.Size(s) <= mtu {
			return s
		}
	}
	return 0
}

func order(c Case, perMsg []int) []int {
	n := 0
	for _, k := range perMsg {
		n += k
	}
	idx := make([]int, n)
	for i := range idx {
		idx[i] = i
	}
	switch c.Mode {
	case "rev":
		for i, j := 0, n-1; i < j; i, j = i+1, j-1 {
			idx[i], idx[j] = idx[j], idx[i]
		}
	case "rr":
		idx = idx[:0]
		start := make([]int, len(perMsg))
		s := 0
		for i, k := range perMsg {
			start[i] = s
			s += k
		}
		for r := 0; len(idx) < n; r++ {
			for i, k := range perMsg {
				if r < k {
					idx = append(idx, start[i]+r)
				}
			}
		}
	case "keys":
		if len(c.Keys) > 0 {
			sort.SliceStable(idx, func(a, b int) bool { return c.Keys[idx[a]%len(c.Keys)] < c.Keys[idx[b]%len(c.Keys)] })
		}
	}
	return idx
}

type chunkReader struct {
	data   []byte
	off    int
	chunks []int
	i      int
}

func (r *chunkReader) Read(p []byte) (int, error) {
	if r.off >= len(r.data) {
		return 0, io.EOF
	}
	if len(p) == 0 {
		return 0, io.ErrShortBuffer
	}
	n := r.chunks[r.i%len(r.chunks)]
	r.i++
	if n <= 0 || n > len(p) {
		n = len(p)
	}
	if n > len(r.data)-r.off {
		n = len(r.data) - r.off
	}
	copy(p, r.data[r.off:r.off+n])
	r.off += n
	return n, nil
}

func eqMark(a, b *uint64) bool {
	if a == nil || b == nil {
		return a == nil && b == nil
	}
	return *a == *b
}

func markStr(a *uint64) string {
	if a == nil {
		return "none"
	}
	return fmt.Sprint(*a)
}

// ---------------------------------------------------------------------------- exec

// bubbleT is the test whose bubble the cases with Gaps run in (virtual time).
var bubbleT *testing.T

func execC10(c Case) (res evid.Result) {
	if (len(c.Gaps) == 0 && c.Stall[1] == 0) || bubbleT == nil {
		return runC10(c)
	}
	synctest.Test(bubbleT, func(*testing.T) { res = runC10(c) })
	return res
}

func runC10(c Case) (res evid.Result) {
	setup()
	var sink []delivery
	resetGlobals(c.RxThreads, &sink)
	fail := func(f string, a ...any) evid.Result {
		res.Err = fmt.Errorf(f, a...)
		return res
	}
	cls := map[string]bool{}
	defer func() {
		for k := range cls {
			res.Classes = append(res.Classes, k)
		}
		sort.Strings(res.Classes)
	}()

	uri := defn.MakeNullFaceURI()
	mtu0 := c.MTU
	if c.MTU0 > 0 {
		mtu0 = c.MTU0
		cls["mtu-changed-after-creation"] = true
	}
	tx := face.VerifMakeTransport(uri, uri, face.PersistencyPersistent, defn.NonLocal, defn.PointToPoint, mtu0)
	opts := face.MakeNDNLPLinkServiceOptions()
	opts.IsFragmentationEnabled = c.Frag
	opts.IsIncomingFaceIndicationEnabled = c.InFaceInd
	var sender *face.NDNLPLinkService
	if c.LateOpts {
		// created with the opposite of what it is then set to (a link service made without fragmentation
		// - the way TCP faces are made - and switched to fragmentation later must size its frames for
		// fragmentation: seeded C10-r10-2 computed the header overhead from the old options)
		first := face.MakeNDNLPLinkServiceOptions()
		first.IsFragmentationEnabled = !opts.IsFragmentationEnabled
		first.IsIncomingFaceIndicationEnabled = !opts.IsIncomingFaceIndicationEnabled
		sender = face.MakeNDNLPLinkService(tx, first)
		sender.SetOptions(opts)
		cls["options-changed-after-creation"] = true
	} else {
		sender = face.MakeNDNLPLinkService(tx, opts)
	}
	sender.SetFaceID(300)
	if c.SeqBack > 0 {
		sender.VerifSetNextSequence(-c.SeqBack)
		cls["sequence-numbers-near-the-64-bit-wrap"] = true
	}
	if c.MTU0 > 0 {
		sender.SetMTU(c.MTU)
	}

	send := func(out dispatch.OutPkt) (frames [][]byte, err error) {
		defer func() {
			if r := recover(); r != nil {
				err = fmt.Errorf("panic in sendPacket: %v", r)
			}
		}()
		face.VerifSendPacket(sender, out)
		return tx.VerifTakeFrames(), nil
	}

	// a second face of the same forwarder, idle, with room for every packet in one frame
	tx2 := face.VerifMakeTransport(uri, uri, face.PersistencyPersistent, defn.NonLocal, defn.PointToPoint, 8800)
	idle := face.MakeNDNLPLinkService(tx2, opts)
	idle.SetFaceID(301)
	sendIdle := func(out dispatch.OutPkt) (frames [][]byte, err error) {
		defer func() {
			if r := recover(); r != nil {
				err = fmt.Errorf("panic in sendPacket: %v", r)
			}
		}()
		face.VerifSendPacket(idle, out)
		return tx2.VerifTakeFrames(), nil
	}

	if c.LocalCong || c.Warmed {
		// the link service looks at the transport's send queue only after 64 KiB went out
		w, _ := lpwire.MakeData("warm", 4000, 1)
		for i := 0; i < 17; i++ {
			p, err := toPkt(Msg{Kind: "D"}, w)
			if err != nil {
				return fail("harness: %v", err)
			}
			if _, err := send(dispatch.OutPkt{Pkt: p}); err != nil && c.MTU >= 128 {
				return fail("%v (warm-up)", err)
			}
		}
		if c.LocalCong {
			tx.VerifSetSendQueueSize(1 << 30)
			cls["local-congestion-marking"] = true
		} else {
			cls["queue-looked-at-and-idle"] = true
		}
	}

	// ---- sender side
	type sent struct {
		wire    []byte
		frames  [][]byte
		dropped bool
	}
	msgs := make([]sent, len(c.Msgs))
	var all [][]byte
	var owner []int
	perMsg := make([]int, len(c.Msgs))
	multi := false
	for i, m := range c.Msgs {
		wire, ok := buildWire(m)
		if !ok {
			return fail("harness: no %s packet of %d bytes", m.Kind, m.Size)
		}
		pkt, err := toPkt(m, wire)
		if err != nil {
			return fail("harness: generated packet rejected: %v", err)
		}
		out := dispatch.OutPkt{Pkt: pkt}
		if len(m.OutTok) > 0 {
			out.PitToken = append([]byte{}, m.OutTok...)
		}
		if m.InFace != nil {
			v := *m.InFace
			out.InFace = &v
		}
		frames, err := send(out)
		if err != nil {
			return fail("msg %d (size %d): %v", i, m.Size, err)
		}
		if !bytes.Equal(pkt.Raw, wire) {
			return fail("msg %d: sendPacket modified the packet's bytes", i)
		}
		if c.LocalCong {
			// the forwarder hands one packet object to every outgoing face (multicast, several
			// downstreams): what a congested face adds for its own peer must not show on another, idle
			// face that sends the same object afterwards
			frames2, err := sendIdle(out)
			if err != nil {
				return fail("msg %d (size %d) on a second, idle face: %v", i, m.Size, err)
			}
			for j, f := range frames2 {
				lp, err := lpwire.ParseFrame(f)
				if err != nil {
					return fail("msg %d on a second, idle face: frame %d is not a well-formed LpPacket: %v", i, j, err)
				}
				if markStr(lp.CongestionMark) != markStr(m.Cong) {
					return fail("msg %d: sent through a congested face first and then through an idle one, frame %d of the idle face carries congestion mark %s, the packet has %s",
						i, j, markStr(lp.CongestionMark), markStr(m.Cong))
				}
			}
			cls["same-packet-through-a-second-idle-face"] = true
		}
		msgs[i] = sent{wire: wire, frames: frames}

		// which header does one frame need?  (the sender may add its own congestion mark)
		one := uint64(1)
		hSmall := hdrOf(c, m, m.Cong)
		hBig := hSmall
		if c.LocalCong {
			// the sender may replace / add the mark with its own (value 1)
			alt := hdrOf(c, m, &one)
			if alt.Size(len(wire)) > hBig.Size(len(wire)) {
				hBig = alt
			}
			if alt.Size(len(wire)) < hSmall.Size(len(wire)) {
				hSmall = alt
			}
		}
		fitsSure := hBig.Size(len(wire)) <= c.MTU    // fits whatever the sender adds
		fitsMaybe := hSmall.Size(len(wire)) <= c.MTU // fits if the sender adds nothing
		for j, f := range frames {
			if len(f) > c.MTU {
				return fail("msg %d (%s, %d bytes, out-token %d bytes, mark %s, inface %v): frame %d of %d is %d bytes > MTU %d",
					i, m.Kind, m.Size, len(m.OutTok), markStr(m.Cong), m.InFace != nil && c.InFaceInd, j, len(frames), len(f), c.MTU)
			}
			lp, err := lpwire.ParseFrame(f) // an LpPacket, or a bare Interest/Data (equivalent for a header-less packet)
			if err != nil {
				return fail("msg %d: frame %d is not a well-formed LpPacket: %v", i, j, err)
			}
			if !lp.HasFragment || len(lp.Fragment) == 0 {
				return fail("msg %d: frame %d carries no fragment", i, j)
			}
		}
		// can a fragment be sent at all?  (headers + fragmentation fields + 1 byte of payload)
		hf := hSmall
		hf.Seq, hf.FragIndex, hf.FragCount = u64p(0), u64p(0), u64p(2)
		impossible := !fitsMaybe && hf.Size(1) > c.MTU
		switch {
		case impossible && len(frames) != 0:
			return fail("msg %d (%d bytes, out-token %d bytes): the headers alone need %d bytes > MTU %d, but %d frame(s) were emitted",
				i, m.Size, len(m.OutTok), hf.Size(1), c.MTU, len(frames))
		case impossible:
			cls["headers-exceed-mtu:dropped"] = true
		case !fitsMaybe && len(frames) == 0 && c.MTU-26-(len(hBig.Encode())-2) < 1:
			// (only with a PIT token far beyond NDNLPv2's 32 bytes) an implementation that
			// reserves the worst-case 26 bytes of LpPacket/Fragment/Sequence/FragIndex/
			// FragCount framing has no room left: dropping is acceptable
			cls["headers-leave-no-room:dropped"] = true
		case fitsSure && len(frames) != 1:
			return fail("msg %d (%s, %d bytes, out-token %d bytes, mark %s, inface %v, frag=%v): a single LpPacket of %d bytes fits MTU %d but %d frames were emitted",
				i, m.Kind, m.Size, len(m.OutTok), markStr(m.Cong), m.InFace != nil && c.InFaceInd, c.Frag, hBig.Size(len(wire)), c.MTU, len(frames))
		case !fitsMaybe && !c.Frag && len(frames) != 0:
			return fail("msg %d (%d bytes): fragmentation is off and a single LpPacket needs %d bytes > MTU %d, but %d frame(s) were emitted",
				i, m.Size, hSmall.Size(len(wire)), c.MTU, len(frames))
		case !fitsMaybe && c.Frag && len(frames) < 2:
			return fail("msg %d (%d bytes): a single LpPacket needs %d bytes > MTU %d and fragmentation is on, but %d frame(s) were emitted",
				i, m.Size, hSmall.Size(len(wire)), c.MTU, len(frames))
		}
		if len(frames) == 0 {
			msgs[i].dropped = true
			cls["oversize-dropped(frag-off)"] = true
		}
		if len(frames) == 1 {
			cls["one-frame"] = true
			if maxFit(hSmall, c.MTU) == len(wire) {
				cls["one-frame:exactly-fills-mtu"] = true
			}
		}
		if len(frames) >= 2 {
			multi = true
			cls["fragmented"] = true
			if len(frames) >= 10 {
				cls["fragmented:>=10"] = true
			}
			if maxFit(hSmall, c.MTU)+1 == len(wire) {
				cls["fragmented:one-byte-too-big"] = true
			}
		}
		switch {
		case len(m.OutTok) == 0:
			cls["out-token:none"] = true
		case len(m.OutTok) == 6:
			cls["out-token:6"] = true
		default:
			cls["out-token:other-length"] = true
		}
		if len(m.OutTok) > 0 && len(m.PktTok) == 0 {
			cls["out-token-without-packet-token"] = true
		}
		if m.Cong != nil {
			cls["congestion-mark"] = true
		}
		if c.InFaceInd && m.InFace != nil {
			cls["incoming-face-indication"] = true
		}
		for range frames {
			owner = append(owner, i)
		}
		all = append(all, frames...)
		perMsg[i] = len(frames)
	}
	cls[fmt.Sprintf("msgs=%d", len(c.Msgs))] = true
	if !c.Frag {
		cls["fragmentation-off"] = true
	}

	// ---- receiver side
	scope := defn.NonLocal
	if c.RxLocal {
		scope = defn.Local
		cls["receiver-local"] = true
	}
	rxT := face.VerifMakeTransport(uri, uri, face.PersistencyPersistent, scope, defn.PointToPoint, defn.MaxNDNPacketSize)
	recv := face.MakeNDNLPLinkService(rxT, face.MakeNDNLPLinkServiceOptions())
	recv.SetFaceID(400)

	ord := order(c, perMsg)
	identity := true
	for i, v := range ord {
		if v != i {
			identity = false
		}
	}
	dupAfterCompletion := false
	stalled := map[int]bool{} // messages under reassembly across a long silence (Stall)
	if c.Dup > 0 && len(all) > 0 {
		d := (c.Dup - 1) % len(all)
		at := c.DupAt % (len(ord) + 1)
		if perMsg[owner[d]] >= 2 { // only a fragment of a fragmented message
			ord = append(ord[:at:at], append([]int{d}, ord[at:]...)...)
			cls["duplicate-fragment"] = true
			// is the second copy of d the last frame of its message to arrive?
			last := -1
			for pos, v := range ord {
				if owner[v] == owner[d] {
					last = pos
				}
			}
			first := -1
			for pos, v := range ord {
				if v == d {
					first = pos
					break
				}
			}
			if ord[last] == d && last != first {
				dupAfterCompletion = true
				cls["duplicate-after-completion"] = true
			}
		}
	}
	interleaved := false
	{
		seen := map[int]bool{}
		prev := -1
		for _, v := range ord {
			o := owner[v]
			if o != prev && seen[o] {
				interleaved = true
			}
			seen[o] = true
			prev = o
		}
	}
	if interleaved {
		cls["interleaved-messages"] = true
	}
	if !identity {
		cls["order:non-identity"] = true
	}

	if len(c.Stream) == 0 {
		if len(c.Gaps) > 0 && bubbleT != nil {
			cls["time-passes-between-frames"] = true
		}
		stallAt := -1
		if c.Stall[1] > 0 && bubbleT != nil && len(ord) >= 2 {
			stallAt = 1 + c.Stall[0]%(len(ord)-1)
			before, after := map[int]bool{}, map[int]bool{}
			for pos, v := range ord {
				if pos < stallAt {
					before[owner[v]] = true
				} else {
					after[owner[v]] = true
				}
			}
			for o := range before {
				if after[o] {
					stalled[o] = true
				}
			}
			cls["a-long-silence-between-two-frames"] = true
		}
		for pos, v := range ord {
			if pos == stallAt {
				time.Sleep(time.Duration(c.Stall[1]) * time.Millisecond)
			}
			if len(c.Gaps) > 0 && bubbleT != nil {
				time.Sleep(time.Duration(c.Gaps[pos%len(c.Gaps)]) * time.Millisecond)
			}
			var perr error
			func() {
				defer func() {
					if r := recover(); r != nil {
						perr = fmt.Errorf("panic in handleIncomingFrame: %v", r)
					}
				}()
				recv.VerifHandleIncomingFrame(all[v])
			}()
			if perr != nil {
				return fail("receive position %d (frame %d of msg %d): %v", pos, v, owner[v], perr)
			}
		}
	} else {
		cls["receiver:stream-face"] = true
		var stream []byte
		for _, v := range ord {
			stream = append(stream, all[v]...)
		}
		rd := &chunkReader{data: stream, chunks: c.Stream}
		var perr, ret error
		func() {
			defer func() {
				if r := recover(); r != nil {
					perr = fmt.Errorf("panic in readTlvStream/handleIncomingFrame: %v", r)
				}
			}()
			ret = face.VerifReadTlvStream(rd, recv.VerifHandleIncomingFrame, nil)
		}()
		if perr != nil {
			return fail("stream receiver: %v", perr)
		}
		if ret != nil || rd.off != len(stream) {
			return fail("stream receiver: readTlvStream returned %v after %d of %d bytes", ret, rd.off, len(stream))
		}
	}
	// a forwarding thread processes the packet after the link service has moved on: what it
	// holds must still be what was delivered
	for k, d := range sink {
		if !bytes.Equal(d.pkt.Raw, d.raw) {
			return fail("delivery %d: the packet's bytes changed after it was handed to the forwarding thread (receive buffer reused)", k)
		}
	}

	// ---- exactly-once delivery of exactly the original
	used := make([]bool, len(sink))
	for i, m := range c.Msgs {
		var got []int
		for k, d := range sink {
			if !used[k] && bytes.Equal(d.raw, msgs[i].wire) && d.interest == (m.Kind == "I") {
				got = append(got, k)
			}
		}
		if msgs[i].dropped {
			continue // nothing was emitted; anything delivered shows up as "extra" below
		}
		if perMsg[i] > 400 && len(got) == 0 {
			// only reachable with a PIT token far beyond NDNLPv2's 32 bytes (payload of a
			// few bytes per fragment): a receiver may bound the number of fragments
			cls["more-than-400-fragments:not-reassembled"] = true
			continue
		}
		// Data without a PIT token in this forwarder's format goes to every thread holding one of
		// its prefixes, once each (dispatch policy of the link service; since the C01 repair of
		// token-less Data dispatch this holds for non-local receivers as well)
		multiOK := m.Kind == "D" && len(m.OutTok) != 6
		if len(got) == 0 && stalled[i] {
			cls["message-under-reassembly-across-a-long-silence:given-up"] = true
			continue
		}
		if len(got) == 0 {
			for k, d := range sink {
				if !used[k] && len(d.raw) == len(msgs[i].wire) {
					off := 0
					for off < len(d.raw) && d.raw[off] == msgs[i].wire[off] {
						off++
					}
					return fail("msg %d (%s, %d bytes, %d frame(s), MTU %d, order %s): delivered with different bytes (first difference at offset %d)",
						i, m.Kind, m.Size, perMsg[i], c.MTU, c.Mode, off)
				}
			}
			return fail("msg %d (%s, %d bytes, %d frame(s), MTU %d, order %s): not delivered by the receiving link service (%d deliveries in total)",
				i, m.Kind, m.Size, perMsg[i], c.MTU, c.Mode, len(sink))
		}
		if len(got) > 1 && !multiOK {
			return fail("msg %d (%s, %d bytes, %d frame(s)): delivered %d times", i, m.Kind, m.Size, perMsg[i], len(got))
		}
		threads := map[int]bool{}
		for _, k := range got {
			d := sink[k]
			used[k] = true
			if threads[d.thread] {
				return fail("msg %d: delivered twice to thread %d", i, d.thread)
			}
			threads[d.thread] = true
			if !bytes.Equal(d.tok, m.OutTok) {
				return fail("msg %d (%d frame(s)): delivered with PIT token %x, sent with %x", i, perMsg[i], d.tok, m.OutTok)
			}
			if !c.LocalCong && !eqMark(d.cong, m.Cong) {
				return fail("msg %d (%d frame(s)): delivered with congestion mark %s, sent with %s", i, perMsg[i], markStr(d.cong), markStr(m.Cong))
			}
			if c.LocalCong && !eqMark(d.cong, m.Cong) {
				cls["local-congestion-marking:mark-added"] = true
			}
			if c.LocalCong && m.Cong != nil && d.cong == nil {
				return fail("msg %d: congestion mark %s lost", i, markStr(m.Cong))
			}
		}
	}
	for k, d := range sink {
		if !used[k] {
			return fail("the receiver delivered a packet of %d bytes that was never sent (delivery %d of %d)", len(d.raw), k, len(sink))
		}
	}
	entries, _, _ := recv.VerifPartialMessageStore()
	// (a message given up across a long silence may leave the fragments that came after it behind,
	// until a time-out of their own: not judged)
	if entries != 0 && !(dupAfterCompletion && entries == 1) && !cls["message-under-reassembly-across-a-long-silence:given-up"] {
		return fail("partial message store holds %d entries after all frames of all messages were received", entries)
	}

	res.NonTrivial = (multi && !identity) || interleaved
	return res
}

// ---------------------------------------------------------------------------- generator

func u64p(v uint64) *uint64 { return &v }

var labels = []string{"a", "b", "c"}

func genTok(t *rapid.T, label string, threads int) []byte {
	switch rapid.SampledFrom([]string{"none", "none", "six", "six", "six", "six", "other"}).Draw(t, label+"Kind") {
	case "none":
		return nil
	case "six":
		b := rapid.SliceOfN(rapid.Byte(), 4, 4).Draw(t, label+"Low")
		th := rapid.IntRange(0, threads-1).Draw(t, label+"Thread")
		return append([]byte{0, byte(th)}, b...)
	default:
		n := rapid.SampledFrom([]int{1, 2, 4, 5, 7, 8, 16, 32, 32, 32, 90, 200, 8780}).Draw(t, label+"Len")
		return rapid.SliceOfN(rapid.Byte(), n, n).Draw(t, label+"Bytes")
	}
}

func fixSize(kind string, label string, size int) int {
	if size < 4 {
		size = 4
	}
	if size > defn.MaxNDNPacketSize {
		size = defn.MaxNDNPacketSize
	}
	for ; size <= defn.MaxNDNPacketSize; size++ {
		if _, ok := buildWire(Msg{Kind: kind, Label: label, Size: size}); ok {
			return size
		}
	}
	return 8000
}

func genCase(t *rapid.T) Case {
	var c Case
	if rapid.IntRange(0, 9).Draw(t, "mtuKind") < 4 {
		c.MTU = rapid.SampledFrom([]int{128, 129, 130, 131, 140, 160, 200, 250, 251, 252, 253, 254, 255, 256, 257, 258, 259, 260, 261, 262, 263, 264, 270, 280, 290, 300,
			576, 1280, 1400, 1492, 1500, 4470, 8000, 8192, 8799, 8800}).Draw(t, "mtu")
	} else {
		c.MTU = rapid.IntRange(128, 8800).Draw(t, "mtu")
	}
	if rapid.IntRange(0, 3).Draw(t, "mtuChanged") == 0 {
		c.MTU0 = rapid.SampledFrom([]int{128, 256, 1000, 1400, 1500, 8000, 8800}).Draw(t, "mtu0")
		if c.MTU0 == c.MTU {
			c.MTU0 = 0
		}
	}
	c.LateOpts = rapid.IntRange(0, 3).Draw(t, "lateOpts") == 0
	if rapid.IntRange(0, 5).Draw(t, "nearWrap") == 0 {
		c.SeqBack = rapid.SampledFrom([]uint64{1, 2, 3, 4, 5, 8, 20, 70, 200}).Draw(t, "seqBack")
	}
	c.Frag = rapid.IntRange(0, 5).Draw(t, "frag") != 0
	c.InFaceInd = rapid.Bool().Draw(t, "inFaceInd")
	c.LocalCong = rapid.IntRange(0, 11).Draw(t, "localCong") == 0
	c.Warmed = !c.LocalCong && rapid.IntRange(0, 4).Draw(t, "warmed") == 0
	c.RxThreads = rapid.IntRange(1, 4).Draw(t, "rxThreads")
	c.RxLocal = rapid.IntRange(0, 4).Draw(t, "rxLocal") == 0
	n := rapid.SampledFrom([]int{1, 1, 2, 2, 3, 3}).Draw(t, "nMsgs")
	maxFrames := 0
	for i := 0; i < n; i++ {
		m := Msg{Label: labels[i]}
		m.Kind = rapid.SampledFrom([]string{"D", "D", "I"}).Draw(t, "kind")
		m.Seed = rapid.Byte().Draw(t, "seed")
		m.OutTok = genTok(t, "otok", c.RxThreads)
		m.PktTok = genTok(t, "ptok", 4)
		if rapid.IntRange(0, 2).Draw(t, "hasCong") == 0 {
			m.Cong = u64p(rapid.SampledFrom([]uint64{0, 1, 2, 255, 256, 65535, 65536, 1 << 32, 1<<64 - 1}).Draw(t, "cong"))
		}
		if rapid.IntRange(0, 3).Draw(t, "hasInFace") != 0 {
			m.InFace = u64p(rapid.SampledFrom([]uint64{1, 7, 255, 256, 65535, 65536, 1 << 32}).Draw(t, "inFace"))
		}
		h := hdrOf(c, m, m.Cong)
		fit := maxFit(h, c.MTU)
		// payload per fragment of an implementation that reserves: LpPacket T+L (1+3),
		// Fragment T+L (1+3), Sequence (10), FragIndex+FragCount (4+4)
		p := c.MTU - 26 - len(h.Encode()) + 2 // h.Encode() has a 2-byte outer header
		if p < 1 {
			p = 1
		}
		var size int
		switch rapid.IntRange(0, 9).Draw(t, "sizeKind") {
		case 0, 1:
			size = fit + rapid.IntRange(-2, 3).Draw(t, "d")
		case 2, 3, 4, 5:
			k := rapid.IntRange(1, 6).Draw(t, "k")
			size = k*p + rapid.IntRange(-2, 2).Draw(t, "d")
			if size > defn.MaxNDNPacketSize {
				size = fit + 1 + rapid.IntRange(0, 3*p).Draw(t, "d2")
			}
		case 6:
			size = rapid.SampledFrom([]int{4, 6, 7, 13, 14, 40, 249, 250, 251, 252, 253, 254, 257, 258, 259, 260, 8796, 8797, 8798, 8799, 8800}).Draw(t, "size")
		case 7:
			// many small fragments
			size = rapid.IntRange(fit+1, fit+1+40*p).Draw(t, "size")
		default:
			size = rapid.IntRange(4, 8800).Draw(t, "size")
		}
		if n > 1 && size < 16 {
			size = 16 // below that the label is not part of the packet: keep the messages distinct
		}
		if c.RxLocal && size < 6 {
			// producer Data on a local face is dispatched to the threads of its non-empty
			// prefixes; the 4-byte Data named "/" has none (dispatch policy, not C10)
			size = 6
		}
		m.Size = fixSize(m.Kind, m.Label, size)
		c.Msgs = append(c.Msgs, m)
		maxFrames += m.Size/p + 2
	}
	c.Mode = rapid.SampledFrom([]string{"id", "rev", "rr", "keys", "keys", "keys"}).Draw(t, "mode")
	if c.Mode == "keys" {
		k := maxFrames
		if k > 64 {
			k = 64 // longer frame lists reuse the keys cyclically (a stable sort: still a permutation)
		}
		c.Keys = rapid.SliceOfN(rapid.Uint32Range(0, 15), k, k).Draw(t, "keys")
	}
	if rapid.IntRange(0, 3).Draw(t, "viaStream") == 0 {
		c.Stream = rapid.SliceOfN(rapid.SampledFrom([]int{1, 3, 7, 50, 100, 127, 1000, 1500, 8800, -1}), 1, 4).Draw(t, "stream")
	}
	if len(c.Stream) == 0 && rapid.IntRange(0, 5).Draw(t, "stall") == 0 {
		c.Stall = [2]int{rapid.IntRange(0, 200).Draw(t, "stallAt"), rapid.SampledFrom([]int{700, 1300, 3000}).Draw(t, "stallMs")}
	}
	if len(c.Stream) == 0 && rapid.IntRange(0, 3).Draw(t, "gaps") == 0 {
		c.Gaps = rapid.SliceOfN(rapid.SampledFrom([]int{0, 1, 5, 20, 40, 60}), 1, 6).Draw(t, "gapMs")
	}
	if rapid.IntRange(0, 4).Draw(t, "dup") == 0 {
		c.Dup = rapid.IntRange(1, 1000).Draw(t, "dupIdx")
		c.DupAt = rapid.IntRange(0, 1000).Draw(t, "dupAt")
	}
	return c
}

const ruleC10 = "1-3 packets (Data/Interest of an exact drawn size, biased to the one-frame boundary and to multiples of the fragment payload) sent through the real link-service send path at a drawn MTU 128..8800 with drawn options (fragmentation on/off, forwarder PIT token of 0/6/other length independent of the packet's own token, congestion mark, incoming-face indication, locally added congestion mark, or more than 64 KiB of earlier traffic on the face so that the sender's periodic look at its idle queue falls on the first packet), all frames fed to a second link service in a drawn permutation (optionally one fragment twice; optionally with 0..60 virtual ms passing before each frame, so that a long message is under reassembly for seconds while others begin), directly or -- a quarter of the cases -- as a byte stream through readTlvStream in drawn read sizes (stream face), the delivered packets being compared again after the receiver has moved on. Non-trivial: >=1 packet sent as >=2 fragments and a non-identity receive order, or frames of >=2 packets interleaved"

func TestC10Frag(t *testing.T) {
	rec := evid.New("C10", "TestC10Frag", ruleC10)
	bubbleT = t
	evid.Check(t, rec, genCase, execC10)
}

func TestC10FragReplay(t *testing.T) { bubbleT = t; evid.Replay(t, "TestC10Frag", execC10) }

func TestC10FragRegress(t *testing.T) { bubbleT = t; evid.Regress(t, "C10", "TestC10Frag", execC10) }
