package dvsim

import (
	"fmt"
	"sort"
	"strings"

	"github.com/named-data/ndnd/dv/table"
	enc "github.com/named-data/ndnd/std/encoding"
)

func nameIndex(n int) map[string]int {
	m := map[string]int{}
	for i := 0; i < n; i++ {
		m[mustName(routerNames[i]).String()] = i
	}
	return m
}

func allDist(adj [][]int) [][]int {
	out := make([][]int, len(adj))
	for i := range adj {
		out[i] = bfs(adj, i)
	}
	return out
}

func contains(xs []int, x int) bool {
	for _, y := range xs {
		if y == x {
			return true
		}
	}
	return false
}

func nameStr(n enc.Name) string {
	if n == nil {
		return "<none>"
	}
	return n.String()
}

func bound(c Case) string {
	return fmt.Sprintf("%v (2 dead intervals + %d heart-beats) after the chaos window", tailOf(c.N), settleK(c.N))
}

// ---------------------------------------------------------------------------- C18

// judge18 checks, at one settling point, every router's table against the breadth-first
// distances of the current topology, and against the advertisement it would serve.
// It returns the next-hop table (router>destination -> next hop) for the determinism check.
func judge18(c Case, sp settlePoint) (map[string]string, error) {
	idx := nameIndex(c.N)
	dist := allDist(sp.adj)
	nh := map[string]string{}
	where := fmt.Sprintf("step %d (t=%v, topology %s)", sp.step, sp.at, sp.topoKey)
	for r, s := range sp.snaps {
		if s == nil {
			continue
		}
		me := routerNames[r]
		have := map[int]table.VerifRibEntry{}
		for _, e := range s.Rib {
			d, ok := idx[e.Name.String()]
			if !ok {
				return nil, fmt.Errorf("%s: router %s has a RIB entry for %s, which is no router", where, me, e.Name)
			}
			if e.Lowest1 >= infinity {
				return nil, fmt.Errorf("%s: router %s keeps a RIB entry for %s at cost %d (>= infinity) instead of withdrawing it", where, me, e.Name, e.Lowest1)
			}
			have[d] = e
			if d == r {
				if e.Lowest1 != 0 {
					return nil, fmt.Errorf("%s: router %s reaches itself at cost %d", where, me, e.Lowest1)
				}
				continue
			}
			if !sp.up[d] || dist[r][d] < 0 {
				return nil, fmt.Errorf("%s: router %s still lists unreachable destination %s (cost %d via %s) %s", where, me, e.Name, e.Lowest1, nameStr(e.NextHop1), bound(c))
			}
			if int(e.Lowest1) != dist[r][d] {
				return nil, fmt.Errorf("%s: router %s has cost %d to %s, hop distance is %d (per-neighbour costs %v)", where, me, e.Lowest1, e.Name, dist[r][d], e.Costs)
			}
			if e.NextHop1 == nil {
				return nil, fmt.Errorf("%s: router %s has no next hop for %s", where, me, e.Name)
			}
			h, ok := idx[e.NextHop1.String()]
			if !ok || !contains(sp.adj[r], h) {
				return nil, fmt.Errorf("%s: router %s uses next hop %s for %s, which is not a neighbour", where, me, e.NextHop1, e.Name)
			}
			if dist[h][d] != dist[r][d]-1 {
				return nil, fmt.Errorf("%s: router %s uses next hop %s for %s, which is not on a shortest path (%d hops from there, %d from here)", where, me, e.NextHop1, e.Name, dist[h][d], dist[r][d])
			}
			nh[fmt.Sprintf("%s>%s", me, e.Name)] = e.NextHop1.String()
		}
		for d := 0; d < c.N; d++ {
			if d == r || !sp.up[d] || dist[r][d] < 0 {
				continue
			}
			if _, ok := have[d]; !ok {
				return nil, fmt.Errorf("%s: router %s has no route to %s, which is %d hops away, %s", where, me, routerNames[d], dist[r][d], bound(c))
			}
		}
		// the advertisement it serves says the same
		if s.Advert == nil {
			return nil, fmt.Errorf("%s: router %s has no advertisement", where, me)
		}
		seen := map[int]bool{}
		for _, a := range s.Advert.Entries {
			if a.Destination == nil || a.NextHop == nil {
				return nil, fmt.Errorf("%s: advertisement of %s has an entry without destination or next hop", where, me)
			}
			d, ok := idx[a.Destination.Name.String()]
			if !ok {
				return nil, fmt.Errorf("%s: advertisement of %s lists %s, which is no router", where, me, a.Destination.Name)
			}
			if a.Cost >= infinity {
				return nil, fmt.Errorf("%s: advertisement of %s lists %s at cost %d (>= infinity)", where, me, a.Destination.Name, a.Cost)
			}
			e, ok := have[d]
			if !ok || seen[d] {
				return nil, fmt.Errorf("%s: advertisement of %s lists %s, the RIB does not (or lists it twice)", where, me, a.Destination.Name)
			}
			seen[d] = true
			if a.Cost != e.Lowest1 || a.NextHop.Name.String() != nameStr(e.NextHop1) {
				return nil, fmt.Errorf("%s: advertisement of %s says %s via %s cost %d, the RIB says via %s cost %d", where, me, a.Destination.Name, a.NextHop.Name, a.Cost, nameStr(e.NextHop1), e.Lowest1)
			}
		}
		if len(seen) != len(have) {
			return nil, fmt.Errorf("%s: advertisement of %s has %d entries, the RIB %d", where, me, len(seen), len(have))
		}
	}
	return nh, nil
}

func diffNextHops(a, b map[string]string) string {
	var keys []string
	for k := range a {
		keys = append(keys, k)
	}
	sort.Strings(keys)
	for _, k := range keys {
		if b[k] != a[k] {
			return fmt.Sprintf("%s: next hop %s one time, %s the other", k, a[k], b[k])
		}
	}
	return ""
}

// ---------------------------------------------------------------------------- C19

type routeKey struct {
	name string
	face uint64
}

// referenceRoutes replays the rib register/unregister stream of the routing daemon (origin
// 128, explicit face) into a route table keyed by (prefix, face). Routes under /localhop and
// the routes of the two sync groups are the daemon's neighbour plumbing, not routes to remote
// routers or announced prefixes, and are left out.
func referenceRoutes(cmds []Cmd) map[routeKey]uint64 {
	pfs := mustName(netPrefix + "/32=DV/32=PFS").String()
	t := map[routeKey]uint64{}
	for _, c := range cmds {
		if c.Module != "rib" || c.Face == 0 || !c.HasOrg || c.Origin != 128 {
			continue
		}
		if strings.HasPrefix(c.Name, "/localhop/") || c.Name == pfs {
			continue
		}
		k := routeKey{c.Name, c.Face}
		switch c.Verb {
		case "register":
			t[k] = c.Cost
		case "unregister":
			delete(t, k)
		}
	}
	return t
}

func fmtRoutes(t map[routeKey]uint64) string {
	var rows []string
	for k, c := range t {
		rows = append(rows, fmt.Sprintf("%s@face%d=%d", k.name, k.face, c))
	}
	sort.Strings(rows)
	return "[" + strings.Join(rows, " ") + "]"
}

// judge19 checks one settling point: (1) per router, the replayed command stream equals the
// routes its own current tables prescribe; (2) per pair of routers in one component, the
// replicated prefix set equals the announced one.
func judge19(c Case, sp settlePoint) error {
	idx := nameIndex(c.N)
	dist := allDist(sp.adj)
	where := fmt.Sprintf("step %d (t=%v, topology %s)", sp.step, sp.at, sp.topoKey)
	dvComp := enc.NewStringComponent(enc.TypeKeywordNameComponent, "DV")
	for r, s := range sp.snaps {
		if s == nil {
			continue
		}
		me := routerNames[r]
		installed := referenceRoutes(sp.cmds[r])
		// what the router believes it has installed must be what it has commanded
		believed := map[routeKey]uint64{}
		for _, f := range s.Fib {
			believed[routeKey{f.Name.String(), f.FaceId}] = f.Cost
		}
		faceOf := map[string]uint64{}
		for _, nb := range s.Neighbors {
			faceOf[nb.Name.String()] = nb.FaceId
		}
		pfx := map[string][]enc.Name{}
		for _, p := range s.Prefixes {
			pfx[p.Name.String()] = p.Prefixes
		}
		desired := map[routeKey]uint64{}
		put := func(name string, face, cost uint64) {
			k := routeKey{name, face}
			if old, ok := desired[k]; !ok || cost < old {
				desired[k] = cost
			}
		}
		for _, e := range s.Rib {
			if e.Name.String() == mustName(me).String() {
				continue
			}
			// best / second-best recomputed from the per-neighbour costs
			low1, low2 := infinity, infinity
			for _, cst := range e.Costs {
				if cst < low1 {
					low1, low2 = cst, low1
				} else if cst < low2 {
					low2 = cst
				}
			}
			if low1 >= infinity {
				continue // unreachable: nothing may be installed
			}
			if e.Lowest1 != low1 || e.Lowest2 != low2 {
				return fmt.Errorf("%s: router %s entry %s stores best/second-best %d/%d, its per-neighbour costs %v give %d/%d", where, me, e.Name, e.Lowest1, e.Lowest2, e.Costs, low1, low2)
			}
			if e.NextHop1 == nil || e.Costs[e.NextHop1.String()] != low1 {
				return fmt.Errorf("%s: router %s entry %s: best next hop %s does not have the best cost %d (%v)", where, me, e.Name, nameStr(e.NextHop1), low1, e.Costs)
			}
			hops := []struct {
				n enc.Name
				c uint64
			}{{e.NextHop1, low1}}
			if low2 < infinity {
				if e.NextHop2 == nil || e.NextHop2.Equal(e.NextHop1) || e.Costs[e.NextHop2.String()] != low2 {
					return fmt.Errorf("%s: router %s entry %s: second-best next hop %s does not have the second-best cost %d (%v)", where, me, e.Name, nameStr(e.NextHop2), low2, e.Costs)
				}
				hops = append(hops, struct {
					n enc.Name
					c uint64
				}{e.NextHop2, low2})
			}
			names := []string{append(e.Name.Clone(), dvComp).String()}
			for _, p := range pfx[e.Name.String()] {
				names = append(names, p.String())
			}
			for _, h := range hops {
				face, ok := faceOf[h.n.String()]
				if !ok {
					return fmt.Errorf("%s: router %s routes %s through %s, which is not in its neighbour table", where, me, e.Name, h.n)
				}
				// the face must be the one that neighbour is reached on now
				hi, isRouter := idx[h.n.String()]
				if cur, adj := sp.faces[r][hi]; !isRouter || !adj || cur != face {
					return fmt.Errorf("%s: router %s reaches next hop %s on face %d, but that neighbour is on face %d now", where, me, h.n, face, sp.faces[r][hi])
				}
				for _, nm := range names {
					put(nm, face, h.c)
				}
			}
		}
		if d := diffRoutes(installed, desired); d != "" {
			return fmt.Errorf("%s: router %s: routes registered in the forwarder differ from what its tables prescribe: %s\n registered: %s\n prescribed: %s", where, me, d, fmtRoutes(installed), fmtRoutes(desired))
		}
		if d := diffRoutes(believed, installed); d != "" {
			return fmt.Errorf("%s: router %s: its record of installed routes differs from the commands it issued: %s", where, me, d)
		}
	}
	// (2) prefix-table replication
	for p, s := range sp.snaps {
		if s == nil {
			continue
		}
		got := map[int]map[string]bool{}
		for _, pr := range s.Prefixes {
			x, ok := idx[pr.Name.String()]
			if !ok {
				continue
			}
			set := map[string]bool{}
			for _, n := range pr.Prefixes {
				set[n.String()] = true
			}
			got[x] = set
		}
		for x := 0; x < c.N; x++ {
			if !sp.up[x] || dist[p][x] < 0 {
				continue
			}
			want := sp.announce[x]
			have := got[x]
			if d := diffSets(have, want); d != "" {
				return fmt.Errorf("%s: router %s reconstructs the prefixes of %s as %v, that router announces %v (%s) %s",
					where, routerNames[p], routerNames[x], keys(have), keys(want), d, bound(c))
			}
		}
	}
	return nil
}

func keys(m map[string]bool) []string {
	var ks []string
	for k := range m {
		ks = append(ks, k)
	}
	sort.Strings(ks)
	return ks
}

func diffSets(have, want map[string]bool) string {
	for _, k := range keys(want) {
		if !have[k] {
			return "missing " + k
		}
	}
	for _, k := range keys(have) {
		if !want[k] {
			return "extra " + k
		}
	}
	return ""
}

func diffRoutes(have, want map[routeKey]uint64) string {
	var ks []routeKey
	for k := range want {
		ks = append(ks, k)
	}
	for k := range have {
		if _, ok := want[k]; !ok {
			ks = append(ks, k)
		}
	}
	sort.Slice(ks, func(i, j int) bool {
		if ks[i].name != ks[j].name {
			return ks[i].name < ks[j].name
		}
		return ks[i].face < ks[j].face
	})
	for _, k := range ks {
		h, okh := have[k]
		w, okw := want[k]
		switch {
		case okw && !okh:
			return fmt.Sprintf("missing %s on face %d (cost %d)", k.name, k.face, w)
		case okh && !okw:
			return fmt.Sprintf("stale %s on face %d (cost %d)", k.name, k.face, h)
		case h != w:
			return fmt.Sprintf("%s on face %d has cost %d, should be %d", k.name, k.face, h, w)
		}
	}
	return ""
}
